/-
  Props/Hist2.lean — the step-level theorems of C03, C07, C13, C14, C15, C18 lifted to ALL FINITE HISTORIES,
  as corollaries of the inductive invariant `Arena.Hist.Inv` (Arena/Hist.lean, Props/Hist.lean).

  Theorem names start with the id of the property they belong to.  Helper lemmas: `Lemmas/Hist2*.lean`.
-/
import BumpProof.Lemmas.Hist2Fail
import BumpProof.Lemmas.Hist2Run
import BumpProof.Lemmas.Hist2Ex
import BumpProof.Lemmas.Hist2Claim
import BumpProof.Lemmas.Hist2Prep
import BumpProof.Lemmas.Hist2AdvTry
import BumpProof.Lemmas.Hist2Low
import BumpProof.Lemmas.Hist2SfRun

set_option linter.unusedSimpArgs false
set_option linter.unusedVariables false

/-! # C07 — a reported allocation failure leaves everything intact, in every history -/

namespace C07
open Arena Arena.Hist Ledger Rs

variable {cfg : Cfg} {g g' : GState}

/-- FROM ANY REACHABLE STATE, for EVERY operation (all 34 constructors, every wrapper, both handles): if the
    step reports an allocation error (`Out.err e`: refusal of the base allocator at any point of the slow path,
    size overflow, claimed handle) then
    * the state afterwards is again reachable and satisfies the invariant of histories — the arena keeps
      working: every theorem about reachable states applies to every continuation;
    * the ghost state is untouched: same live blocks (nothing leaked, nothing forgotten), same open
      scopes / claims / aligned regions and their marks, same checkpoints, same prepared allocation, same
      minimum alignment;
    * no chunk was added, removed or moved and NO BYTE of any chunk was written (`geometry`), so every byte
      of the address space reads as before — in particular the contents of every live block;
    * the current chunk is the same, and the bump positions of all chunks up to and including it are the
      same; hence the current position and `stats().allocated()` are unchanged;
    * at most one request was made to the base allocator (an `alloc` with the header alignment), and none at
      all unless the error is the refusal `AErr.alloc`. -/
theorem failed_step_keeps_everything (hc : CfgOK cfg) (h : Reachable cfg g) {op : Op} {resps : List BaseResp}
    {e : AErr} {reqs : List BaseReq} (hcov : op.Covered) (henv : EnvOK cfg g resps)
    (hs : step cfg g op resps = .ok (g', .err e, reqs)) :
    Reachable cfg g' ∧ Inv cfg g' ∧
    (g'.s.live = g.s.live ∧ g'.marks = g.marks ∧ g'.s.frames = g.s.frames ∧ g'.s.userCps = g.s.userCps ∧
      g'.s.prepared = g.s.prepared ∧ g'.s.minAlign = g.s.minAlign ∧ g'.s.nextId = g.s.nextId) ∧
    geometry g'.s = geometry g.s ∧ (∀ a, readByte g'.s a = readByte g.s a) ∧
    (g'.s.cur = g.s.cur ∧
      (∀ i, g.s.cur = .chunk i → ∀ j, j ≤ i → (g'.s.chunks[j]?).map (·.pos) = (g.s.chunks[j]?).map (·.pos)) ∧
      curPos cfg g'.s = curPos cfg g.s ∧ (stats cfg g'.s).allocated = (stats cfg g.s).allocated) ∧
    ((reqs = [] ∨ ∃ size, reqs = [BaseReq.alloc size cfg.hdr.align]) ∧ (e ≠ .alloc → reqs = [])) := by
  obtain ⟨h1, h2, h3⟩ := step_ok hs
  obtain ⟨⟨hi, hq, hquiet⟩, hm⟩ := stepCore_err_keeps h1 e rfl
  have hi' : Intact g.s g'.s := ⟨hi.live, hi.ghost, hi.geometry, hi.pos, hi.noCur, hi.cur, hi.sameCur⟩
  obtain ⟨g1, g2, g3, g4, g5, g6⟩ := hi'.ghost
  have hpos : curPos cfg g'.s = curPos cfg g.s := by
    unfold curPos
    rw [hi'.sameCur]
    cases hcu : g.s.cur with
    | unallocated => rfl
    | claimed => rfl
    | chunk i =>
      have hp := hi'.pos i hcu i (Nat.le_refl i)
      simp only
      cases ha : g.s.chunks[i]? with
      | none =>
        rw [ha] at hp
        cases hb : g'.s.chunks[i]? with
        | none => rfl
        | some c => rw [hb] at hp; cases hp
      | some c =>
        rw [ha] at hp
        cases hb : g'.s.chunks[i]? with
        | none => rw [hb] at hp; cases hp
        | some c' =>
          rw [hb] at hp
          simp only [Option.map_some, Option.some.injEq] at hp
          exact hp
  have hgeoP : ∀ n, SameGeometryPrefix n g.s g'.s := by
    intro n j _ c hcj
    have hgm : (geometry g'.s)[j]? = (geometry g.s)[j]? := by rw [hi'.geometry]
    simp only [geometry, List.getElem?_map, hcj, Option.map_some] at hgm
    cases hb : g'.s.chunks[j]? with
    | none => rw [hb] at hgm; cases hgm
    | some c' =>
      rw [hb] at hgm
      simp only [Option.map_some, Option.some.injEq, Prod.mk.injEq] at hgm
      exact ⟨c', rfl, hgm.1, hgm.2.1⟩
  have hstats : (stats cfg g'.s).allocated = (stats cfg g.s).allocated := by
    cases hcu : g.s.cur with
    | unallocated =>
      have : g'.s.cur = .unallocated := hi'.sameCur.trans hcu
      unfold stats; simp only [hcu, this]
    | claimed =>
      have : g'.s.cur = .claimed := hi'.sameCur.trans hcu
      unfold stats; simp only [hcu, this]
    | chunk i =>
      obtain ⟨c, hci, _⟩ := (h.inv hc).geom.cur i hcu
      obtain ⟨c', hci', hb, hsz⟩ := hgeoP (i+1) i (Nat.lt_succ_self i) c hci
      have hp := hi'.pos i hcu i (Nat.le_refl i)
      rw [hci, hci'] at hp
      simp only [Option.map_some, Option.some.injEq] at hp
      exact stats_allocated_congr hcu (hi'.sameCur.trans hcu) hci hci' hb hsz hp (hgeoP i)
  have hmem : Mem.memOf g'.s = Mem.memOf g.s := hi'.geometry
  refine ⟨h.snoc hcov henv hs, inv_step hcov (h.inv hc) henv hs, ⟨hi'.live, hm, g2, g4, g5, g1, g3⟩,
    hi'.geometry, fun a => Mem.readByte_congr hmem a, ⟨hi'.sameCur, hi'.pos, hpos, hstats⟩, ?_, ?_⟩
  · rw [h3]
    rcases hq with hq | ⟨size, hq⟩
    · exact Or.inl hq
    · exact Or.inr ⟨size, hq⟩
  · intro hne
    rw [h3]
    exact (hquiet hne).1

/-- NO PANIC ON FAILURE: from any reachable state, when the base allocator REFUSES every request of the step
    (`AllFail`; `maxRequests` responses are pending), a covered operation never ends in an overflow, a failed
    debug assertion or undefined behaviour (`Fault.isBug`): `step` returns normally — and if it reports the error
    (`Out.err`), `failed_step_keeps_everything` applies, since a refusing allocator is a correct environment — or
    the caller violated the documented contract.  (Coverage as in `C10.reachable_noFault_partial`.) -/
theorem no_panic_on_failure (hc : CfgOK cfg) (h : Reachable cfg g) {op : Op} {resps : List BaseResp}
    (hcov : op.noFaultCovered = true) (hall : AllFail resps) (hlen : maxRequests op ≤ resps.length) :
    EnvOK cfg g resps ∧ ∀ f, step cfg g op resps = .error f → ¬ Fault.isBug f :=
  ⟨envOK_allFail g hall,
   C10.reachable_noFault_partial hc h hcov (envOK_allFail g hall) (answered_of_allFail g op hall hlen)⟩

/-! non-vacuity: the state after `create, allocate 24, allocate 40` (two live blocks, 496-byte chunk) is
    reachable; a 600-byte allocation needs a second chunk, the base allocator refuses -/

theorem exReach3 : Reachable exCfg exG3 := exReach3'

example : ∃ g' reqs, Reachable exCfg exG3 ∧ (Op.allocate exL3 false .plain).Covered ∧ EnvOK exCfg exG3 [.fail] ∧
    step exCfg exG3 (.allocate exL3 false .plain) [.fail] = .ok (g', .err .alloc, reqs) ∧ reqs = [.alloc 1008 16] :=
  ⟨_, _, exReach3, by decide, envOK_allFail _ (by intro r hr; simpa using hr), rfl, rfl⟩

example : (Op.allocate exL3 false .plain).noFaultCovered = true ∧ AllFail [BaseResp.fail] ∧
    maxRequests (.allocate exL3 false .plain) ≤ [BaseResp.fail].length :=
  ⟨rfl, by intro r hr; simpa using hr, by decide⟩

end C07

/-! # C03 — leaving a scope restores the allocator exactly, whatever happened inside -/

namespace C03
open Arena Arena.Hist Ledger Rs

variable {cfg : Cfg}

/-- `g3` is "restored" relative to `g`: same `stats().allocated()`; if `g` had a current chunk, the same chunk is
    current and the bump position is EXACTLY the one of `g` (if `g` was unallocated, nothing is allocated:
    `allocated = 0`); every chunk of `g` is still there at the same index with the same address range (chunks
    acquired in between are kept too: see the `logReleases = []` conclusions); the open regions, their marks
    and the minimum alignment are those of `g`; every live block is older than `g` (blocks created in between are
    dead). -/
structure Restored (cfg : Cfg) (g g3 : GState) : Prop where
  allocated : (stats cfg g3.s).allocated = (stats cfg g.s).allocated
  position : ∀ i, g.s.cur = .chunk i → g3.s.cur = .chunk i ∧ curPos cfg g3.s = curPos cfg g.s
  chunks : ChunksCov g.s g3.s
  regions : g3.s.frames = g.s.frames ∧ g3.marks = g.marks ∧ g3.s.minAlign = g.s.minAlign
  inside_dead : ∀ b ∈ g3.s.live, b.id < g.s.nextId

/-- SCOPE ROUND TRIP, over all histories.  From ANY reachable state `g`: enter a scope (`scope_guard()` / `scoped`),
    run ANY finite covered history `w` under a correct base allocator that never leaves the scope
    (`Above`: the region stack never drops below the one at entry — inner scopes, claims, aligned regions, chunk
    growth, prepared allocations, reallocation, checkpoints … are all allowed) and ends at the nesting level of
    the entry, then leave the scope (guard drop / closure return).  Then
    * the arena is `Restored`: allocated byte count, current chunk and bump position are exactly those of `g`;
    * neither entering, nor anything inside, nor leaving released a chunk, and entering / leaving made no
      base-allocator request at all: chunks acquired inside remain available;
    * every block that was live in `g` and was neither freed / reallocated nor written inside (`KeptThrough`) is
      still live with unchanged bytes; every block created inside is dead;
    * the final state is reachable again (so all of this applies to the next scope). -/
theorem scope_restores (hc : CfgOK cfg) {g g1 g2 g3 : GState} (h : Reachable cfg g)
    {o1 o3 : Out} {q1 q3 : List BaseReq} {w : List (Op × List BaseResp)}
    (h1 : step cfg g .scopeEnter [] = .ok (g1, o1, q1))
    (hcov : AllCovered w) (henv : RunEnvOK cfg g1 w) (hrun : runOps cfg g1 w = .ok g2)
    (habove : Above cfg g1.s.frames g1 w) (hbal : g2.s.frames = g1.s.frames)
    (h3 : step cfg g2 .scopeExit [] = .ok (g3, o3, q3)) :
    Restored cfg g g3 ∧ Reachable cfg g3 ∧ q1 = [] ∧ q3 = [] ∧
    (∀ log, runLog cfg g1 w = .ok (g2, log) → logReleases log = []) ∧
    (∀ b ∈ g.s.live, C02.KeptThrough cfg b g1 w →
      b ∈ g3.s.live ∧ ∀ k, k < b.size → readByte g3.s (b.addr + k) = readByte g.s (b.addr + k)) := by
  have hi := h.inv hc
  have e1 := scopeEnter_form (step_ok h1).1
  have hi1 : Inv cfg g1 := inv_step (op := .scopeEnter) rfl hi (envOK_nil g) h1
  have hi2 : Inv cfg g2 := inv_runOps w g1 g2 hi1 hcov henv hrun
  have hf1 : g1.s.frames = .scope (checkpoint cfg g.s) :: g.s.frames := by rw [e1]; rfl
  have hm1 : g1.marks = g.s.nextId :: g.marks := by rw [e1]; rfl
  have hma1 : g1.s.minAlign = g.s.minAlign := by rw [e1]; rfl
  have hch1 : g1.s.chunks = g.s.chunks := by rw [e1]; rfl
  have hne : g1.s.frames ≠ [] := by rw [hf1]; exact List.cons_ne_nil _ _
  have hin1 : Inside g1.s.frames g1.marks g.s.minAlign g.s g1 :=
    ⟨⟨[], [], rfl, rfl, rfl, hma1⟩, ChunksCov.of_eq hch1⟩
  have hin2 := inside_runOps w g1 g2 (Or.inl hne) hin1 habove hrun
  obtain ⟨hm2, hma2⟩ := hin2.at_base hbal
  obtain ⟨cp, rest, m, ms, s3, xf, xm, xr, e3⟩ := scopeExit_form (step_ok h3).1
  have xf' : Frame.scope cp :: rest = .scope (checkpoint cfg g.s) :: g.s.frames :=
    (show g2.s.frames = _ from xf).symm.trans (hbal.trans hf1)
  have xm' : m :: ms = g.s.nextId :: g.marks := (show g2.marks = _ from xm).symm.trans (hm2.trans hm1)
  simp only [List.cons.injEq, Frame.scope.injEq] at xf' xm'
  obtain ⟨rfl, rfl⟩ := xf'
  obtain ⟨rfl, rfl⟩ := xm'
  have hr : resetTo cfg { (install g2 []).s with minAlign := g.s.minAlign } (checkpoint cfg g.s) = .ok s3 := by
    have : ({ (install g2 []).s with minAlign := g.s.minAlign } : State) = (install g2 []).s := by rw [← hma2]; rfl
    rw [this]; exact xr
  obtain ⟨a1, a2, a3, a4, a5, a6, a7, a8, a9⟩ := exit_restores hc hi (hi2.install []) hin2.cov hr g.s.frames
  subst e3
  have hreach1 : Reachable cfg g1 := h.snoc (op := .scopeEnter) rfl (envOK_nil g) h1
  have hreach2 : Reachable cfg g2 := hreach1.append hcov henv hrun
  refine ⟨⟨a1, a2, a3, ⟨rfl, rfl, a5⟩, fun b hb => (a6 b hb).1⟩, hreach2.snoc (op := .scopeExit) rfl (envOK_nil g2) h3,
    ?_, ?_, fun log hlog => inside_no_release w g1 g2 log (Or.inl hne) hin1 habove hlog, ?_⟩
  · rw [(step_ok h1).2.2, e1]; rfl
  · rw [(step_ok h3).2.2]; exact a8
  · intro b hb hk
    obtain ⟨hb2, hby2⟩ := C02.history_live_bytes w g1 g2 b hi1 hcov henv hrun hk
    have hb3 := a7 b hb2 (hi.ids b hb)
    refine ⟨hb3, fun k hkk => ?_⟩
    rw [bytes_step hi2 (envOK_nil g2) h3 b hb2 hb3 (fun seed hh => by cases hh) k hkk, hby2 k hkk, e1]
    rfl

/-- `scoped_aligned::<N>` ROUND TRIP, over all histories: as `scope_restores`, for a region that also changes the
    minimum alignment to `n` (raising or lowering it).  The checkpoint is taken by the outer handle before the
    position is aligned for `n`, and the exit resets with the OUTER minimum alignment: the bump position after the
    exit is EXACTLY the entry position, whatever `n` is and whatever happened inside. -/
theorem scopedAligned_restores (hc : CfgOK cfg) {g g1 g2 g3 : GState} (h : Reachable cfg g) {n : Nat}
    {o1 o3 : Out} {q1 q3 : List BaseReq} {w : List (Op × List BaseResp)}
    (h1 : step cfg g (.scopedAlignedEnter n) [] = .ok (g1, o1, q1))
    (hcov : AllCovered w) (henv : RunEnvOK cfg g1 w) (hrun : runOps cfg g1 w = .ok g2)
    (habove : Above cfg g1.s.frames g1 w) (hbal : g2.s.frames = g1.s.frames)
    (h3 : step cfg g2 .scopedAlignedExit [] = .ok (g3, o3, q3)) :
    Restored cfg g g3 ∧ Reachable cfg g3 ∧ q1 = [] ∧ q3 = [] ∧
    (∀ log, runLog cfg g1 w = .ok (g2, log) → logReleases log = []) ∧
    (∀ b ∈ g.s.live, C02.KeptThrough cfg b g1 w →
      b ∈ g3.s.live ∧ ∀ k, k < b.size → readByte g3.s (b.addr + k) = readByte g.s (b.addr + k)) := by
  have hi := h.inv hc
  obtain ⟨hn, s1, ha, e1⟩ := scopedAlignedEnter_form (step_ok h1).1
  have hi1 : Inv cfg g1 := inv_step (op := .scopedAlignedEnter n) rfl hi (envOK_nil g) h1
  have hi2 : Inv cfg g2 := inv_runOps w g1 g2 hi1 hcov henv hrun
  have hf1 : g1.s.frames = .scopedAligned (checkpoint cfg g.s) g.s.minAlign :: g.s.frames := by rw [e1]; rfl
  have hm1 : g1.marks = g.s.nextId :: g.marks := by rw [e1]; rfl
  have hcov1 : ChunksCov g.s g1.s := by
    have : ChunksCov g.s s1 := (tr_alignTo ha).cov
    rw [e1]; exact this
  have hne : g1.s.frames ≠ [] := by rw [hf1]; exact List.cons_ne_nil _ _
  have hin1 : Inside g1.s.frames g1.marks g1.s.minAlign g.s g1 := ⟨⟨[], [], rfl, rfl, rfl, rfl⟩, hcov1⟩
  have hin2 := inside_runOps w g1 g2 (Or.inl hne) hin1 habove hrun
  obtain ⟨hm2, _⟩ := hin2.at_base hbal
  obtain ⟨cp, outer, rest, m, ms, s3, xf, xm, xr, e3⟩ := scopedAlignedExit_form (step_ok h3).1
  have xf' : Frame.scopedAligned cp outer :: rest = .scopedAligned (checkpoint cfg g.s) g.s.minAlign :: g.s.frames :=
    (show g2.s.frames = _ from xf).symm.trans (hbal.trans hf1)
  have xm' : m :: ms = g.s.nextId :: g.marks := (show g2.marks = _ from xm).symm.trans (hm2.trans hm1)
  simp only [List.cons.injEq, Frame.scopedAligned.injEq] at xf' xm'
  obtain ⟨⟨rfl, rfl⟩, rfl⟩ := xf'
  obtain ⟨rfl, rfl⟩ := xm'
  obtain ⟨a1, a2, a3, a4, a5, a6, a7, a8, a9⟩ := exit_restores hc hi (hi2.install []) hin2.cov xr g.s.frames
  subst e3
  have hreach1 : Reachable cfg g1 := h.snoc (op := .scopedAlignedEnter n) rfl (envOK_nil g) h1
  have hreach2 : Reachable cfg g2 := hreach1.append hcov henv hrun
  refine ⟨⟨a1, a2, a3, ⟨rfl, rfl, a5⟩, fun b hb => (a6 b hb).1⟩,
    hreach2.snoc (op := .scopedAlignedExit) rfl (envOK_nil g2) h3,
    ?_, ?_, fun log hlog => inside_no_release w g1 g2 log (Or.inl hne) hin1 habove hlog, ?_⟩
  · rw [(step_ok h1).2.2, e1]
    exact (alignTo_quiet ha).1
  · rw [(step_ok h3).2.2]; exact a8
  · intro b hb hk
    obtain ⟨hb2, hby2⟩ := C02.history_live_bytes w g1 g2 b hi1 hcov henv hrun hk
    have hb3 := a7 b hb2 (hi.ids b hb)
    refine ⟨hb3, fun k hkk => ?_⟩
    rw [bytes_step hi2 (envOK_nil g2) h3 b hb2 hb3 (fun seed hh => by cases hh) k hkk, hby2 k hkk,
      bytes_step hi (envOK_nil g) h1 b hb (keptThrough_head hk) (fun seed hh => by cases hh) k hkk]

/-- `checkpoint()` … `reset_to(checkpoint)`, over all histories.  From ANY reachable state `g` take a checkpoint,
    run ANY finite covered history `w` that contains no exclusive-access operation (`drop`, `reset`,
    `reset_to_start`, `with_settings`: they invalidate checkpoints), never closes a region that was open when the
    checkpoint was taken (`Above`) and ends at that nesting level with the checkpoint still registered
    (`hstill`: it was neither overwritten nor discarded by the end of an older scope), then `reset_to` it:
    the arena is `Restored` exactly as by a scope exit. -/
theorem checkpoint_resetTo_restores (hc : CfgOK cfg) {g g1 g2 g3 : GState} (h : Reachable cfg g) {k : Nat}
    {o1 o3 : Out} {q1 q3 : List BaseReq} {w : List (Op × List BaseResp)}
    (h1 : step cfg g (.checkpoint k) [] = .ok (g1, o1, q1))
    (hcov : AllCovered w) (henv : RunEnvOK cfg g1 w) (hrun : runOps cfg g1 w = .ok g2) (hnb : NoBare w)
    (habove : Above cfg g.s.frames g1 w) (hbal : g2.s.frames = g.s.frames)
    (hstill : g2.s.userCps.find? (·.1 == k) = some (k, checkpoint cfg g.s, g.s.nextId))
    (h3 : step cfg g2 (.resetTo k) [] = .ok (g3, o3, q3)) :
    Restored cfg g g3 ∧ Reachable cfg g3 ∧ q1 = [] ∧ q3 = [] ∧
    (∀ log, runLog cfg g1 w = .ok (g2, log) → logReleases log = []) ∧
    (∀ b ∈ g.s.live, C02.KeptThrough cfg b g1 w →
      b ∈ g3.s.live ∧ ∀ k, k < b.size → readByte g3.s (b.addr + k) = readByte g.s (b.addr + k)) := by
  have hi := h.inv hc
  have e1 := checkpoint_form (step_ok h1).1
  have hi1 : Inv cfg g1 := inv_step (op := .checkpoint k) rfl hi (envOK_nil g) h1
  have hi2 : Inv cfg g2 := inv_runOps w g1 g2 hi1 hcov henv hrun
  have hin1 : Inside g.s.frames g.marks g.s.minAlign g.s g1 := by
    rw [e1]; exact ⟨⟨[], [], rfl, rfl, rfl, rfl⟩, ChunksCov.refl _⟩
  have hin2 := inside_runOps w g1 g2 (Or.inr hnb) hin1 habove hrun
  obtain ⟨hm2, hma2⟩ := hin2.at_base hbal
  obtain ⟨x, cp, mark, s3, xfind, xr, e3⟩ := resetTo_form (step_ok h3).1
  have xe : (x, cp, mark) = (k, checkpoint cfg g.s, g.s.nextId) :=
    Option.some.inj ((show g2.s.userCps.find? (·.1 == k) = _ from xfind).symm.trans hstill)
  simp only [Prod.mk.injEq] at xe
  obtain ⟨rfl, rfl, rfl⟩ := xe
  have hr : resetTo cfg { (install g2 []).s with minAlign := g.s.minAlign } (checkpoint cfg g.s) = .ok s3 := by
    have : ({ (install g2 []).s with minAlign := g.s.minAlign } : State) = (install g2 []).s := by rw [← hma2]; rfl
    rw [this]; exact xr
  obtain ⟨a1, a2, a3, a4, a5, a6, a7, a8, a9⟩ := exit_restores hc hi (hi2.install []) hin2.cov hr s3.frames
  subst e3
  have hreach1 : Reachable cfg g1 := h.snoc (op := .checkpoint x) rfl (envOK_nil g) h1
  have hreach2 : Reachable cfg g2 := hreach1.append hcov henv hrun
  refine ⟨⟨a1, a2, a3, ⟨?_, hm2, a5⟩, fun b hb => (a6 b hb).1⟩,
    hreach2.snoc (op := .resetTo x) rfl (envOK_nil g2) h3,
    ?_, ?_, fun log hlog => inside_no_release w g1 g2 log (Or.inr hnb) hin1 habove hlog, ?_⟩
  · exact ((tr_resetTo xr).frames).trans hbal
  · rw [(step_ok h1).2.2, e1]; rfl
  · rw [(step_ok h3).2.2]; exact a8
  · intro b hb hk
    obtain ⟨hb2, hby2⟩ := C02.history_live_bytes w g1 g2 b hi1 hcov henv hrun hk
    have hb3 := a7 b hb2 (hi.ids b hb)
    refine ⟨hb3, fun k hkk => ?_⟩
    rw [bytes_step hi2 (envOK_nil g2) h3 b hb2 hb3 (fun seed hh => by cases hh) k hkk, hby2 k hkk,
      bytes_step hi (envOK_nil g) h1 b hb (keptThrough_head hk) (fun seed hh => by cases hh) k hkk]

/-- `alloc_try_with(_mut)` whose closure returns `Err` (without allocating itself), in every history: from any
    reachable state, whatever path the allocation of the `Result` took (current chunk, a later chunk, a new chunk
    from the base allocator), the arena is rewound to the checkpoint taken before it: allocated byte count,
    current chunk and bump position are exactly those before the call, the live blocks are the same, every chunk
    is still in place (a chunk acquired for the `Result` remains available), regions, marks and minimum
    alignment are unchanged. -/
theorem tryWith_err_restores (hc : CfgOK cfg) {g g' : GState} (h : Reachable cfg g) {L : Layout} {off vsize : Nat}
    {mut_ : Bool} {resps : List BaseResp} {reqs : List BaseReq}
    (hcov : (Op.allocTryWith L off vsize false none mut_).Covered) (henv : EnvOK cfg g resps)
    (hs : step cfg g (.allocTryWith L off vsize false none mut_) resps = .ok (g', .none_, reqs)) :
    (stats cfg g'.s).allocated = (stats cfg g.s).allocated ∧
    (∀ i, g.s.cur = .chunk i → g'.s.cur = .chunk i ∧ curPos cfg g'.s = curPos cfg g.s) ∧
    ChunksCov g.s g'.s ∧ g'.s.live = g.s.live ∧ g'.s.nextId = g.s.nextId ∧
    (g'.s.frames = g.s.frames ∧ g'.marks = g.marks ∧ g'.s.minAlign = g.s.minAlign) := by
  have hsz : L.align ∣ L.size := by
    have : L.size % L.align = 0 := by simpa [Op.Covered, Op.covered] using hcov
    exact Nat.dvd_of_mod_eq_zero this
  exact Arena.Hist.tryWith_err_restores (g := install g resps) ((h.inv hc).install resps) henv.1 henv.2 hsz (step_ok hs).1

set_option maxRecDepth 1000000 in
/-- non-vacuity: from the reachable `exG3` (one 496-byte chunk, two live blocks) enter a scope, allocate 600 bytes
    (a second chunk is acquired), open and close an inner scope with another allocation, leave the scope -/
example : ∃ g1 g2 g3 o1 o3 q1 q3, Reachable exCfg exG3 ∧ step exCfg exG3 .scopeEnter [] = .ok (g1, o1, q1) ∧
    AllCovered exInner ∧ RunEnvOK exCfg g1 exInner ∧ runOps exCfg g1 exInner = .ok g2 ∧
    Above exCfg g1.s.frames g1 exInner ∧ g2.s.frames = g1.s.frames ∧
    step exCfg g2 .scopeExit [] = .ok (g3, o3, q3) ∧ g2.s.chunks.length = 2 ∧ g3.s.cur = .chunk 0 :=
  ⟨_, _, _, _, _, _, _, exReach3', rfl, exInner_covered, runEnvCheck_sound _ _ (by rfl), rfl,
    aboveCheck_sound _ _ (by rfl), rfl, rfl, rfl, rfl⟩

set_option maxRecDepth 1000000 in
/-- the same history inside `scoped_aligned::<16>` (outer minimum alignment 8) -/
example : ∃ g1 g2 g3 o1 o3 q1 q3, step exCfg exG3 (.scopedAlignedEnter 16) [] = .ok (g1, o1, q1) ∧
    AllCovered exInner ∧ RunEnvOK exCfg g1 exInner ∧ runOps exCfg g1 exInner = .ok g2 ∧
    Above exCfg g1.s.frames g1 exInner ∧ g2.s.frames = g1.s.frames ∧
    step exCfg g2 .scopedAlignedExit [] = .ok (g3, o3, q3) :=
  ⟨_, _, _, _, _, _, _, rfl, exInner_covered, runEnvCheck_sound _ _ (by rfl), rfl,
    aboveCheck_sound _ _ (by rfl), rfl, rfl⟩

set_option maxRecDepth 1000000 in
/-- … and between `checkpoint 7` and `reset_to 7` -/
example : ∃ g1 g2 g3 o1 o3 q1 q3, step exCfg exG3 (.checkpoint 7) [] = .ok (g1, o1, q1) ∧
    AllCovered exInner ∧ RunEnvOK exCfg g1 exInner ∧ runOps exCfg g1 exInner = .ok g2 ∧ NoBare exInner ∧
    Above exCfg exG3.s.frames g1 exInner ∧ g2.s.frames = exG3.s.frames ∧
    g2.s.userCps.find? (·.1 == 7) = some (7, checkpoint exCfg exG3.s, exG3.s.nextId) ∧
    step exCfg g2 (.resetTo 7) [] = .ok (g3, o3, q3) :=
  ⟨_, _, _, _, _, _, _, rfl, exInner_covered, runEnvCheck_sound _ _ (by rfl), rfl, noBare_of_check (by rfl),
    aboveCheck_sound _ _ (by rfl), rfl, rfl, rfl⟩

/-- `alloc_try_with` of a 32-byte `Result` that does not fit the first chunk any more: a second chunk is acquired,
    the closure returns `Err` -/
example : ∃ g' reqs, (Op.allocTryWith { size := 512, align := 8 } 8 500 false none false).Covered ∧
    EnvOK exCfg exG3 [.granted 0x20000 1008] ∧
    step exCfg exG3 (.allocTryWith { size := 512, align := 8 } 8 500 false none false) [.granted 0x20000 1008] =
      .ok (g', .none_, reqs) :=
  ⟨_, _, by decide, envCheck_sound (by rfl), rfl⟩

end C03

/-! # C14 — a claimed allocator is inert until the claim ends -/

namespace C14
open Arena Arena.Hist Ledger Rs

variable {cfg : Cfg}

/-- FROM ANY REACHABLE STATE, every operation addressed to the ORIGINAL handle while a claim guard is alive
    (`Op.onClaimed op`; the step is a contract violation unless a claim frame is open) that does not fault:
    * leaves the arena completely alone: same chunk list (hence the same positions and the same bytes
      everywhere), same current chunk, same regions, marks, minimum alignment, checkpoints, prepared allocation;
    * makes no base-allocator request and consumes no response;
    * has one of the four `ClaimedOutcome`s: a second `claim` panics; `allocate` / typed allocation / `grow` /
      `reserve` report `AErr.claimed` (a `dyn` reserve above `isize::MAX`: `capacityOverflow`); `deallocate` only
      forgets the ghost block; `shrink` hands the block back with the same address and size;
    * leads to a reachable state again. -/
theorem claimed_ops_inert_reachable (hc : CfgOK cfg) {g g' : GState} (h : Reachable cfg g) {op : Op}
    {resps : List BaseResp} {out : Out} {reqs : List BaseReq} (henv : EnvOK cfg g resps)
    (hs : step cfg g (.onClaimed op) resps = .ok (g', out, reqs)) :
    Frame.claim ∈ g.s.frames ∧ resps = [] ∧ reqs = [] ∧ Reachable cfg g' ∧
    (g'.s.chunks = g.s.chunks ∧ g'.s.cur = g.s.cur ∧ g'.s.frames = g.s.frames ∧ g'.marks = g.marks ∧
     g'.s.minAlign = g.s.minAlign ∧ g'.s.userCps = g.s.userCps ∧ g'.s.prepared = g.s.prepared) ∧
    (∀ a, readByte g'.s a = readByte g.s a) ∧ curPos cfg g'.s = curPos cfg g.s ∧ stats cfg g'.s = stats cfg g.s ∧
    ClaimedOutcome cfg (install g []) g' op out := by
  obtain ⟨h1, h2, h3⟩ := step_ok hs
  obtain ⟨hm, ho⟩ := onClaimed_outcome h1
  have key : resps = [] ∧ g'.s.reqs = [] ∧ (g'.s.chunks = g.s.chunks ∧ g'.s.cur = g.s.cur ∧ g'.s.frames = g.s.frames ∧
      g'.marks = g.marks ∧ g'.s.minAlign = g.s.minAlign ∧ g'.s.userCps = g.s.userCps ∧ g'.s.prepared = g.s.prepared) := by
    cases ho with
    | panic msg _ _ e => subst e; exact ⟨h2, rfl, rfl, rfl, rfl, rfl, rfl, rfl, rfl⟩
    | refused e' _ e _ => subst e; exact ⟨h2, rfl, rfl, rfl, rfl, rfl, rfl, rfl, rfl⟩
    | dealloc b via _ _ e => subst e; exact ⟨h2, rfl, rfl, rfl, rfl, rfl, rfl, rfl, rfl⟩
    | shrunk b L via blk _ _ _ e => subst e; exact ⟨h2, rfl, rfl, rfl, rfl, rfl, rfl, rfl, rfl⟩
  obtain ⟨hr, hq, hst⟩ := key
  subst hr
  refine ⟨hm, rfl, by rw [h3]; exact hq, h.snoc (op := .onClaimed op) rfl henv hs, hst, ?_, ?_, ?_, ho⟩
  · intro a
    unfold readByte; rw [hst.1]
  · unfold curPos; rw [hst.1, hst.2.1]
  · unfold stats; rw [hst.1, hst.2.1]

/-- CLAIM … CLAIM END, over all histories.  From ANY reachable state `g`: take a claim guard, run ANY finite covered
    history `w` through the guard that never ends the claim (`Above`: the region stack never drops below the claim
    frame — inner scopes, nested claims, aligned regions, chunk growth, operations addressed to the claimed
    original … are all allowed) and is back at the level of the claim at its end (scopes opened through the guard
    were closed), then drop the guard.  Then THE ORIGINAL HANDLE CONTINUES EXACTLY WHERE THE GUARD STOPPED:
    * the final state `g3` is the state `g2` the guard stopped in — same chunks, current chunk, positions, bytes,
      live blocks, ids, checkpoints, prepared allocation — with only the claim frame removed;
    * its open regions, marks and minimum alignment are those of `g` before the claim; every chunk `g` had is
      still in place and nothing was released in between;
    * every block that was live in `g` and was neither freed / reallocated nor written through the guard is live
      with unchanged bytes; `g3` is reachable. -/
theorem claim_resumes (hc : CfgOK cfg) {g g1 g2 g3 : GState} (h : Reachable cfg g)
    {o1 o3 : Out} {q1 q3 : List BaseReq} {w : List (Op × List BaseResp)}
    (h1 : step cfg g .claim [] = .ok (g1, o1, q1))
    (hcov : AllCovered w) (henv : RunEnvOK cfg g1 w) (hrun : runOps cfg g1 w = .ok g2)
    (habove : Above cfg g1.s.frames g1 w) (hbal : g2.s.frames = g1.s.frames)
    (h3 : step cfg g2 .claimEnd [] = .ok (g3, o3, q3)) :
    (g3.s.chunks = g2.s.chunks ∧ g3.s.cur = g2.s.cur ∧ g3.s.live = g2.s.live ∧ g3.s.nextId = g2.s.nextId ∧
      g3.s.userCps = g2.s.userCps ∧ g3.s.prepared = g2.s.prepared ∧ (∀ a, readByte g3.s a = readByte g2.s a)) ∧
    (g3.s.frames = g.s.frames ∧ g3.marks = g.marks ∧ g3.s.minAlign = g.s.minAlign) ∧
    ChunksCov g.s g3.s ∧ (∀ log, runLog cfg g1 w = .ok (g2, log) → logReleases log = []) ∧ q1 = [] ∧ q3 = [] ∧
    (∀ b ∈ g.s.live, C02.KeptThrough cfg b g1 w →
      b ∈ g3.s.live ∧ ∀ k, k < b.size → readByte g3.s (b.addr + k) = readByte g.s (b.addr + k)) ∧
    Reachable cfg g3 := by
  have hi := h.inv hc
  obtain ⟨e1, _⟩ := claim_form (step_ok h1).1
  have hi1 : Inv cfg g1 := inv_step (op := .claim) rfl hi (envOK_nil g) h1
  have hf1 : g1.s.frames = .claim :: g.s.frames := by rw [e1]; rfl
  have hne : g1.s.frames ≠ [] := by rw [hf1]; exact List.cons_ne_nil _ _
  have hin1 : Inside g1.s.frames g1.marks g1.s.minAlign g.s g1 := by
    refine ⟨⟨[], [], rfl, rfl, rfl, rfl⟩, ?_⟩
    rw [e1]; exact ChunksCov.refl _
  have hin2 := inside_runOps w g1 g2 (Or.inl hne) hin1 habove hrun
  obtain ⟨hm2, hma2⟩ := hin2.at_base hbal
  obtain ⟨rest, xf, e3⟩ := claimEnd_form (step_ok h3).1
  have xf' : Frame.claim :: rest = .claim :: g.s.frames := (show g2.s.frames = _ from xf).symm.trans (hbal.trans hf1)
  simp only [List.cons.injEq, true_and] at xf'
  subst xf'
  have hreach1 : Reachable cfg g1 := h.snoc (op := .claim) rfl (envOK_nil g) h1
  have hreach2 : Reachable cfg g2 := hreach1.append hcov henv hrun
  have hm1 : g1.marks = g.marks := by rw [e1]; rfl
  have hma1 : g1.s.minAlign = g.s.minAlign := by rw [e1]; rfl
  subst e3
  refine ⟨⟨rfl, rfl, rfl, rfl, rfl, rfl, fun a => rfl⟩, ⟨rfl, hm2.trans hm1, hma2.trans hma1⟩, hin2.cov,
    fun log hlog => inside_no_release w g1 g2 log (Or.inl hne) hin1 habove hlog, ?_, ?_, ?_,
    hreach2.snoc (op := .claimEnd) rfl (envOK_nil g2) h3⟩
  · rw [(step_ok h1).2.2, e1]; rfl
  · rw [(step_ok h3).2.2]; rfl
  · intro b hb hk
    obtain ⟨hb2, hby2⟩ := C02.history_live_bytes w g1 g2 b hi1 hcov henv hrun hk
    refine ⟨hb2, fun k hkk => ?_⟩
    have : readByte g1.s (b.addr + k) = readByte g.s (b.addr + k) := by rw [e1]; rfl
    rw [← this, ← hby2 k hkk]; rfl

/-- THE CLAIM IS TRANSPARENT (for every state `g`, reachable or not, and every configuration): take a claim guard,
    run ANY finite history `w` through the guard that contains no operation addressed to the claimed original
    handle, never ends the claim (`Above`) and is back at the level of the claim at its end, drop the guard.  Then
    running `w` ALONE from `g` (no claim at all) succeeds as well, produces exactly the same outputs, requests
    and responses step by step (`log`), and ends in the same state (`g3 = install g2 []`: equal up to the list of
    requests of the very last step, which is empty after `claimEnd`).  The original handle therefore continues
    exactly where the guard stopped, as if the work had been done through the original handle itself.
    (Proof: no function of the model reads the region stack below its top — `Lemmas/Hist2Sf*.lean`.) -/
theorem claim_is_transparent {g g1 g2c g3 : GState} {w : List (Op × List BaseResp)} {o1 o3 : Out}
    {q1 q3 : List BaseReq} {log : List LogEntry} (hw : ∀ x ∈ w, ∀ op', x.1 ≠ .onClaimed op')
    (h1 : step cfg g .claim [] = .ok (g1, o1, q1))
    (hrun : runLog cfg g1 w = .ok (g2c, log)) (habove : Above cfg g1.s.frames g1 w) (hbal : g2c.s.frames = g1.s.frames)
    (h3 : step cfg g2c .claimEnd [] = .ok (g3, o3, q3)) :
    ∃ g2, runLog cfg g w = .ok (g2, log) ∧ g3 = install g2 [] :=
  claim_transparent hw h1 hrun habove hbal h3

/-- non-vacuity: `exG3`, then `claim`: a reachable state with an open claim; `allocate` on the original handle -/
def exClaimOps : List (Op × List BaseResp) := exOps3 ++ [(.claim, [])]

set_option maxRecDepth 1000000 in
example : ∃ g g' reqs, Reachable exCfg g ∧ EnvOK exCfg g [] ∧
    step exCfg g (.onClaimed (.allocate exL1 false .plain)) [] = .ok (g', .err .claimed, reqs) :=
  ⟨_, _, _, ⟨exClaimOps, coveredCheck_sound (by decide), runEnvCheck_sound _ _ (by rfl), rfl⟩, envOK_nil _, rfl⟩

set_option maxRecDepth 1000000 in
/-- hypotheses of `claim_resumes`: the example history run through a claim guard -/
example : ∃ g1 g2 g3 o1 o3 q1 q3, step exCfg exG3 .claim [] = .ok (g1, o1, q1) ∧
    AllCovered exInner ∧ RunEnvOK exCfg g1 exInner ∧ runOps exCfg g1 exInner = .ok g2 ∧
    Above exCfg g1.s.frames g1 exInner ∧ g2.s.frames = g1.s.frames ∧
    step exCfg g2 .claimEnd [] = .ok (g3, o3, q3) :=
  ⟨_, _, _, _, _, _, _, rfl, exInner_covered, runEnvCheck_sound _ _ (by rfl), rfl,
    aboveCheck_sound _ _ (by rfl), rfl, rfl⟩

set_option maxRecDepth 1000000 in
/-- hypotheses of `claim_is_transparent` for the example history (it contains no `onClaimed`) -/
example : ∃ g1 g2c g3 o1 o3 q1 q3 log, (∀ x ∈ exInner, ∀ op', x.1 ≠ .onClaimed op') ∧
    step exCfg exG3 .claim [] = .ok (g1, o1, q1) ∧ runLog exCfg g1 exInner = .ok (g2c, log) ∧
    Above exCfg g1.s.frames g1 exInner ∧ g2c.s.frames = g1.s.frames ∧
    step exCfg g2c .claimEnd [] = .ok (g3, o3, q3) :=
  ⟨_, _, _, _, _, _, _, _,
    (by intro x hx op' h; simp only [exInner, List.mem_cons, List.not_mem_nil, or_false] at hx
        rcases hx with rfl | rfl | rfl | rfl <;> cases h),
    rfl, rfl, aboveCheck_sound _ _ (by rfl), rfl, rfl⟩

end C14

/-! # C18 — inside `aligned::<N>` / `scoped_aligned::<N>` the position is a multiple of `N`; afterwards of the outer one -/

namespace C18
open Arena Arena.Hist Ledger Rs

variable {cfg : Cfg}

/-- in every reachable state the bump position is a multiple of the minimum alignment IN FORCE (the one of the
    innermost `aligned` / `scoped_aligned` / `with_settings`), after every operation of every history -/
theorem reachable_pos_aligned (hc : CfgOK cfg) {g : GState} (h : Reachable cfg g) :
    MinAlignOK g.s.minAlign ∧ ∀ i, g.s.cur = .chunk i → g.s.minAlign ∣ curPos cfg g.s := by
  have hg := (h.inv hc).geom
  refine ⟨hg.minAlign, fun i hi => ?_⟩
  obtain ⟨c, hci, hd⟩ := hg.cur i hi
  rw [curPos_chunk hi hci]; exact hd

/-- `aligned::<N>` OVER ALL HISTORIES.  From any reachable state `g`: enter `aligned::<n>` (raising or lowering
    the minimum alignment), run ANY finite covered history `w` inside the region (`Above`) that ends at the nesting
    level of the region, leave it.  Then
    * at entry `n` is a supported alignment, it is the minimum alignment in force and the position is a multiple of `n`;
    * at the end of `w` (and, taking prefixes of `w`, whenever the history is back at the level of the region) the
      minimum alignment in force is still `n` and the position is a multiple of `n`; in every intermediate state it
      is a multiple of the alignment in force there (`reachable_pos_aligned`);
    * after `aligned` returns the minimum alignment is the OUTER one again, the position is a multiple of it, and
      the open regions and marks are those of `g`.
    (Statement unchanged by the repair of finding C18-e.  What the repair changes: when a LOWERING region ends,
    `BumpAlignGuard::drop` now also re-aligns the chunk the region STARTED in if that is no longer the current one,
    so the position of that one chunk — not the current one — may move towards the free side by less than the
    outer minimum alignment at `alignedExit`: `aligned_lower_realigns_start_chunk` below.) -/
theorem aligned_region_positions (hc : CfgOK cfg) {g g1 g2 g3 : GState} (h : Reachable cfg g) {n : Nat}
    {o1 o3 : Out} {q1 q3 : List BaseReq} {w : List (Op × List BaseResp)}
    (h1 : step cfg g (.alignedEnter n) [] = .ok (g1, o1, q1))
    (hcov : AllCovered w) (henv : RunEnvOK cfg g1 w) (hrun : runOps cfg g1 w = .ok g2)
    (habove : Above cfg g1.s.frames g1 w) (hbal : g2.s.frames = g1.s.frames)
    (h3 : step cfg g2 .alignedExit [] = .ok (g3, o3, q3)) :
    (MinAlignOK n ∧ g1.s.minAlign = n ∧ ∀ i, g1.s.cur = .chunk i → n ∣ curPos cfg g1.s) ∧
    (g2.s.minAlign = n ∧ ∀ i, g2.s.cur = .chunk i → n ∣ curPos cfg g2.s) ∧
    (g3.s.minAlign = g.s.minAlign ∧ (∀ i, g3.s.cur = .chunk i → g.s.minAlign ∣ curPos cfg g3.s) ∧
      g3.s.frames = g.s.frames ∧ g3.marks = g.marks) ∧ Reachable cfg g3 := by
  have hreach1 : Reachable cfg g1 := h.snoc (op := .alignedEnter n) rfl (envOK_nil g) h1
  have hreach2 : Reachable cfg g2 := hreach1.append hcov henv hrun
  have hreach3 : Reachable cfg g3 := hreach2.snoc (op := .alignedExit) rfl (envOK_nil g2) h3
  obtain ⟨hn, f, hf, hf1, hma1, hm1⟩ := alignedEnter_form (step_ok h1).1
  have hf1' : g1.s.frames = f :: g.s.frames := hf1
  have hne : g1.s.frames ≠ [] := by rw [hf1']; exact List.cons_ne_nil _ _
  have hin1 : Inside g1.s.frames g1.marks g1.s.minAlign g1.s g1 := ⟨⟨[], [], rfl, rfl, rfl, rfl⟩, ChunksCov.refl _⟩
  have hin2 := inside_runOps w g1 g2 (Or.inl hne) hin1 habove hrun
  obtain ⟨hm2, hma2⟩ := hin2.at_base hbal
  obtain ⟨outer, f', hf', xf, xma, xm⟩ := alignedExit_form (step_ok h3).1
  have xf' : f' :: g3.s.frames = f :: g.s.frames := (show g2.s.frames = _ from xf).symm.trans (hbal.trans hf1')
  simp only [List.cons.injEq] at xf'
  obtain ⟨rfl, hfr3⟩ := xf'
  have houter : outer = g.s.minAlign := by
    rcases hf with rfl | rfl <;> rcases hf' with ⟨_, hh⟩ | hh <;> cases hh <;> rfl
  have e2 : g2.s.minAlign = n := hma2.trans hma1
  have e3 : g3.s.minAlign = g.s.minAlign := xma.trans houter
  refine ⟨⟨hn, hma1, fun i hi => ?_⟩, ⟨e2, fun i hi => ?_⟩,
    ⟨e3, fun i hi => ?_, hfr3, (show g3.marks = g2.marks from xm).trans (hm2.trans hm1)⟩, hreach3⟩
  · have := (reachable_pos_aligned hc hreach1).2 i hi
    rw [show g1.s.minAlign = n from hma1] at this; exact this
  · have := (reachable_pos_aligned hc hreach2).2 i hi
    rw [e2] at this; exact this
  · have := (reachable_pos_aligned hc hreach3).2 i hi
    rw [e3] at this; exact this

/-- THE REPAIR OF FINDING C18-e (by-value copy + `aligned::<lower>` + chunk switch), OVER ALL HISTORIES.  From any
    reachable state `g` whose current chunk is `j`: enter a LOWERING `aligned::<n>` (`n < MIN_ALIGN`), run ANY finite
    covered history `w` that ends with the same open regions (it may allocate with alignment 1 in chunk `j`, outgrow
    it and move on to other chunks, reset back, …), leave the region.  Then chunk `j` — the chunk a scope still
    points at when the region ran on a `by_value()` copy of it, whose current chunk is never written back — has a
    bump position that is a multiple of the OUTER minimum alignment again, whether or not it is still the current
    chunk (before the repair this held for the current chunk only, and the next typed allocation of the original
    scope came out misaligned).  `Above` is not needed. -/
theorem aligned_lower_realigns_start_chunk (hc : CfgOK cfg) {g g1 g2 g3 : GState} (h : Reachable cfg g) {n : Nat}
    (hlt : n < g.s.minAlign) {o1 o3 : Out} {q1 q3 : List BaseReq} {w : List (Op × List BaseResp)}
    (h1 : step cfg g (.alignedEnter n) [] = .ok (g1, o1, q1))
    (hcov : AllCovered w) (henv : RunEnvOK cfg g1 w) (hrun : runOps cfg g1 w = .ok g2)
    (hbal : g2.s.frames = g1.s.frames)
    (h3 : step cfg g2 .alignedExit [] = .ok (g3, o3, q3)) {j : Nat} (hj : g.s.cur = .chunk j) :
    ∃ c, g3.s.chunks[j]? = some c ∧ g.s.minAlign ∣ c.pos ∧ g3.s.minAlign = g.s.minAlign := by
  have hreach1 : Reachable cfg g1 := h.snoc (op := .alignedEnter n) rfl (envOK_nil g) h1
  have hreach2 : Reachable cfg g2 := hreach1.append hcov henv hrun
  have hi2 := (hreach2.inv hc).install []
  have e1 := alignedEnter_lower_form (g := install g []) hlt (step_ok h1).1
  have hf1 : g1.s.frames = .alignedLower g.s.minAlign (.chunk j) :: g.s.frames := by rw [e1, ← hj]; rfl
  have hf2 : (install g2 []).s.frames = .alignedLower g.s.minAlign (.chunk j) :: g.s.frames := hbal.trans hf1
  obtain ⟨s1, s', ha, hb, e3⟩ := alignedExit_lower_form hf2 (step_ok h3).1
  have hfr := hi2.frames
  rw [hf2] at hfr
  simp only [FramesOK] at hfr
  obtain ⟨ho, ⟨c2, hc2⟩, _⟩ := hfr
  obtain ⟨G1, G2, sh, _, _⟩ := C10.alignGuardDrop_inv hc hi2.geom ho ha
  obtain ⟨c1, hc1, _, _⟩ := ChunksCov.of_shape sh j c2 hc2
  have hal : s1.cur = .chunk j → g.s.minAlign ∣ c1.pos := by
    intro hcur
    obtain ⟨c, hcj, hd⟩ := G2.cur j hcur
    have : s1.chunks[j]? = some c := hcj
    rw [hc1] at this; cases this
    exact hd
  obtain ⟨c', h1', h2', _⟩ := C18.alignChunkAt_position hc G1 ho hc1 hal hb
  refine ⟨c', ?_, h2', ?_⟩
  · rw [e3]; exact h1'
  · rw [e3]

/-- `scoped_aligned::<N>`: at entry the position is a multiple of `n`; after it returns the position is EXACTLY the
    entry position (and everything else is restored: `C03.scopedAligned_restores`) -/
theorem scopedAligned_positions (hc : CfgOK cfg) {g g1 g2 g3 : GState} (h : Reachable cfg g) {n : Nat}
    {o1 o3 : Out} {q1 q3 : List BaseReq} {w : List (Op × List BaseResp)}
    (h1 : step cfg g (.scopedAlignedEnter n) [] = .ok (g1, o1, q1))
    (hcov : AllCovered w) (henv : RunEnvOK cfg g1 w) (hrun : runOps cfg g1 w = .ok g2)
    (habove : Above cfg g1.s.frames g1 w) (hbal : g2.s.frames = g1.s.frames)
    (h3 : step cfg g2 .scopedAlignedExit [] = .ok (g3, o3, q3)) :
    (MinAlignOK n ∧ g1.s.minAlign = n ∧ ∀ i, g1.s.cur = .chunk i → n ∣ curPos cfg g1.s) ∧
    (g2.s.minAlign = n ∧ ∀ i, g2.s.cur = .chunk i → n ∣ curPos cfg g2.s) ∧
    (g3.s.minAlign = g.s.minAlign ∧ ∀ i, g.s.cur = .chunk i → g3.s.cur = .chunk i ∧ curPos cfg g3.s = curPos cfg g.s) := by
  have hreach1 : Reachable cfg g1 := h.snoc (op := .scopedAlignedEnter n) rfl (envOK_nil g) h1
  have hreach2 : Reachable cfg g2 := hreach1.append hcov henv hrun
  obtain ⟨hn, s1, ha, e1⟩ := scopedAlignedEnter_form (step_ok h1).1
  have hma1 : g1.s.minAlign = n := by rw [e1]
  have hne : g1.s.frames ≠ [] := by rw [e1]; exact List.cons_ne_nil _ _
  have hin1 : Inside g1.s.frames g1.marks g1.s.minAlign g1.s g1 := ⟨⟨[], [], rfl, rfl, rfl, rfl⟩, ChunksCov.refl _⟩
  have hin2 := inside_runOps w g1 g2 (Or.inl hne) hin1 habove hrun
  obtain ⟨_, hma2⟩ := hin2.at_base hbal
  have e2 : g2.s.minAlign = n := hma2.trans hma1
  obtain ⟨hres, _⟩ := C03.scopedAligned_restores hc h h1 hcov henv hrun habove hbal h3
  refine ⟨⟨hn, hma1, fun i hi => ?_⟩, ⟨e2, fun i hi => ?_⟩, hres.regions.2.2, hres.position⟩
  · have := (reachable_pos_aligned hc hreach1).2 i hi
    rw [hma1] at this; exact this
  · have := (reachable_pos_aligned hc hreach2).2 i hi
    rw [e2] at this; exact this

set_option maxRecDepth 1000000 in
/-- non-vacuity: `aligned::<16>` around the example history (the outer minimum alignment is 8) … -/
example : ∃ g1 g2 g3 o1 o3 q1 q3, Reachable exCfg exG3 ∧ step exCfg exG3 (.alignedEnter 16) [] = .ok (g1, o1, q1) ∧
    AllCovered exInner ∧ RunEnvOK exCfg g1 exInner ∧ runOps exCfg g1 exInner = .ok g2 ∧
    Above exCfg g1.s.frames g1 exInner ∧ g2.s.frames = g1.s.frames ∧
    step exCfg g2 .alignedExit [] = .ok (g3, o3, q3) :=
  ⟨_, _, _, _, _, _, _, exReach3', rfl, exInner_covered, runEnvCheck_sound _ _ (by rfl), rfl,
    aboveCheck_sound _ _ (by rfl), rfl, rfl⟩

set_option maxRecDepth 1000000 in
/-- … and `aligned::<1>` (lowering) -/
example : ∃ g1 g2 g3 o1 o3 q1 q3, step exCfg exG3 (.alignedEnter 1) [] = .ok (g1, o1, q1) ∧
    AllCovered exInner ∧ RunEnvOK exCfg g1 exInner ∧ runOps exCfg g1 exInner = .ok g2 ∧
    Above exCfg g1.s.frames g1 exInner ∧ g2.s.frames = g1.s.frames ∧
    step exCfg g2 .alignedExit [] = .ok (g3, o3, q3) :=
  ⟨_, _, _, _, _, _, _, rfl, exInner_covered, runEnvCheck_sound _ _ (by rfl), rfl,
    aboveCheck_sound _ _ (by rfl), rfl, rfl⟩

set_option maxRecDepth 1000000 in
/-- hypotheses of `aligned_lower_realigns_start_chunk`: `aligned::<1>` around the example history, entered while
    chunk 0 is current (outer minimum alignment 8) -/
example : ∃ g1 g2 g3 o1 o3 q1 q3, Reachable exCfg exG3 ∧ 1 < exG3.s.minAlign ∧
    step exCfg exG3 (.alignedEnter 1) [] = .ok (g1, o1, q1) ∧
    AllCovered exInner ∧ RunEnvOK exCfg g1 exInner ∧ runOps exCfg g1 exInner = .ok g2 ∧
    g2.s.frames = g1.s.frames ∧ step exCfg g2 .alignedExit [] = .ok (g3, o3, q3) ∧ exG3.s.cur = .chunk 0 :=
  ⟨_, _, _, _, _, _, _, exReach3', of_decide_eq_true (by rfl), rfl, exInner_covered, runEnvCheck_sound _ _ (by rfl), rfl,
    rfl, rfl, rfl⟩

set_option maxRecDepth 1000000 in
/-- hypotheses of `scopedAligned_positions` (lowering to 1 this time) -/
example : ∃ g1 g2 g3 o1 o3 q1 q3, step exCfg exG3 (.scopedAlignedEnter 1) [] = .ok (g1, o1, q1) ∧
    AllCovered exInner ∧ RunEnvOK exCfg g1 exInner ∧ runOps exCfg g1 exInner = .ok g2 ∧
    Above exCfg g1.s.frames g1 exInner ∧ g2.s.frames = g1.s.frames ∧
    step exCfg g2 .scopedAlignedExit [] = .ok (g3, o3, q3) :=
  ⟨_, _, _, _, _, _, _, rfl, exInner_covered, runEnvCheck_sound _ _ (by rfl), rfl,
    aboveCheck_sound _ _ (by rfl), rfl, rfl⟩

end C18

/-! # C15 — exclusive-borrow collections use free space without moving the pointer -/

namespace C15
open Arena Arena.Hist Ledger Rs

variable {cfg : Cfg}

/-- THE LIFE OF AN UNFINISHED COLLECTION, over all histories.  From any reachable state `g` whose current chunk is
    `i`: ANY finite history of `prepare` / `prepareSlice` (creation and every later growth, also into bigger
    chunks that the base allocator has to provide) and `fillPrepared` steps, in any order and number, ending in `g2`;
    then the collection is dropped without being finalised (`abandonPrepared`), giving `g3`.  In `g2` and in `g3`:
    * the bump position of every chunk up to and including chunk `i` is what it was in `g` (at most a later chunk
      became the current one), every chunk of `g` is still in place;
    * the live blocks are exactly those of `g` and every byte of every one of them is unchanged;
    * regions, marks and minimum alignment are those of `g`; after the drop no prepared allocation is outstanding;
    * `g3` is reachable. -/
theorem prepared_region_positions (hc : CfgOK cfg) {g g2 g3 : GState} (h : Reachable cfg g) {i : Nat}
    (hcur : g.s.cur = .chunk i) {w : List (Op × List BaseResp)} {o3 : Out} {q3 : List BaseReq}
    (hcov : AllCovered w) (henv : RunEnvOK cfg g w) (hpf : AllPrepFill w) (hrun : runOps cfg g w = .ok g2)
    (h3 : step cfg g2 .abandonPrepared [] = .ok (g3, o3, q3)) :
    (PrepKept i g.s g2.s ∧ g2.marks = g.marks ∧
      ∀ b ∈ g.s.live, ∀ k, k < b.size → readByte g2.s (b.addr + k) = readByte g.s (b.addr + k)) ∧
    (PrepKept i g.s g3.s ∧ g3.marks = g.marks ∧ g3.s.prepared = none ∧
      ∀ b ∈ g.s.live, ∀ k, k < b.size → readByte g3.s (b.addr + k) = readByte g.s (b.addr + k)) ∧
    Reachable cfg g3 := by
  have hi := h.inv hc
  obtain ⟨hi2, k2, m2, b2⟩ := prepKept_runOps (i := i) (s0 := g.s) (m0 := g.marks) w g g2 hi hcov henv hpf hrun
    (PrepKept.refl hcur) rfl (fun _ _ _ _ => rfl)
  have e3 := abandonPrepared_form (step_ok h3).1
  have hreach2 : Reachable cfg g2 := h.append hcov henv hrun
  refine ⟨⟨k2, m2, b2⟩, ?_, hreach2.snoc (op := .abandonPrepared) rfl (envOK_nil g2) h3⟩
  subst e3
  exact ⟨⟨k2.pos, k2.live, k2.frames, k2.minAlign, k2.cov, k2.cur⟩, m2, rfl, b2⟩

/-- non-vacuity: a `MutBumpVec<u64>` created in `exG3` with room for 4 elements, filled with 2, grown to 100
    elements (needs a second chunk, granted by the base allocator), filled with 3 -/
def exPrepOps : List (Op × List BaseResp) :=
  [(.prepareSlice 8 8 4 false, []), (.fillPrepared 2 0, []), (.prepareSlice 8 8 100 false, [.granted 0x20000 1008]),
   (.fillPrepared 3 0, [])]

set_option maxRecDepth 1000000 in
example : ∃ g2 g3 o3 q3, Reachable exCfg exG3 ∧ exG3.s.cur = .chunk 0 ∧ AllCovered exPrepOps ∧
    RunEnvOK exCfg exG3 exPrepOps ∧ AllPrepFill exPrepOps ∧ runOps exCfg exG3 exPrepOps = .ok g2 ∧
    step exCfg g2 .abandonPrepared [] = .ok (g3, o3, q3) ∧ g2.s.cur = .chunk 1 :=
  ⟨_, _, _, _, exReach3', rfl, coveredCheck_sound (by decide), runEnvCheck_sound _ _ (by rfl),
    (by intro x hx; simp only [exPrepOps, List.mem_cons, List.not_mem_nil, or_false] at hx
        rcases hx with rfl | rfl | rfl | rfl <;> rfl), rfl, rfl, rfl⟩

end C15

/-! # C13 — the allocated byte count decreases only by reclaiming, leaving a scope, or a reset -/

namespace C13
open Arena Arena.Hist Ledger Rs

variable {cfg : Cfg}

/-- FROM ANY REACHABLE STATE: every operation that is NOT one of `Op.mayReclaim` — i.e. everything except `drop`,
    `deallocate` / `shrink` (not through the opt-out wrappers), `shrink_slice`, `scopeExit`, `scopedAlignedExit`,
    `reset_to`, `reset`, `reset_to_start` — never makes `stats().allocated()` smaller.  In particular `allocate`,
    the typed allocations, `grow` (it never gives anything back), `reserve`, `prepare*`, `fillPrepared`,
    `commit*`, `abandonPrepared`, `alloc_try_with(_mut)` (`Ok`: the position ends past the value; `Err`: the
    checkpoint taken before is restored or nothing is undone), `write`, `split`, `checkpoint`, `scopeEnter`,
    `claim` / `claimEnd`, everything on the claimed handle, `aligned*` entry AND exit, `with_settings`, the
    constructors, `WithoutDealloc::deallocate` and `WithoutShrink::shrink`. -/
theorem never_decreases (hc : CfgOK cfg) {g g' : GState} (h : Reachable cfg g) {op : Op} {resps : List BaseResp}
    {out : Out} {reqs : List BaseReq} (hcov : op.Covered) (henv : EnvOK cfg g resps)
    (hnr : op.mayReclaim = false) (hs : step cfg g op resps = .ok (g', out, reqs)) :
    (stats cfg g.s).allocated ≤ (stats cfg g'.s).allocated :=
  stepCore_adv_full (g := install g resps) hcov ((h.inv hc).install resps) henv.1 henv.2 hnr (step_ok hs).1

/-- THE LIST IS EXACT in the sense of C13: if a step of any history makes the allocated byte count strictly smaller,
    the operation is a reclaiming `deallocate` / `shrink` / `shrink_slice`, the end of a scope (`scopeExit`,
    `scopedAlignedExit`, `reset_to`), a reset (`reset`, `reset_to_start`) or `drop` -/
theorem allocated_decreases_only_by (hc : CfgOK cfg) {g g' : GState} (h : Reachable cfg g) {op : Op}
    {resps : List BaseResp} {out : Out} {reqs : List BaseReq} (hcov : op.Covered) (henv : EnvOK cfg g resps)
    (hs : step cfg g op resps = .ok (g', out, reqs))
    (hdec : (stats cfg g'.s).allocated < (stats cfg g.s).allocated) : op.mayReclaim = true := by
  cases h1 : op.mayReclaim
  · have := never_decreases hc h hcov henv h1 hs
    omega
  · rfl

/-- OPT-OUT of deallocation, in every history: with `DEALLOCATES = false`, or through `WithoutDealloc`, a
    `deallocate` never changes any statistic (it is valid, and only the ghost block is forgotten) -/
theorem deallocate_optout_reachable {g g' : GState} {b : Nat} {via : Via} {resps : List BaseResp} {out : Out}
    {reqs : List BaseReq} (hopt : via = .withoutDealloc ∨ cfg.deallocates = false)
    (hs : step cfg g (.deallocate b via) resps = .ok (g', out, reqs)) : stats cfg g'.s = stats cfg g.s :=
  stats_deallocate_optout (g := install g resps) hopt (step_ok hs).1

/-- OPT-OUT of shrinking, in every history: with `SHRINKS = false`, or through `WithoutShrink`, a `shrink` never
    decreases the allocated byte count (it may allocate when the alignment is raised), and with `SHRINKS = false`
    `shrink_slice` changes no statistic.  (This proves `C13.shrink_optout_never_decreases_target` for reachable states.) -/
theorem shrink_optout_reachable (hc : CfgOK cfg) {g g' : GState} (h : Reachable cfg g) {b : Nat} {L : Layout} {via : Via}
    {resps : List BaseResp} {out : Out} {reqs : List BaseReq} (henv : EnvOK cfg g resps)
    (hopt : via = .withoutShrink ∨ cfg.shrinks = false)
    (hs : step cfg g (.shrink b L via) resps = .ok (g', out, reqs)) :
    (stats cfg g.s).allocated ≤ (stats cfg g'.s).allocated := by
  rcases hopt with rfl | hsh
  · exact never_decreases hc h (op := .shrink b L .withoutShrink) rfl henv rfl hs
  · exact adv_shrink_optout (g := install g resps) ((h.inv hc).install resps) henv.1 hsh (step_ok hs).1

theorem shrinkSlice_optout_reachable {g g' : GState} {b n : Nat} {resps : List BaseResp} {out : Out}
    {reqs : List BaseReq} (hsh : cfg.shrinks = false)
    (hs : step cfg g (.shrinkSlice b n) resps = .ok (g', out, reqs)) : stats cfg g'.s = stats cfg g.s :=
  stats_shrinkSlice_optout (g := install g resps) hsh (step_ok hs).1

/-- non-vacuity: a `grow` of the newest block of `exG3` (in place) and a `deallocate` through `WithoutDealloc` -/
example : ∃ g' out reqs, Reachable exCfg exG3 ∧ (Op.grow 1 { size := 80, align := 16 } false .plain).Covered ∧
    EnvOK exCfg exG3 [] ∧ (Op.grow 1 { size := 80, align := 16 } false .plain).mayReclaim = false ∧
    step exCfg exG3 (.grow 1 { size := 80, align := 16 } false .plain) [] = .ok (g', out, reqs) :=
  ⟨_, _, _, exReach3', rfl, envOK_nil _, rfl, rfl⟩

example : ∃ g' out reqs, step exCfg exG3 (.deallocate 1 .withoutDealloc) [] = .ok (g', out, reqs) := ⟨_, _, _, rfl⟩

/-- `WithoutShrink::shrink` of the newest block (40 → 8 bytes) -/
example : ∃ g' out reqs, EnvOK exCfg exG3 [] ∧
    step exCfg exG3 (.shrink 1 { size := 8, align := 16 } .withoutShrink) [] = .ok (g', out, reqs) :=
  ⟨_, _, _, envOK_nil _, rfl⟩

/-- the hypothesis of `allocated_decreases_only_by` is met by a plain `deallocate` of the newest block -/
example : ∃ g' out reqs, step exCfg exG3 (.deallocate 1 .plain) [] = .ok (g', out, reqs) ∧
    (stats exCfg g'.s).allocated < (stats exCfg exG3.s).allocated := ⟨_, _, _, rfl, by decide⟩

end C13

/-! # C10 — no fault on the claimed handle when the base allocator hands out user-space addresses -/

namespace C10
open Arena Arena.Hist Ledger Rs

variable {cfg : Cfg}

/-- when every block granted during the history ends at or below `2^62` (`ReachableLow`: the stronger environment
    hypothesis, true of every user-space address), every chunk of every reachable state does -/
theorem reachable_chunks_low (hc : CfgOK cfg) {g : GState} (h : ReachableLow cfg g) :
    ∀ c ∈ g.s.chunks, c.base + c.size ≤ 2 ^ 62 := h.chunksLow hc

/-- … so no non-empty live block sits at the address of the static dummy chunk header (`dummyAddr = 2^62 + 80`):
    `DummyApart` restricted to non-empty blocks -/
theorem reachable_dummyApart_nonempty (hc : CfgOK cfg) {g : GState} (h : ReachableLow cfg g) :
    ∀ blk ∈ g.s.live, 0 < blk.size → isLast cfg { g.s with cur := .claimed } blk.addr blk.size = false :=
  h.dummyApart_nonempty hc

/-- THE THREE CASES `C10.reachable_noFault_partial` LEAVES OPEN — `grow` / `deallocate` / `shrink` of a block through
    the CLAIMED handle — never end in an overflow, a failed debug assertion or undefined behaviour, from any state
    reached with low grants, PROVIDED the addressed block is not zero-sized (partial: see the target below). -/
theorem reachable_noFault_claimed_blocks_partial (hc : CfgOK cfg) {g : GState} (h : ReachableLow cfg g) {b : Nat}
    {op : Op} {resps : List BaseResp}
    (hop : (∃ L z via, op = .grow b L z via) ∨ (∃ via, op = .deallocate b via) ∨ (∃ L via, op = .shrink b L via))
    (hnz : ∀ blk, findBlock g.s b = .ok blk → 0 < blk.size) :
    ∀ f, step cfg g (.onClaimed op) resps = .error f → ¬ Fault.isBug f := by
  intro f hf hb
  refine noFault_onClaimed_block' (g := install g resps) ((h.reachable.inv hc).install resps) (b := b) ?_ hop f
    (step_bug hf hb) hb
  intro blk hblk
  have hblk' : findBlock g.s b = .ok blk := hblk
  exact h.dummyApart_nonempty hc blk (Mem.findBlock_ok hblk').1 (hnz blk hblk')

/-- RESOLVED — PROVED AS STATED: `C10.reachable_noFault_claimed_blocks_holds` in Props/Targets.lean (every live block,
    also an empty one, ends at or below `2^62`: `Arena.Hist.ReachableLow.blocksLow`, Lemmas/TargetsZst*.lean).
    Original comment:
    TARGET (not proved): the same for zero-sized blocks, which together with `C10.reachable_noFault_partial` would be
    the full no-fault theorem.  Missing: `Inv` (frozen) says nothing about the ADDRESS of a zero-sized live block
    (`LiveOK.placed` speaks about non-empty blocks only); one needs the additional invariant "every live block,
    also an empty one, lies inside a chunk", preserved by all constructors that register blocks. -/
def reachable_noFault_claimed_blocks_target : Prop :=
  ∀ (cfg : Cfg) (g : GState) (b : Nat) (op : Op) (resps : List BaseResp), CfgOK cfg → ReachableLow cfg g →
    ((∃ L z via, op = .grow b L z via) ∨ (∃ via, op = .deallocate b via) ∨ (∃ L via, op = .shrink b L via)) →
    ∀ f, step cfg g (.onClaimed op) resps = .error f → ¬ Fault.isBug f

set_option maxRecDepth 1000000 in
/-- non-vacuity: the state after `create, allocate 24, allocate 40, claim` is reached with low grants; block 1 has 40 bytes -/
example : ∃ g, ReachableLow exCfg g ∧ ∃ blk, findBlock g.s 1 = .ok blk ∧ 0 < blk.size :=
  ⟨_, ⟨C14.exClaimOps, coveredCheck_sound (by decide), runEnvCheck_sound _ _ (by rfl), lowCheck_sound (by decide), rfl⟩,
    _, rfl, by decide⟩

end C10
