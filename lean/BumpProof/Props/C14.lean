/-
  Props/C14.lean — property C14: a claimed allocator is inert until the claim ends,
  then resumes.

  While a claim guard lives, the ORIGINAL handle holds the static `claimed` dummy chunk
  (`State.cur = .claimed`); the claimant works on the real chunks.  Part 1 is about the
  model functions evaluated on a state with `cur = .claimed`, part 2 about `stepCore`
  (`Op.onClaimed op` = `op` addressed to the original handle, `Op.claim` / `Op.claimEnd`).
-/
import BumpProof.Arena.Step
import BumpProof.Props.C11
import BumpProof.Lemmas.CtrlBase
import BumpProof.Lemmas.CtrlEx

set_option linter.unusedSimpArgs false
set_option linter.unusedVariables false

namespace C14
open Arena Rs Ctrl

/-! ## Part 1: the model functions on a claimed handle -/

/-- the free range a claimed handle computes is the dummy range of capacity −16 -/
theorem bumpProps_dummy (cfg : Cfg) (s : State) (L : Layout) (h : Hints) (hc : s.cur = .claimed) :
    C11.Dummy (bumpProps cfg s L h) :=
  dummy_of_claimed cfg L h hc

/-- … and it satisfies the precondition of the bump computations (so they neither overflow nor
    trip a debug assertion) -/
theorem bumpProps_valid (cfg : Cfg) (s : State) (L : Layout) (h : Hints) (up : Bool) (hc : s.cur = .claimed)
    (hm : MinAlignOk s.minAlign) (hL : L.Valid) (ht : Truthful L h) :
    C11.Valid up (bumpProps cfg s L h) :=
  valid_of_dummy up (freeRange_claimed cfg hc) hm hL ht

/-- every fast path (`alloc`, `prepare_allocation`, `prepare_allocation_range`), for every layout
    and all truthful hints, answers "does not fit" without a fault -/
theorem tryCur_none (cfg : Cfg) (k : Kind) (s : State) (L : Layout) (h : Hints) (hc : s.cur = .claimed)
    (hm : MinAlignOk s.minAlign) (hL : L.Valid) (ht : Truthful L h) :
    tryCur cfg k s L h = .ok none :=
  tryCur_dummy k (freeRange_claimed cfg hc) hm hL ht

/-- the slow path refuses with `claimed` and leaves the state alone (no base-allocator traffic) -/
theorem inAnotherChunk_claimed (cfg : Cfg) (k : Kind) (s : State) (L : Layout) (h : Hints)
    (hc : s.cur = .claimed) :
    inAnotherChunk cfg k s L h = .ok (s, .error .claimed) := by
  unfold inAnotherChunk
  simp only [hc]
  rfl

theorem allocGeneric_claimed (cfg : Cfg) (k : Kind) (s : State) (L : Layout) (h hs : Hints)
    (hc : s.cur = .claimed) (hm : MinAlignOk s.minAlign) (hL : L.Valid) (ht : Truthful L h) :
    allocGeneric cfg k s L h hs = .ok (s, .error .claimed) := by
  unfold allocGeneric
  rw [tryCur_none cfg k s L h hc hm hL ht]
  exact inAnotherChunk_claimed cfg k s L hs hc

theorem alloc_claimed (cfg : Cfg) (s : State) (L : Layout)
    (hc : s.cur = .claimed) (hm : MinAlignOk s.minAlign) (hL : L.Valid) :
    alloc cfg s L = .ok (s, .error .claimed) := by
  unfold alloc
  rw [allocGeneric_claimed cfg .alloc s L _ _ hc hm hL (truthful_custom L)]
  rfl

theorem reserve_claimed (cfg : Cfg) (s : State) (n : Nat) (hc : s.cur = .claimed) :
    reserve cfg s n = .ok (s, .error .claimed) := by
  unfold reserve
  simp only [hc]
  rfl

/-- `dyn` reserve: refused as well (a request beyond `isize::MAX` is refused before the handle is looked at) -/
theorem reserveDyn_claimed (cfg : Cfg) (s : State) (n : Nat) (hc : s.cur = .claimed)
    (hm : MinAlignOk s.minAlign) :
    reserveDyn cfg s n = .ok (s, .error (if n ≤ Rs.IMAX then .claimed else .capacityOverflow)) := by
  unfold reserveDyn layoutOk
  by_cases hn : n ≤ Rs.IMAX
  · rw [if_pos hn]
    have : decide (n + (1 - 1) ≤ Rs.IMAX) = true := decide_eq_true hn
    simp only [this, Bool.not_true, Bool.false_eq_true, ↓reduceIte]
    rw [allocGeneric_claimed cfg .range s _ _ _ hc hm (bytes_layout_valid hn) (truthful_custom _)]
    rfl
  · rw [if_neg hn]
    have : decide (n + (1 - 1) ≤ Rs.IMAX) = false := decide_eq_false hn
    simp only [this, Bool.not_false, ↓reduceIte]
    rfl

/-- the position a claimed handle reports is the dummy address; a block of a real chunk is never
    "the last allocation" of the claimed handle -/
theorem isLast_claimed (cfg : Cfg) (s : State) (ptr size : Nat) (hc : s.cur = .claimed) :
    isLast cfg s ptr size = (if cfg.up then ptr + size == dummyAddr + 16 else ptr == dummyAddr) := by
  unfold isLast curPos
  simp only [hc]
  cases cfg.up <;> rfl

theorem isLast_claimed_false (cfg : Cfg) (s : State) (ptr size : Nat) (hc : s.cur = .claimed)
    (hb : ptr + size < dummyAddr) : isLast cfg s ptr size = false := by
  rw [isLast_claimed cfg s ptr size hc]
  cases cfg.up
  · simp only [Bool.false_eq_true, ↓reduceIte, beq_eq_false_iff_ne]; omega
  · simp only [↓reduceIte, beq_eq_false_iff_ne]; omega

/-- `deallocate` does nothing -/
theorem deallocate_claimed (cfg : Cfg) (s : State) (ptr size : Nat)
    (hl : isLast cfg s ptr size = false) :
    deallocate cfg s ptr size = .ok s := by
  unfold deallocate
  rw [hl]
  cases cfg.deallocates <;> rfl

/-- `grow` is a request for memory: refused, state unchanged -/
theorem grow_claimed (cfg : Cfg) (s : State) (ptr oldSize : Nat) (newL : Layout)
    (hc : s.cur = .claimed) (hm : MinAlignOk s.minAlign) (hL : newL.Valid) (hsz : oldSize ≤ newL.size)
    (hl : isLast cfg s ptr oldSize = false) :
    grow cfg s ptr oldSize newL = .ok (s, .error .claimed) := by
  unfold grow
  have ha : Rs.assert (decide (newL.size ≥ oldSize)) = .ok () := Lemmas.assert_dec hsz
  simp only [ha, liftM_ok, R_ok_bind, hl, Bool.false_and, Bool.false_eq_true, ↓reduceIte,
    alloc_claimed cfg s newL hc hm hL]
  cases cfg.up <;> rfl

/-- `shrink` (alignment fits) returns the block as it is -/
theorem shrink_claimed (cfg : Cfg) (s : State) (ptr oldSize : Nat) (newL : Layout)
    (hsz : newL.size ≤ oldSize) (hfit : alignFits ptr newL.align = true)
    (hl : isLast cfg s ptr oldSize = false) :
    shrink cfg s ptr oldSize newL = .ok (s, .ok (ptr, oldSize)) := by
  unfold shrink
  have ha : Rs.assert (decide (newL.size ≤ oldSize)) = .ok () := Lemmas.assert_dec hsz
  simp only [ha, liftM_ok, R_ok_bind, hl, hfit, Bool.not_true, Bool.false_eq_true, ↓reduceIte, Bool.not_false,
    Bool.or_true]
  rfl

/-- the statistics of a claimed handle describe an empty arena -/
theorem stats_claimed (cfg : Cfg) (s : State) (hc : s.cur = .claimed) : stats cfg s = ⟨0, 0, 0, 0, 0⟩ := by
  unfold stats
  simp only [hc]

/-! ## Part 2: operations addressed to the claimed handle in a history -/

/-- a claim guard is alive -/
def HasClaim (g : GState) : Prop := Frame.claim ∈ g.s.frames

theorem onClaimed_allocate (cfg : Cfg) (g : GState) (L : Layout) (z : Bool) (via : Via)
    (hcl : HasClaim g) (hm : MinAlignOk g.s.minAlign) (hL : L.Valid) :
    stepCore cfg g (.onClaimed (.allocate L z via)) = .ok (g, .err .claimed) := by
  unfold HasClaim at hcl
  rw [stepCore, if_no_claim hcl _ _ rfl]
  simp only [validLayout_ok hL, R_pure_bind, R_ok_bind,
    alloc_claimed cfg { g.s with cur := .claimed } L rfl hm hL]
  rfl

theorem onClaimed_allocLayout (cfg : Cfg) (g : GState) (L : Layout) (h : Hints)
    (hcl : HasClaim g) (hm : MinAlignOk g.s.minAlign) (hL : L.Valid) (ht : Truthful L h) :
    stepCore cfg g (.onClaimed (.allocLayout L h)) = .ok (g, .err .claimed) := by
  unfold HasClaim at hcl
  rw [stepCore, if_no_claim hcl _ _ rfl]
  simp only [validLayout_ok hL, R_pure_bind, R_ok_bind,
    allocGeneric_claimed cfg .alloc { g.s with cur := .claimed } L h Hints.custom rfl hm hL ht]
  rfl

theorem onClaimed_reserve (cfg : Cfg) (g : GState) (n : Nat) (dyn : Bool)
    (hcl : HasClaim g) (hm : MinAlignOk g.s.minAlign) :
    stepCore cfg g (.onClaimed (.reserve n dyn)) =
      .ok (g, .err (if dyn = true ∧ ¬ n ≤ Rs.IMAX then .capacityOverflow else .claimed)) := by
  unfold HasClaim at hcl
  rw [stepCore, if_no_claim hcl _ _ rfl]
  simp only [R_pure_bind, R_ok_bind]
  cases dyn
  · simp only [Bool.false_eq_true, ↓reduceIte, false_and,
      reserve_claimed cfg { g.s with cur := .claimed } n rfl]
    rfl
  · simp only [↓reduceIte, true_and, reserveDyn_claimed cfg { g.s with cur := .claimed } n rfl hm]
    by_cases hn : n ≤ Rs.IMAX
    · simp only [hn, ↓reduceIte, not_true_eq_false]; rfl
    · simp only [hn, ↓reduceIte, not_false_eq_true]; rfl

theorem onClaimed_grow (cfg : Cfg) (g : GState) (b : Nat) (blk : Block) (L : Layout) (z : Bool) (via : Via)
    (hcl : HasClaim g) (hm : MinAlignOk g.s.minAlign) (hL : L.Valid)
    (hb : findBlock g.s b = .ok blk) (hsz : blk.size ≤ L.size)
    (hl : isLast cfg { g.s with cur := .claimed } blk.addr blk.size = false) :
    stepCore cfg g (.onClaimed (.grow b L z via)) = .ok (g, .err .claimed) := by
  unfold HasClaim at hcl
  rw [stepCore, if_no_claim hcl _ _ rfl]
  simp only [validLayout_ok hL, R_pure_bind, R_ok_bind, hb,
    show ¬ L.size < blk.size from by omega, decide_false,
    grow_claimed cfg { g.s with cur := .claimed } blk.addr blk.size L rfl hm hL hsz hl]
  rfl

/-- a second claim panics -/
theorem onClaimed_claim (cfg : Cfg) (g : GState) (hcl : HasClaim g) :
    stepCore cfg g (.onClaimed .claim) = .ok (g, .panic "bump allocator is already claimed") := by
  unfold HasClaim at hcl
  rw [stepCore, if_no_claim hcl _ _ rfl]
  simp only [R_pure_bind, R_ok_bind]
  rfl

/-- `deallocate` through the claimed handle changes nothing in the arena: only the ghost block is forgotten -/
theorem onClaimed_deallocate (cfg : Cfg) (g : GState) (b : Nat) (blk : Block) (via : Via)
    (hcl : HasClaim g) (hb : findBlock g.s b = .ok blk)
    (hl : isLast cfg { g.s with cur := .claimed } blk.addr blk.size = false) :
    stepCore cfg g (.onClaimed (.deallocate b via)) = .ok ({ g with s := removeBlock g.s b }, .unit) := by
  unfold HasClaim at hcl
  rw [stepCore, if_no_claim hcl _ _ rfl]
  simp only [R_pure_bind, R_ok_bind, hb,
    deallocate_claimed cfg { g.s with cur := .claimed } blk.addr blk.size hl]
  rfl

/-- `shrink` through the claimed handle (alignment fits): same address, same size, arena untouched -/
theorem onClaimed_shrink (cfg : Cfg) (g : GState) (b : Nat) (blk : Block) (L : Layout) (via : Via)
    (hcl : HasClaim g) (hL : L.Valid) (hb : findBlock g.s b = .ok blk) (hsz : L.size ≤ blk.size)
    (hfit : alignFits blk.addr L.align = true)
    (hl : isLast cfg { g.s with cur := .claimed } blk.addr blk.size = false) :
    ∃ g', stepCore cfg g (.onClaimed (.shrink b L via)) = .ok (g', .block g.s.nextId blk.addr blk.size) ∧
      g'.s.chunks = g.s.chunks ∧ g'.s.cur = g.s.cur ∧ g'.marks = g.marks ∧ g'.s.frames = g.s.frames := by
  unfold HasClaim at hcl
  refine ⟨{ g with s := (okOut (removeBlock g.s b) blk.addr blk.size L.align (Nat.min blk.init blk.size)).1 }, ?_, ?_⟩
  · rw [stepCore, if_no_claim hcl _ _ rfl]
    simp only [validLayout_ok hL, R_pure_bind, R_ok_bind, hb,
      show ¬ L.size > blk.size from by omega, decide_false, hfit,
      shrink_claimed cfg { g.s with cur := .claimed } blk.addr blk.size L hsz hfit hl]
    rfl
  · exact ⟨rfl, rfl, rfl, rfl⟩

/-! ## Claim … claim end: the original handle resumes exactly where the guard stopped -/

/-- taking a claim hands the claimant the very chunks / position / blocks the original had -/
theorem claim_view (cfg : Cfg) (g : GState) (hp : g.s.prepared = none) (hc : cfg.claimable = true) :
    stepCore cfg g .claim = .ok ({ g with s := { g.s with frames := .claim :: g.s.frames } }, .unit) := by
  rw [stepCore]
  simp only [noPrepared, hp, Option.isNone_none, ↓reduceIte, R_pure_bind, hc, Bool.not_true, Bool.false_eq_true]
  rfl

/-- dropping the guard: everything done through the guard (chunks, current chunk, positions, live
    blocks, bytes) is kept by the original handle; only the claim frame disappears -/
theorem claimEnd_resume (cfg : Cfg) (g : GState) (rest : List Frame) (hp : g.s.prepared = none)
    (hf : g.s.frames = .claim :: rest) :
    stepCore cfg g .claimEnd = .ok ({ g with s := { g.s with frames := rest } }, .unit) := by
  rw [stepCore]
  simp only [noPrepared, hp, Option.isNone_none, ↓reduceIte, R_pure_bind, hf]
  rfl

/-- claim immediately followed by the end of the claim is the identity -/
theorem claim_claimEnd (cfg : Cfg) (g : GState) (hp : g.s.prepared = none) (hc : cfg.claimable = true) :
    ∃ g1, stepCore cfg g .claim = .ok (g1, .unit) ∧ g1.s.cur = g.s.cur ∧ g1.s.chunks = g.s.chunks ∧
      HasClaim g1 ∧ stepCore cfg g1 .claimEnd = .ok (g, .unit) := by
  refine ⟨_, claim_view cfg g hp hc, rfl, rfl, ?_, ?_⟩
  · exact List.mem_cons_self
  · exact claimEnd_resume cfg { g with s := { g.s with frames := .claim :: g.s.frames } } g.s.frames hp rfl

/-! ## Non-vacuity: the hypotheses hold on concrete states (`Lemmas/CtrlEx.lean`) -/

example : tryCur wCfg .range exClaimed exL Hints.sized = .ok none :=
  tryCur_none _ _ _ _ _ rfl minAlign8 exL_valid (fun _ => ⟨3, rfl⟩)

example : isLast wCfg exClaimed exBlk.addr exBlk.size = false :=
  isLast_claimed_false _ _ _ _ rfl (by decide)

example : grow wCfg exClaimed exBlk.addr exBlk.size { size := 32, align := 8 } = .ok (exClaimed, .error .claimed) :=
  grow_claimed _ _ _ _ _ rfl minAlign8 ⟨⟨3, by decide, rfl⟩, by decide⟩ (by decide)
    (isLast_claimed_false _ _ _ _ rfl (by decide))

example : reserveDyn wCfg exClaimed 100 = .ok (exClaimed, .error .claimed) :=
  reserveDyn_claimed _ _ _ rfl minAlign8

example : HasClaim exG := List.mem_cons_self

example : stepCore wCfg exG (.onClaimed (.allocLayout exL Hints.sized)) = .ok (exG, .err .claimed) :=
  onClaimed_allocLayout _ _ _ _ List.mem_cons_self minAlign8 exL_valid (fun _ => ⟨3, rfl⟩)

example : stepCore wCfg exG (.onClaimed (.allocate exL true .withoutShrink)) = .ok (exG, .err .claimed) :=
  onClaimed_allocate _ _ _ _ _ List.mem_cons_self minAlign8 exL_valid

example : stepCore wCfg exG (.onClaimed (.reserve 1000 true)) = .ok (exG, .err .claimed) :=
  onClaimed_reserve _ _ 1000 true List.mem_cons_self minAlign8

example : stepCore wCfg exG (.onClaimed .claim) = .ok (exG, .panic "bump allocator is already claimed") :=
  onClaimed_claim _ _ List.mem_cons_self

example : stepCore wCfg exG (.onClaimed (.grow 0 { size := 32, align := 8 } false .plain)) = .ok (exG, .err .claimed) :=
  onClaimed_grow _ _ 0 exBlk _ _ _ List.mem_cons_self minAlign8 ⟨⟨3, by decide, rfl⟩, by decide⟩ rfl (by decide)
    (isLast_claimed_false _ _ _ _ rfl (by decide))

example : stepCore wCfg exG (.onClaimed (.deallocate 0 .plain)) = .ok ({ exG with s := removeBlock exG.s 0 }, .unit) :=
  onClaimed_deallocate _ _ 0 exBlk _ List.mem_cons_self rfl (isLast_claimed_false _ _ _ _ rfl (by decide))

example : ∃ g', stepCore wCfg exG (.onClaimed (.shrink 0 { size := 8, align := 8 } .plain)) =
    .ok (g', .block 1 exBlk.addr exBlk.size) ∧ g'.s.chunks = exG.s.chunks ∧ g'.s.cur = exG.s.cur ∧
      g'.marks = exG.marks ∧ g'.s.frames = exG.s.frames :=
  onClaimed_shrink _ _ 0 exBlk _ .plain List.mem_cons_self ⟨⟨3, by decide, rfl⟩, by decide⟩ rfl (by decide) rfl
    (isLast_claimed_false _ _ _ _ rfl (by decide))

example : ∃ g1, stepCore wCfg ⟨exUp, []⟩ .claim = .ok (g1, .unit) ∧ g1.s.cur = exUp.cur ∧ g1.s.chunks = exUp.chunks ∧
    HasClaim g1 ∧ stepCore wCfg g1 .claimEnd = .ok (⟨exUp, []⟩, .unit) :=
  claim_claimEnd _ _ rfl rfl

end C14
