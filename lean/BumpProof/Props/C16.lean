/-
  Props/C16.lean — property C16: splitting and merging owned slices partitions them exactly.

  Model: `Coll/Split.lean` (`splitOff` for `BumpBox<[T]>` / `FixedBumpVec` / `BumpVec`, `splitAt`,
  `splitFirst/Last`, `splitAtSpare`, `merge`), a part = slots + length + byte address.  For EVERY
  length, capacity (`BumpBox<[T]>`: `cap = len`), element size and range:
    * `split_off(start..end)` is defined (does not panic) exactly for `start ≤ end ≤ len`; the returned
      part holds `xs[start..end)`, `self` keeps `xs[..start) ++ xs[end..)` (documented order), every id
      of the original is in exactly one of the two, the capacities ADD UP to the original capacity,
      the logs stay with `self`;
    * `split_at(at)` is defined exactly for `at ≤ len` and yields `(xs[..at), xs[at..))`, adjacent in memory;
    * `merge` of adjacent parts is the inverse of `split_at` (contents, length, address) and it REJECTS the
      same two parts in the wrong order (they are not contiguous) — the implementation's address test;
    * `split_first` / `split_last`, `split_at_spare`.
    * `into_flattened` (`Coll/Flatten.lean`): `len` arrays of `N` become `len * N` elements in order, the claimed
      capacity `cap * N` is exactly the buffer, no destructor runs; zero-sized: `checked_mul`, `usize::MAX`.
  Independence of the parts afterwards is the arena's business (C01 + C02: separate live blocks).
-/
import BumpProof.Coll.Split
import BumpProof.Lemmas.CollSplit
import BumpProof.Lemmas.CollPrim
import BumpProof.Coll.Zst
import BumpProof.Coll.Flatten
import BumpProof.Coll.Rev
import BumpProof.Lemmas.CollWF

namespace C16
open Coll

/-- `split_off(start..end)` partitions exactly, in the documented order, and the capacities add up -/
theorem split_off_partitions (lay : Lay) (p : Part) (xs : List Id) (h : p.Holds xs) (start end_ : Nat)
    (hse : start ≤ end_) (hel : end_ ≤ xs.length) :
    ∃ s o, splitOff lay p start end_ = some (s, o) ∧
      o.vec.abs = (xs.take end_).drop start ∧ s.vec.abs = xs.take start ++ xs.drop end_ ∧
      (s.vec.abs ++ o.vec.abs).Perm xs ∧
      s.vec.len + o.vec.len = p.vec.len ∧ s.vec.cap + o.vec.cap = p.vec.cap ∧
      s.vec.len ≤ s.vec.cap ∧ o.vec.len ≤ o.vec.cap ∧
      s.vec.dropLog = p.vec.dropLog ∧ s.vec.escaped = p.vec.escaped := by
  obtain ⟨s, o, he, ho, hs, hc, hd, hes, -, -, -⟩ := splitOff_holds lay p xs h start end_ hse hel
  refine ⟨s, o, he, ho.abs, hs.abs, ?_, ?_, hc, hs.len_le_cap, ho.len_le_cap, hd, hes⟩
  · rw [ho.abs, hs.abs]
    -- take start ++ drop end ++ range ~ take start ++ range ++ drop end = xs
    have hx : xs = xs.take start ++ ((xs.take end_).drop start ++ xs.drop end_) := by
      have h1 : xs.take start = (xs.take end_).take start := by rw [List.take_take]; congr 1; omega
      rw [h1, ← List.append_assoc, List.take_append_drop, List.take_append_drop]
    conv => rhs; rw [hx]
    rw [List.append_assoc]
    exact List.Perm.append_left _ List.perm_append_comm
  · have h1 := hs.2; have h2 := ho.2; have h3 := h.2
    simp at h1 h2; omega

/-- the two buffers `[addr, addr + cap·size)` are DISJOINT, adjacent, and together exactly the original
    buffer: one part starts at the original address and is exactly as large as its capacity says, the
    other starts right behind it (or the returned part is the empty vector and `self` is untouched).
    So filling either part up to its capacity can never reach a slot of the other one. -/
theorem split_off_buffers_disjoint (lay : Lay) (p : Part) (xs : List Id) (h : p.Holds xs) (start end_ : Nat)
    (hse : start ≤ end_) (hel : end_ ≤ xs.length) :
    ∃ s o, splitOff lay p start end_ = some (s, o) ∧ s.vec.cap + o.vec.cap = p.vec.cap ∧
      ((o.vec.cap = 0 ∧ s = p) ∨
       (s.addr = p.addr ∧ o.addr = s.addr + s.vec.cap * lay.esize ∧
          o.addr + o.vec.cap * lay.esize = p.addr + p.vec.cap * lay.esize) ∨
       (o.addr = p.addr ∧ s.addr = o.addr + o.vec.cap * lay.esize ∧
          s.addr + s.vec.cap * lay.esize = p.addr + p.vec.cap * lay.esize)) := by
  obtain ⟨s, o, he, -, -, hc, -, -, -, -, hlay⟩ := splitOff_holds lay p xs h start end_ hse hel
  refine ⟨s, o, he, hc, ?_⟩
  rcases hlay with h1 | ⟨h1, h2⟩ | ⟨h1, h2⟩
  · exact Or.inl h1
  · refine Or.inr (Or.inl ⟨h1, by rw [h1, h2], ?_⟩)
    rw [h2, ← hc, Nat.add_mul]; omega
  · refine Or.inr (Or.inr ⟨h1, by rw [h1, h2], ?_⟩)
    rw [h2, ← hc, Nat.add_mul]; omega

/-- the range check: outside `start ≤ end ≤ len` the call panics and nothing is split -/
theorem split_off_rejects (lay : Lay) (p : Part) (start end_ : Nat) (h : start > end_ ∨ end_ > p.vec.len) :
    splitOff lay p start end_ = none := by
  unfold splitOff; simp only; rw [if_pos h]

/-- `split_at(at)`: two adjacent, exactly full halves -/
theorem split_at_partitions (lay : Lay) (p : Part) (xs : List Id) (h : p.Holds xs) (hbox : p.vec.cap = p.vec.len)
    (at_ : Nat) (hat : at_ ≤ xs.length) :
    ∃ l r, splitAt lay p at_ = some (l, r) ∧ l.vec.abs = xs.take at_ ∧ r.vec.abs = xs.drop at_ ∧
      l.vec.abs ++ r.vec.abs = xs ∧ l.vec.cap + r.vec.cap = p.vec.cap ∧
      l.addr = p.addr ∧ r.addr = l.addr + l.vec.len * lay.esize := by
  obtain ⟨l, r, he, hl, hr, c1, c2, a1, a2⟩ := splitAt_holds lay p xs h hbox at_ hat
  refine ⟨l, r, he, hl.abs, hr.abs, by rw [hl.abs, hr.abs, List.take_append_drop], ?_, a1, ?_⟩
  · have := h.2; omega
  · have := hl.2; simp at this; rw [a1, a2]; congr 2; omega

theorem split_at_rejects (lay : Lay) (p : Part) (at_ : Nat) (h : at_ > p.vec.len) : splitAt lay p at_ = none := by
  unfold splitAt; simp only; rw [if_pos h]

/-- `merge` is the inverse of `split_at`: contents, length, capacity and address of the original -/
theorem merge_inverts_split_at (lay : Lay) (p : Part) (xs : List Id) (h : p.Holds xs) (hbox : p.vec.cap = p.vec.len)
    (at_ : Nat) (hat : at_ ≤ xs.length) :
    ∃ l r m, splitAt lay p at_ = some (l, r) ∧ merge lay l r = some m ∧
      m.vec.abs = xs ∧ m.vec.len = p.vec.len ∧ m.vec.cap = p.vec.cap ∧ m.addr = p.addr := by
  obtain ⟨l, r, he, hl, hr, c1, c2, a1, a2⟩ := splitAt_holds lay p xs h hbox at_ hat
  have l1 := hl.2; have l2 := hr.2; have l3 := h.2
  simp at l1 l2
  obtain ⟨m, hm, hmh, hmc, hma⟩ := merge_holds lay l r _ _ hl hr (by omega) (by omega) (by rw [a1, a2]; congr 2; omega)
  refine ⟨l, r, m, he, hm, ?_, ?_, ?_, by rw [hma, a1]⟩
  · rw [hmh.abs, List.take_append_drop]
  · have := hmh.2; simp at this; omega
  · omega

/-- the contiguity test: the same two (non-empty) halves in the wrong order are rejected -/
theorem merge_rejects_swapped (lay : Lay) (p : Part) (xs : List Id) (h : p.Holds xs) (hbox : p.vec.cap = p.vec.len)
    (at_ : Nat) (hat : at_ ≤ xs.length) (hsz : lay.esize > 0) (hne : xs ≠ []) :
    ∃ l r, splitAt lay p at_ = some (l, r) ∧ merge lay r l = none := by
  obtain ⟨l, r, he, hl, hr, c1, c2, a1, a2⟩ := splitAt_holds lay p xs h hbox at_ hat
  refine ⟨l, r, he, ?_⟩
  unfold merge
  rw [if_pos]
  have l2 := hr.2; simp at l2
  rw [a1, a2]
  have hpos : xs.length > 0 := List.length_pos_iff.mpr hne
  have : (at_ + r.vec.len) * lay.esize > 0 := Nat.mul_pos (by omega) hsz
  rw [Nat.add_assoc, ← Nat.add_mul]
  omega

/-- `merge` refuses exactly the non-adjacent pairs (the implementation compares `self.end` with `other.start`) -/
theorem merge_defined_iff (lay : Lay) (a b : Part) :
    (merge lay a b).isSome = true ↔ a.addr + a.vec.len * lay.esize = b.addr := by
  unfold merge
  split <;> simp_all

/-- `split_first` / `split_last`: the single element and the rest, nothing else -/
theorem split_first_partitions (lay : Lay) (p : Part) (x : Id) (xs : List Id) (h : p.Holds (x :: xs)) (hbox : p.vec.cap = p.vec.len) :
    ∃ f r, splitFirst lay p = some (f, r) ∧ f.vec.abs = [x] ∧ r.vec.abs = xs := by
  have hl := h.2
  simp at hl
  obtain ⟨l, r, he, h1, h2, -⟩ := splitAt_holds lay p (x :: xs) h hbox 1 (by simp)
  refine ⟨l, r, ?_, by simpa using h1.abs, by simpa using h2.abs⟩
  unfold splitFirst; rw [if_neg (by omega)]; exact he

theorem split_last_partitions (lay : Lay) (p : Part) (xs : List Id) (x : Id) (h : p.Holds (xs ++ [x])) (hbox : p.vec.cap = p.vec.len) :
    ∃ l r, splitLast lay p = some (l, r) ∧ l.vec.abs = [x] ∧ r.vec.abs = xs := by
  have hl := h.2
  simp at hl
  obtain ⟨a, b, he, h1, h2, -⟩ := splitAt_holds lay p (xs ++ [x]) h hbox (p.vec.len - 1) (by simp; omega)
  have e : p.vec.len - 1 = xs.length := by omega
  refine ⟨b, a, ?_, ?_, ?_⟩
  · unfold splitLast; rw [if_neg (by omega), he]; rfl
  · rw [h2.abs, e]; simp
  · rw [h1.abs, e]; simp

theorem split_first_empty (lay : Lay) (p : Part) (h : p.vec.len = 0) : splitFirst lay p = none ∧ splitLast lay p = none := by
  unfold splitFirst splitLast; simp [h]

/-- `FixedBumpVec::split_at_spare`: the initialised part and the spare capacity tile the buffer -/
theorem split_at_spare_partitions (lay : Lay) (p : Part) (xs : List Id) (h : p.Holds xs) :
    (splitAtSpare lay p).1.vec.abs = xs ∧ (splitAtSpare lay p).1.vec.cap = p.vec.len ∧
    (splitAtSpare lay p).2.vec.len = 0 ∧ (splitAtSpare lay p).2.vec.cap = p.vec.cap - p.vec.len ∧
    (splitAtSpare lay p).1.addr = p.addr ∧ (splitAtSpare lay p).2.addr = p.addr + p.vec.len * lay.esize := by
  have hcap := h.len_le_cap
  obtain ⟨hs, hl⟩ := h
  have ⟨a1, a2, a3, a4⟩ := cut_holds lay p.addr xs (p.vec.cap - p.vec.len) p.vec.len p.vec.cap (by omega) (by omega)
  rw [← hs] at a1 a2 a3 a4
  have e1 : xs.take p.vec.len = xs := List.take_of_length_le (by omega)
  rw [e1] at a1
  refine ⟨a1.abs, a2, rfl, ?_, by simp [splitAtSpare, subPart], by simp [splitAtSpare, subPart]⟩
  have : xs.length - p.vec.len = 0 := by omega
  simp only [splitAtSpare]
  rw [← a4]
  simp [subPart, Vec.cap]

/-- `partition(pred)` of a boxed slice, for EVERY predicate behaviour (oracle): either two adjacent boxes
    come back that together hold exactly the original values (each once; the order inside the parts is
    not preserved, as documented for `partition_in_place`) — or the predicate panicked and the box, which
    was moved into the call, has been dropped with every value in it exactly once -/
theorem partition_partitions (lay : Lay) (bombs : List Id) (p : Part) (xs : List Id) (h : p.Holds xs)
    (hbox : p.vec.cap = p.vec.len) (o : List Outcome) :
    ∃ res v' o', partition lay bombs p o = .ok (res, v', o') ∧
      (match res with
       | some (l, r) => (l.vec.abs ++ r.vec.abs).Perm xs ∧ l.vec.len + r.vec.len = p.vec.len ∧
                        l.addr = p.addr ∧ r.addr = l.addr + l.vec.len * lay.esize
       | none => v'.abs = [] ∧ ∃ ds, v'.dropLog = p.vec.dropLog ++ ds ∧ ds.Perm xs) := by
  have hl := h.2
  have hs : p.vec.slots = I xs := by
    have := h.1; rw [hbox] at this; simpa using this
  obtain ⟨v', res, o', ys', he, hs', hperm, hlen, hdl, hesc, hcnt⟩ :=
    partitionLoop_perm p.vec.len p.vec 0 p.vec.len 0 .firstFalse o xs hs (by omega) (by omega) (by omega)
      (by intro h hh; cases hh) (by omega)
  unfold partition
  rw [he]
  have hyl : ys'.length = p.vec.len := by rw [hperm.length_eq]; exact hl
  cases res with
  | some tc =>
    have htc := hcnt tc rfl
    have hholds : ({ p with vec := v' } : Part).Holds ys' := by
      refine ⟨?_, by simp [hlen, hyl]⟩
      have : v'.cap = v'.len := by simp [Vec.cap, hs', hlen, hyl]
      simp [hs', this]
    obtain ⟨l, r, hsp, hl1, hr1, c1, c2, a1, a2⟩ := splitAt_holds lay { p with vec := v' } ys' hholds
      (by simp [Vec.cap, hs', hlen, hyl]) tc (by omega)
    refine ⟨_, _, _, rfl, ?_⟩
    simp only [hsp]
    have l1 := hl1.2; have l2 := hr1.2
    simp at l1 l2
    refine ⟨by rw [hl1.abs, hr1.abs, List.take_append_drop]; exact hperm, by omega, a1, ?_⟩
    rw [a1, a2]; simp; congr 2; omega
  | none =>
    simp only
    have hd := dropRange_seg bombs ys' true (setLen v' 0) [] [] 0 (by simp [setLen, hs']) rfl
    rw [hlen, ← hyl, hd]
    refine ⟨_, _, _, rfl, ?_⟩
    simp only
    refine ⟨by simp [Vec.abs, setLen, idsOf], ys', by simp [setLen, hdl], hperm⟩

/-- zero-sized elements (by counts): `split_off` is defined exactly for `start ≤ end ≤ len`, the lengths of
    the two parts add up, the returned part has `end - start` values, and `merge` is the inverse -/
theorem zst_split_off_partitions (v : Zst.ZVec) (start end_ : Nat) :
    (match Zst.splitOff v start end_ with
     | none => start > end_ ∨ end_ > v.len
     | some (s, o) => start ≤ end_ ∧ end_ ≤ v.len ∧ o.len = end_ - start ∧ s.len + o.len = v.len ∧
                      (Zst.merge s o).len = v.len ∧ (Zst.merge s o).total = v.total) := by
  unfold Zst.splitOff
  by_cases h : start > end_ ∨ end_ > v.len
  · rw [if_pos h]; exact h
  · rw [if_neg h]
    simp only [Zst.merge, Zst.ZVec.total]
    refine ⟨by omega, by omega, trivial, by omega, by omega, by omega⟩

/-- non-vacuity: a `FixedBumpVec` holding 1..6 with capacity 8 at address 4096, 16-byte elements:
    `split_off(1..3)` rotates the range to the front; capacities 2 + 6 -/
example : splitOff ⟨16, 8⟩ ⟨Vec.mk' [1, 2, 3, 4, 5, 6] 2, 4096⟩ 1 3 =
    some (⟨{ slots := I [1, 4, 5, 6] ++ H 2, len := 4 }, 4096 + 32⟩, ⟨{ slots := I [2, 3], len := 2 }, 4096⟩) := by decide

example : (⟨Vec.mk' [1, 2, 3, 4, 5, 6] 2, 4096⟩ : Part).Holds [1, 2, 3, 4, 5, 6] := by
  refine ⟨by decide, by decide⟩

/-- `merge` of two boxed slices of a ZERO-SIZED type (`bump_box.rs` l.2207-2220: both operands go through
    `into_raw`, i.e. NEITHER is dropped, the result has the sum of the lengths): no destructor runs, nothing is
    lost — and dropping the merged slice afterwards runs exactly `a.len + b.len` destructors, once each -/
theorem zst_merge_partitions (a b : Zst.ZVec) (bomb : Option Nat) (u : Bool) :
    (Zst.merge a b).len = a.len + b.len ∧ (Zst.merge a b).drops = a.drops + b.drops ∧
      (Zst.merge a b).total = a.total + b.total ∧
      (Zst.dropVec (Zst.merge a b) bomb u).1.drops = a.drops + b.drops + (a.len + b.len) ∧
      (Zst.dropVec (Zst.merge a b) bomb u).1.len = 0 := by
  simp only [Zst.merge, Zst.ZVec.total, Zst.dropVec, Zst.dropN, true_and, and_true]
  omega

/-- what the missing `other.into_raw()` would do: `other` is dropped at the end of `merge` AND again inside the
    merged slice — `b.len` destructor calls too many -/
example : (Zst.dropVec (Zst.merge { len := 2 } { len := 3 }) none false).1.drops = 5 ∧
    (Zst.dropVec (Zst.merge { len := 2 } (Zst.dropVec { len := 3 } none false).1 |> fun m => { m with len := 5 }) none false).1.drops = 8 := by
  decide

/-! ## `into_flattened` (`Coll/Flatten.lean`): `len` arrays of `N` become `len * N` elements -/

/-- `into_flattened` of a well-formed vector of arrays (`BumpBox<[[T;N]]>`, `FixedBumpVec`, `BumpVec`, `MutBumpVec`):
    the same elements in the same order, well-formed as a vector of `T`, the claimed capacity `cap * N` is
    EXACTLY the buffer (no slot is claimed that is not there, none is lost), and no destructor runs -/
theorem into_flattened_partitions (a : ArrVec) (xs : List Id) (h : a.Holds false xs) :
    (intoFlattened a).1.slots = I xs ++ H ((intoFlattened a).1.cap - (intoFlattened a).1.len) ∧
      (intoFlattened a).1.len = xs.length ∧ (intoFlattened a).1.abs = xs ∧
      (intoFlattened a).2 = (intoFlattened a).1.cap ∧ (intoFlattened a).1.len ≤ (intoFlattened a).2 ∧
      (intoFlattened a).1.dropLog = a.dropLog := by
  obtain ⟨hl, hc, hf⟩ := h
  simp only [Bool.false_eq_true, ↓reduceIte] at hf
  have hmul : a.arrLen * a.n + (a.arrCap - a.arrLen) * a.n = a.arrCap * a.n := by
    rw [← Nat.add_mul]; congr 1; omega
  have hcap : (intoFlattened a).1.cap = a.arrCap * a.n := by
    simp only [intoFlattened, Vec.cap, hf, List.length_append, Coll.length_I, Coll.length_H]; omega
  have hlen : (intoFlattened a).1.len = xs.length := by simp [intoFlattened, hl]
  have hsl : (intoFlattened a).1.slots = I xs ++ H ((intoFlattened a).1.cap - (intoFlattened a).1.len) := by
    rw [hcap, hlen]
    simp only [intoFlattened, hf]
    congr 2; omega
  refine ⟨hsl, hlen, Vec.WF.abs_eq hsl hlen.symm, by rw [hcap]; rfl, ?_, rfl⟩
  rw [hlen]; simp only [intoFlattened]; rw [hl]; exact Nat.mul_le_mul_right _ hc

/-- the same for `MutBumpVecRev` (the arrays sit at the END of the buffer; the end pointer is kept) -/
theorem rev_into_flattened_partitions (a : ArrVec) (xs : List Id) (h : a.Holds true xs) :
    (intoFlattened a).1.slots = H ((intoFlattened a).1.cap - (intoFlattened a).1.len) ++ I xs ∧
      (intoFlattened a).1.len = xs.length ∧ (intoFlattened a).1.rabs = xs ∧
      (intoFlattened a).2 = (intoFlattened a).1.cap := by
  obtain ⟨hl, hc, hf⟩ := h
  simp only [↓reduceIte] at hf
  have hmul : a.arrLen * a.n + (a.arrCap - a.arrLen) * a.n = a.arrCap * a.n := by
    rw [← Nat.add_mul]; congr 1; omega
  have hcap : (intoFlattened a).1.cap = a.arrCap * a.n := by
    simp only [intoFlattened, Vec.cap, hf, List.length_append, Coll.length_I, Coll.length_H]; omega
  have hlen : (intoFlattened a).1.len = xs.length := by simp [intoFlattened, hl]
  have hsl : (intoFlattened a).1.slots = H ((intoFlattened a).1.cap - (intoFlattened a).1.len) ++ I xs := by
    rw [hcap, hlen]
    simp only [intoFlattened, hf]
    congr 2; omega
  refine ⟨hsl, hlen, ?_, by rw [hcap]; rfl⟩
  simp only [Vec.rabs, Vec.rstart]
  rw [hsl]
  simp

/-- zero-sized `T`: the length is the product (or the `expect` panics on overflow), the capacity stays `usize::MAX` -/
theorem zst_into_flattened (usizeMax n arrLen : Nat) :
    intoFlattenedZst usizeMax n arrLen = (if arrLen * n ≤ usizeMax then some (arrLen * n, usizeMax) else none) := by
  unfold intoFlattenedZst
  by_cases h : arrLen * n > usizeMax
  · simp [h] <;> omega
  · simp [h] <;> omega

/-- the degenerate array length `N = 0` (sized `T`): the source elements `[T; 0]` are zero-sized, so the source
    reports capacity `usize::MAX`, but the flattened vector of sized `T` holds nothing and must CLAIM nothing:
    `len = 0`, capacity `arrCap * 0 = 0` (a full `FixedBumpVec`; no slot is claimed on the dangling pointer) —
    `into_flattened_partitions` covers it (its hypotheses hold for `n = 0`, `flat = []`) -/
theorem into_flattened_zero (a : ArrVec) (hn : a.n = 0) (hf : a.flat = []) (hc : a.arrLen ≤ a.arrCap) :
    a.Holds false [] ∧ (intoFlattened a).1.len = 0 ∧ (intoFlattened a).2 = 0 ∧ (intoFlattened a).1.cap = 0 := by
  refine ⟨⟨by simp [hn], hc, by simp [hn, hf]⟩, by simp [intoFlattened, hn], by simp [intoFlattened, hn], by simp [intoFlattened, Vec.cap, hf]⟩

example : intoFlattened { n := 0, arrLen := 3, arrCap := 18446744073709551615, flat := [] } = ({ slots := [], len := 0 }, 0) := by
  decide

/-- `N = 1`: nothing changes but the element type -/
example : intoFlattened { n := 1, arrLen := 2, arrCap := 3, flat := I [1, 2] ++ H 1 } = ({ slots := I [1, 2] ++ H 1, len := 2 }, 3) := by
  decide

/-- non-vacuity: two arrays of two in a buffer for three arrays -/
example : (intoFlattened { n := 2, arrLen := 2, arrCap := 3, flat := I [1, 2, 3, 4] ++ H 2 }) =
    ({ slots := I [1, 2, 3, 4] ++ H 2, len := 4 }, 6) := by decide

example : ({ n := 2, arrLen := 2, arrCap := 3, flat := I [1, 2, 3, 4] ++ H 2 } : ArrVec).Holds false [1, 2, 3, 4] := by
  refine ⟨by decide, by decide, by decide⟩

end C16
