/-
  Props/C09.lean — property C09: the string types (`BumpBox<str>`, `FixedBumpString`, `BumpString`,
  `MutBumpString`) behave like `std::string::String` and always hold valid UTF-8; C-string
  constructors.  ONLY property theorems live here (helpers: Lemmas/Str*.lean; model: Str/*.lean).

  Reading guide
  * `Str.State` = allocation `buf` + `len`; contents `s.bytes = buf.take len`.
  * `Holds s cs`  : `len ≤ capacity` and the contents are the UTF-8 encoding (Lean core's
    `String.utf8EncodeChar`) of the characters `cs`.   `WF s` : `∃ cs, Holds s cs`.
  * `CharPos cs i`: byte index `i` is in range and on a character boundary of `cs`
    (some prefix of `cs` encodes to exactly `i` bytes) — the SPECIFICATION notion; the
    implementation's byte test is `isCharBoundary` (theorem `isCharBoundary_iff`).
  * `AllWF r`     : whatever the outcome `r` (ok / allocation error / PANIC), the string afterwards is
    `WF`, and `r` is not the undefined-behaviour fault (an out-of-bounds copy, an `unwrap_unchecked`
    on `None`).
  * `GrowsToText fixed s need r out`: `r` is an allocation error leaving `s` unchanged iff the string
    is FIXED and has less than `need` spare bytes; otherwise `r` is `ok` and the string holds `out`
    (a fixed string keeps its capacity).
  All theorems quantify over ALL strings, indices, characters, texts and predicate oracles.
-/
import BumpProof.Lemmas.StrOps

namespace C09
open Str

/-! ## UTF-8: the decoder is the inverse of Lean core's encoder; validity -/

/-- decoding the encoding of any character sequence gives it back (so the encoder is injective and
    `core::str::from_utf8` accepts everything `encode_utf8` produces) -/
theorem decode_encode (cs : List Char) : decode (encode cs) = some cs := Str.decode_encode cs

/-- the decoder accepts ONLY encodings (no overlong forms, surrogates, values above U+10FFFF,
    stray or missing continuation bytes) -/
theorem decode_sound (l : Bytes) (cs : List Char) (h : decode l = some cs) : l = encode cs :=
  Str.decode_some h

/-- the executable validity test used by the driver decides `Valid` -/
theorem validUtf8_iff (l : Bytes) : validUtf8 l = true ↔ Valid l := Str.validUtf8_iff l

/-- concatenating valid strings gives a valid string -/
theorem valid_append (a b : Bytes) (ha : Valid a) (hb : Valid b) : Valid (a ++ b) := ha.append hb

example : Valid [0x61, 0xC3, 0xA9, 0xE2, 0x82, 0xAC, 0xF0, 0x9F, 0x98, 0x80] := by decide
example : ¬ Valid [0xC3] := by decide
example : ¬ Valid [0xC0, 0x80] := by decide          -- overlong
example : ¬ Valid [0xED, 0xA0, 0x80] := by decide    -- surrogate
example : ¬ Valid [0xF4, 0x90, 0x80, 0x80] := by decide  -- above U+10FFFF

/-! ## `is_char_boundary` as implemented = "the prefix is a whole number of encoded characters" -/

/-- for every valid string and EVERY index (in or out of range): the byte test of
    `core::str::is_char_boundary` (index 0, index len, or `(b as i8) >= -0x40`) holds iff some prefix of
    the characters encodes to exactly `i` bytes -/
theorem isCharBoundary_iff (cs : List Char) (i : Nat) :
    isCharBoundary (encode cs) i = true ↔ CharPos cs i := Str.isCharBoundary_iff cs i

/-- a valid string cut at a boundary gives two valid strings -/
theorem valid_split (l : Bytes) (i : Nat) (hv : Valid l) (hb : isCharBoundary l i = true) :
    Valid (l.take i) ∧ Valid (l.drop i) := by
  obtain ⟨cs, rfl⟩ := hv
  obtain ⟨a, b, _, h1, h2, _⟩ := charPos_split ((Str.isCharBoundary_iff cs i).1 hb)
  exact ⟨⟨a, h1⟩, ⟨b, h2⟩⟩

/-- an index beyond the length is never a boundary -/
theorem isCharBoundary_out_of_range (l : Bytes) (i : Nat) (h : l.length < i) : isCharBoundary l i = false :=
  isCharBoundary_false_of_gt l i h

example : isCharBoundary (encode ['a', 'é']) 2 = false := by decide
example : CharPos ['a', 'é'] 1 := ⟨['a'], ['é'], rfl, by decide⟩

/-! ## push, push_str -/

/-- `push`: refines `cs ++ [ch]`; never panics; a fixed string fails iff `ch` does not fit -/
theorem push_refines (fixed : Bool) (s : State) (ch : Char) (cs : List Char) (h : Holds s cs) :
    GrowsToText fixed s ch.utf8Size (push fixed s ch) (cs ++ [ch]) := push_spec fixed s ch cs h

theorem push_valid (fixed : Bool) (s : State) (ch : Char) (h : WF s) : AllWF (push fixed s ch) := by
  obtain ⟨cs, hc⟩ := (wf_iff s).1 h
  exact (push_spec fixed s ch cs hc).allWF h

theorem push_str_refines (fixed : Bool) (s : State) (t cs : List Char) (h : Holds s cs) :
    GrowsToText fixed s (encode t).length (pushStr fixed s (encode t)) (cs ++ t) := pushStr_spec fixed s t cs h

theorem push_str_valid (fixed : Bool) (s : State) (str : Bytes) (h : WF s) (hv : Valid str) :
    AllWF (pushStr fixed s str) := by
  obtain ⟨cs, hc⟩ := (wf_iff s).1 h
  obtain ⟨t, rfl⟩ := hv
  exact (pushStr_spec fixed s t cs hc).allWF h

example : Holds (State.ofBytes (encode ['a', 'é']) 8) ['a', 'é'] := holds_ofBytes _ _
example : push true (State.ofBytes (encode ['a', 'é']) 4) '€' = .err (State.ofBytes (encode ['a', 'é']) 4) := by decide

/-! ## insert, insert_str -/

/-- `insert` at a character position: refines `cs1 ++ [ch] ++ cs2` -/
theorem insert_refines (fixed : Bool) (s : State) (idx : Nat) (ch : Char) (cs1 cs2 : List Char)
    (h : Holds s (cs1 ++ cs2)) (hi : (encode cs1).length = idx) :
    GrowsToText fixed s ch.utf8Size (insert fixed s idx ch) (cs1 ++ [ch] ++ cs2) :=
  insert_spec fixed s idx ch cs1 cs2 h hi

/-- `insert` panics iff the index is out of range or not on a character boundary; the string is unchanged -/
theorem insert_panics_iff (fixed : Bool) (s : State) (idx : Nat) (ch : Char) (cs : List Char) (h : Holds s cs) :
    (insert fixed s idx ch).isPanic = true ↔ ¬ CharPos cs idx := by
  constructor
  · intro hp hc
    obtain ⟨a, b, rfl, hl⟩ := hc
    have := (insert_spec fixed s idx ch a b h hl).not_panic
    rw [this] at hp; simp at hp
  · intro hn; rw [insert_panic fixed s idx ch cs h hn]; rfl

theorem insert_valid (fixed : Bool) (s : State) (idx : Nat) (ch : Char) (h : WF s) : AllWF (insert fixed s idx ch) := by
  obtain ⟨cs, hc⟩ := (wf_iff s).1 h
  by_cases hp : CharPos cs idx
  · obtain ⟨a, b, rfl, hl⟩ := hp
    exact (insert_spec fixed s idx ch a b hc hl).allWF h
  · rw [insert_panic fixed s idx ch cs hc hp]; exact h

theorem insert_str_refines (fixed : Bool) (s : State) (idx : Nat) (t cs1 cs2 : List Char)
    (h : Holds s (cs1 ++ cs2)) (hi : (encode cs1).length = idx) :
    GrowsToText fixed s (encode t).length (insertStr fixed s idx (encode t)) (cs1 ++ t ++ cs2) :=
  insertStr_spec fixed s idx t cs1 cs2 h hi

theorem insert_str_panics_iff (fixed : Bool) (s : State) (idx : Nat) (t cs : List Char) (h : Holds s cs) :
    (insertStr fixed s idx (encode t)).isPanic = true ↔ ¬ CharPos cs idx := by
  constructor
  · intro hp hc
    obtain ⟨a, b, rfl, hl⟩ := hc
    have := (insertStr_spec fixed s idx t a b h hl).not_panic
    rw [this] at hp; simp at hp
  · intro hn; rw [insertStr_panic fixed s idx _ cs h hn]; rfl

theorem insert_str_valid (fixed : Bool) (s : State) (idx : Nat) (str : Bytes) (h : WF s) (hv : Valid str) :
    AllWF (insertStr fixed s idx str) := by
  obtain ⟨cs, hc⟩ := (wf_iff s).1 h
  obtain ⟨t, rfl⟩ := hv
  by_cases hp : CharPos cs idx
  · obtain ⟨a, b, rfl, hl⟩ := hp
    exact (insertStr_spec fixed s idx t a b hc hl).allWF h
  · rw [insertStr_panic fixed s idx _ cs hc hp]; exact h

example : insert false (State.ofBytes (encode ['a', 'é'])) 2 'b' = .panic (State.ofBytes (encode ['a', 'é'])) := by decide

/-! ## pop, truncate, clear, remove -/

/-- `pop` returns the last character (none for the empty string) and the string holds the rest; never panics -/
theorem pop_refines (s : State) (cs : List Char) (h : Holds s cs) :
    (cs = [] ∧ pop s = .ok none s) ∨
    (∃ cs' c s', cs = cs' ++ [c] ∧ pop s = .ok (some c) s' ∧ Holds s' cs') := by
  rcases eq_nil_or_snoc cs with rfl | ⟨cs', c, rfl⟩
  · exact Or.inl ⟨rfl, pop_nil s h⟩
  · obtain ⟨s', hp, hh, _⟩ := pop_snoc s cs' c h
    exact Or.inr ⟨cs', c, s', rfl, hp, hh⟩

theorem pop_valid (s : State) (h : WF s) : AllWF (pop s) := by
  obtain ⟨cs, hc⟩ := (wf_iff s).1 h
  rcases pop_refines s cs hc with ⟨_, hp⟩ | ⟨cs', c, s', _, hp, hh⟩
  · rw [hp]; exact h
  · rw [hp]; exact hh.wf

/-- `truncate` to a character position keeps exactly the prefix -/
theorem truncate_refines (s : State) (n : Nat) (cs1 cs2 : List Char) (h : Holds s (cs1 ++ cs2))
    (hn : (encode cs1).length = n) : ∃ s', truncate s n = .ok () s' ∧ Holds s' cs1 := by
  obtain ⟨s', ht, hh, _⟩ := truncate_ok s n cs1 cs2 h hn
  exact ⟨s', ht, hh⟩

/-- `truncate` is a no-op beyond the length and panics iff `new_len ≤ len` is not a character boundary -/
theorem truncate_panics_iff (s : State) (n : Nat) (cs : List Char) (h : Holds s cs) :
    (truncate s n).isPanic = true ↔ (n ≤ s.len ∧ ¬ CharPos cs n) := by
  by_cases hle : n ≤ s.len
  · by_cases hc : CharPos cs n
    · obtain ⟨a, b, rfl, hl⟩ := hc
      obtain ⟨s', ht, _⟩ := truncate_ok s n a b h hl
      rw [ht]; simp [Res.isPanic]; intro _; exact ⟨a, b, rfl, hl⟩
    · rw [truncate_panic s n cs h hle hc]; simp [Res.isPanic, hle, hc]
  · rw [truncate_beyond s n (by omega)]; simp [Res.isPanic, hle]

theorem truncate_beyond_len (s : State) (n : Nat) (hn : s.len < n) : truncate s n = .ok () s :=
  truncate_beyond s n hn

theorem truncate_valid (s : State) (n : Nat) (h : WF s) : AllWF (truncate s n) := by
  obtain ⟨cs, hc⟩ := (wf_iff s).1 h
  by_cases hle : n ≤ s.len
  · by_cases hp : CharPos cs n
    · obtain ⟨a, b, rfl, hl⟩ := hp
      obtain ⟨s', ht, hh, _⟩ := truncate_ok s n a b hc hl
      rw [ht]; exact hh.wf
    · rw [truncate_panic s n cs hc hle hp]; exact h
  · rw [truncate_beyond s n (by omega)]; exact h

theorem clear_refines (s : State) : ∃ s', clear s = .ok () s' ∧ Holds s' [] := by
  obtain ⟨s', hc, hh, _⟩ := clear_spec s
  exact ⟨s', hc, hh⟩

/-- `remove` at the start of character `c` returns `c` and closes the gap -/
theorem remove_refines (s : State) (idx : Nat) (c : Char) (cs1 cs2 : List Char)
    (h : Holds s (cs1 ++ c :: cs2)) (hi : (encode cs1).length = idx) :
    ∃ s', remove s idx = .ok c s' ∧ Holds s' (cs1 ++ cs2) := by
  obtain ⟨s', hr, hh, _⟩ := remove_ok s idx c cs1 cs2 h hi
  exact ⟨s', hr, hh⟩

/-- `remove` panics iff `idx ≥ len` or `idx` is not on a character boundary; the string is unchanged -/
theorem remove_panics_iff (s : State) (idx : Nat) (cs : List Char) (h : Holds s cs) :
    (remove s idx).isPanic = true ↔ (¬ CharPos cs idx ∨ s.len ≤ idx) := by
  by_cases hc : CharPos cs idx
  · by_cases hlt : s.len ≤ idx
    · rw [remove_panic s idx cs h (Or.inr hlt)]; simp [Res.isPanic, hlt]
    · obtain ⟨a, b, rfl, hl⟩ := hc
      cases b with
      | nil =>
        exfalso; apply hlt; rw [h.len]; simp [← hl]
      | cons c b =>
        obtain ⟨s', hr, _⟩ := remove_ok s idx c a b h hl
        rw [hr]; simp [Res.isPanic, hlt]; exact ⟨a, c :: b, rfl, hl⟩
  · rw [remove_panic s idx cs h (Or.inl hc)]; simp [Res.isPanic, hc]

theorem remove_valid (s : State) (idx : Nat) (h : WF s) : AllWF (remove s idx) := by
  obtain ⟨cs, hc⟩ := (wf_iff s).1 h
  by_cases hp : (¬ CharPos cs idx ∨ s.len ≤ idx)
  · rw [remove_panic s idx cs hc hp]; exact h
  · have hp' : CharPos cs idx ∧ idx < s.len := by
      constructor
      · exact Classical.not_not.1 (fun hn => hp (Or.inl hn))
      · exact Nat.lt_of_not_le (fun hn => hp (Or.inr hn))
    obtain ⟨⟨a, b, rfl, hl⟩, hlt⟩ := hp'
    cases b with
    | nil => exfalso; rw [hc.len] at hlt; simp [← hl] at hlt
    | cons c b =>
      obtain ⟨s', hr, hh, _⟩ := remove_ok s idx c a b hc hl
      rw [hr]; exact hh.wf

example : remove (State.ofBytes (encode ['a', 'é', 'b'])) 1 = .ok 'é' { buf := [0x61, 0x62, 0xA9, 0x62], len := 2 } := by decide

end C09
