/-
  Props/C09.lean — property C09: the string types (`BumpBox<str>`, `FixedBumpString`, `BumpString`,
  `MutBumpString`) behave like `std::string::String` and always hold valid UTF-8; C-string
  constructors.  ONLY property theorems live here (helpers: Lemmas/Str*.lean; model: Str/*.lean).

  Reading guide
  * `Str.State` = allocation `buf` + `len`; contents `s.bytes = buf.take len`.
  * `Holds s cs`  : `len ≤ capacity` and the contents are the UTF-8 encoding (Lean core's
    `String.utf8EncodeChar`) of the characters `cs`.   `WF s` : `∃ cs, Holds s cs`.
  * `CharPos cs i`: byte index `i` is in range and on a character boundary of `cs`
    (some prefix of `cs` encodes to exactly `i` bytes) — the SPECIFICATION notion; the
    implementation's byte test is `isCharBoundary` (theorem `isCharBoundary_iff`).
  * `AllWF r`     : whatever the outcome `r` (ok / allocation error / PANIC), the string afterwards is
    `WF`, and `r` is not the undefined-behaviour fault (an out-of-bounds copy, an `unwrap_unchecked`
    on `None`).
  * `GrowsToText al s need r out`: `r` is an allocation error leaving `s` unchanged iff the string
    is FIXED and has less than `need` spare bytes; otherwise `r` is `ok` and the string holds `out`
    (a fixed string keeps its capacity).
  All theorems quantify over ALL strings, indices, characters, texts and predicate oracles.
-/
import BumpProof.Lemmas.StrOps
import BumpProof.Lemmas.StrRetain
import BumpProof.Lemmas.StrCstr
import BumpProof.Lemmas.StrRun
import BumpProof.Lemmas.StrRefine
import BumpProof.Lemmas.StrCtor
import BumpProof.Lemmas.StrExtra

namespace C09
open Str

/-! ## UTF-8: the decoder is the inverse of Lean core's encoder; validity -/

/-- decoding the encoding of any character sequence gives it back (so the encoder is injective and
    `core::str::from_utf8` accepts everything `encode_utf8` produces) -/
theorem decode_encode (cs : List Char) : decode (encode cs) = some cs := Str.decode_encode cs

/-- the decoder accepts ONLY encodings (no overlong forms, surrogates, values above U+10FFFF,
    stray or missing continuation bytes) -/
theorem decode_sound (l : Bytes) (cs : List Char) (h : decode l = some cs) : l = encode cs :=
  Str.decode_some h

/-- the executable validity test used by the driver decides `Valid` -/
theorem validUtf8_iff (l : Bytes) : validUtf8 l = true ↔ Valid l := Str.validUtf8_iff l

/-- `Valid` (the encoding, by Lean core's `String.utf8EncodeChar`, of some character sequence) is
    exactly Lean core's `ByteArray.IsValidUTF8`, the invariant of core's `String` -/
theorem valid_iff_core (l : Bytes) : Valid l ↔ ByteArray.IsValidUTF8 l.toByteArray := Str.valid_iff_core l

/-- concatenating valid strings gives a valid string -/
theorem valid_append (a b : Bytes) (ha : Valid a) (hb : Valid b) : Valid (a ++ b) := ha.append hb

example : Valid [0x61, 0xC3, 0xA9, 0xE2, 0x82, 0xAC, 0xF0, 0x9F, 0x98, 0x80] := by decide
example : ¬ Valid [0xC3] := by decide
example : ¬ Valid [0xC0, 0x80] := by decide          -- overlong
example : ¬ Valid [0xED, 0xA0, 0x80] := by decide    -- surrogate
example : ¬ Valid [0xF4, 0x90, 0x80, 0x80] := by decide  -- above U+10FFFF

/-! ## `is_char_boundary` as implemented = "the prefix is a whole number of encoded characters" -/

/-- for every valid string and EVERY index (in or out of range): the byte test of
    `core::str::is_char_boundary` (index 0, index len, or `(b as i8) >= -0x40`) holds iff some prefix of
    the characters encodes to exactly `i` bytes -/
theorem isCharBoundary_iff (cs : List Char) (i : Nat) :
    isCharBoundary (encode cs) i = true ↔ CharPos cs i := Str.isCharBoundary_iff cs i

/-- a valid string cut at a boundary gives two valid strings -/
theorem valid_split (l : Bytes) (i : Nat) (hv : Valid l) (hb : isCharBoundary l i = true) :
    Valid (l.take i) ∧ Valid (l.drop i) := by
  obtain ⟨cs, rfl⟩ := hv
  obtain ⟨a, b, _, h1, h2, _⟩ := charPos_split ((Str.isCharBoundary_iff cs i).1 hb)
  exact ⟨⟨a, h1⟩, ⟨b, h2⟩⟩

/-- an index beyond the length is never a boundary -/
theorem isCharBoundary_out_of_range (l : Bytes) (i : Nat) (h : l.length < i) : isCharBoundary l i = false :=
  isCharBoundary_false_of_gt l i h

example : isCharBoundary (encode ['a', 'é']) 2 = false := by decide
example : CharPos ['a', 'é'] 1 := ⟨['a'], ['é'], rfl, by decide⟩

/-! ## push, push_str -/

/-- `push`: refines `cs ++ [ch]`; never panics; a fixed string fails iff `ch` does not fit -/
theorem push_refines (al : Alloc) (s : State) (ch : Char) (cs : List Char) (h : Holds s cs) :
    GrowsToText al s ch.utf8Size (push al s ch) (cs ++ [ch]) := push_spec al s ch cs h

theorem push_valid (al : Alloc) (s : State) (ch : Char) (h : WF s) : AllWF (push al s ch) := by
  obtain ⟨cs, hc⟩ := (wf_iff s).1 h
  exact (push_spec al s ch cs hc).allWF h

theorem push_str_refines (al : Alloc) (s : State) (t cs : List Char) (h : Holds s cs) :
    GrowsToText al s (encode t).length (pushStr al s (encode t)) (cs ++ t) := pushStr_spec al s t cs h

theorem push_str_valid (al : Alloc) (s : State) (str : Bytes) (h : WF s) (hv : Valid str) :
    AllWF (pushStr al s str) := by
  obtain ⟨cs, hc⟩ := (wf_iff s).1 h
  obtain ⟨t, rfl⟩ := hv
  exact (pushStr_spec al s t cs hc).allWF h

example : Holds (State.ofBytes (encode ['a', 'é']) 8) ['a', 'é'] := holds_ofBytes _ _
example : push .fixed (State.ofBytes (encode ['a', 'é']) 4) '€' = .err (State.ofBytes (encode ['a', 'é']) 4) := by decide

/-! ## insert, insert_str -/

/-- `insert` at a character position: refines `cs1 ++ [ch] ++ cs2` -/
theorem insert_refines (al : Alloc) (s : State) (idx : Nat) (ch : Char) (cs1 cs2 : List Char)
    (h : Holds s (cs1 ++ cs2)) (hi : (encode cs1).length = idx) :
    GrowsToText al s ch.utf8Size (insert al s idx ch) (cs1 ++ [ch] ++ cs2) :=
  insert_spec al s idx ch cs1 cs2 h hi

/-- `insert` panics iff the index is out of range or not on a character boundary; the string is unchanged -/
theorem insert_panics_iff (al : Alloc) (s : State) (idx : Nat) (ch : Char) (cs : List Char) (h : Holds s cs) :
    (insert al s idx ch).isPanic = true ↔ ¬ CharPos cs idx := by
  constructor
  · intro hp hc
    obtain ⟨a, b, rfl, hl⟩ := hc
    have := (insert_spec al s idx ch a b h hl).not_panic
    rw [this] at hp; simp at hp
  · intro hn; rw [insert_panic al s idx ch cs h hn]; rfl

theorem insert_valid (al : Alloc) (s : State) (idx : Nat) (ch : Char) (h : WF s) : AllWF (insert al s idx ch) := by
  obtain ⟨cs, hc⟩ := (wf_iff s).1 h
  by_cases hp : CharPos cs idx
  · obtain ⟨a, b, rfl, hl⟩ := hp
    exact (insert_spec al s idx ch a b hc hl).allWF h
  · rw [insert_panic al s idx ch cs hc hp]; exact h

theorem insert_str_refines (al : Alloc) (s : State) (idx : Nat) (t cs1 cs2 : List Char)
    (h : Holds s (cs1 ++ cs2)) (hi : (encode cs1).length = idx) :
    GrowsToText al s (encode t).length (insertStr al s idx (encode t)) (cs1 ++ t ++ cs2) :=
  insertStr_spec al s idx t cs1 cs2 h hi

theorem insert_str_panics_iff (al : Alloc) (s : State) (idx : Nat) (t cs : List Char) (h : Holds s cs) :
    (insertStr al s idx (encode t)).isPanic = true ↔ ¬ CharPos cs idx := by
  constructor
  · intro hp hc
    obtain ⟨a, b, rfl, hl⟩ := hc
    have := (insertStr_spec al s idx t a b h hl).not_panic
    rw [this] at hp; simp at hp
  · intro hn; rw [insertStr_panic al s idx _ cs h hn]; rfl

theorem insert_str_valid (al : Alloc) (s : State) (idx : Nat) (str : Bytes) (h : WF s) (hv : Valid str) :
    AllWF (insertStr al s idx str) := by
  obtain ⟨cs, hc⟩ := (wf_iff s).1 h
  obtain ⟨t, rfl⟩ := hv
  by_cases hp : CharPos cs idx
  · obtain ⟨a, b, rfl, hl⟩ := hp
    exact (insertStr_spec al s idx t a b hc hl).allWF h
  · rw [insertStr_panic al s idx _ cs hc hp]; exact h

example : insert .exact (State.ofBytes (encode ['a', 'é'])) 2 'b' = .panic (State.ofBytes (encode ['a', 'é'])) := by decide

/-! ## pop, truncate, clear, remove -/

/-- `pop` returns the last character (none for the empty string) and the string holds the rest; never panics -/
theorem pop_refines (s : State) (cs : List Char) (h : Holds s cs) :
    (cs = [] ∧ pop s = .ok none s) ∨
    (∃ cs' c s', cs = cs' ++ [c] ∧ pop s = .ok (some c) s' ∧ Holds s' cs') := by
  rcases eq_nil_or_snoc cs with rfl | ⟨cs', c, rfl⟩
  · exact Or.inl ⟨rfl, pop_nil s h⟩
  · obtain ⟨s', hp, hh, _⟩ := pop_snoc s cs' c h
    exact Or.inr ⟨cs', c, s', rfl, hp, hh⟩

theorem pop_valid (s : State) (h : WF s) : AllWF (pop s) := by
  obtain ⟨cs, hc⟩ := (wf_iff s).1 h
  rcases pop_refines s cs hc with ⟨_, hp⟩ | ⟨cs', c, s', _, hp, hh⟩
  · rw [hp]; exact h
  · rw [hp]; exact hh.wf

/-- `truncate` to a character position keeps exactly the prefix -/
theorem truncate_refines (s : State) (n : Nat) (cs1 cs2 : List Char) (h : Holds s (cs1 ++ cs2))
    (hn : (encode cs1).length = n) : ∃ s', truncate s n = .ok () s' ∧ Holds s' cs1 := by
  obtain ⟨s', ht, hh, _⟩ := truncate_ok s n cs1 cs2 h hn
  exact ⟨s', ht, hh⟩

/-- `truncate` is a no-op beyond the length and panics iff `new_len ≤ len` is not a character boundary -/
theorem truncate_panics_iff (s : State) (n : Nat) (cs : List Char) (h : Holds s cs) :
    (truncate s n).isPanic = true ↔ (n ≤ s.len ∧ ¬ CharPos cs n) := by
  by_cases hle : n ≤ s.len
  · by_cases hc : CharPos cs n
    · obtain ⟨a, b, rfl, hl⟩ := hc
      obtain ⟨s', ht, _⟩ := truncate_ok s n a b h hl
      rw [ht]; simp [Res.isPanic]; intro _; exact ⟨a, b, rfl, hl⟩
    · rw [truncate_panic s n cs h hle hc]; simp [Res.isPanic, hle, hc]
  · rw [truncate_beyond s n (by omega)]; simp [Res.isPanic, hle]

theorem truncate_beyond_len (s : State) (n : Nat) (hn : s.len < n) : truncate s n = .ok () s :=
  truncate_beyond s n hn

theorem truncate_valid (s : State) (n : Nat) (h : WF s) : AllWF (truncate s n) := by
  obtain ⟨cs, hc⟩ := (wf_iff s).1 h
  by_cases hle : n ≤ s.len
  · by_cases hp : CharPos cs n
    · obtain ⟨a, b, rfl, hl⟩ := hp
      obtain ⟨s', ht, hh, _⟩ := truncate_ok s n a b hc hl
      rw [ht]; exact hh.wf
    · rw [truncate_panic s n cs hc hle hp]; exact h
  · rw [truncate_beyond s n (by omega)]; exact h

theorem clear_refines (s : State) : ∃ s', clear s = .ok () s' ∧ Holds s' [] := by
  obtain ⟨s', hc, hh, _⟩ := clear_spec s
  exact ⟨s', hc, hh⟩

/-- `remove` at the start of character `c` returns `c` and closes the gap -/
theorem remove_refines (s : State) (idx : Nat) (c : Char) (cs1 cs2 : List Char)
    (h : Holds s (cs1 ++ c :: cs2)) (hi : (encode cs1).length = idx) :
    ∃ s', remove s idx = .ok c s' ∧ Holds s' (cs1 ++ cs2) := by
  obtain ⟨s', hr, hh, _⟩ := remove_ok s idx c cs1 cs2 h hi
  exact ⟨s', hr, hh⟩

/-- `remove` panics iff `idx ≥ len` or `idx` is not on a character boundary; the string is unchanged -/
theorem remove_panics_iff (s : State) (idx : Nat) (cs : List Char) (h : Holds s cs) :
    (remove s idx).isPanic = true ↔ (¬ CharPos cs idx ∨ s.len ≤ idx) := by
  by_cases hc : CharPos cs idx
  · by_cases hlt : s.len ≤ idx
    · rw [remove_panic s idx cs h (Or.inr hlt)]; simp [Res.isPanic, hlt]
    · obtain ⟨a, b, rfl, hl⟩ := hc
      cases b with
      | nil =>
        exfalso; apply hlt; rw [h.len]; simp [← hl]
      | cons c b =>
        obtain ⟨s', hr, _⟩ := remove_ok s idx c a b h hl
        rw [hr]; simp [Res.isPanic, hlt]; exact ⟨a, c :: b, rfl, hl⟩
  · rw [remove_panic s idx cs h (Or.inl hc)]; simp [Res.isPanic, hc]

theorem remove_valid (s : State) (idx : Nat) (h : WF s) : AllWF (remove s idx) := by
  obtain ⟨cs, hc⟩ := (wf_iff s).1 h
  by_cases hp : (¬ CharPos cs idx ∨ s.len ≤ idx)
  · rw [remove_panic s idx cs hc hp]; exact h
  · have hp' : CharPos cs idx ∧ idx < s.len := by
      constructor
      · exact Classical.not_not.1 (fun hn => hp (Or.inl hn))
      · exact Nat.lt_of_not_le (fun hn => hp (Or.inr hn))
    obtain ⟨⟨a, b, rfl, hl⟩, hlt⟩ := hp'
    cases b with
    | nil => exfalso; rw [hc.len] at hlt; simp [← hl] at hlt
    | cons c b =>
      obtain ⟨s', hr, hh, _⟩ := remove_ok s idx c a b hc hl
      rw [hr]; exact hh.wf

example : remove (State.ofBytes (encode ['a', 'é', 'b'])) 1 = .ok 'é' { buf := [0x61, 0x62, 0xA9, 0x62], len := 2 } := by decide

/-! ## retain — every predicate oracle, including the executions in which the predicate panics -/

/-- for EVERY oracle (any mixture of `keep`/`drop`, a panic at any call): `retain` returns `ok` with
    the kept characters, or — the predicate panicked — unwinds with exactly the characters kept before
    the panic (the `SetLenOnDrop` guard); the oracle list is consumed one outcome per character in the
    original order (`retainSpec`) -/
theorem retain_refines (s : State) (cs : List Char) (oracle : List Outcome) (h : Holds s cs) :
    ∃ s', retain s oracle = (if (retainSpec cs oracle).2 then Res.panic s' else Res.ok () s') ∧
      Holds s' (retainSpec cs oracle).1 := by
  obtain ⟨s', hr, hh, _⟩ := retain_spec s cs oracle h
  exact ⟨s', hr, hh⟩

/-- `retain` panics iff the predicate does -/
theorem retain_panics_iff (s : State) (cs : List Char) (oracle : List Outcome) (h : Holds s cs) :
    (retain s oracle).isPanic = true ↔ (retainSpec cs oracle).2 = true := by
  obtain ⟨s', hr, _⟩ := retain_spec s cs oracle h
  rw [hr]; split <;> simp_all [Res.isPanic]

/-- valid UTF-8 after `retain`, ALSO when the predicate panicked -/
theorem retain_valid (s : State) (oracle : List Outcome) (h : WF s) : AllWF (retain s oracle) := by
  obtain ⟨cs, hc⟩ := (wf_iff s).1 h
  obtain ⟨s', hr, hh, _⟩ := retain_spec s cs oracle hc
  rw [hr]; split <;> exact hh.wf

/-- without a panicking outcome `retain` is `List.filter` by the oracle -/
theorem retainSpec_no_panic (cs : List Char) (keep : List Bool) (hk : keep.length = cs.length) :
    retainSpec cs (keep.map fun b => if b then Outcome.keep else Outcome.drop) =
      (((cs.zip keep).filter (·.2)).map (·.1), false) := by
  induction cs generalizing keep with
  | nil => rfl
  | cons c cs ih =>
    cases keep with
    | nil => simp at hk
    | cons b bs =>
      cases b with
      | true =>
        rw [List.map_cons, retainSpec_keep _ _ _ (by rfl)]
        simp only [List.tail_cons, ih bs (by simpa using hk)]
        simp
      | false =>
        rw [List.map_cons, retainSpec_drop _ _ _ (by rfl)]
        simp only [List.tail_cons, ih bs (by simpa using hk)]
        simp

example : retainSpec ['a', 'é', 'b'] [.keep, .drop, .panic] = (['a'], true) := by decide
example : retain (State.ofBytes (encode ['a', 'é', 'b'])) [.drop, .keep, .panic] =
    .panic { buf := [0xC3, 0xA9, 0xA9, 0x62], len := 2 } := by decide

/-! ## drain, replace_range, extend_from_within -/

/-- range resolution (`slice::range`): the explicit form `start..end` -/
theorem sliceRange_explicit (a b len : Nat) :
    sliceRange (.incl a) (.excl b) len = if a ≤ b ∧ b ≤ len then some (a, b) else none :=
  sliceRange_incl_excl a b len

/-- a resolved range is ordered and in bounds -/
theorem sliceRange_bounds (sb eb : Bound) (len a b : Nat) (h : sliceRange sb eb len = some (a, b)) :
    a ≤ b ∧ b ≤ len := sliceRange_some h

/-- `drain(range)` over the characters `cs2` (yielding the first `k` of them before the drop)
    removes exactly `cs2` -/
theorem drain_refines (s : State) (sb eb : Bound) (k a b : Nat) (cs1 cs2 cs3 : List Char)
    (h : Holds s (cs1 ++ cs2 ++ cs3)) (hr : sliceRange sb eb s.len = some (a, b))
    (ha : (encode cs1).length = a) (hb : (encode (cs1 ++ cs2)).length = b) :
    ∃ s', drain s sb eb k = .ok (cs2.take k) s' ∧ Holds s' (cs1 ++ cs3) := by
  obtain ⟨s', hd, hh, _⟩ := drain_ok s sb eb k a b cs1 cs2 cs3 h hr ha hb
  exact ⟨s', hd, hh⟩

theorem drain_panics_iff (s : State) (sb eb : Bound) (k : Nat) (cs : List Char) (h : Holds s cs) :
    (drain s sb eb k).isPanic = true ↔ RangeBad cs sb eb s.len := by
  rcases rangeBad_or_split cs sb eb s.len with hbad | ⟨a, b, c1, c2, c3, hr, rfl, h1, h2⟩
  · rw [drain_panic s sb eb k cs h hbad]; simp [Res.isPanic, hbad]
  · obtain ⟨s', hd, _⟩ := drain_ok s sb eb k a b c1 c2 c3 h hr h1 h2
    rw [hd]; simp only [Res.isPanic, Bool.false_eq_true, false_iff]; exact not_rangeBad_of_split hr rfl h1 h2

theorem drain_valid (s : State) (sb eb : Bound) (k : Nat) (h : WF s) : AllWF (drain s sb eb k) := by
  obtain ⟨cs, hc⟩ := (wf_iff s).1 h
  rcases rangeBad_or_split cs sb eb s.len with hbad | ⟨a, b, c1, c2, c3, hr, rfl, h1, h2⟩
  · rw [drain_panic s sb eb k cs hc hbad]; exact h
  · obtain ⟨s', hd, hh, _⟩ := drain_ok s sb eb k a b c1 c2 c3 hc hr h1 h2
    rw [hd]; exact hh.wf

/-- `replace_range(range, t)` over the characters `cs2`: the string holds `cs1 ++ t ++ cs3`; a
    fixed string fails (unchanged) iff the replacement is longer than the range by more than the
    spare capacity -/
theorem replace_range_refines (al : Alloc) (s : State) (sb eb : Bound) (t : List Char) (a b : Nat)
    (cs1 cs2 cs3 : List Char) (h : Holds s (cs1 ++ cs2 ++ cs3)) (hr : sliceRange sb eb s.len = some (a, b))
    (ha : (encode cs1).length = a) (hb : (encode (cs1 ++ cs2)).length = b) :
    GrowsToText al s ((encode t).length - (encode cs2).length) (replaceRange al s sb eb (encode t))
      (cs1 ++ t ++ cs3) := replaceRange_ok al s sb eb t a b cs1 cs2 cs3 h hr ha hb

theorem replace_range_panics_iff (al : Alloc) (s : State) (sb eb : Bound) (t cs : List Char) (h : Holds s cs) :
    (replaceRange al s sb eb (encode t)).isPanic = true ↔ RangeBad cs sb eb s.len := by
  rcases rangeBad_or_split cs sb eb s.len with hbad | ⟨a, b, c1, c2, c3, hr, rfl, h1, h2⟩
  · rw [replaceRange_panic al s sb eb _ cs h hbad]; simp [Res.isPanic, hbad]
  · rw [(replaceRange_ok al s sb eb t a b c1 c2 c3 h hr h1 h2).not_panic]
    simp only [Bool.false_eq_true, false_iff]; exact not_rangeBad_of_split hr rfl h1 h2

theorem replace_range_valid (al : Alloc) (s : State) (sb eb : Bound) (str : Bytes) (h : WF s) (hv : Valid str) :
    AllWF (replaceRange al s sb eb str) := by
  obtain ⟨cs, hc⟩ := (wf_iff s).1 h
  obtain ⟨t, rfl⟩ := hv
  rcases rangeBad_or_split cs sb eb s.len with hbad | ⟨a, b, c1, c2, c3, hr, rfl, h1, h2⟩
  · rw [replaceRange_panic al s sb eb _ cs hc hbad]; exact h
  · exact (replaceRange_ok al s sb eb t a b c1 c2 c3 hc hr h1 h2).allWF h

/-- `extend_from_within(range)` appends a copy of the characters `cs2` -/
theorem extend_from_within_refines (al : Alloc) (s : State) (sb eb : Bound) (a b : Nat)
    (cs1 cs2 cs3 : List Char) (h : Holds s (cs1 ++ cs2 ++ cs3)) (hr : sliceRange sb eb s.len = some (a, b))
    (ha : (encode cs1).length = a) (hb : (encode (cs1 ++ cs2)).length = b) :
    GrowsToText al s (encode cs2).length (extendFromWithin al s sb eb) (cs1 ++ cs2 ++ cs3 ++ cs2) :=
  extendFromWithin_ok al s sb eb a b cs1 cs2 cs3 h hr ha hb

theorem extend_from_within_panics_iff (al : Alloc) (s : State) (sb eb : Bound) (cs : List Char) (h : Holds s cs) :
    (extendFromWithin al s sb eb).isPanic = true ↔ RangeBad cs sb eb s.len := by
  rcases rangeBad_or_split cs sb eb s.len with hbad | ⟨a, b, c1, c2, c3, hr, rfl, h1, h2⟩
  · rw [extendFromWithin_panic al s sb eb cs h hbad]; simp [Res.isPanic, hbad]
  · rw [(extendFromWithin_ok al s sb eb a b c1 c2 c3 h hr h1 h2).not_panic]
    simp only [Bool.false_eq_true, false_iff]; exact not_rangeBad_of_split hr rfl h1 h2

theorem extend_from_within_valid (al : Alloc) (s : State) (sb eb : Bound) (h : WF s) :
    AllWF (extendFromWithin al s sb eb) := by
  obtain ⟨cs, hc⟩ := (wf_iff s).1 h
  rcases rangeBad_or_split cs sb eb s.len with hbad | ⟨a, b, c1, c2, c3, hr, rfl, h1, h2⟩
  · rw [extendFromWithin_panic al s sb eb cs hc hbad]; exact h
  · exact (extendFromWithin_ok al s sb eb a b c1 c2 c3 hc hr h1 h2).allWF h

example : RangeBad ['a', 'é'] (.incl 1) (.excl 2) 3 := Or.inr ⟨1, 2, by decide, Or.inr (by
  rw [← Str.isCharBoundary_iff]; decide)⟩
example : ¬ RangeBad ['a', 'é'] (.incl 1) (.excl 3) 3 :=
  not_rangeBad_of_split (a := 1) (b := 3) (cs1 := ['a']) (cs2 := ['é']) (cs3 := []) (by decide) rfl (by decide) (by decide)

/-! ## split_off (in place, range form) — `BumpBox<str>`, `FixedBumpString`, `BumpString` -/

/-- for BOTH orders of the checks (`f = true`: after the fix, `f = false`: before): a range on
    character boundaries is split off in place — the returned string holds `cs2`, the string keeps
    `cs1 ++ cs3`, and the two capacities add up to the old capacity -/
theorem splitOff_refines (f : Bool) (s : State) (sb eb : Bound) (a b : Nat) (cs1 cs2 cs3 : List Char)
    (h : Holds s (cs1 ++ cs2 ++ cs3)) (hr : sliceRange sb eb s.len = some (a, b))
    (ha : (encode cs1).length = a) (hb : (encode (cs1 ++ cs2)).length = b) :
    ∃ o s', splitOff f s sb eb = .ok o s' ∧ Holds o cs2 ∧ Holds s' (cs1 ++ cs3) ∧ o.cap + s'.cap = s.cap :=
  splitOff_ok f s sb eb a b cs1 cs2 cs3 h hr ha hb

/-- the code after the fix (`Str.c09aFixed = true`, what the driver runs): `split_off` panics
    exactly when the range does not resolve or an end is not on a character boundary -/
theorem splitOff_panics_iff (s : State) (sb eb : Bound) (cs : List Char) (h : Holds s cs) :
    (splitOff true s sb eb).isPanic = true ↔ RangeBad cs sb eb s.len := by
  rcases rangeBad_or_split cs sb eb s.len with hbad | ⟨a, b, c1, c2, c3, hr, rfl, h1, h2⟩
  · rcases hbad with hn | ⟨a, b, hr, hp⟩
    · rw [splitOff_panic_range true s sb eb hn]; simp [Res.isPanic, RangeBad, hn]
    · rw [splitOff_panic_fixed s sb eb a b cs h hr hp]
      simp only [Res.isPanic, true_iff]; exact Or.inr ⟨a, b, hr, hp⟩
  · obtain ⟨o, s', hs, _⟩ := splitOff_ok true s sb eb a b c1 c2 c3 h hr h1 h2
    rw [hs]; simp only [Res.isPanic, Bool.false_eq_true, false_iff]; exact not_rangeBad_of_split hr rfl h1 h2

/-- the full statement for the order BEFORE the fix (kept as the target; it is FALSE, see
    `splitOff_c09a_target_false`) -/
def splitOff_panics_iff_target : Prop :=
  ∀ (s : State) (sb eb : Bound) (cs : List Char), Holds s cs →
    ((splitOff false s sb eb).isPanic = true ↔ RangeBad cs sb eb s.len)

/-- the order before the fix satisfies "panics iff" only with finding C09-a carved out: the range
    must not be an empty range strictly inside the string -/
theorem splitOff_panics_iff_partial (s : State) (sb eb : Bound) (cs : List Char) (h : Holds s cs)
    (hne : ∀ a, sliceRange sb eb s.len = some (a, a) → a = 0 ∨ a = s.len) :
    (splitOff false s sb eb).isPanic = true ↔ RangeBad cs sb eb s.len := by
  rcases rangeBad_or_split cs sb eb s.len with hbad | ⟨a, b, c1, c2, c3, hr, rfl, h1, h2⟩
  · rcases hbad with hn | ⟨a, b, hr, hp⟩
    · rw [splitOff_panic_range false s sb eb hn]; simp [Res.isPanic, RangeBad, hn]
    · have hne' : ¬ (a = b ∧ a ≠ 0 ∧ b ≠ s.len) := by
        rintro ⟨rfl, h0, hl⟩
        rcases hne a hr with h | h
        · exact h0 h
        · exact hl h
      rw [splitOff_panic_asis s sb eb a b cs h hr hp hne']
      simp only [Res.isPanic, true_iff]; exact Or.inr ⟨a, b, hr, hp⟩
  · obtain ⟨o, s', hs, _⟩ := splitOff_ok false s sb eb a b c1 c2 c3 h hr h1 h2
    rw [hs]; simp only [Res.isPanic, Bool.false_eq_true, false_iff]; exact not_rangeBad_of_split hr rfl h1 h2

/-- witness of finding C09-a on the order before the fix: `"aé".split_off(2..2)` — index 2 is inside
    `é` — returned the empty string and left the string alone instead of panicking -/
theorem splitOff_c09a_witness :
    splitOff false (State.ofBytes (encode ['a', 'é'])) (.incl 2) (.excl 2) =
        .ok { buf := [], len := 0 } (State.ofBytes (encode ['a', 'é'])) ∧
      RangeBad ['a', 'é'] (.incl 2) (.excl 2) 3 ∧
      (splitOff true (State.ofBytes (encode ['a', 'é'])) (.incl 2) (.excl 2)).isPanic = true := by
  refine ⟨by decide, Or.inr ⟨2, 2, by decide, Or.inl ?_⟩, by decide⟩
  rw [← Str.isCharBoundary_iff]; decide

/-- hence the full "panics iff" statement is false for the order before the fix -/
theorem splitOff_c09a_target_false : ¬ splitOff_panics_iff_target := by
  intro ht
  have h := ht (State.ofBytes (encode ['a', 'é'])) (.incl 2) (.excl 2) ['a', 'é'] (holds_ofBytes _ _)
  have hw := splitOff_c09a_witness
  rw [hw.1] at h
  have := h.2 hw.2.1
  simp [Res.isPanic] at this

/-- valid UTF-8 in BOTH strings after `split_off`, for both orders, every range, also on a panic
    (the order before the fix never broke validity: it only failed to panic) -/
theorem splitOff_valid (f : Bool) (s : State) (sb eb : Bound) (h : WF s) :
    match splitOff f s sb eb with
    | .ok o s' => WF o ∧ WF s'
    | .err s' => WF s'
    | .panic s' => WF s'
    | .fault => False := by
  obtain ⟨cs, hc⟩ := (wf_iff s).1 h
  rcases rangeBad_or_split cs sb eb s.len with hbad | ⟨a, b, c1, c2, c3, hr, rfl, h1, h2⟩
  · rcases hbad with hn | ⟨a, b, hr, hp⟩
    · rw [splitOff_panic_range f s sb eb hn]; exact h
    · cases f with
      | true => rw [splitOff_panic_fixed s sb eb a b cs hc hr hp]; exact h
      | false =>
        by_cases hne : a = b ∧ a ≠ 0 ∧ b ≠ s.len
        · obtain ⟨rfl, h0, hl⟩ := hne
          rw [splitOff_asis_empty s sb eb a hr h0 hl]
          exact ⟨⟨by simp [WFL], [], rfl⟩, h⟩
        · rw [splitOff_panic_asis s sb eb a b cs hc hr hp hne]; exact h
  · obtain ⟨o, s', hs, ho, hs', _⟩ := splitOff_ok f s sb eb a b c1 c2 c3 hc hr h1 h2
    rw [hs]; exact ⟨ho.wf, hs'.wf⟩

/-- the model switch is on the repaired order -/
theorem c09a_switch : c09aFixed = true := rfl

/-! ## C strings: text up to the first NUL (or all of it) + exactly one NUL -/

/-- `alloc_cstr_from_str` -/
theorem alloc_cstr_from_str_eq (src : Bytes) : allocCstrFromStr src = cstrSpec src := allocCstrFromStr_eq src

/-- `alloc_cstr` copies a C string (text without NUL + NUL) unchanged, which is its own `cstrSpec` -/
theorem alloc_cstr_eq (text : Bytes) (h : text.count 0 = 0) : allocCstr (text ++ [0]) = cstrSpec (text ++ [0]) := by
  unfold allocCstr cstrSpec
  have : ∀ l : Bytes, l.count 0 = 0 → (l ++ [0]).takeWhile (· != 0) = l := by
    intro l hl
    induction l with
    | nil => rfl
    | cons b r ih =>
      have hb : b ≠ 0 := by
        intro hb; subst hb; simp at hl
      have hb' : (b != 0) = true := by simpa using hb
      have hr : r.count 0 = 0 := by
        rw [List.count_cons] at hl; simp [hb] at hl; exact hl
      simp only [List.cons_append, List.takeWhile_cons, hb', ↓reduceIte, ih hr]
  rw [this text h]

/-- the specified result contains exactly one NUL and ends with it -/
theorem cstr_one_nul (text : Bytes) : (cstrSpec text).count 0 = 1 ∧ (cstrSpec text).getLast? = some 0 :=
  ⟨cstrSpec_count text, cstrSpec_getLast text⟩

/-- `into_cstr` of a (growable) string: returns `cstrSpec` of the contents; the boxed string the
    bytes are taken from holds valid UTF-8 (the characters up to the first NUL character + NUL) -/
theorem into_cstr_refines (s : State) (cs : List Char) (h : Holds s cs) :
    ∃ s', intoCstr .exact s = .ok (cstrSpec s.bytes) s' ∧ Holds s' (cstrText cs) ∧ s'.bytes = cstrSpec s.bytes :=
  intoCstr_spec s cs h

/-- `alloc_cstr_fmt`: a literal format string goes through `alloc_cstr_from_str`; otherwise the
    pieces `core::fmt` writes are pushed and `into_cstr` is applied to their concatenation -/
theorem alloc_cstr_fmt_literal (lit : Bytes) (ps : List Bytes) :
    ∃ s', allocCstrFmt (some lit) ps = .ok (cstrSpec lit) s' := allocCstrFmt_literal lit ps

theorem alloc_cstr_fmt_pieces (ps : List (List Char)) :
    ∃ s', allocCstrFmt none (ps.map encode) = .ok (cstrSpec (encode ps.flatten)) s' := allocCstrFmt_pieces ps

example : cstrSpec [0x61, 0x00, 0x62] = [0x61, 0x00] := by decide
example : allocCstrFromStr (encode ['a', 'é']) = [0x61, 0xC3, 0xA9, 0x00] := by decide

/-! ## capacity of growable strings: `len ≤ capacity`, promises kept, no reallocation while they suffice -/

/-- `len ≤ capacity` is part of well-formedness (so it holds after every operation of every history, `run_valid`) -/
theorem len_le_capacity (s : State) (h : WF s) : s.len ≤ s.cap := h.1

/-- `generic_reserve` requests NO growth from the allocator while `additional ≤ capacity - len` -/
theorem reserve_no_realloc (al : Alloc) (s : State) (n : Nat) (h : n ≤ s.cap - s.len) : reserve al s n = some s :=
  reserve_no_grow al s n h

/-- `reserve(n)`: contents untouched; afterwards at least `n` spare bytes (the promise); the new
    capacity is the old one if the room sufficed, else `max(2·cap, len+n, 8)` for a `BumpString`
    (`generic_grow_amortized`), the arena's grant (≥ that) for a `MutBumpString`; a fixed string fails -/
theorem reserve_refines (al : Alloc) (s : State) (n : Nat) (cs : List Char) (h : Holds s cs) :
    if al.isFixed = true ∧ s.cap - s.len < n then reserveOp al s n = .err s
    else ∃ s', reserveOp al s n = .ok () s' ∧ Holds s' cs ∧ n ≤ s'.cap - s'.len ∧ CapAfter al s n s'.cap :=
  reserveOp_spec al s n cs h

/-- `reserve_exact(n)`: a growing `BumpString` gets exactly `len + n` -/
theorem reserve_exact_refines (al : Alloc) (s : State) (n : Nat) (cs : List Char) (h : Holds s cs) :
    if al.isFixed = true ∧ s.cap - s.len < n then reserveExactOp al s n = .err s
    else ∃ s', reserveExactOp al s n = .ok () s' ∧ Holds s' cs ∧ n ≤ s'.cap - s'.len ∧
      (n ≤ s.cap - s.len → s' = s) ∧ (s.cap - s.len < n → al = .exact → s'.cap = s.len + n) :=
  reserveExactOp_spec al s n cs h

/-- `with_capacity(c)`: empty, capacity ≥ `c` (exactly `c` for `BumpString` / `FixedBumpString`) -/
theorem with_capacity_promise (al : Alloc) (c : Nat) :
    Holds (withCapacity al c) [] ∧ c ≤ (withCapacity al c).cap ∧
      ((∀ g, al ≠ .atLeast g) → (withCapacity al c).cap = c) := withCapacity_spec al c

/-- `from_str_in(text)` holds the text; a `BumpString` gets exactly `len` bytes -/
theorem from_str_refines (al : Alloc) (cs : List Char) :
    Holds (fromStr al (encode cs)) cs ∧ ((∀ g, al ≠ .atLeast g) → (fromStr al (encode cs)).cap = (encode cs).length) :=
  fromStr_spec al cs

/-- every growing operation obeys the same capacity rule (`CapAfter` inside `GrowsToText`): e.g. a
    `push` into sufficient room leaves the capacity alone, a growing `push` on a `BumpString`
    yields exactly `max(2·cap, len + size, 8)` -/
theorem push_capacity (s : State) (ch : Char) (cs : List Char) (h : Holds s cs) :
    ∃ s', push .exact s ch = .ok () s' ∧
      s'.cap = if ch.utf8Size ≤ s.cap - s.len then s.cap else amortizedCap s.cap (s.len + ch.utf8Size) := by
  have hp := push_spec .exact s ch cs h
  unfold GrowsToText at hp
  rw [if_neg (by simp [Alloc.isFixed])] at hp
  obtain ⟨s', hr, _, hca⟩ := hp
  refine ⟨s', hr, ?_⟩
  split
  · rename_i hle; exact hca.1 hle
  · rename_i hnle; exact hca.2 (by omega)

/-- a run of `push_str`s that fits into the spare room (what `reserve` / `with_capacity` promised)
    never reallocates: same capacity after all of them (for every allocator kind) -/
theorem no_realloc_while_promise_suffices (al : Alloc) (ts : List (List Char)) (s : State) (cs : List Char)
    (h : Holds s cs) (hfit : (ts.map fun t => (encode t).length).sum ≤ s.cap - s.len) :
    ∃ s', ts.foldl (fun (r : Option State) t => r.bind fun s => (pushStr al s (encode t)).state?) (some s) = some s' ∧
      Holds s' (cs ++ ts.flatten) ∧ s'.cap = s.cap := pushStr_many_no_realloc al ts s cs h hfit

example : (withCapacity .exact 5).cap = 5 := by decide
example : ∃ s', push .exact (State.ofBytes (encode ['a']) 1) 'é' = .ok () s' ∧ s'.cap = 8 := ⟨_, rfl, by decide⟩

/-! ## extend_zeroed, fmt::Write, Extend, shrink_to / shrink_to_fit, consuming conversions -/

/-- `extend_zeroed(n)` / `try_extend_zeroed(n)`: appends `n` NUL characters; a fixed string without
    the room reports the allocation error and is unchanged (bytes AND length) -/
theorem extend_zeroed_refines (al : Alloc) (s : State) (n : Nat) (cs : List Char) (h : Holds s cs) :
    GrowsToText al s n (extendZeroed al s n) (cs ++ List.replicate n (Char.ofNat 0)) := extendZeroed_spec al s n cs h

theorem extend_zeroed_valid (al : Alloc) (s : State) (n : Nat) (h : WF s) : AllWF (extendZeroed al s n) := by
  obtain ⟨cs, hc⟩ := (wf_iff s).1 h
  exact (extendZeroed_spec al s n cs hc).allWF h

/-- `fmt::Write::write_str` / `write_char` are `try_push_str` / `try_push` (so `push_str_refines`,
    `push_refines` and their validity theorems apply verbatim) -/
theorem write_str_eq (al : Alloc) (s : State) (str : Bytes) : writeStr al s str = pushStr al s str := rfl
theorem write_char_eq (al : Alloc) (s : State) (c : Char) : writeChar al s c = push al s c := rfl

/-- `Extend<char>` / `Extend<&char>`: everything is appended, or — only a FIXED string — the
    operation stops with an allocation error after the first `k` characters (or before any), and
    the string holds exactly the old contents plus those `k` characters: valid UTF-8 either way -/
theorem extend_chars_refines (al : Alloc) (xs : List Char) (s : State) (cs : List Char) (h : Holds s cs) :
    ∃ k s', ((extendChars al s xs = .ok () s' ∧ k = xs.length) ∨
             (extendChars al s xs = .err s' ∧ al.isFixed = true ∧ (k < xs.length ∨ s' = s))) ∧
            Holds s' (cs ++ xs.take k) := extendChars_spec al xs s cs h

theorem extend_chars_growable (al : Alloc) (hal : al.isFixed = false) (xs : List Char) (s : State) (cs : List Char)
    (h : Holds s cs) : ∃ s', extendChars al s xs = .ok () s' ∧ Holds s' (cs ++ xs) :=
  extendChars_growable al hal xs s cs h

/-- `Extend<&str>` / repeated `+=` -/
theorem extend_strs_refines (al : Alloc) (ps : List (List Char)) (s : State) (cs : List Char) (h : Holds s cs) :
    ∃ k s', ((extendStrs al s (ps.map encode) = .ok () s' ∧ k = ps.length) ∨
             (extendStrs al s (ps.map encode) = .err s' ∧ al.isFixed = true ∧ k < ps.length)) ∧
            Holds s' (cs ++ (ps.take k).flatten) := extendStrs_spec al ps s cs h

/-- `shrink_to(n)`, for BOTH answers of the arena: the contents and the length never change,
    `len ≤ capacity` still holds, the capacity is either unchanged or exactly `max(len, n)` (only if
    the arena shrank and that is smaller), never grows and never drops below `min(n, old capacity)` -/
theorem shrink_to_refines (s : State) (n : Nat) (arenaShrinks : Bool) (cs : List Char) (h : Holds s cs) :
    ∃ s', shrinkTo s n arenaShrinks = .ok () s' ∧ Holds s' cs ∧ s'.len = s.len ∧
      (s'.cap = s.cap ∨ (arenaShrinks = true ∧ max s.len n < s.cap ∧ s'.cap = max s.len n)) ∧
      s'.cap ≤ s.cap ∧ min n s.cap ≤ s'.cap := shrinkTo_spec s n arenaShrinks cs h

/-- `shrink_to_fit` is `shrink_to(0)` -/
theorem shrink_to_fit_eq (s : State) (b : Bool) : shrinkToFit s b = shrinkTo s 0 b := shrinkToFit_eq s b

/-- `into_str` / `into_boxed_str` / `into_fixed_string` / `into_bytes` / `into_string` hand out
    exactly the contents (whether or not the `shrink_to_fit` inside `into_boxed_str` succeeds) -/
theorem into_bytes_refines (s : State) (b : Bool) (cs : List Char) (h : Holds s cs) : intoBytes s b = encode cs :=
  intoBytes_eq s b cs h

example : shrinkTo (State.ofBytes (encode ['a', 'é']) 10) 5 true = .ok () { buf := [0x61, 0xC3, 0xA9, 0, 0], len := 3 } := by decide
example : extendChars .fixed (State.ofBytes (encode ['a']) 4) ['b', '€', 'c'] =
    .err { buf := [0x61, 0x62, 0, 0], len := 2 } := by decide

/-- `clone()` of a `BumpString`: the clone holds the same characters (valid UTF-8), in a NEW
    allocation of exactly `len` bytes (capacity = len, whatever the original's capacity) -/
theorem clone_refines (s : State) (cs : List Char) (h : Holds s cs) :
    Holds (cloneStr s) cs ∧ (cloneStr s).cap = s.len ∧ (cloneStr s).len = s.len := cloneStr_spec s cs h

example : cloneStr (State.ofBytes (encode ['a', 'é']) 10) = { buf := [0x61, 0xC3, 0xA9], len := 3 } := by decide

/-! ## checked constructors -/

/-- `from_utf8` accepts exactly the valid byte strings, and the accepted string IS the input, unchanged -/
theorem from_utf8_accepts (v s : State) (h : fromUtf8 v = some s) : s = v ∧ Valid s.bytes := fromUtf8_some h

theorem from_utf8_rejects_iff (v : State) : fromUtf8 v = none ↔ ¬ Valid v.bytes := fromUtf8_none_iff v

/-- so a constructed string is well formed -/
theorem from_utf8_wf (v s : State) (hv : v.len ≤ v.cap) (h : fromUtf8 v = some s) : WF s := by
  obtain ⟨rfl, hval⟩ := fromUtf8_some h
  exact ⟨hv, hval⟩

/-- `char::decode_utf16` as modelled inverts the UTF-16 encoding (surrogate pairs included) -/
theorem decode_utf16_encode (cs : List Char) : decodeUtf16 (encodeUtf16 cs) = cs.map some := decodeUtf16_encode cs

/-- `from_utf16` (and the lossy variant) of well-formed UTF-16 holds exactly the characters -/
theorem from_utf16_refines (al : Alloc) (hal : al.isFixed = false) (cs : List Char) :
    ∃ s', fromUtf16 al (encodeUtf16 cs) = some (.ok () s') ∧ Holds s' cs := fromUtf16_encode al hal cs

theorem from_utf16_lossy_refines (al : Alloc) (hal : al.isFixed = false) (cs : List Char) :
    ∃ s', fromUtf16Lossy al (encodeUtf16 cs) = some (.ok () s') ∧ Holds s' cs := fromUtf16Lossy_encode al hal cs

/-- for ARBITRARY UTF-16 input (lone surrogates included): whatever string `from_utf16` /
    `from_utf16_lossy` produce is valid UTF-8 -/
theorem from_utf16_valid (al : Alloc) (v : List UInt16) (r : Res Unit) (h : fromUtf16 al v = some r) : AllWF r :=
  pushDecoded_wf al _ _ (withCapacity_spec al _).1.wf r h

theorem from_utf16_lossy_valid (al : Alloc) (v : List UInt16) (r : Res Unit) (h : fromUtf16Lossy al v = some r) :
    AllWF r := pushDecoded_wf al _ _ (withCapacity_spec al _).1.wf r h

example : encodeUtf16 ['a', '😀'] = [0x61, 0xD83D, 0xDE00] := by decide
example : decodeUtf16 [0xD83D, 0x61] = [none, some 'a'] := by decide
example : fromUtf8 (State.ofBytes [0x61, 0xC3]) = none := by decide

/-! ## histories -/

/-- one operation (arbitrary arguments, any outcome — also a panic or an allocation error, after
    which the caller keeps using the string) takes a well-formed string to a well-formed string
    and never reaches undefined behaviour; for every allocator kind and both `split_off` orders -/
theorem step_valid (al : Alloc) (f : Bool) (s : State) (op : Op) (h : WF s) :
    ∃ s', step al f s op = some s' ∧ WF s' := by
  have key : ∀ {α : Type} (g : α → Ret State) (r : Res α), AllWF r → ∃ s', (ofRes g r).next = some s' ∧ WF s' := by
    intro α g r hr
    cases r with
    | ok v s => exact ⟨s, rfl, hr⟩
    | err s => exact ⟨s, rfl, hr⟩
    | panic s => exact ⟨s, rfl, hr⟩
    | fault => exact absurd hr (by simp [AllWF])
  unfold step
  cases op with
  | push c => exact key _ _ (push_valid al s c h)
  | pushStr t => exact key _ _ (push_str_valid al s _ h (valid_encode t))
  | insert i c => exact key _ _ (insert_valid al s i c h)
  | insertStr i t => exact key _ _ (insert_str_valid al s i _ h (valid_encode t))
  | remove i => exact key _ _ (remove_valid s i h)
  | pop => exact key _ _ (pop_valid s h)
  | truncate n => exact key _ _ (truncate_valid s n h)
  | clear =>
    obtain ⟨s', hc, hh⟩ := clear_refines s
    exact ⟨s', by simp [stepOut, hc, ofRes, Out.next], hh.wf⟩
  | retain o => exact key _ _ (retain_valid s o h)
  | drain sb eb k => exact key _ _ (drain_valid s sb eb k h)
  | replaceRange sb eb t => exact key _ _ (replace_range_valid al s sb eb _ h (valid_encode t))
  | extendFromWithin sb eb => exact key _ _ (extend_from_within_valid al s sb eb h)
  | splitOff sb eb other =>
    have := splitOff_valid f s sb eb h
    simp only [stepOut]
    cases hr : splitOff f s sb eb with
    | ok o s' =>
      rw [hr] at this
      cases other with
      | true => exact ⟨o, rfl, this.1⟩
      | false => exact ⟨s', rfl, this.2⟩
    | err s' => rw [hr] at this; exact ⟨s', rfl, this⟩
    | panic s' => rw [hr] at this; exact ⟨s', rfl, this⟩
    | fault => rw [hr] at this; exact absurd this (by simp)
  | reserve n =>
    obtain ⟨cs, hc⟩ := (wf_iff s).1 h
    have := reserveOp_spec al s n cs hc
    simp only [stepOut]
    split at this
    · rw [this]; exact ⟨s, rfl, h⟩
    · obtain ⟨s', hr, hh, _⟩ := this; rw [hr]; exact ⟨s', rfl, hh.wf⟩
  | reserveExact n =>
    obtain ⟨cs, hc⟩ := (wf_iff s).1 h
    have := reserveExactOp_spec al s n cs hc
    simp only [stepOut]
    split at this
    · rw [this]; exact ⟨s, rfl, h⟩
    · obtain ⟨s', hr, hh, _⟩ := this; rw [hr]; exact ⟨s', rfl, hh.wf⟩

/-- **every history**: from a well-formed string, any finite sequence of operations with any
    arguments and any allocator behaviour (continuing after panics and allocation errors, continuing
    with either half after `split_off`) never reaches undefined behaviour and ends in a well-formed
    string — valid UTF-8 and `len ≤ capacity` after every operation of the sequence -/
theorem run_valid (f : Bool) (s : State) (ops : List (Alloc × Op)) (h : WF s) :
    ∃ s', run f s ops = some s' ∧ WF s' := by
  induction ops generalizing s with
  | nil => exact ⟨s, rfl, h⟩
  | cons p ops ih =>
    obtain ⟨al, op⟩ := p
    obtain ⟨s1, h1, hw⟩ := step_valid al f s op h
    simp only [run, h1]
    exact ih s1 hw

/-- clone and original are INDEPENDENT: whatever single operation (any arguments, any outcome) is
    applied to the clone, the original still holds its characters — and vice versa — and the string
    operated on is well formed afterwards.  (In the byte model strings are values, so independence is
    structural; on the implementation it is what the `CLOBBERED` / other-live-string oracles test.) -/
theorem clone_independent (al : Alloc) (f : Bool) (s : State) (cs : List Char) (op : Op) (h : Holds s cs) :
    (∃ c', step al f (cloneStr s) op = some c' ∧ WF c') ∧ Holds s cs ∧
    (∃ s', step al f s op = some s' ∧ WF s') ∧ Holds (cloneStr s) cs :=
  ⟨step_valid al f (cloneStr s) op (cloneStr_spec s cs h).1.wf, h, step_valid al f s op h.wf, (cloneStr_spec s cs h).1⟩

/-- every string a constructor produces from text is well formed -/
theorem ofBytes_wf (cs : List Char) (cap : Nat) : WF (State.ofBytes (encode cs) cap) := (holds_ofBytes cs cap).wf

example : ∃ s', run true (State.ofBytes (encode ['a', 'é']) 6)
    [(.fixed, .insert 2 'x'), (.fixed, .push '€'), (.fixed, .push '€'), (.fixed, .retain [.keep, .panic]),
     (.fixed, .splitOff (.incl 1) .unbounded true)] = some s' ∧ WF s' :=
  run_valid _ _ _ (ofBytes_wf _ _)

/-! ## histories refine the `List Char` specification -/

/-- ONE operation, any arguments, any allocator kind: the outcome on the byte model and the outcome
    of the specification `specStep` (what `String` does; byte indices; `split_off` in its range form)
    are of the same kind — `ok` / allocation error / PANIC, so the model panics exactly when the
    specification is undefined —, the returned values are equal, and the string afterwards holds the
    specified characters (also after a panic) -/
theorem step_refines_spec (al : Alloc) (s : State) (cs : List Char) (op : Op) (h : Holds s cs) :
    OutRel (specStep al (s.cap - s.len) cs op) (stepOut al true s op) := step_refines al s cs op h

/-- **every history** is simulated in lock step by the specification (the only thing the
    specification takes from the model is the spare capacity, which only FIXED strings look at) -/
theorem run_refines (s : State) (cs : List Char) (ops : List (Alloc × Op)) (h : Holds s cs) :
    Simulates true s cs ops := run_simulates s cs ops h

/-- for growable strings (`BumpString`, `MutBumpString`, any grants) the specification run does not
    depend on the model at all: the trace of outcomes of the byte model and the trace of
    `specRun` (pure `List Char`) are related position by position -/
theorem run_refines_spec_growable (s : State) (cs : List Char) (ops : List (Alloc × Op)) (h : Holds s cs)
    (hg : ∀ p ∈ ops, p.1.isFixed = false) :
    TraceRel (specRun cs (ops.map (·.2))) (modelRun true s ops) := run_refines_growable s cs ops h hg

/-- the specification's splitting function is exactly `CharPos` -/
theorem splitAtByte_iff (cs : List Char) (i : Nat) (a b : List Char) :
    splitAtByte cs i = some (a, b) ↔ cs = a ++ b ∧ (encode a).length = i := by
  constructor
  · exact splitAtByte_some
  · rintro ⟨rfl, rfl⟩; exact splitAtByte_of a b

example : specStep .exact 0 ['a', 'é', 'b'] (.remove 1) = .ok ['a', 'b'] (.char 'é') := by decide
example : specStep .exact 0 ['a', 'é', 'b'] (.remove 2) = .panic ['a', 'é', 'b'] := by decide
example : specStep .fixed 1 ['a'] (.push 'é') = .err ['a'] := by decide

end C09
