/-
  Props/C17.lean — property C17: all allocation entry points are interchangeable.

  In the model an entry point is (a) a set of layout hints (`Hints.sized` = `alloc_sized::<T>`,
  `Hints.array` = `alloc_slice::<T>`, `Hints.custom` = the generic `Layout` path / `Allocator`
  interface / trait objects), (b) a wrapper (`Via`), (c) for `reserve` the typed method versus the
  `dyn BumpAllocatorCore` implementation.  Part 1: the hints never matter.  Part 2: the wrappers never
  matter.  Part 3: `reserve` — the typed and the `dyn` implementation agree when the request fits
  the current chunk and are observably DIFFERENT otherwise (finding C17-a, witness included).
-/
import BumpProof.Arena.Step
import BumpProof.Props.C11
import BumpProof.Lemmas.CtrlBase
import BumpProof.Lemmas.CtrlEx
import BumpProof.Lemmas.CtrlState
import BumpProof.Lemmas.CtrlReserve

namespace C17
open Arena Rs Ctrl Lemmas

/-! ## Part 1: typed fast paths = generic layout path -/

/-- on the current chunk: all truthful hints give the same answer and the same new state, for every
    kind of request (allocate, prepare, prepare a range) -/
theorem tryCur_hint_independent (cfg : Cfg) (k : Kind) (s : State) (L : Layout) (h1 h2 : Hints)
    (hv : C11.Valid cfg.up (bumpProps cfg s L h1)) (ht : Truthful L h2) :
    tryCur cfg k s L h1 = tryCur cfg k s L h2 := by
  have hv2 := valid_hints hv ht
  cases hup : cfg.up
  · rw [hup] at hv hv2
    cases k
    · rw [tryCur_alloc_down hup hv, tryCur_alloc_down hup hv2]
    · rw [tryCur_prepare_down hup hv, tryCur_prepare_down hup hv2]
    · rw [tryCur_range_down hup hv, tryCur_range_down hup hv2]
  · rw [hup] at hv hv2
    cases k
    · rw [tryCur_alloc_up hup hv, tryCur_alloc_up hup hv2]
    · rw [tryCur_prepare_up hup hv, tryCur_prepare_up hup hv2]
    · rw [tryCur_range_up hup hv, tryCur_range_up hup hv2]

/-- fast path + slow path (`RawBump::alloc` / `alloc_sized` / `alloc_slice` / `prepare_*`) -/
theorem allocGeneric_hint_independent (cfg : Cfg) (k : Kind) (s : State) (L : Layout) (h1 h2 hs : Hints)
    (hv : C11.Valid cfg.up (bumpProps cfg s L h1)) (ht : Truthful L h2) :
    allocGeneric cfg k s L h1 hs = allocGeneric cfg k s L h2 hs := by
  unfold allocGeneric
  rw [tryCur_hint_independent cfg k s L h1 h2 hv ht]

/-- In a history: `try_alloc_sized` / `try_alloc_slice` / `try_allocate_layout` (any truthful hints)
    and `Allocator::allocate` produce the same result AND the same successor state (same address,
    same chunks, same positions, same ghost block). -/
theorem step_allocLayout_eq_allocate (cfg : Cfg) (g : GState) (L : Layout) (h : Hints)
    (hv : C11.Valid cfg.up (bumpProps cfg g.s L Hints.custom)) (ht : Truthful L h) :
    stepCore cfg g (.allocLayout L h) = stepCore cfg g (.allocate L false .plain) := by
  have hsma : (h.sma && L.size % L.align != 0) = false := by
    cases hs : h.sma
    · rfl
    · have := Nat.mod_eq_zero_of_dvd (ht hs)
      simp [this]
  rw [stepCore, stepCore]
  unfold alloc
  rw [hsma, allocGeneric_hint_independent cfg .alloc g.s L h Hints.custom Hints.custom
    (valid_hints hv ht) (truthful_custom L)]
  cases validLayout L with
  | error e => rfl
  | ok u =>
    cases noPrepared g.s with
    | error e => rfl
    | ok u2 =>
      simp only [R_ok_bind, Bool.false_eq_true, ↓reduceIte]
      cases allocGeneric cfg .alloc g.s L Hints.custom Hints.custom with
      | error e => rfl
      | ok sr =>
        obtain ⟨s1, r⟩ := sr
        cases r with
        | error e => rfl
        | ok v => obtain ⟨p, q⟩ := v; rfl

/-- two typed entry points against each other (e.g. `alloc_sized::<[T; N]>` vs `alloc_slice::<T>`) -/
theorem step_allocLayout_hints (cfg : Cfg) (g : GState) (L : Layout) (h1 h2 : Hints)
    (hv : C11.Valid cfg.up (bumpProps cfg g.s L Hints.custom)) (ht1 : Truthful L h1) (ht2 : Truthful L h2) :
    stepCore cfg g (.allocLayout L h1) = stepCore cfg g (.allocLayout L h2) := by
  rw [step_allocLayout_eq_allocate cfg g L h1 hv ht1, step_allocLayout_eq_allocate cfg g L h2 hv ht2]

/-! ## Part 2: wrappers and references forward unchanged -/

/-- `allocate` through `WithoutDealloc` / `WithoutShrink` / plain: identical -/
theorem step_allocate_via (cfg : Cfg) (g : GState) (L : Layout) (z : Bool) (via1 via2 : Via) :
    stepCore cfg g (.allocate L z via1) = stepCore cfg g (.allocate L z via2) := by
  rw [stepCore, stepCore]

/-- `grow` / `grow_zeroed` through any wrapper: identical -/
theorem step_grow_via (cfg : Cfg) (g : GState) (b : Nat) (L : Layout) (z : Bool) (via1 via2 : Via) :
    stepCore cfg g (.grow b L z via1) = stepCore cfg g (.grow b L z via2) := by
  rw [stepCore, stepCore]

/-- `deallocate` through `WithoutShrink` is the plain `deallocate` -/
theorem step_deallocate_withoutShrink (cfg : Cfg) (g : GState) (b : Nat) :
    stepCore cfg g (.deallocate b .withoutShrink) = stepCore cfg g (.deallocate b .plain) := by
  rw [stepCore, stepCore]
  rfl

/-- `shrink` through `WithoutDealloc` is the plain `shrink` -/
theorem step_shrink_withoutDealloc (cfg : Cfg) (g : GState) (b : Nat) (L : Layout) :
    stepCore cfg g (.shrink b L .withoutDealloc) = stepCore cfg g (.shrink b L .plain) := by
  rw [stepCore, stepCore]
  rfl

/-! ## Part 3: `reserve` — typed method versus `dyn BumpAllocatorCore` -/

/-- when the request fits the free space of the current chunk both implementations do nothing -/
theorem reserve_agree_when_fits (cfg : Cfg) (s : State) (i : Nat) (c : Chunk) (n : Nat)
    (hcur : s.cur = .chunk i) (hget : s.chunks[i]? = some c)
    (hv : C11.Valid cfg.up (bumpProps cfg s { size := n, align := 1 } Hints.custom))
    (hle : (freeRange cfg s).1 ≤ (freeRange cfg s).2)
    (hn : n ≤ c.remaining cfg) :
    reserve cfg s n = .ok (s, .ok ()) ∧ reserveDyn cfg s n = .ok (s, .ok ()) :=
  ⟨reserve_fits ⟨hcur, hget⟩ hn, reserveDyn_fits ⟨hcur, hget⟩ hv hle hn⟩

theorem step_reserve_agree_when_fits (cfg : Cfg) (g : GState) (i : Nat) (c : Chunk) (n : Nat)
    (hcur : g.s.cur = .chunk i) (hget : g.s.chunks[i]? = some c)
    (hv : C11.Valid cfg.up (bumpProps cfg g.s { size := n, align := 1 } Hints.custom))
    (hle : (freeRange cfg g.s).1 ≤ (freeRange cfg g.s).2)
    (hn : n ≤ c.remaining cfg) :
    stepCore cfg g (.reserve n true) = stepCore cfg g (.reserve n false) := by
  obtain ⟨h1, h2⟩ := reserve_agree_when_fits cfg g.s i c n hcur hget hv hle hn
  rw [stepCore, stepCore]
  simp only [h1, h2, ↓reduceIte, Bool.false_eq_true]

/-- **Known deviation C17-a.**  When the request does NOT fit the current chunk but a later chunk has
    room, the typed `reserve` leaves the current chunk alone, whereas the trait-object `reserve`
    (built on `prepare_allocation`) makes the later chunk current: the two entry points are
    observably different (the rest of the current chunk is skipped).  Concrete witness: a 256-byte
    chunk with 16 free bytes followed by an empty 512-byte chunk, `reserve(64)`. -/
theorem reserve_dyn_differs :
    ∃ (cfg : Cfg) (s s1 s2 : State) (n : Nat),
      reserve cfg s n = .ok (s1, .ok ()) ∧ reserveDyn cfg s n = .ok (s2, .ok ()) ∧
      s1.cur = s.cur ∧ s2.cur ≠ s.cur ∧ curPos cfg s1 = curPos cfg s ∧ curPos cfg s2 ≠ curPos cfg s :=
  ⟨wCfg, wState, wState, { wState with chunks := [wChunk0, wChunk1.resetPos wCfg], cur := .chunk 1 }, 64,
    by rfl, by rfl, rfl, by decide, rfl, by decide⟩

/-! ## Non-vacuity: the hypotheses hold on concrete states (`Lemmas/CtrlEx.lean`) -/

example : tryCur wCfg .alloc exUp exL Hints.sized = tryCur wCfg .alloc exUp exL Hints.custom :=
  tryCur_hint_independent _ _ _ _ _ _ (exUp_valid exL exL_valid _ (fun _ => ⟨3, rfl⟩)) (truthful_custom _)

example : stepCore wCfg ⟨exUp, []⟩ (.allocLayout exL Hints.array) = stepCore wCfg ⟨exUp, []⟩ (.allocate exL false .plain) :=
  step_allocLayout_eq_allocate _ _ _ _ (exUp_valid exL exL_valid _ (truthful_custom _)) (fun _ => ⟨3, rfl⟩)

/-- 16 bytes are free in the current chunk of `wState`: a reserve of 16 fits -/
example : reserve wCfg wState 16 = .ok (wState, .ok ()) ∧ reserveDyn wCfg wState 16 = .ok (wState, .ok ()) :=
  reserve_agree_when_fits wCfg wState 0 wChunk0 16 rfl rfl
    (wState_valid _ ⟨⟨0, by decide, rfl⟩, by decide⟩ _ (truthful_custom _)) (by decide) (by decide)

end C17
