/-
  Props/C08.lean — property C08: the vector types behave like `std::vec::Vec` on every operation.

  Abstraction: `Vec.abs v` = the ids of the first `len` slots (what `Deref<Target = [T]>` shows).
  For every modelled operation, every WELL-FORMED vector (any length, any spare capacity), every
  argument and every non-panicking oracle: the model does not fault, `abs` of the result is the plain
  `List` function that `std::vec::Vec` implements (`filter`, `take`, `eraseIdx`, `insertIdx`-like
  `take i ++ x :: drop i`, `++`, …), the returned value agrees, out-of-range arguments make the model
  panic EXACTLY when std's precondition fails (and then change nothing), `len ≤ cap` afterwards.
  Capacity (`reserve_*` theorems): a reservation that fits returns the very same buffer (no
  reallocation while the promise suffices), a successful one leaves `cap ≥ len + additional`, a
  `FixedBumpVec` refuses exactly when it is too full and never changes its buffer, `BumpVec` never refuses.
  Documented differences built into the specs: `retain` hands out `&mut T` (irrelevant for ids),
  `split_off` takes a range and works in place (see `Props/C16.lean`).
  Also here: `BumpVec::splice` (`splice_refines`: like `Vec::splice`, whatever `size_hint` the source reports),
  `BumpVec::map` (`vec_map_refines`: contents, order and the documented capacity on both code paths), and
  the HISTORY-LEVEL refinement `history_refines` (`Coll/Run.lean`): every finite sequence of the 18
  single-vector operations yields the contents of the same sequence run on plain lists.
-/
import BumpProof.Coll.Spec
import BumpProof.Lemmas.CollWF
import BumpProof.Lemmas.CollRetain
import BumpProof.Lemmas.CollDedup
import BumpProof.Lemmas.CollBasic
import BumpProof.Lemmas.CollGrow
import BumpProof.Lemmas.CollPerm
import BumpProof.Lemmas.CollStd
import BumpProof.Lemmas.CollDrain
import BumpProof.Lemmas.CollExtract
import BumpProof.Lemmas.CollRev
import BumpProof.Lemmas.CollRevPerm
import BumpProof.Coll.Run
import BumpProof.Lemmas.CollSplice
import BumpProof.Lemmas.CollMapVec
import BumpProof.Props.C06

namespace C08
open Coll

/-- `keptBy` with the answers of a pure predicate is `List.filter` -/
theorem keptBy_pred (p : Id → Bool) (xs : List Id) :
    keptBy (· != 0) xs (xs.map fun x => if p x then 1 else 0) = xs.filter p := by
  induction xs with
  | nil => rfl
  | cons x xs ih =>
    simp only [List.map_cons, keptBy_cons, List.filter_cons, ih]
    cases p x <;> simp

/-! ## retain / dedup_by -/

/-- `retain` with answers `bs` (no panic): the survivors are those whose answer was `true`, in order;
    capacity and buffer are untouched -/
theorem retain_refines (v : Vec) (hv : v.WF) (bs : List Nat) (o : List Outcome) (hb : bs.length = v.len) :
    ∃ r, retain [] v (rets bs ++ o) = .ok r ∧ r.vec.abs = keptBy (· != 0) v.abs bs ∧ r.exit = .ret () ∧ r.rest = o ∧
      r.vec.len ≤ r.vec.cap ∧ r.vec.cap = v.cap := by
  have ⟨hs, hl⟩ := hv.slots_eq
  have heq := retain_eq [] v v.abs (rets bs ++ o) hs hl
  have hsp : retainSpec [] v.abs (rets bs ++ o) = _ := sieve_rets (· != 0) v.abs [] bs o (by omega)
  rw [hsp] at heq
  have hle : (keptBy (· != 0) v.abs bs).length ≤ v.cap := by
    have := sieve_length_le (· != 0) [] [] v.abs (rets bs ++ o)
    have hsp' : sieve (· != 0) [] [] v.abs (rets bs ++ o) = _ := sieve_rets (· != 0) v.abs [] bs o (by omega)
    rw [hsp'] at this
    have := hv.len_le_cap
    simp at *; omega
  generalize hr : ({ final := [] ++ keptBy (· != 0) v.abs bs, dropped := keptBy (fun b => !(b != 0)) v.abs bs, exit := Exit.ret (), rest := o } : SpecOut Unit) = r at heq
  have hfin : r.final = keptBy (· != 0) v.abs bs := by rw [← hr]; simp
  have ⟨ha, hl', hc⟩ := after_facts v r (by rw [hfin]; exact hle)
  refine ⟨_, heq, by rw [ha, hfin], by rw [← hr], by rw [← hr], by rw [hl', hc, hfin]; exact hle, hc⟩

/-- from a refinement equation to the observable facts -/
theorem refines_of_eq {α : Type} {res : M (Out α)} {v' : Vec} {r : SpecOut α} {rest : List Outcome}
    (hres : res = .ok ⟨v'.after r, r.exit, rest⟩) (hle : r.final.length ≤ v'.cap) :
    ∃ out, res = .ok out ∧ out.vec.abs = r.final ∧ out.exit = r.exit ∧ out.rest = rest ∧
      out.vec.len ≤ out.vec.cap ∧ out.vec.cap = v'.cap := by
  have ⟨ha, hl', hc⟩ := after_facts v' r hle
  exact ⟨_, hres, ha, rfl, rfl, by rw [hl', hc]; exact hle, hc⟩

/-- `dedup_by` with answers `bs` (`bs[k]` = `same_bucket(xs[k+1], previous survivor)`): the first
    element stays, later ones stay iff their answer was `false` -/
theorem dedup_by_refines (v : Vec) (hv : v.WF) (x : Id) (xs : List Id) (hx : v.abs = x :: xs)
    (bs : List Nat) (o : List Outcome) (hb : bs.length = xs.length) :
    ∃ r, dedupBy [] v (rets bs ++ o) = .ok r ∧ r.vec.abs = x :: keptBy (· == 0) xs bs ∧ r.exit = .ret () ∧ r.rest = o ∧
      r.vec.len ≤ r.vec.cap ∧ r.vec.cap = v.cap := by
  have ⟨hs, hl⟩ := hv.slots_eq
  have heq := dedupBy_eq [] v v.abs (rets bs ++ o) hs hl
  rw [hx] at heq
  have hsp : dedupSpec [] (x :: xs) (rets bs ++ o) = _ := sieve_rets (· == 0) xs [x] bs o hb
  have hlen := sieve_length_le (· == 0) [] [x] xs (rets bs ++ o)
  simp only [dedupSpec] at hsp heq
  rw [hsp] at heq hlen
  have hcap := hv.len_le_cap
  rw [hx] at hl
  have := refines_of_eq heq (by simp at hlen hl ⊢; omega)
  simpa using this

/-- WHICH pairs `dedup_by(same_bucket)` hands to the callback: exactly those `Vec::dedup_by` does — every element
    after the first is compared with the last element RETAINED so far (not with its predecessor in the original
    sequence); for every oracle (incl. panics) and every set of panicking destructors -/
theorem dedup_by_calls (bombs : List Id) (v : Vec) (hv : v.WF) (x : Id) (xs : List Id) (hx : v.abs = x :: xs) (o : List Outcome) :
    dedupCalls bombs v o = dedupCallsSpec bombs x xs o := by
  have ⟨hs, hl⟩ := hv.slots_eq
  rw [hx] at hs hl
  exact dedupCalls_eq bombs v x xs o hs hl

/-- `[1,2,3]`, the callback answers "same" for the first call: 2 is removed and 3 is then compared with 1 (the last
    retained element), not with 2 -/
example : dedupCalls [] (Vec.mk' [1, 2, 3] 0) [.ret 1, .ret 0] = [(2, 1), (3, 1)] := by decide

/-- `dedup_by_key(key)` with keys `ks` (two per comparison: `key(cur)`, `key(prev)`): as `dedup_by` with the
    answers `key(cur) == key(prev)` -/
theorem dedup_by_key_refines (v : Vec) (hv : v.WF) (x : Id) (xs : List Id) (hx : v.abs = x :: xs)
    (ks : List (Nat × Nat)) (hb : ks.length = xs.length) :
    ∃ r, dedupByKey [] v (rets (ks.flatMap fun p => [p.1, p.2])) = .ok r ∧
      r.vec.abs = x :: keptBy (· == 0) xs (ks.map fun p => if p.1 = p.2 then 1 else 0) ∧ r.exit = .ret () := by
  have hpair : ∀ ks : List (Nat × Nat), pairUp (rets (ks.flatMap fun p => [p.1, p.2])) = rets (ks.map fun p => if p.1 = p.2 then 1 else 0) := by
    intro ks
    induction ks with
    | nil => rfl
    | cons p ks ih => simp only [List.flatMap_cons, rets, List.map_append, List.map_cons, List.map_nil, List.cons_append, List.nil_append, pairUp]; simp only [rets] at ih; rw [ih]
  obtain ⟨r, h1, h2, h3, -, -, -⟩ := dedup_by_refines v hv x xs hx (ks.map fun (p : Nat × Nat) => if p.1 = p.2 then 1 else 0) [] (by simpa using hb)
  have hp := dedupByKey_pair [] v (rets (ks.flatMap fun p => [p.1, p.2]))
  rw [hpair ks] at hp
  simp only [List.append_nil] at h1
  obtain ⟨r', e1, e2, e3⟩ := proj_ok hp h1
  exact ⟨r', e1, by rw [e2]; exact h2, by rw [e3]; exact h3⟩

/-! ## truncate / clear / pop / remove / swap_remove -/

theorem truncate_refines (v : Vec) (hv : v.WF) (n : Nat) :
    ∃ r, truncate [] v n = .ok r ∧ r.vec.abs = v.abs.take n ∧ r.exit = .ret () ∧
      r.vec.len ≤ r.vec.cap ∧ r.vec.cap = v.cap := by
  have ⟨hs, hl⟩ := hv.slots_eq
  have hcap := hv.len_le_cap
  have heq := truncate_eq [] v v.abs n hs hl
  have hlen := truncateSpec_len [] v.abs n
  obtain ⟨r, h1, h2, h3, -, h5, h6⟩ := refines_of_eq heq (by omega)
  refine ⟨r, h1, ?_, ?_, h5, h6⟩
  · rw [h2]; unfold truncateSpec; split
    · rw [List.take_of_length_le (by omega)]
    · rfl
  · rw [h3]; unfold truncateSpec; split <;> simp [dropExit]

theorem clear_refines (v : Vec) (hv : v.WF) :
    ∃ r, clear [] v = .ok r ∧ r.vec.abs = [] ∧ r.exit = .ret () ∧ r.vec.cap = v.cap := by
  have ⟨hs, hl⟩ := hv.slots_eq
  have heq := clear_eq [] v v.abs hs hl
  obtain ⟨r, h1, h2, h3, -, -, h6⟩ := refines_of_eq heq (by simp [clearSpec])
  exact ⟨r, h1, by simpa [clearSpec] using h2, by simpa [clearSpec, dropExit] using h3, h6⟩

theorem pop_refines (v : Vec) (hv : v.WF) :
    ∃ r, pop v = .ok r ∧ r.vec.abs = v.abs.dropLast ∧ r.exit = .ret v.abs.getLast? ∧
      r.vec.len ≤ r.vec.cap ∧ r.vec.cap = v.cap := by
  have ⟨hs, hl⟩ := hv.slots_eq
  have hcap := hv.len_le_cap
  have heq := pop_eq v v.abs hs hl
  have hlen := popSpec_len v.abs
  obtain ⟨r, h1, h2, h3, -, h5, h6⟩ := refines_of_eq heq (by omega)
  refine ⟨r, h1, ?_, ?_, h5, h6⟩
  · rw [h2]; unfold popSpec; split
    · rename_i h; simp at h; simp [h]
    · rfl
  · rw [h3]; unfold popSpec; split <;> simp_all

/-- `remove(index)`: panics exactly when `index ≥ len` (and then changes nothing), otherwise removes
    and returns the element at `index`, keeping the order of the others -/
theorem remove_refines (v : Vec) (hv : v.WF) (i : Nat) :
    ∃ r, remove v i = .ok r ∧ r.vec.len ≤ r.vec.cap ∧ r.vec.cap = v.cap ∧
      (match v.abs[i]? with
       | some x => r.vec.abs = v.abs.eraseIdx i ∧ r.exit = .ret x
       | none => r.vec.abs = v.abs ∧ r.exit = .panic false) := by
  have ⟨hs, hl⟩ := hv.slots_eq
  have hcap := hv.len_le_cap
  have heq := remove_eq v v.abs i hs hl
  have hlen := removeSpec_len v.abs i
  obtain ⟨r, h1, h2, h3, -, h5, h6⟩ := refines_of_eq heq (by omega)
  refine ⟨r, h1, h5, h6, ?_⟩
  rw [h2, h3]; unfold removeSpec
  split <;> simp_all

/-- `swap_remove(index)`: panics exactly when `index ≥ len`; otherwise the last element takes the place
    of the removed one -/
theorem swap_remove_refines (v : Vec) (hv : v.WF) (i : Nat) :
    ∃ r, swapRemove v i = .ok r ∧ r.vec.len ≤ r.vec.cap ∧ r.vec.cap = v.cap ∧
      (match v.abs[i]?, v.abs.getLast? with
       | some x, some l => r.vec.abs = (v.abs.set i l).dropLast ∧ r.exit = .ret x
       | _, _ => r.vec.abs = v.abs ∧ r.exit = .panic false) := by
  have ⟨hs, hl⟩ := hv.slots_eq
  have hcap := hv.len_le_cap
  have heq := swapRemove_eq v v.abs i hs hl
  have hlen := swapRemoveSpec_len v.abs i
  obtain ⟨r, h1, h2, h3, -, h5, h6⟩ := refines_of_eq heq (by omega)
  refine ⟨r, h1, h5, h6, ?_⟩
  rw [h2, h3]; unfold swapRemoveSpec
  split <;> simp_all

/-! ## capacity: reservations -/

/-- no reallocation while the capacity suffices: the reservation returns the very same vector -/
theorem reserve_fits (env : Env) (v : Vec) (n : Nat) (h : v.len + n ≤ v.cap) : reserve env v n = some v :=
  Coll.reserve_fits env v n h

/-- a successful reservation keeps contents, length and logs, never shrinks, and fulfils its promise -/
theorem reserve_promise (env : Env) (v v' : Vec) (hv : v.WF) (n : Nat) (h : reserve env v n = some v') :
    v'.abs = v.abs ∧ v'.len = v.len ∧ v.len + n ≤ v'.cap ∧ v.cap ≤ v'.cap ∧ v'.WF := by
  have ⟨hs, hl⟩ := hv.slots_eq
  have ⟨g, hc⟩ := reserve_some hs hl h
  have ⟨hwf, _, habs⟩ := g.wf hv
  exact ⟨habs, g.len, hc, g.cap, hwf⟩

/-- `FixedBumpVec`: refuses exactly when the request does not fit, and never changes the buffer -/
theorem reserve_fixed (env : Env) (v : Vec) (n : Nat) (hk : env.kind = .fixed) :
    reserve env v n = if n > v.cap - v.len then none else some v :=
  Coll.reserve_fixed env v n hk

/-- `BumpVec`: a reservation is refused EXACTLY when it does not fit and the capacity it would grow to has no
    layout ("capacity overflow", `maxCap`); allocation failure is not a model outcome (it aborts / errors in C07) -/
theorem reserve_bump_iff (env : Env) (v : Vec) (n : Nat) (hk : env.kind = .bump) :
    (reserve env v n).isSome = (decide (n ≤ v.cap - v.len) || env.fits (max (max (v.cap * 2) (v.len + n)) env.minCap)) := by
  unfold reserve growAmortized
  by_cases h : n > v.cap - v.len
  · have h' : ¬ n ≤ v.cap - v.len := by omega
    simp only [h, ↓reduceIte, hk, h', decide_false, Bool.false_or]
    cases env.fits (max (max (v.cap * 2) (v.len + n)) env.minCap) <;> simp
  · have h' : n ≤ v.cap - v.len := by omega
    simp [h, h']

/-- … in an unbounded address space (`maxCap = none`): never -/
theorem reserve_bump (env : Env) (v : Vec) (n : Nat) (hk : env.kind = .bump) (hm : env.maxCap = none) :
    (reserve env v n).isSome = true := by
  rw [reserve_bump_iff env v n hk]; simp [Env.fits, hm]

theorem reserveOne_bump (env : Env) (v : Vec) (hk : env.kind = .bump) (hm : env.maxCap = none) : roomOne env v = true := by
  unfold roomOne reserveOne growAmortized
  simp only [hk]
  split <;> simp [Env.fits, hm]

theorem reserveOne_fixed (env : Env) (v : Vec) (hk : env.kind = .fixed) : roomOne env v = decide (v.len < v.cap) := by
  unfold roomOne reserveOne
  simp only [hk]
  split <;> simp <;> omega

/-- `reserve_exact(additional)` on a `BumpVec`: never refused, the buffer is untouched when it fits,
    otherwise the capacity becomes EXACTLY `len + additional` -/
theorem reserve_exact_bump (env : Env) (v : Vec) (hv : v.WF) (n : Nat) (hk : env.kind = .bump) (hm : env.maxCap = none) :
    ∃ v', reserveExact env v n = some v' ∧ v'.abs = v.abs ∧ v'.len = v.len ∧
      (v.len + n ≤ v.cap → v' = v) ∧ (v.len + n > v.cap → v'.cap = v.len + n) := by
  have ⟨hs, hl⟩ := hv.slots_eq
  have hcap := hv.len_le_cap
  unfold reserveExact
  by_cases h : n > v.cap - v.len
  · simp only [h, ↓reduceIte, hk, Env.fits, hm]
    have ⟨g, hc⟩ := growTo_grows hs hl (v.len + n)
    refine ⟨_, rfl, Vec.WF.abs_eq g.slots (by rw [g.len]; exact hl), g.len, by omega, fun _ => by rw [hc]; omega⟩
  · simp only [h, ↓reduceIte]
    exact ⟨v, rfl, rfl, rfl, fun _ => rfl, by omega⟩

/-- `shrink_to_fit`: the contents never change and `len ≤ cap' ≤ cap`; if the allocator gives the block
    back (`capIn = len`), the capacity is exactly the length, otherwise nothing happens -/
theorem shrink_to_fit_keeps (env : Env) (v : Vec) (hv : v.WF) :
    (shrinkToFit env v).abs = v.abs ∧ (shrinkToFit env v).len = v.len ∧ (shrinkToFit env v).WF ∧
      v.len ≤ (shrinkToFit env v).cap ∧ (shrinkToFit env v).cap ≤ v.cap ∧
      ((shrinkToFit env v).cap = v.cap ∨ (shrinkToFit env v).cap = v.len) := by
  have ⟨hs, hl⟩ := hv.slots_eq
  have hcap := hv.len_le_cap
  unfold shrinkToFit
  split
  · exact ⟨rfl, rfl, hv, hcap, Nat.le_refl _, Or.inl rfl⟩
  · split
    · have htk : v.slots.take v.len = I v.abs := by
        rw [hs, ← hl]; exact List.take_left' (by simp)
      have hc : ({ v with slots := v.slots.take v.len } : Vec).cap = v.len := by
        simp [Vec.cap, htk, hl]
      have hs' : ({ v with slots := v.slots.take v.len } : Vec).slots = I v.abs ++ H (({ v with slots := v.slots.take v.len } : Vec).cap - v.len) := by
        rw [hc]; simp [htk]
      have habs : ({ v with slots := v.slots.take v.len } : Vec).abs = v.abs := Vec.WF.abs_eq hs' hl
      refine ⟨habs, rfl, ⟨⟨v.abs, hs', hl⟩, ?_⟩, by rw [hc]; exact Nat.le_refl _, by rw [hc]; exact hcap, Or.inr hc⟩
      have := hv.2
      rw [hv.total_eq] at this
      simpa [Vec.total, htk] using this
    · exact ⟨rfl, rfl, hv, hcap, Nat.le_refl _, Or.inl rfl⟩

/-- `shrink_to(min_capacity)`: contents and length are kept, the vector stays well-formed — in particular its
    buffer IS the (possibly moved) block the allocator handed back —, and the capacity either stays or becomes
    exactly `max(len, min_capacity)`; nothing happens unless that is below the old capacity -/
theorem shrink_to_keeps (env : Env) (v : Vec) (hv : v.WF) (m : Nat) :
    (shrinkTo env v m).abs = v.abs ∧ (shrinkTo env v m).len = v.len ∧ (shrinkTo env v m).WF ∧
      v.len ≤ (shrinkTo env v m).cap ∧ (shrinkTo env v m).cap ≤ v.cap ∧
      ((shrinkTo env v m).cap = v.cap ∨ (shrinkTo env v m).cap = max v.len m) ∧
      (v.cap ≤ max v.len m → shrinkTo env v m = v) := by
  have ⟨hs, hl⟩ := hv.slots_eq
  have hcap := hv.len_le_cap
  unfold shrinkTo
  simp only
  generalize hn : max v.len m = n
  have hnl : v.len ≤ n := by omega
  split
  · exact ⟨rfl, rfl, hv, hcap, Nat.le_refl _, Or.inl rfl, fun _ => rfl⟩
  · rename_i hlt
    split
    · have htk : v.slots.take n = I v.abs ++ H (n - v.len) := by
        rw [hs, List.take_append, ← hl]
        have h1 : List.take n (I v.abs) = I v.abs := List.take_of_length_le (by simp; omega)
        rw [h1]
        simp only [length_I]
        congr 1
        simp [H, List.take_replicate]
        omega
      have hc : ({ v with slots := v.slots.take n } : Vec).cap = n := by
        simp [Vec.cap, htk, hl]; omega
      have hs' : ({ v with slots := v.slots.take n } : Vec).slots = I v.abs ++ H (({ v with slots := v.slots.take n } : Vec).cap - v.len) := by
        rw [hc]; simp [htk]
      have habs : ({ v with slots := v.slots.take n } : Vec).abs = v.abs := Vec.WF.abs_eq hs' hl
      refine ⟨habs, rfl, ⟨⟨v.abs, hs', hl⟩, ?_⟩, by rw [hc]; exact hnl, by rw [hc]; omega, Or.inr hc, fun h => by omega⟩
      have := hv.2
      rw [hv.total_eq] at this
      simpa [Vec.total, htk] using this
    · exact ⟨rfl, rfl, hv, hcap, Nat.le_refl _, Or.inl rfl, fun _ => rfl⟩

/-- `Extend::extend(iter)` on a `BumpVec` behaves like `Vec::extend`: every item is appended in order, whatever
    `size_hint` the source reports — unless the up-front reservation for the CLAIMED length overflows: then the
    call panics and the vector is exactly as before -/
theorem extend_refines (env : Env) (hk : env.kind = .bump) (hm : env.maxCap = none) (v : Vec) (hv : v.WF) (src : List Id) (hint : Nat)
    (lie : Option Nat) (maxCap : Nat) :
    ∃ r, extendIter env v src hint lie maxCap = .ok r ∧
      (if capOverflow env maxCap v v.len (spliceLower hint lie src.length) then
         r.vec.abs = v.abs ∧ r.vec.len = v.len ∧ r.vec.cap = v.cap ∧ r.exit = .panic false
       else r.vec.abs = v.abs ++ src ∧ r.exit = .ret () ∧ r.vec.len ≤ r.vec.cap ∧ v.cap ≤ r.vec.cap) := by
  have ⟨hs, hl⟩ := hv.slots_eq
  have h := extendIter_bump env hk hm v v.abs src hint lie maxCap hs hl
  by_cases hov : capOverflow env maxCap v v.len (spliceLower hint lie src.length) = true
  · simp only [hov, ↓reduceIte] at h ⊢
    exact ⟨_, h, rfl, rfl, rfl, rfl⟩
  · simp only [hov, Bool.false_eq_true, ↓reduceIte] at h ⊢
    obtain ⟨v', e, hh, hc⟩ := h
    refine ⟨_, e, Vec.WF.abs_eq hh.slots hh.len, rfl, ?_, hc⟩
    have h1 := congrArg List.length hh.slots
    simp only [List.length_append, length_I, length_H] at h1
    have h2 : v'.slots.length = v'.cap := rfl
    have h3 := hh.len
    simp only [List.length_append] at h3
    show v'.len ≤ v'.cap
    omega

/-! ## push / insert / extend_from_slice_clone / resize -/

/-- `push`: with room the value is appended; a full `FixedBumpVec` panics and stays as it is -/
theorem push_refines (env : Env) (v : Vec) (hv : v.WF) (id : Id) :
    ∃ r, push env v id = .ok r ∧ r.vec.len ≤ r.vec.cap ∧
      (if roomOne env v then r.vec.abs = v.abs ++ [id] ∧ r.exit = .ret () else r.vec.abs = v.abs ∧ r.exit = .panic false) := by
  have ⟨hs, hl⟩ := hv.slots_eq
  have hcap := hv.len_le_cap
  have ⟨g, hc⟩ := grownOne_grows' (env := env) hv
  have heq := push_eq env v v.abs id hs hl
  have hlen := pushSpec_len (roomOne env v) v.abs id
  have := g.cap
  by_cases hr : roomOne env v = true
  · have := hc hr
    rw [hr] at heq hlen
    obtain ⟨r, h1, h2, h3, -, h5, -⟩ := refines_of_eq heq (by simp at hlen; omega)
    exact ⟨r, h1, h5, by simpa [hr, pushSpec] using And.intro h2 h3⟩
  · have hr' : roomOne env v = false := by simpa using hr
    rw [hr'] at heq hlen
    obtain ⟨r, h1, h2, h3, -, h5, -⟩ := refines_of_eq heq (by simp at hlen; omega)
    exact ⟨r, h1, h5, by simpa [hr', pushSpec] using And.intro h2 h3⟩

/-- `push_with(f)`: with room it is `push(f())`; when the reservation is refused `f` is not even called — the
    vector is untouched and no value ever existed -/
theorem push_with_refines (env : Env) (v : Vec) (id : Id) :
    pushWith env v id = (if roomOne env v then push env v id else .ok ⟨v, .panic false, []⟩) := by
  unfold pushWith roomOne
  cases reserveOne env v <;> simp

/-- `insert(index, value)`: panics exactly when `index > len` (or a `FixedBumpVec` is full) and then
    changes nothing; otherwise `value` ends up at `index` with the later elements shifted by one -/
theorem insert_refines (env : Env) (v : Vec) (hv : v.WF) (i : Nat) (id : Id) :
    ∃ r, insert env v i id = .ok r ∧ r.vec.len ≤ r.vec.cap ∧
      (if i ≤ v.len ∧ roomOne env v then r.vec.abs = v.abs.take i ++ id :: v.abs.drop i ∧ r.exit = .ret ()
       else r.vec.abs = v.abs ∧ r.exit = .panic false) := by
  have ⟨hs, hl⟩ := hv.slots_eq
  have hcap := hv.len_le_cap
  have ⟨g, hc⟩ := grownOne_grows' (env := env) hv
  have heq := insert_eq env v v.abs i id hs hl
  have hlen := insertSpec_len (roomOne env v) v.abs i id
  have := g.cap
  by_cases hi : i ≤ v.len ∧ roomOne env v = true
  · have := hc hi.2
    have hi' : i ≤ v.abs.length ∧ roomOne env v = true := by rw [hl]; exact hi
    simp only [hi.1, ↓reduceIte] at heq
    simp only [hi', and_self, ↓reduceIte] at hlen
    rw [hi.2] at heq
    obtain ⟨r, h1, h2, h3, -, h5, -⟩ := refines_of_eq heq (by omega)
    refine ⟨r, h1, h5, ?_⟩
    rw [if_pos hi, h2, h3]
    have : i ≤ v.abs.length := hi'.1
    simp [insertSpec, this, hi.2]
  · have hi' : ¬ (i ≤ v.abs.length ∧ roomOne env v = true) := by rw [hl]; exact hi
    simp only [hi', ↓reduceIte] at hlen
    have : ∃ r, insert env v i id = .ok r ∧ r.vec.abs = (insertSpec (roomOne env v) v.abs i id).final ∧
        r.exit = (insertSpec (roomOne env v) v.abs i id).exit ∧ r.vec.len ≤ r.vec.cap := by
      by_cases h1 : i ≤ v.len
      · simp only [h1, ↓reduceIte] at heq
        obtain ⟨r, a, b, c, -, e, -⟩ := refines_of_eq heq (by omega)
        exact ⟨r, a, b, c, e⟩
      · simp only [h1, ↓reduceIte] at heq
        obtain ⟨r, a, b, c, -, e, -⟩ := refines_of_eq heq (by omega)
        exact ⟨r, a, b, c, e⟩
    obtain ⟨r, a, b, c, e⟩ := this
    refine ⟨r, a, e, ?_⟩
    rw [if_neg hi, b, c]
    simp [insertSpec, hi']

/-- `extend_from_slice_clone` whose clones get the ids `ids`: they are appended in order -/
theorem extend_from_slice_clone_refines (env : Env) (v : Vec) (hv : v.WF) (ids : List Id) (o : List Outcome)
    (hroom : room env v ids.length = true) :
    ∃ r, extendFromSliceClone env v ids.length (rets ids ++ o) = .ok r ∧ r.vec.abs = v.abs ++ ids ∧ r.exit = .ret () ∧
      r.rest = o ∧ r.vec.len ≤ r.vec.cap := by
  have ⟨hs, hl⟩ := hv.slots_eq
  have ⟨g, hc⟩ := grown_grows' (env := env) (n := ids.length) hv
  have heq := extendFromSliceClone_eq env v v.abs ids.length (rets ids ++ o) hs hl
  rw [hroom] at heq
  simp only [extendCloneSpecR, ↓reduceIte, extendCloneSpec_rets] at heq
  have := hc hroom
  obtain ⟨r, h1, h2, h3, h4, h5, -⟩ := refines_of_eq heq (by simp; omega)
  exact ⟨r, h1, h2, h3, h4, h5⟩

/-- `extend_from_within_clone(start..end)`: panics exactly for `start > end` or `end > len` (nothing
    changes); otherwise the clones (ids `ids`) of the range are appended in order -/
theorem extend_from_within_clone_refines (env : Env) (v : Vec) (hv : v.WF) (start end_ : Nat) (ids : List Id) (o : List Outcome)
    (hroom : room env v (end_ - start) = true) (hids : ids.length = end_ - start) :
    ∃ r, extendFromWithinClone env v start end_ (rets ids ++ o) = .ok r ∧
      (if start > end_ ∨ end_ > v.len then r.vec.abs = v.abs ∧ r.exit = .panic false
       else r.vec.abs = v.abs ++ ids ∧ r.exit = .ret () ∧ r.rest = o) := by
  have ⟨hs, hl⟩ := hv.slots_eq
  by_cases hr : start > end_ ∨ end_ > v.len
  · rw [extendFromWithinClone_bad env v start end_ _ hr]
    exact ⟨_, rfl, by simp [hr]⟩
  · rw [extendFromWithinClone_eq env v v.abs start end_ _ hs hl (by omega)]
    rw [← hids] at hroom ⊢
    obtain ⟨r, h1, h2, h3, h4, _⟩ := extend_from_slice_clone_refines env v hv ids o hroom
    exact ⟨r, h1, by simp [hr, h2, h3, h4]⟩

/-- `resize(new_len, value)`: shrinking is `truncate`; growing appends `new_len - len - 1` clones and
    then `value` itself -/
theorem resize_refines (env : Env) (v : Vec) (hv : v.WF) (newLen : Nat) (value : Id) (ids : List Id) (o : List Outcome)
    (hb : env.bombs = []) (hroom : room env v (newLen - v.len) = true) (hids : ids.length = newLen - v.len - 1) :
    ∃ r, resize env v newLen value (rets ids ++ o) = .ok r ∧ r.exit = .ret () ∧ r.vec.len ≤ r.vec.cap ∧
      r.vec.abs = (if newLen > v.len then v.abs ++ ids ++ [value] else v.abs.take newLen) := by
  have ⟨hs, hl⟩ := hv.slots_eq
  have hcap := hv.len_le_cap
  have heq := resize_eq env v v.abs newLen value (rets ids ++ o) hs hl
  have hlen := resizeSpec_len (room env v (newLen - v.len)) env.bombs v.abs newLen value (rets ids ++ o)
  rw [hroom] at heq hlen
  by_cases h : newLen > v.len
  · have ⟨g, hc⟩ := grown_grows' (env := env) (n := newLen - v.len) hv
    have := hc hroom
    simp only [h, ↓reduceIte] at heq hlen ⊢
    obtain ⟨r, h1, h2, h3, -, h5, -⟩ := refines_of_eq heq (by omega)
    have h' : newLen > v.abs.length := by omega
    have hn : newLen - v.abs.length = ids.length + 1 := by omega
    have hspec : resizeSpec true env.bombs v.abs newLen value (rets ids ++ o)
        = { final := v.abs ++ ids ++ [value], exit := .ret (), rest := o } := by
      simp only [resizeSpec, h', ↓reduceIte, extendWithSpecR, hn, extendWithSpec, extendCloneSpec_rets]
    rw [hspec] at h2 h3
    exact ⟨r, h1, h3, h5, h2⟩
  · simp only [h, ↓reduceIte] at heq ⊢
    have hlen2 : (resizeSpec true env.bombs v.abs newLen value (rets ids ++ o)).final.length ≤ v.abs.length := by
      have : newLen - v.abs.length = 0 := by omega
      simp only [↓reduceIte, this] at hlen; omega
    obtain ⟨r, h1, h2, h3, -, h5, -⟩ := refines_of_eq heq (by omega)
    have h' : ¬ newLen > v.abs.length := by omega
    refine ⟨r, h1, ?_, h5, ?_⟩
    · have hx : (truncateSpec [] v.abs newLen).exit = .ret () := by
        unfold truncateSpec; split <;> simp [dropExit]
      rw [h3]; simp only [resizeSpec, h', ↓reduceIte, hb, hx]
      simp
    · rw [h2]; simp only [resizeSpec, h', ↓reduceIte]
      unfold truncateSpec; split
      · rw [List.take_of_length_le (by omega)]
      · rfl

/-- `pop_if(pred)`: empty → `None` without calling `pred`; `pred(last)` true → the last element is
    popped; false → nothing changes -/
theorem pop_if_refines (v : Vec) (hv : v.WF) (b : Nat) (o : List Outcome) :
    ∃ r, popIf v (.ret b :: o) = .ok r ∧ r.vec.cap = v.cap ∧
      (match v.abs.getLast? with
       | none => r.vec.abs = v.abs ∧ r.exit = .ret none ∧ r.rest = .ret b :: o
       | some x => if b ≠ 0 then r.vec.abs = v.abs.dropLast ∧ r.exit = .ret (some x) ∧ r.rest = o
                   else r.vec.abs = v.abs ∧ r.exit = .ret none ∧ r.rest = o) := by
  have ⟨hs, hl⟩ := hv.slots_eq
  have hcap := hv.len_le_cap
  have heq := popIf_eq v v.abs (.ret b :: o) hs hl
  have hlen : (popIfSpec v.abs (.ret b :: o)).final.length ≤ v.cap := by
    unfold popIfSpec; split <;> (try split) <;> simp <;> omega
  obtain ⟨r, h1, h2, h3, h4, -, h6⟩ := refines_of_eq heq hlen
  refine ⟨r, h1, h6, ?_⟩
  rw [h2, h3, h4]; unfold popIfSpec
  cases hx : v.abs.getLast? with
  | none => simp
  | some x => simp only; split <;> simp

/-- `resize_with(new_len, f)` with `f` returning the values `ids`: they are appended in order; shrinking truncates -/
theorem resize_with_refines (env : Env) (v : Vec) (hv : v.WF) (newLen : Nat) (ids : List Id) (o : List Outcome)
    (hb : env.bombs = []) (hroom : room env v (newLen - v.len) = true) (hids : ids.length = newLen - v.len) :
    ∃ r, resizeWith env v newLen (rets ids ++ o) = .ok r ∧ r.exit = .ret () ∧ r.vec.len ≤ r.vec.cap ∧
      r.vec.abs = (if newLen > v.len then v.abs ++ ids else v.abs.take newLen) := by
  have ⟨hs, hl⟩ := hv.slots_eq
  have hcap := hv.len_le_cap
  have heq := resizeWith_eq env v v.abs newLen (rets ids ++ o) hs hl
  rw [hroom] at heq
  by_cases h : newLen > v.len
  · have ⟨g, hc⟩ := grown_grows' (env := env) (n := newLen - v.len) hv
    have := hc hroom
    have h' : newLen > v.abs.length := by omega
    have hn : newLen - v.abs.length = ids.length := by omega
    simp only [h, ↓reduceIte, resizeWithSpec, h', extendCloneSpecR, hn, extendCloneSpec_rets] at heq ⊢
    obtain ⟨r, h1, h2, h3, -, h5, -⟩ := refines_of_eq heq (by simp; omega)
    exact ⟨r, h1, h3, h5, h2⟩
  · have h' : ¬ newLen > v.abs.length := by omega
    simp only [h, ↓reduceIte, resizeWithSpec, h', hb] at heq ⊢
    have hlen := truncateSpec_len [] v.abs newLen
    obtain ⟨r, h1, h2, h3, -, h5, -⟩ := refines_of_eq heq (by simp only; omega)
    refine ⟨r, h1, ?_, h5, ?_⟩
    · rw [h3]; simp only; unfold truncateSpec; split <;> simp [dropExit]
    · rw [h2]; simp only; unfold truncateSpec; split
      · rw [List.take_of_length_le (by omega)]
      · rfl

/-! ## drain / into_iter / extract_if / map_in_place / append -/

/-- `drain(start..end)`: panics exactly for `start > end` or `end > len` (and then changes nothing);
    otherwise the calls of `next` / `next_back` yield the elements of the range from its two ends
    (`pullsSpec`, a double-ended queue), dropping the `Drain` removes the whole range, `keep_rest`
    removes only what was yielded -/
theorem drain_refines (v : Vec) (hv : v.WF) (start end_ : Nat) (script : List Pull) (fin : Fin) :
    ∃ r, drain [] v start end_ script fin = .ok r ∧ r.vec.len ≤ r.vec.cap ∧ r.vec.cap = v.cap ∧
      (if start > end_ ∨ end_ > v.len then r.vec.abs = v.abs ∧ r.exit = .panic false
       else
         r.exit = .ret (pullsSpec ((v.abs.take end_).drop start) script).1 ∧
         r.vec.abs = v.abs.take start ++
            (match fin with | .drop => [] | .keepRest => (pullsSpec ((v.abs.take end_).drop start) script).2) ++
            v.abs.drop end_) := by
  have ⟨hs, hl⟩ := hv.slots_eq
  have hcap := hv.len_le_cap
  have heq := drain_eq [] v v.abs start end_ script fin hs hl
  have hlen := drainSpec_len [] v.abs start end_ script fin
  obtain ⟨r, h1, h2, h3, -, h5, h6⟩ := refines_of_eq heq (by omega)
  refine ⟨r, h1, h5, h6, ?_⟩
  rw [h2, h3]
  unfold drainSpec
  rw [← hl]
  split
  · simp
  · cases fin <;> simp

/-- `into_iter()`: the pulls yield the elements from the two ends, afterwards nothing is owned -/
theorem into_iter_refines (v : Vec) (hv : v.WF) (script : List Pull) :
    ∃ r, intoIter [] v script = .ok r ∧ r.exit = .ret (pullsSpec v.abs script).1 ∧ r.vec.abs = [] := by
  have ⟨hs, hl⟩ := hv.slots_eq
  have heq := intoIter_eq [] v v.abs script hs hl
  obtain ⟨r, h1, h2, h3, -, -, -⟩ := refines_of_eq heq (by simp [intoIterSpec])
  exact ⟨r, h1, by rw [h3]; simp [intoIterSpec], by rw [h2]; simp [intoIterSpec]⟩

/-- `extract_if(pred)` consumed to the end, answers `bs`: the elements whose answer is `true` are
    yielded in order, the others stay in order (`Vec::extract_if` over the whole vector) -/
theorem extract_if_refines (v : Vec) (hv : v.WF) (bs : List Nat) (o : List Outcome) (calls : Nat)
    (hb : bs.length = v.len) (hc : calls > v.len) :
    ∃ r, extractIf v calls (rets bs ++ o) = .ok r ∧ r.exit = .ret (keptBy (· != 0) v.abs bs) ∧
      r.vec.abs = keptBy (· == 0) v.abs bs ∧ r.rest = o ∧ r.vec.len ≤ r.vec.cap ∧ r.vec.cap = v.cap := by
  have ⟨hs, hl⟩ := hv.slots_eq
  have hcap := hv.len_le_cap
  have heq := extractIf_eq v v.abs calls (rets bs ++ o) hs hl
  have hlen := extractSpec_len calls v.abs (rets bs ++ o)
  obtain ⟨r, h1, h2, h3, h4, h5, h6⟩ := refines_of_eq heq (by omega)
  have hrun := extractRun_rets v.abs [] bs o calls (by omega) (by omega)
  refine ⟨r, h1, ?_, ?_, ?_, h5, h6⟩
  · rw [h3]; simp [extractSpec, hrun]
  · rw [h2]; simp [extractSpec, hrun]
  · rw [h4]; simp [extractSpec, hrun]

/-- `map_in_place(f)` with `f` returning the values `ids`: same length, results in order -/
theorem map_in_place_refines (v : Vec) (hv : v.WF) (ids : List Id) (o : List Outcome) (hi : ids.length = v.len) :
    ∃ r, mapInPlace [] v (rets ids ++ o) = .ok r ∧ r.exit = .ret () ∧ r.vec.abs = ids ∧ r.vec.len = v.len ∧ r.rest = o := by
  have ⟨hs, hl⟩ := hv.slots_eq
  have hcap := hv.len_le_cap
  have heq := mapInPlace_eq [] v v.abs (rets ids ++ o) hs hl
  rw [mapSpec_rets v.abs [] ids o (by omega)] at heq
  obtain ⟨r, h1, h2, h3, h4, -, -⟩ := refines_of_eq heq (by simp; omega)
  refine ⟨r, h1, h3, by simpa using h2, ?_, h4⟩
  have : r.vec.abs.length = r.vec.len := by
    rw [h1] at heq; cases heq; simp [Vec.after, Vec.abs, take_I_H]
  rw [← this, h2]; simp; omega

/-- `append(other)` with room: the elements of `other` follow those of `self`, `other` is left empty -/
theorem append_refines (env : Env) (v other : Vec) (hv : v.WF) (ho : other.WF) (hroom : room env v other.len = true) :
    ∃ r o', append env v other = .ok (r, o') ∧ r.exit = .ret () ∧ r.vec.abs = v.abs ++ other.abs ∧
      o'.len = 0 ∧ r.vec.len ≤ r.vec.cap := by
  have ⟨hs, hl⟩ := hv.slots_eq
  have ⟨hso, hlo⟩ := ho.slots_eq
  have heq := append_eq env v other v.abs other.abs hs hl hso hlo
  have ⟨g, hc⟩ := grown_grows' (env := env) (n := other.len) hv
  have := hc hroom
  rw [hroom] at heq
  have ⟨ha, hl', hcp⟩ := after_facts (grown env v other.len) (appendSpec true v.abs other.abs) (by simp [appendSpec]; omega)
  refine ⟨_, _, heq, by simp [appendSpec], by rw [ha]; simp [appendSpec], rfl, ?_⟩
  rw [hl', hcp]; simp [appendSpec]; omega

/-! ## `MutBumpVecRev`: `Vec` with front and back mirrored

  `rabs v` = what `as_slice()` shows (index 0 = front).  `push` / `pop` / `extend*` / `append` /
  `truncate` act on the FRONT (`VecDeque::push_front`, `pop_front`, …; `truncate(n)` keeps the LAST `n`),
  `swap_remove` fills the gap with the FIRST element, `insert` / `remove` take ordinary indices. -/

theorem rrefines_of_eq {α : Type} {res : M (Out α)} {v' : Vec} {r : SpecOut α} {rest : List Outcome}
    (hres : res = .ok ⟨v'.rafter r, r.exit, rest⟩) (hle : r.final.length ≤ v'.cap) :
    ∃ out, res = .ok out ∧ out.vec.rabs = r.final ∧ out.exit = r.exit ∧ out.rest = rest ∧
      out.vec.len ≤ out.vec.cap ∧ out.vec.cap = v'.cap := by
  have ⟨ha, hl', hc⟩ := rafter_facts v' r hle
  exact ⟨_, hres, ha, rfl, rfl, by rw [hl', hc]; exact hle, hc⟩

theorem rev_push_refines (env : Env) (v : Vec) (hv : v.RWF) (id : Id) :
    ∃ r, rpush env v id = .ok r ∧ r.vec.len ≤ r.vec.cap ∧
      (if rroom env v 1 then r.vec.rabs = id :: v.rabs ∧ r.exit = .ret () else r.vec.rabs = v.rabs ∧ r.exit = .panic false) := by
  have ⟨hs, hl⟩ := hv.slots_eq
  have hcap := hv.len_le_cap
  have ⟨g, hc⟩ := rgrown_grows (env := env) (n := 1) hv
  have heq := rpush_eq env v v.rabs id hs hl
  have := g.cap
  by_cases hr : rroom env v 1 = true
  · have := hc hr
    rw [hr] at heq
    obtain ⟨r, h1, h2, h3, -, h5, -⟩ := rrefines_of_eq heq (by simp [rpushSpec]; omega)
    exact ⟨r, h1, h5, by simpa [hr, rpushSpec] using And.intro h2 h3⟩
  · have hr' : rroom env v 1 = false := by simpa using hr
    rw [hr'] at heq
    obtain ⟨r, h1, h2, h3, -, h5, -⟩ := rrefines_of_eq heq (by simp [rpushSpec]; omega)
    exact ⟨r, h1, h5, by simpa [hr', rpushSpec] using And.intro h2 h3⟩

theorem rev_pop_refines (v : Vec) (hv : v.RWF) :
    ∃ r, rpop v = .ok r ∧ r.vec.rabs = v.rabs.tail ∧ r.exit = .ret v.rabs.head? ∧ r.vec.cap = v.cap := by
  have ⟨hs, hl⟩ := hv.slots_eq
  have hcap := hv.len_le_cap
  have heq := rpop_eq v v.rabs hs hl
  have hlen : (rpopSpec v.rabs).final.length ≤ v.cap := by
    have := (rpopSpec_perm v.rabs).length_eq; simp only [List.length_append] at this; omega
  obtain ⟨r, h1, h2, h3, -, -, h6⟩ := rrefines_of_eq heq hlen
  refine ⟨r, h1, ?_, ?_, h6⟩
  · rw [h2]; unfold rpopSpec; cases v.rabs <;> rfl
  · rw [h3]; unfold rpopSpec; cases v.rabs <;> rfl

/-- `truncate(n)` keeps the LAST `n` elements -/
theorem rev_truncate_refines (v : Vec) (hv : v.RWF) (n : Nat) :
    ∃ r, rtruncate [] v n = .ok r ∧ r.vec.rabs = v.rabs.drop (v.len - n) ∧ r.exit = .ret () ∧ r.vec.cap = v.cap := by
  have ⟨hs, hl⟩ := hv.slots_eq
  have hcap := hv.len_le_cap
  have heq := rtruncate_eq [] v v.rabs n hs hl
  have hlen : (rtruncateSpec [] v.rabs n).final.length ≤ v.cap := by
    have := (rtruncateSpec_perm [] v.rabs n).length_eq; simp only [List.length_append] at this; omega
  obtain ⟨r, h1, h2, h3, -, -, h6⟩ := rrefines_of_eq heq hlen
  refine ⟨r, h1, ?_, ?_, h6⟩
  · rw [h2]; unfold rtruncateSpec; split
    · have : v.len - n = 0 := by omega
      rw [this]; rfl
    · rw [hl]
  · rw [h3]; unfold rtruncateSpec; split <;> simp [dropExit]

theorem rev_remove_refines (v : Vec) (hv : v.RWF) (i : Nat) :
    ∃ r, rremove v i = .ok r ∧ r.vec.cap = v.cap ∧
      (match v.rabs[i]? with
       | some x => r.vec.rabs = v.rabs.eraseIdx i ∧ r.exit = .ret x
       | none => r.vec.rabs = v.rabs ∧ r.exit = .panic false) := by
  have ⟨hs, hl⟩ := hv.slots_eq
  have hcap := hv.len_le_cap
  have heq := rremove_eq v v.rabs i hs hl
  have hlen := removeSpec_len v.rabs i
  obtain ⟨r, h1, h2, h3, -, -, h6⟩ := rrefines_of_eq heq (by omega)
  refine ⟨r, h1, h6, ?_⟩
  rw [h2, h3]; unfold removeSpec
  split <;> simp_all

/-- `swap_remove(i)`: the FIRST element takes the place of the removed one -/
theorem rev_swap_remove_refines (v : Vec) (hv : v.RWF) (i : Nat) :
    ∃ r, rswapRemove v i = .ok r ∧ r.vec.cap = v.cap ∧
      (match v.rabs[i]?, v.rabs.head? with
       | some x, some f => r.vec.rabs = (v.rabs.set i f).tail ∧ r.exit = .ret x
       | _, _ => r.vec.rabs = v.rabs ∧ r.exit = .panic false) := by
  have ⟨hs, hl⟩ := hv.slots_eq
  have hcap := hv.len_le_cap
  have heq := rswapRemove_eq v v.rabs i hs hl
  have hlen : (rswapRemoveSpec v.rabs i).final.length ≤ v.cap := by
    have := (rswapRemoveSpec_perm v.rabs i).length_eq; simp only [List.length_append] at this; omega
  obtain ⟨r, h1, h2, h3, -, -, h6⟩ := rrefines_of_eq heq hlen
  refine ⟨r, h1, h6, ?_⟩
  rw [h2, h3]; unfold rswapRemoveSpec
  split <;> simp_all

theorem rev_insert_refines (env : Env) (v : Vec) (hv : v.RWF) (i : Nat) (id : Id) (hroom : rroom env v 1 = true) :
    ∃ r, rinsert env v i id = .ok r ∧
      (if i ≤ v.len then r.vec.rabs = v.rabs.take i ++ id :: v.rabs.drop i ∧ r.exit = .ret ()
       else r.vec.rabs = v.rabs ∧ r.exit = .panic false) := by
  have ⟨hs, hl⟩ := hv.slots_eq
  have hcap := hv.len_le_cap
  have ⟨g, hc⟩ := rgrown_grows (env := env) (n := 1) hv
  have heq := rinsert_eq env v v.rabs i id hs hl
  have hlen := insertSpec_len (rroom env v 1) v.rabs i id
  have := hc hroom
  have := g.cap
  rw [hroom] at heq hlen
  by_cases hi : i ≤ v.len
  · simp only [hi, ↓reduceIte] at heq ⊢
    have hi' : i ≤ v.rabs.length := by omega
    simp only [hi', and_self, ↓reduceIte] at hlen
    obtain ⟨r, h1, h2, h3, -, -, -⟩ := rrefines_of_eq heq (by omega)
    exact ⟨r, h1, by rw [h2, h3]; simp [insertSpec, hi']⟩
  · simp only [hi, ↓reduceIte] at heq ⊢
    have hi' : ¬ i ≤ v.rabs.length := by omega
    simp only [hi', false_and, ↓reduceIte] at hlen
    obtain ⟨r, h1, h2, h3, -, -, -⟩ := rrefines_of_eq heq (by omega)
    exact ⟨r, h1, by rw [h2, h3]; simp [insertSpec, hi']⟩

/-- the clones of `extend_from_slice_clone` are pushed to the front one after the other -/
theorem rextendCloneSpec_rets (ids : List Id) : ∀ (xs : List Id) (o : List Outcome),
    rextendCloneSpec xs ids.length (rets ids ++ o) = { final := ids.reverse ++ xs, exit := .ret (), rest := o } := by
  induction ids with
  | nil => intro xs o; simp [rextendCloneSpec, rets]
  | cons id ids ih =>
    intro xs o
    simp only [List.length_cons, rets, List.map_cons, List.cons_append, rextendCloneSpec]
    have := ih (id :: xs) o
    simp only [rets] at this
    rw [this]; simp

theorem rev_pop_if_refines (v : Vec) (hv : v.RWF) (b : Nat) (o : List Outcome) :
    ∃ r, rpopIf v (.ret b :: o) = .ok r ∧
      (match v.rabs with
       | [] => r.vec.rabs = [] ∧ r.exit = .ret none
       | x :: rest => if b ≠ 0 then r.vec.rabs = rest ∧ r.exit = .ret (some x) else r.vec.rabs = x :: rest ∧ r.exit = .ret none) := by
  have ⟨hs, hl⟩ := hv.slots_eq
  have hcap := hv.len_le_cap
  have heq := rpopIf_eq v v.rabs (.ret b :: o) hs hl
  have hgen : ∀ xs : List Id, (rpopIfSpec xs (.ret b :: o)).final.length ≤ xs.length := by
    intro xs; unfold rpopIfSpec
    cases xs with
    | nil => simp
    | cons x rest => simp only; split <;> simp
  have hlen : (rpopIfSpec v.rabs (.ret b :: o)).final.length ≤ v.cap := by
    have := hgen v.rabs; omega
  obtain ⟨r, h1, h2, h3, -, -, -⟩ := rrefines_of_eq heq hlen
  refine ⟨r, h1, ?_⟩
  rw [h2, h3]; unfold rpopIfSpec
  cases v.rabs with
  | nil => simp
  | cons x rest => simp only; split <;> simp

/-- `resize_with(new_len, f)` on a reverse vector: the produced values are pushed to the front one by one -/
theorem rev_resize_with_refines (env : Env) (v : Vec) (hv : v.RWF) (newLen : Nat) (ids : List Id) (o : List Outcome)
    (hnl : newLen > v.len) (hroom : rroom env v (newLen - v.len) = true) (hids : ids.length = newLen - v.len) :
    ∃ r, rresizeWith env v newLen (rets ids ++ o) = .ok r ∧ r.exit = .ret () ∧ r.vec.rabs = ids.reverse ++ v.rabs := by
  have ⟨hs, hl⟩ := hv.slots_eq
  have heq := rresizeWith_eq env v v.rabs newLen (rets ids ++ o) hs hl
  have ⟨g, hc⟩ := rgrown_grows (env := env) (n := newLen - v.len) hv
  have := hc hroom
  have h' : newLen > v.rabs.length := by omega
  have hn : newLen - v.rabs.length = ids.length := by omega
  rw [hroom] at heq
  simp only [hnl, ↓reduceIte, rresizeWithSpec, h', rextendCloneSpecR, hn] at heq
  have hspec : rextendCloneSpec v.rabs ids.length (rets ids ++ o) = { final := ids.reverse ++ v.rabs, exit := .ret (), rest := o } :=
    rextendCloneSpec_rets ids v.rabs o
  rw [hspec] at heq
  obtain ⟨r, h1, h2, h3, -, -, -⟩ := rrefines_of_eq heq (by simp; omega)
  exact ⟨r, h1, h3, h2⟩

theorem rev_extend_from_slice_clone_refines (env : Env) (v : Vec) (hv : v.RWF) (ids : List Id) (o : List Outcome)
    (hroom : rroom env v ids.length = true) :
    ∃ r, rextendFromSliceClone env v ids.length (rets ids ++ o) = .ok r ∧ r.vec.rabs = ids.reverse ++ v.rabs ∧
      r.exit = .ret () ∧ r.rest = o := by
  have ⟨hs, hl⟩ := hv.slots_eq
  have ⟨g, hc⟩ := rgrown_grows (env := env) (n := ids.length) hv
  have heq := rextendFromSliceClone_eq env v v.rabs ids.length (rets ids ++ o) hs hl
  rw [hroom] at heq
  simp only [rextendCloneSpecR, ↓reduceIte, rextendCloneSpec_rets] at heq
  have := hc hroom
  obtain ⟨r, h1, h2, h3, h4, -, -⟩ := rrefines_of_eq heq (by simp; omega)
  exact ⟨r, h1, h2, h3, h4⟩

/-- `append(other)` puts `other` IN FRONT -/
theorem rev_append_refines (env : Env) (v other : Vec) (hv : v.RWF) (ho : other.WF) (hroom : rroom env v other.len = true) :
    ∃ r o', rappend env v other = .ok (r, o') ∧ r.exit = .ret () ∧ r.vec.rabs = other.abs ++ v.rabs ∧ o'.len = 0 := by
  have ⟨hs, hl⟩ := hv.slots_eq
  have ⟨hso, hlo⟩ := ho.slots_eq
  have heq := rappend_eq env v other v.rabs other.abs hs hl hso hlo
  have ⟨g, hc⟩ := rgrown_grows (env := env) (n := other.len) hv
  have := hc hroom
  rw [hroom] at heq
  have ⟨ha, _, _⟩ := rafter_facts (rgrown env v other.len) (rappendSpec true v.rabs other.abs) (by simp [rappendSpec]; omega)
  exact ⟨_, _, heq, by simp [rappendSpec], by rw [ha]; simp [rappendSpec], rfl⟩

/-! ## `BumpVec::splice` -/

/-- `splice(start..end, src)` behaves like `Vec::splice`: out-of-range arguments panic and leave the
    contents alone; otherwise the pulls return the front/back of the range, and (no panicking destructors)
    afterwards the vector is `xs[..start] ++ src ++ xs[end..]` — whatever `size_hint` the source reports, as
    long as no reservation for a CLAIMED count overflows; when one does (`spliceWritten … = (w, true)`, only a
    lying source gets there) the call panics and the vector is `xs[..start] ++ w ++ xs[end..]` with `w` the
    prefix of `src` written so far — like `Vec::splice` after a panic inside its `Splice::drop` -/
theorem splice_refines (env : Env) (hk : env.kind = .bump) (hm : env.maxCap = none) (hb : env.bombs = []) (v : Vec) (hv : v.WF) (start end_ : Nat)
    (src : List Id) (hint : Nat) (lie : Option Nat) (maxCap : Nat) (script : List Pull) :
    ∃ r, splice env v start end_ src hint lie maxCap script = .ok r ∧ r.vec.len ≤ r.vec.cap ∧ v.cap ≤ r.vec.cap ∧
      (if start > end_ ∨ end_ > v.len then r.vec.abs = v.abs ∧ r.exit = .panic false
       else
         r.vec.abs = v.abs.take start ++ (spliceWritten (capsOf env v hint lie maxCap) start end_ v.len src).1 ++ v.abs.drop end_ ∧
         r.exit = (if (spliceWritten (capsOf env v hint lie maxCap) start end_ v.len src).2 then .panic false
                   else .ret (pullsSpec ((v.abs.take end_).drop start) script).1)) := by
  have ⟨hs, hl⟩ := hv.slots_eq
  obtain ⟨v', e, h, hc⟩ := splice_holds env hk hm v v.abs start end_ src hint lie maxCap script hs hl
  have habs : v'.abs = (spliceSpec env.bombs (capsOf env v hint lie maxCap) v.abs start end_ src script).final :=
    Vec.WF.abs_eq h.slots h.len
  have hle : v'.len ≤ v'.cap := by
    have h1 := congrArg List.length h.slots
    simp only [List.length_append, length_I, length_H] at h1
    have : v'.slots.length = v'.cap := rfl
    have := h.len
    omega
  refine ⟨_, e, hle, hc, ?_⟩
  simp only [habs]
  unfold spliceSpec
  by_cases hr : start > end_ ∨ end_ > v.len
  · have hr' : start > end_ ∨ end_ > v.abs.length := by omega
    simp [hr, hr']
  · have hr' : ¬ (start > end_ ∨ end_ > v.abs.length) := by omega
    have hany : ∀ l : List Id, l.any ([] : List Id).contains = false := by intro l; simp
    rw [if_neg hr, if_neg hr', hb]
    simp only [hany, Bool.false_eq_true, ↓reduceIte, hl]
    trivial

/-- an honest source (`lie = none`) on a vector whose sizes are nowhere near the layout bound never runs into
    "capacity overflow": everything is written, as `Vec::splice` does -/
theorem splice_honest_never_overflows (c : SpliceCaps) (start end_ xsLen : Nat) (src : List Id) (hl : c.lie = none)
    (hse : start ≤ end_ ∧ end_ ≤ xsLen)
    (hfit : max (max (c.cap * 2) (xsLen + src.length)) c.minCap ≤ c.maxCap) :
    spliceWritten c start end_ xsLen src = (src, false) := by
  have hlow : ∀ n, spliceLower c.hintCap c.lie n ≤ n := by
    intro n; simp [spliceLower, hl]; omega
  have hov : ∀ len add, len ≤ xsLen → add ≤ src.length → c.overflows len add = false := by
    intro len add h1 h2
    simp only [SpliceCaps.overflows, Bool.and_eq_false_iff, decide_eq_false_iff_not]
    right; omega
  unfold spliceWritten
  by_cases h1 : end_ = xsLen
  · simp [h1, hov start _ (by omega) (hlow _)]
  · simp only [h1, ↓reduceIte]
    by_cases h2 : src.length < end_ - start
    · simp [h2]
    · simp only [h2, ↓reduceIte]
      have hl1 := hlow (src.drop (end_ - start)).length
      have hr : (src.drop (end_ - start)).length ≤ src.length := by simp
      have h3 := hov xsLen _ (Nat.le_refl _) (Nat.le_trans hl1 hr)
      have h4 : ¬ spliceLower c.hintCap c.lie (src.drop (end_ - start)).length > (src.drop (end_ - start)).length := by omega
      have h5 : ¬ spliceLower c.hintCap c.lie ((src.drop (end_ - start)).drop
          (spliceLower c.hintCap c.lie (src.drop (end_ - start)).length)).length > c.maxCap := by
        have := hlow ((src.drop (end_ - start)).drop (spliceLower c.hintCap c.lie (src.drop (end_ - start)).length)).length
        have : ((src.drop (end_ - start)).drop (spliceLower c.hintCap c.lie (src.drop (end_ - start)).length)).length ≤ src.length := by
          simp <;> omega
        omega
      simp only [h3, Bool.false_eq_true, and_false, ↓reduceIte, h4, h5]

/-! ## `BumpVec::map` -/

/-- `v.map(f)` behaves like `v.into_iter().map(f).collect()`: one result per element, in order, and the
    capacity of the result is what the documentation promises: `cap * size_of::<T>() / size_of::<U>()` when the
    buffer is reused (and the length fits it), exactly `len` on the fallback path -/
theorem vec_map_refines (bombs : List Id) (lay : MapLay) (v : Vec) (hv : v.WF) (ids : List Id) (o : List Outcome)
    (hi : ids.length = v.len) :
    ∃ r, vecMap bombs lay v (rets ids ++ o) = .ok r ∧ r.exit = .ret () ∧ r.rest = o ∧ r.vec.abs = ids ∧ r.vec.len = v.len ∧
      r.vec.len ≤ r.vec.cap ∧ r.vec.cap = (if lay.inPlace then v.cap * lay.st / lay.su else v.len) := by
  have ⟨hs, hl⟩ := hv.slots_eq
  have hcap := hv.len_le_cap
  have heq := vecMap_eq bombs lay v v.abs (rets ids ++ o) hs hl
  by_cases hip : lay.inPlace = true
  · simp only [hip, ↓reduceIte] at heq ⊢
    rw [vecMapSpec_rets false v.abs [] ids o (by omega)] at heq
    simp only [mapAfter, List.nil_append] at heq
    have hfit : ids.length ≤ v.cap * lay.st / lay.su := by
      simp only [MapLay.inPlace, Bool.and_eq_true, decide_eq_true_eq, bne_iff_ne, ne_eq] at hip
      obtain ⟨⟨⟨_, hsu⟩, _⟩, hle⟩ := hip
      rw [Nat.le_div_iff_mul_le (by omega)]
      calc ids.length * lay.su ≤ v.cap * lay.su := Nat.mul_le_mul_right _ (by omega)
        _ ≤ v.cap * lay.st := Nat.mul_le_mul_left _ hle
    generalize v.cap * lay.st / lay.su = N at heq hfit ⊢
    refine ⟨_, heq, rfl, rfl, ?_, rfl, ?_, ?_⟩
    · simp only [Vec.abs, hi.symm]; simp
    · simp only [Vec.cap, List.length_append, length_I, length_H]; omega
    · simp only [Vec.cap, List.length_append, length_I, length_H]; omega
  · simp only [hip, Bool.false_eq_true, ↓reduceIte] at heq ⊢
    rw [vecMapSpec_rets true v.abs [] ids o (by omega)] at heq
    simp only [mapAfter, List.nil_append] at heq
    refine ⟨_, heq, rfl, rfl, ?_, hi, ?_, ?_⟩
    · simp only [Vec.abs]; simp
    · simp only [Vec.cap, List.length_append, length_I, length_H]; omega
    · simp only [Vec.cap, List.length_append, length_I, length_H]; omega

/-- the three layout cases of `generic_map` l.2364, and the zero-sized ones -/
example : ({ st := 16, su := 16 } : MapLay).inPlace = true ∧ ({ st := 16, su := 8 } : MapLay).inPlace = true ∧
    ({ st := 16, su := 24 } : MapLay).inPlace = false ∧ ({ st := 16, su := 16, alignOk := false } : MapLay).inPlace = false ∧
    ({ st := 0, su := 8 } : MapLay).inPlace = false ∧ ({ st := 16, su := 0 } : MapLay).inPlace = false := by decide

/-! ## histories (`Coll/Run.lean`): every finite sequence of modelled operations refines the same
   sequence on plain lists -/

/-- one step: the contents afterwards are what the list-level operation gives (for every behaviour of
    the callbacks, incl. panics and panicking destructors); needs only the shape, not freshness -/
theorem step_refines (env : Env) (v : Vec) (op : Op) (hv : v.WF) :
    ∃ v', stepVec env v op = .ok v' ∧ v'.abs = specStep env.bombs v.abs (roomOf env v op) op := by
  have ⟨hs, hl⟩ := hv.slots_eq
  have lift : ∀ {α : Type} {res : M (Out α)} {w : Vec} {r : SpecOut α} {e : Exit α} {rest : List Outcome},
      res = .ok ⟨w.after r, e, rest⟩ → ∃ v', res.map (·.vec) = .ok v' ∧ v'.abs = r.final := by
    intro α res w r e rest h
    exact ⟨_, by rw [h]; rfl, after_abs w r⟩
  cases op with
  | retain o => exact lift (retain_eq env.bombs v v.abs o hs hl)
  | dedupBy o => exact lift (dedupBy_eq env.bombs v v.abs o hs hl)
  | dedupByKey o =>
    obtain ⟨r', h1, h2, _⟩ := proj_ok (dedupByKey_pair env.bombs v o) (dedupBy_eq env.bombs v v.abs (pairUp o) hs hl)
    exact ⟨r'.vec, by simp only [stepVec]; rw [h1]; rfl, by rw [h2]; exact after_abs _ _⟩
  | truncate n => exact lift (truncate_eq env.bombs v v.abs n hs hl)
  | clear => exact lift (clear_eq env.bombs v v.abs hs hl)
  | pop => exact lift (pop_eq v v.abs hs hl)
  | popIf o => exact lift (popIf_eq v v.abs o hs hl)
  | remove i => exact lift (remove_eq v v.abs i hs hl)
  | swapRemove i => exact lift (swapRemove_eq v v.abs i hs hl)
  | push id => exact lift (push_eq env v v.abs id hs hl)
  | insert i id => exact lift (insert_eq env v v.abs i id hs hl)
  | extendClone n o => exact lift (extendFromSliceClone_eq env v v.abs n o hs hl)
  | extendWithin s e o =>
    by_cases hr : s ≤ e ∧ e ≤ v.len
    · have hr' : s ≤ e ∧ e ≤ v.abs.length := by omega
      simp only [stepVec, specStep, roomOf, hr', and_self, ↓reduceIte]
      rw [extendFromWithinClone_eq env v v.abs s e o hs hl hr]
      exact lift (extendFromSliceClone_eq env v v.abs (e - s) o hs hl)
    · have hr' : ¬ (s ≤ e ∧ e ≤ v.abs.length) := by omega
      simp only [stepVec, specStep, hr', ↓reduceIte]
      rw [extendFromWithinClone_bad env v s e o (by omega)]
      exact ⟨v, rfl, rfl⟩
  | resize n value o => exact lift (resize_eq env v v.abs n value o hs hl)
  | resizeWith n o => exact lift (resizeWith_eq env v v.abs n o hs hl)
  | drain s e script fin => exact lift (drain_eq env.bombs v v.abs s e script fin hs hl)
  | extractIf calls o => exact lift (extractIf_eq v v.abs calls o hs hl)
  | mapInPlace o => exact lift (mapInPlace_eq env.bombs v v.abs o hs hl)

/-- HISTORY LEVEL: from a well-formed vector, the contents after EVERY finite sequence of modelled
    operations (ids brought in fresh) are the contents the same sequence produces on a plain list, given
    the allocation results; the run never faults -/
theorem history_refines (env : Env) (ops : List Op) : ∀ (v : Vec), v.WF → (v.total ++ insRun env v ops).Nodup →
    run env v ops = .ok (runD env v ops) ∧
      (runD env v ops).abs = specRun env.bombs v.abs ops (roomsRun env v ops) := by
  induction ops with
  | nil => intro v _ _; simp [run, runD, specRun]
  | cons op ops ih =>
    intro v hv hfresh
    have hsub : (v.total ++ insOf env v op).Nodup := by
      simp only [insRun] at hfresh
      rw [← List.append_assoc] at hfresh
      exact (List.nodup_append.mp hfresh).1
    obtain ⟨v', hstep, hwf, hp⟩ := C06.step_drops_once env v op hv hsub
    obtain ⟨v'', hstep', habs⟩ := step_refines env v op hv
    have hv'' : v'' = v' := by rw [hstep] at hstep'; exact (Except.ok.inj hstep').symm
    subst hv''
    have hD : stepD env v op = v'' := by simp [stepD, hstep]
    simp only [insRun, hD] at hfresh
    rw [← List.append_assoc] at hfresh
    have hfresh' : (v''.total ++ insRun env v'' ops).Nodup :=
      (hp.append_right _).nodup_iff.mpr hfresh
    obtain ⟨h1, h2⟩ := ih v'' hwf hfresh'
    simp only [run, runD, roomsRun, specRun, hstep, hD]
    exact ⟨h1, by rw [h2, habs]⟩

/-- a `BumpVec` never refuses a reservation (allocation failure aborts / is C07's), so its histories
    refine the list-level run with every reservation granted -/
theorem roomsRun_bump (env : Env) (hk : env.kind = .bump) (hm : env.maxCap = none) (ops : List Op) : ∀ v : Vec,
    roomsRun env v ops = ops.map fun _ => true := by
  induction ops with
  | nil => intro v; rfl
  | cons op ops ih =>
    intro v
    simp only [roomsRun, List.map_cons, ih]
    congr 1
    have h1 := reserveOne_bump env v hk hm
    unfold roomOne at h1
    cases op <;> simp [roomOf, h1, reserve_bump env v _ hk hm]

/-- the lengths never exceed the capacity along a history, and the capacity never shrinks below the length -/
theorem history_len_le_cap (env : Env) (ops : List Op) (v : Vec) (hv : v.WF)
    (hfresh : (v.total ++ insRun env v ops).Nodup) : (runD env v ops).len ≤ (runD env v ops).cap :=
  (C06.history_drops_once env ops v hv hfresh).2.1.len_le_cap

/-- non-vacuity: the history of `Props/C06.lean` on plain lists: `[1,2,3]` → push 4 → retain (keep 1, remove 2,
    panic) → drain(0..2) → resize_with(4) whose closure panics at the second call: `[4,7]` -/
example : specRun [2] [1, 2, 3]
      [.push 4, .retain [.ret 1, .ret 0, .panic], .drain 0 2 [.front] .drop, .resizeWith 4 [.ret 7, .panic]]
      [true, true, true, true] = [4, 7] := by decide

example : roomsRun { bombs := [2], kind := .bump, capIn := 8 } (Vec.mk' [1, 2, 3] 0)
      [.push 4, .retain [.ret 1, .ret 0, .panic], .drain 0 2 [.front] .drop, .resizeWith 4 [.ret 7, .panic]] =
    [true, true, true, true] := by decide

/-- non-vacuity: `[1,2,3,4,5].retain(|x| answers 1,0,1,1,0)` on a vector with 2 spare slots -/
example : ∃ r, retain [] (Vec.mk' [1, 2, 3, 4, 5] 2) (rets [1, 0, 1, 1, 0]) = .ok r ∧ r.vec.abs = [1, 3, 4] ∧ r.vec.cap = 7 :=
  ⟨_, rfl, by decide, by decide⟩

example : (Vec.mk' [1, 2, 3, 4, 5] 2).WF := ⟨⟨[1, 2, 3, 4, 5], by decide, by decide⟩, by decide⟩

end C08
