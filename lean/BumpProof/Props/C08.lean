/-
  Props/C08.lean — property C08: the vector types behave like `std::vec::Vec` on every operation.

  Abstraction: `Vec.abs v` = the ids of the first `len` slots (what `Deref<Target = [T]>` shows).
  For every modelled operation, every WELL-FORMED vector (any length, any spare capacity), every
  argument and every non-panicking oracle: the model does not fault, `abs` of the result is the plain
  `List` function that `std::vec::Vec` implements (`filter`, `take`, `eraseIdx`, `insertIdx`-like
  `take i ++ x :: drop i`, `++`, …), the returned value agrees, out-of-range arguments make the model
  panic EXACTLY when std's precondition fails (and then change nothing), `len ≤ cap` afterwards.
  Capacity (`reserve_*` theorems): a reservation that fits returns the very same buffer (no
  reallocation while the promise suffices), a successful one leaves `cap ≥ len + additional`, a
  `FixedBumpVec` refuses exactly when it is too full and never changes its buffer, `BumpVec` never refuses.
  Documented differences built into the specs: `retain` hands out `&mut T` (irrelevant for ids),
  `split_off` takes a range and works in place (see `Props/C16.lean`).
-/
import BumpProof.Coll.Spec
import BumpProof.Lemmas.CollWF
import BumpProof.Lemmas.CollRetain
import BumpProof.Lemmas.CollDedup
import BumpProof.Lemmas.CollBasic
import BumpProof.Lemmas.CollGrow
import BumpProof.Lemmas.CollPerm
import BumpProof.Lemmas.CollStd
import BumpProof.Lemmas.CollDrain
import BumpProof.Lemmas.CollExtract
import BumpProof.Lemmas.CollRev
import BumpProof.Lemmas.CollRevPerm

namespace C08
open Coll

/-- `keptBy` with the answers of a pure predicate is `List.filter` -/
theorem keptBy_pred (p : Id → Bool) (xs : List Id) :
    keptBy (· != 0) xs (xs.map fun x => if p x then 1 else 0) = xs.filter p := by
  induction xs with
  | nil => rfl
  | cons x xs ih =>
    simp only [List.map_cons, keptBy_cons, List.filter_cons, ih]
    cases p x <;> simp

/-! ## retain / dedup_by -/

/-- `retain` with answers `bs` (no panic): the survivors are those whose answer was `true`, in order;
    capacity and buffer are untouched -/
theorem retain_refines (v : Vec) (hv : v.WF) (bs : List Nat) (o : List Outcome) (hb : bs.length = v.len) :
    ∃ r, retain [] v (rets bs ++ o) = .ok r ∧ r.vec.abs = keptBy (· != 0) v.abs bs ∧ r.exit = .ret () ∧ r.rest = o ∧
      r.vec.len ≤ r.vec.cap ∧ r.vec.cap = v.cap := by
  have ⟨hs, hl⟩ := hv.slots_eq
  have heq := retain_eq [] v v.abs (rets bs ++ o) hs hl
  have hsp : retainSpec [] v.abs (rets bs ++ o) = _ := sieve_rets (· != 0) v.abs [] bs o (by omega)
  rw [hsp] at heq
  have hle : (keptBy (· != 0) v.abs bs).length ≤ v.cap := by
    have := sieve_length_le (· != 0) [] [] v.abs (rets bs ++ o)
    have hsp' : sieve (· != 0) [] [] v.abs (rets bs ++ o) = _ := sieve_rets (· != 0) v.abs [] bs o (by omega)
    rw [hsp'] at this
    have := hv.len_le_cap
    simp at *; omega
  generalize hr : ({ final := [] ++ keptBy (· != 0) v.abs bs, dropped := keptBy (fun b => !(b != 0)) v.abs bs, exit := Exit.ret (), rest := o } : SpecOut Unit) = r at heq
  have hfin : r.final = keptBy (· != 0) v.abs bs := by rw [← hr]; simp
  have ⟨ha, hl', hc⟩ := after_facts v r (by rw [hfin]; exact hle)
  refine ⟨_, heq, by rw [ha, hfin], by rw [← hr], by rw [← hr], by rw [hl', hc, hfin]; exact hle, hc⟩

/-- from a refinement equation to the observable facts -/
theorem refines_of_eq {α : Type} {res : M (Out α)} {v' : Vec} {r : SpecOut α} {rest : List Outcome}
    (hres : res = .ok ⟨v'.after r, r.exit, rest⟩) (hle : r.final.length ≤ v'.cap) :
    ∃ out, res = .ok out ∧ out.vec.abs = r.final ∧ out.exit = r.exit ∧ out.rest = rest ∧
      out.vec.len ≤ out.vec.cap ∧ out.vec.cap = v'.cap := by
  have ⟨ha, hl', hc⟩ := after_facts v' r hle
  exact ⟨_, hres, ha, rfl, rfl, by rw [hl', hc]; exact hle, hc⟩

/-- `dedup_by` with answers `bs` (`bs[k]` = `same_bucket(xs[k+1], previous survivor)`): the first
    element stays, later ones stay iff their answer was `false` -/
theorem dedup_by_refines (v : Vec) (hv : v.WF) (x : Id) (xs : List Id) (hx : v.abs = x :: xs)
    (bs : List Nat) (o : List Outcome) (hb : bs.length = xs.length) :
    ∃ r, dedupBy [] v (rets bs ++ o) = .ok r ∧ r.vec.abs = x :: keptBy (· == 0) xs bs ∧ r.exit = .ret () ∧ r.rest = o ∧
      r.vec.len ≤ r.vec.cap ∧ r.vec.cap = v.cap := by
  have ⟨hs, hl⟩ := hv.slots_eq
  have heq := dedupBy_eq [] v v.abs (rets bs ++ o) hs hl
  rw [hx] at heq
  have hsp : dedupSpec [] (x :: xs) (rets bs ++ o) = _ := sieve_rets (· == 0) xs [x] bs o hb
  have hlen := sieve_length_le (· == 0) [] [x] xs (rets bs ++ o)
  simp only [dedupSpec] at hsp heq
  rw [hsp] at heq hlen
  have hcap := hv.len_le_cap
  rw [hx] at hl
  have := refines_of_eq heq (by simp at hlen hl ⊢; omega)
  simpa using this

/-! ## truncate / clear / pop / remove / swap_remove -/

theorem truncate_refines (v : Vec) (hv : v.WF) (n : Nat) :
    ∃ r, truncate [] v n = .ok r ∧ r.vec.abs = v.abs.take n ∧ r.exit = .ret () ∧
      r.vec.len ≤ r.vec.cap ∧ r.vec.cap = v.cap := by
  have ⟨hs, hl⟩ := hv.slots_eq
  have hcap := hv.len_le_cap
  have heq := truncate_eq [] v v.abs n hs hl
  have hlen := truncateSpec_len [] v.abs n
  obtain ⟨r, h1, h2, h3, -, h5, h6⟩ := refines_of_eq heq (by omega)
  refine ⟨r, h1, ?_, ?_, h5, h6⟩
  · rw [h2]; unfold truncateSpec; split
    · rw [List.take_of_length_le (by omega)]
    · rfl
  · rw [h3]; unfold truncateSpec; split <;> simp [dropExit]

theorem clear_refines (v : Vec) (hv : v.WF) :
    ∃ r, clear [] v = .ok r ∧ r.vec.abs = [] ∧ r.exit = .ret () ∧ r.vec.cap = v.cap := by
  have ⟨hs, hl⟩ := hv.slots_eq
  have heq := clear_eq [] v v.abs hs hl
  obtain ⟨r, h1, h2, h3, -, -, h6⟩ := refines_of_eq heq (by simp [clearSpec])
  exact ⟨r, h1, by simpa [clearSpec] using h2, by simpa [clearSpec, dropExit] using h3, h6⟩

theorem pop_refines (v : Vec) (hv : v.WF) :
    ∃ r, pop v = .ok r ∧ r.vec.abs = v.abs.dropLast ∧ r.exit = .ret v.abs.getLast? ∧
      r.vec.len ≤ r.vec.cap ∧ r.vec.cap = v.cap := by
  have ⟨hs, hl⟩ := hv.slots_eq
  have hcap := hv.len_le_cap
  have heq := pop_eq v v.abs hs hl
  have hlen := popSpec_len v.abs
  obtain ⟨r, h1, h2, h3, -, h5, h6⟩ := refines_of_eq heq (by omega)
  refine ⟨r, h1, ?_, ?_, h5, h6⟩
  · rw [h2]; unfold popSpec; split
    · rename_i h; simp at h; simp [h]
    · rfl
  · rw [h3]; unfold popSpec; split <;> simp_all

/-- `remove(index)`: panics exactly when `index ≥ len` (and then changes nothing), otherwise removes
    and returns the element at `index`, keeping the order of the others -/
theorem remove_refines (v : Vec) (hv : v.WF) (i : Nat) :
    ∃ r, remove v i = .ok r ∧ r.vec.len ≤ r.vec.cap ∧ r.vec.cap = v.cap ∧
      (match v.abs[i]? with
       | some x => r.vec.abs = v.abs.eraseIdx i ∧ r.exit = .ret x
       | none => r.vec.abs = v.abs ∧ r.exit = .panic false) := by
  have ⟨hs, hl⟩ := hv.slots_eq
  have hcap := hv.len_le_cap
  have heq := remove_eq v v.abs i hs hl
  have hlen := removeSpec_len v.abs i
  obtain ⟨r, h1, h2, h3, -, h5, h6⟩ := refines_of_eq heq (by omega)
  refine ⟨r, h1, h5, h6, ?_⟩
  rw [h2, h3]; unfold removeSpec
  split <;> simp_all

/-- `swap_remove(index)`: panics exactly when `index ≥ len`; otherwise the last element takes the place
    of the removed one -/
theorem swap_remove_refines (v : Vec) (hv : v.WF) (i : Nat) :
    ∃ r, swapRemove v i = .ok r ∧ r.vec.len ≤ r.vec.cap ∧ r.vec.cap = v.cap ∧
      (match v.abs[i]?, v.abs.getLast? with
       | some x, some l => r.vec.abs = (v.abs.set i l).dropLast ∧ r.exit = .ret x
       | _, _ => r.vec.abs = v.abs ∧ r.exit = .panic false) := by
  have ⟨hs, hl⟩ := hv.slots_eq
  have hcap := hv.len_le_cap
  have heq := swapRemove_eq v v.abs i hs hl
  have hlen := swapRemoveSpec_len v.abs i
  obtain ⟨r, h1, h2, h3, -, h5, h6⟩ := refines_of_eq heq (by omega)
  refine ⟨r, h1, h5, h6, ?_⟩
  rw [h2, h3]; unfold swapRemoveSpec
  split <;> simp_all

/-! ## capacity: reservations -/

/-- no reallocation while the capacity suffices: the reservation returns the very same vector -/
theorem reserve_fits (env : Env) (v : Vec) (n : Nat) (h : v.len + n ≤ v.cap) : reserve env v n = some v :=
  Coll.reserve_fits env v n h

/-- a successful reservation keeps contents, length and logs, never shrinks, and fulfils its promise -/
theorem reserve_promise (env : Env) (v v' : Vec) (hv : v.WF) (n : Nat) (h : reserve env v n = some v') :
    v'.abs = v.abs ∧ v'.len = v.len ∧ v.len + n ≤ v'.cap ∧ v.cap ≤ v'.cap ∧ v'.WF := by
  have ⟨hs, hl⟩ := hv.slots_eq
  have ⟨g, hc⟩ := reserve_some hs hl h
  have ⟨hwf, _, habs⟩ := g.wf hv
  exact ⟨habs, g.len, hc, g.cap, hwf⟩

/-- `FixedBumpVec`: refuses exactly when the request does not fit, and never changes the buffer -/
theorem reserve_fixed (env : Env) (v : Vec) (n : Nat) (hk : env.kind = .fixed) :
    reserve env v n = if n > v.cap - v.len then none else some v :=
  Coll.reserve_fixed env v n hk

/-- `BumpVec`: a reservation is never refused (allocation failure is not a model outcome: it aborts / errors in C07) -/
theorem reserve_bump (env : Env) (v : Vec) (n : Nat) (hk : env.kind = .bump) : (reserve env v n).isSome = true := by
  unfold reserve growAmortized
  split <;> simp [hk]

theorem reserveOne_bump (env : Env) (v : Vec) (hk : env.kind = .bump) : roomOne env v = true := by
  unfold roomOne reserveOne growAmortized
  simp only [hk]
  split <;> simp

theorem reserveOne_fixed (env : Env) (v : Vec) (hk : env.kind = .fixed) : roomOne env v = decide (v.len < v.cap) := by
  unfold roomOne reserveOne
  simp only [hk]
  split <;> simp <;> omega

/-! ## push / insert / extend_from_slice_clone / resize -/

/-- `push`: with room the value is appended; a full `FixedBumpVec` panics and stays as it is -/
theorem push_refines (env : Env) (v : Vec) (hv : v.WF) (id : Id) :
    ∃ r, push env v id = .ok r ∧ r.vec.len ≤ r.vec.cap ∧
      (if roomOne env v then r.vec.abs = v.abs ++ [id] ∧ r.exit = .ret () else r.vec.abs = v.abs ∧ r.exit = .panic false) := by
  have ⟨hs, hl⟩ := hv.slots_eq
  have hcap := hv.len_le_cap
  have ⟨g, hc⟩ := grownOne_grows' (env := env) hv
  have heq := push_eq env v v.abs id hs hl
  have hlen := pushSpec_len (roomOne env v) v.abs id
  have := g.cap
  by_cases hr : roomOne env v = true
  · have := hc hr
    rw [hr] at heq hlen
    obtain ⟨r, h1, h2, h3, -, h5, -⟩ := refines_of_eq heq (by simp at hlen; omega)
    exact ⟨r, h1, h5, by simpa [hr, pushSpec] using And.intro h2 h3⟩
  · have hr' : roomOne env v = false := by simpa using hr
    rw [hr'] at heq hlen
    obtain ⟨r, h1, h2, h3, -, h5, -⟩ := refines_of_eq heq (by simp at hlen; omega)
    exact ⟨r, h1, h5, by simpa [hr', pushSpec] using And.intro h2 h3⟩

/-- `insert(index, value)`: panics exactly when `index > len` (or a `FixedBumpVec` is full) and then
    changes nothing; otherwise `value` ends up at `index` with the later elements shifted by one -/
theorem insert_refines (env : Env) (v : Vec) (hv : v.WF) (i : Nat) (id : Id) :
    ∃ r, insert env v i id = .ok r ∧ r.vec.len ≤ r.vec.cap ∧
      (if i ≤ v.len ∧ roomOne env v then r.vec.abs = v.abs.take i ++ id :: v.abs.drop i ∧ r.exit = .ret ()
       else r.vec.abs = v.abs ∧ r.exit = .panic false) := by
  have ⟨hs, hl⟩ := hv.slots_eq
  have hcap := hv.len_le_cap
  have ⟨g, hc⟩ := grownOne_grows' (env := env) hv
  have heq := insert_eq env v v.abs i id hs hl
  have hlen := insertSpec_len (roomOne env v) v.abs i id
  have := g.cap
  by_cases hi : i ≤ v.len ∧ roomOne env v = true
  · have := hc hi.2
    have hi' : i ≤ v.abs.length ∧ roomOne env v = true := by rw [hl]; exact hi
    simp only [hi.1, ↓reduceIte] at heq
    simp only [hi', and_self, ↓reduceIte] at hlen
    rw [hi.2] at heq
    obtain ⟨r, h1, h2, h3, -, h5, -⟩ := refines_of_eq heq (by omega)
    refine ⟨r, h1, h5, ?_⟩
    rw [if_pos hi, h2, h3]
    have : i ≤ v.abs.length := hi'.1
    simp [insertSpec, this, hi.2]
  · have hi' : ¬ (i ≤ v.abs.length ∧ roomOne env v = true) := by rw [hl]; exact hi
    simp only [hi', ↓reduceIte] at hlen
    have : ∃ r, insert env v i id = .ok r ∧ r.vec.abs = (insertSpec (roomOne env v) v.abs i id).final ∧
        r.exit = (insertSpec (roomOne env v) v.abs i id).exit ∧ r.vec.len ≤ r.vec.cap := by
      by_cases h1 : i ≤ v.len
      · simp only [h1, ↓reduceIte] at heq
        obtain ⟨r, a, b, c, -, e, -⟩ := refines_of_eq heq (by omega)
        exact ⟨r, a, b, c, e⟩
      · simp only [h1, ↓reduceIte] at heq
        obtain ⟨r, a, b, c, -, e, -⟩ := refines_of_eq heq (by omega)
        exact ⟨r, a, b, c, e⟩
    obtain ⟨r, a, b, c, e⟩ := this
    refine ⟨r, a, e, ?_⟩
    rw [if_neg hi, b, c]
    simp [insertSpec, hi']

/-- `extend_from_slice_clone` whose clones get the ids `ids`: they are appended in order -/
theorem extend_from_slice_clone_refines (env : Env) (v : Vec) (hv : v.WF) (ids : List Id) (o : List Outcome)
    (hroom : room env v ids.length = true) :
    ∃ r, extendFromSliceClone env v ids.length (rets ids ++ o) = .ok r ∧ r.vec.abs = v.abs ++ ids ∧ r.exit = .ret () ∧
      r.rest = o ∧ r.vec.len ≤ r.vec.cap := by
  have ⟨hs, hl⟩ := hv.slots_eq
  have ⟨g, hc⟩ := grown_grows' (env := env) (n := ids.length) hv
  have heq := extendFromSliceClone_eq env v v.abs ids.length (rets ids ++ o) hs hl
  rw [hroom] at heq
  simp only [extendCloneSpecR, ↓reduceIte, extendCloneSpec_rets] at heq
  have := hc hroom
  obtain ⟨r, h1, h2, h3, h4, h5, -⟩ := refines_of_eq heq (by simp; omega)
  exact ⟨r, h1, h2, h3, h4, h5⟩

/-- `resize(new_len, value)`: shrinking is `truncate`; growing appends `new_len - len - 1` clones and
    then `value` itself -/
theorem resize_refines (env : Env) (v : Vec) (hv : v.WF) (newLen : Nat) (value : Id) (ids : List Id) (o : List Outcome)
    (hb : env.bombs = []) (hroom : room env v (newLen - v.len) = true) (hids : ids.length = newLen - v.len - 1) :
    ∃ r, resize env v newLen value (rets ids ++ o) = .ok r ∧ r.exit = .ret () ∧ r.vec.len ≤ r.vec.cap ∧
      r.vec.abs = (if newLen > v.len then v.abs ++ ids ++ [value] else v.abs.take newLen) := by
  have ⟨hs, hl⟩ := hv.slots_eq
  have hcap := hv.len_le_cap
  have heq := resize_eq env v v.abs newLen value (rets ids ++ o) hs hl
  have hlen := resizeSpec_len (room env v (newLen - v.len)) env.bombs v.abs newLen value (rets ids ++ o)
  rw [hroom] at heq hlen
  by_cases h : newLen > v.len
  · have ⟨g, hc⟩ := grown_grows' (env := env) (n := newLen - v.len) hv
    have := hc hroom
    simp only [h, ↓reduceIte] at heq hlen ⊢
    obtain ⟨r, h1, h2, h3, -, h5, -⟩ := refines_of_eq heq (by omega)
    have h' : newLen > v.abs.length := by omega
    have hn : newLen - v.abs.length = ids.length + 1 := by omega
    have hspec : resizeSpec true env.bombs v.abs newLen value (rets ids ++ o)
        = { final := v.abs ++ ids ++ [value], exit := .ret (), rest := o } := by
      simp only [resizeSpec, h', ↓reduceIte, extendWithSpecR, hn, extendWithSpec, extendCloneSpec_rets]
    rw [hspec] at h2 h3
    exact ⟨r, h1, h3, h5, h2⟩
  · simp only [h, ↓reduceIte] at heq ⊢
    have hlen2 : (resizeSpec true env.bombs v.abs newLen value (rets ids ++ o)).final.length ≤ v.abs.length := by
      have : newLen - v.abs.length = 0 := by omega
      simp only [↓reduceIte, this] at hlen; omega
    obtain ⟨r, h1, h2, h3, -, h5, -⟩ := refines_of_eq heq (by omega)
    have h' : ¬ newLen > v.abs.length := by omega
    refine ⟨r, h1, ?_, h5, ?_⟩
    · have hx : (truncateSpec [] v.abs newLen).exit = .ret () := by
        unfold truncateSpec; split <;> simp [dropExit]
      rw [h3]; simp only [resizeSpec, h', ↓reduceIte, hb, hx]
      simp
    · rw [h2]; simp only [resizeSpec, h', ↓reduceIte]
      unfold truncateSpec; split
      · rw [List.take_of_length_le (by omega)]
      · rfl

/-- `pop_if(pred)`: empty → `None` without calling `pred`; `pred(last)` true → the last element is
    popped; false → nothing changes -/
theorem pop_if_refines (v : Vec) (hv : v.WF) (b : Nat) (o : List Outcome) :
    ∃ r, popIf v (.ret b :: o) = .ok r ∧ r.vec.cap = v.cap ∧
      (match v.abs.getLast? with
       | none => r.vec.abs = v.abs ∧ r.exit = .ret none ∧ r.rest = .ret b :: o
       | some x => if b ≠ 0 then r.vec.abs = v.abs.dropLast ∧ r.exit = .ret (some x) ∧ r.rest = o
                   else r.vec.abs = v.abs ∧ r.exit = .ret none ∧ r.rest = o) := by
  have ⟨hs, hl⟩ := hv.slots_eq
  have hcap := hv.len_le_cap
  have heq := popIf_eq v v.abs (.ret b :: o) hs hl
  have hlen : (popIfSpec v.abs (.ret b :: o)).final.length ≤ v.cap := by
    unfold popIfSpec; split <;> (try split) <;> simp <;> omega
  obtain ⟨r, h1, h2, h3, h4, -, h6⟩ := refines_of_eq heq hlen
  refine ⟨r, h1, h6, ?_⟩
  rw [h2, h3, h4]; unfold popIfSpec
  cases hx : v.abs.getLast? with
  | none => simp
  | some x => simp only; split <;> simp

/-- `resize_with(new_len, f)` with `f` returning the values `ids`: they are appended in order; shrinking truncates -/
theorem resize_with_refines (env : Env) (v : Vec) (hv : v.WF) (newLen : Nat) (ids : List Id) (o : List Outcome)
    (hb : env.bombs = []) (hroom : room env v (newLen - v.len) = true) (hids : ids.length = newLen - v.len) :
    ∃ r, resizeWith env v newLen (rets ids ++ o) = .ok r ∧ r.exit = .ret () ∧ r.vec.len ≤ r.vec.cap ∧
      r.vec.abs = (if newLen > v.len then v.abs ++ ids else v.abs.take newLen) := by
  have ⟨hs, hl⟩ := hv.slots_eq
  have hcap := hv.len_le_cap
  have heq := resizeWith_eq env v v.abs newLen (rets ids ++ o) hs hl
  rw [hroom] at heq
  by_cases h : newLen > v.len
  · have ⟨g, hc⟩ := grown_grows' (env := env) (n := newLen - v.len) hv
    have := hc hroom
    have h' : newLen > v.abs.length := by omega
    have hn : newLen - v.abs.length = ids.length := by omega
    simp only [h, ↓reduceIte, resizeWithSpec, h', extendCloneSpecR, hn, extendCloneSpec_rets] at heq ⊢
    obtain ⟨r, h1, h2, h3, -, h5, -⟩ := refines_of_eq heq (by simp; omega)
    exact ⟨r, h1, h3, h5, h2⟩
  · have h' : ¬ newLen > v.abs.length := by omega
    simp only [h, ↓reduceIte, resizeWithSpec, h', hb] at heq ⊢
    have hlen := truncateSpec_len [] v.abs newLen
    obtain ⟨r, h1, h2, h3, -, h5, -⟩ := refines_of_eq heq (by simp only; omega)
    refine ⟨r, h1, ?_, h5, ?_⟩
    · rw [h3]; simp only; unfold truncateSpec; split <;> simp [dropExit]
    · rw [h2]; simp only; unfold truncateSpec; split
      · rw [List.take_of_length_le (by omega)]
      · rfl

/-! ## drain / into_iter / extract_if / map_in_place / append -/

/-- `drain(start..end)`: panics exactly for `start > end` or `end > len` (and then changes nothing);
    otherwise the calls of `next` / `next_back` yield the elements of the range from its two ends
    (`pullsSpec`, a double-ended queue), dropping the `Drain` removes the whole range, `keep_rest`
    removes only what was yielded -/
theorem drain_refines (v : Vec) (hv : v.WF) (start end_ : Nat) (script : List Pull) (fin : Fin) :
    ∃ r, drain [] v start end_ script fin = .ok r ∧ r.vec.len ≤ r.vec.cap ∧ r.vec.cap = v.cap ∧
      (if start > end_ ∨ end_ > v.len then r.vec.abs = v.abs ∧ r.exit = .panic false
       else
         r.exit = .ret (pullsSpec ((v.abs.take end_).drop start) script).1 ∧
         r.vec.abs = v.abs.take start ++
            (match fin with | .drop => [] | .keepRest => (pullsSpec ((v.abs.take end_).drop start) script).2) ++
            v.abs.drop end_) := by
  have ⟨hs, hl⟩ := hv.slots_eq
  have hcap := hv.len_le_cap
  have heq := drain_eq [] v v.abs start end_ script fin hs hl
  have hlen := drainSpec_len [] v.abs start end_ script fin
  obtain ⟨r, h1, h2, h3, -, h5, h6⟩ := refines_of_eq heq (by omega)
  refine ⟨r, h1, h5, h6, ?_⟩
  rw [h2, h3]
  unfold drainSpec
  rw [← hl]
  split
  · simp
  · cases fin <;> simp

/-- `into_iter()`: the pulls yield the elements from the two ends, afterwards nothing is owned -/
theorem into_iter_refines (v : Vec) (hv : v.WF) (script : List Pull) :
    ∃ r, intoIter [] v script = .ok r ∧ r.exit = .ret (pullsSpec v.abs script).1 ∧ r.vec.abs = [] := by
  have ⟨hs, hl⟩ := hv.slots_eq
  have heq := intoIter_eq [] v v.abs script hs hl
  obtain ⟨r, h1, h2, h3, -, -, -⟩ := refines_of_eq heq (by simp [intoIterSpec])
  exact ⟨r, h1, by rw [h3]; simp [intoIterSpec], by rw [h2]; simp [intoIterSpec]⟩

/-- `extract_if(pred)` consumed to the end, answers `bs`: the elements whose answer is `true` are
    yielded in order, the others stay in order (`Vec::extract_if` over the whole vector) -/
theorem extract_if_refines (v : Vec) (hv : v.WF) (bs : List Nat) (o : List Outcome) (calls : Nat)
    (hb : bs.length = v.len) (hc : calls > v.len) :
    ∃ r, extractIf v calls (rets bs ++ o) = .ok r ∧ r.exit = .ret (keptBy (· != 0) v.abs bs) ∧
      r.vec.abs = keptBy (· == 0) v.abs bs ∧ r.rest = o ∧ r.vec.len ≤ r.vec.cap ∧ r.vec.cap = v.cap := by
  have ⟨hs, hl⟩ := hv.slots_eq
  have hcap := hv.len_le_cap
  have heq := extractIf_eq v v.abs calls (rets bs ++ o) hs hl
  have hlen := extractSpec_len calls v.abs (rets bs ++ o)
  obtain ⟨r, h1, h2, h3, h4, h5, h6⟩ := refines_of_eq heq (by omega)
  have hrun := extractRun_rets v.abs [] bs o calls (by omega) (by omega)
  refine ⟨r, h1, ?_, ?_, ?_, h5, h6⟩
  · rw [h3]; simp [extractSpec, hrun]
  · rw [h2]; simp [extractSpec, hrun]
  · rw [h4]; simp [extractSpec, hrun]

/-- `map_in_place(f)` with `f` returning the values `ids`: same length, results in order -/
theorem map_in_place_refines (v : Vec) (hv : v.WF) (ids : List Id) (o : List Outcome) (hi : ids.length = v.len) :
    ∃ r, mapInPlace [] v (rets ids ++ o) = .ok r ∧ r.exit = .ret () ∧ r.vec.abs = ids ∧ r.vec.len = v.len ∧ r.rest = o := by
  have ⟨hs, hl⟩ := hv.slots_eq
  have hcap := hv.len_le_cap
  have heq := mapInPlace_eq [] v v.abs (rets ids ++ o) hs hl
  rw [mapSpec_rets v.abs [] ids o (by omega)] at heq
  obtain ⟨r, h1, h2, h3, h4, -, -⟩ := refines_of_eq heq (by simp; omega)
  refine ⟨r, h1, h3, by simpa using h2, ?_, h4⟩
  have : r.vec.abs.length = r.vec.len := by
    rw [h1] at heq; cases heq; simp [Vec.after, Vec.abs, take_I_H]
  rw [← this, h2]; simp; omega

/-- `append(other)` with room: the elements of `other` follow those of `self`, `other` is left empty -/
theorem append_refines (env : Env) (v other : Vec) (hv : v.WF) (ho : other.WF) (hroom : room env v other.len = true) :
    ∃ r o', append env v other = .ok (r, o') ∧ r.exit = .ret () ∧ r.vec.abs = v.abs ++ other.abs ∧
      o'.len = 0 ∧ r.vec.len ≤ r.vec.cap := by
  have ⟨hs, hl⟩ := hv.slots_eq
  have ⟨hso, hlo⟩ := ho.slots_eq
  have heq := append_eq env v other v.abs other.abs hs hl hso hlo
  have ⟨g, hc⟩ := grown_grows' (env := env) (n := other.len) hv
  have := hc hroom
  rw [hroom] at heq
  have ⟨ha, hl', hcp⟩ := after_facts (grown env v other.len) (appendSpec true v.abs other.abs) (by simp [appendSpec]; omega)
  refine ⟨_, _, heq, by simp [appendSpec], by rw [ha]; simp [appendSpec], rfl, ?_⟩
  rw [hl', hcp]; simp [appendSpec]; omega

/-! ## `MutBumpVecRev`: `Vec` with front and back mirrored

  `rabs v` = what `as_slice()` shows (index 0 = front).  `push` / `pop` / `extend*` / `append` /
  `truncate` act on the FRONT (`VecDeque::push_front`, `pop_front`, …; `truncate(n)` keeps the LAST `n`),
  `swap_remove` fills the gap with the FIRST element, `insert` / `remove` take ordinary indices. -/

theorem rrefines_of_eq {α : Type} {res : M (Out α)} {v' : Vec} {r : SpecOut α} {rest : List Outcome}
    (hres : res = .ok ⟨v'.rafter r, r.exit, rest⟩) (hle : r.final.length ≤ v'.cap) :
    ∃ out, res = .ok out ∧ out.vec.rabs = r.final ∧ out.exit = r.exit ∧ out.rest = rest ∧
      out.vec.len ≤ out.vec.cap ∧ out.vec.cap = v'.cap := by
  have ⟨ha, hl', hc⟩ := rafter_facts v' r hle
  exact ⟨_, hres, ha, rfl, rfl, by rw [hl', hc]; exact hle, hc⟩

theorem rev_push_refines (env : Env) (v : Vec) (hv : v.RWF) (id : Id) :
    ∃ r, rpush env v id = .ok r ∧ r.vec.len ≤ r.vec.cap ∧
      (if rroom env v 1 then r.vec.rabs = id :: v.rabs ∧ r.exit = .ret () else r.vec.rabs = v.rabs ∧ r.exit = .panic false) := by
  have ⟨hs, hl⟩ := hv.slots_eq
  have hcap := hv.len_le_cap
  have ⟨g, hc⟩ := rgrown_grows (env := env) (n := 1) hv
  have heq := rpush_eq env v v.rabs id hs hl
  have := g.cap
  by_cases hr : rroom env v 1 = true
  · have := hc hr
    rw [hr] at heq
    obtain ⟨r, h1, h2, h3, -, h5, -⟩ := rrefines_of_eq heq (by simp [rpushSpec]; omega)
    exact ⟨r, h1, h5, by simpa [hr, rpushSpec] using And.intro h2 h3⟩
  · have hr' : rroom env v 1 = false := by simpa using hr
    rw [hr'] at heq
    obtain ⟨r, h1, h2, h3, -, h5, -⟩ := rrefines_of_eq heq (by simp [rpushSpec]; omega)
    exact ⟨r, h1, h5, by simpa [hr', rpushSpec] using And.intro h2 h3⟩

theorem rev_pop_refines (v : Vec) (hv : v.RWF) :
    ∃ r, rpop v = .ok r ∧ r.vec.rabs = v.rabs.tail ∧ r.exit = .ret v.rabs.head? ∧ r.vec.cap = v.cap := by
  have ⟨hs, hl⟩ := hv.slots_eq
  have hcap := hv.len_le_cap
  have heq := rpop_eq v v.rabs hs hl
  have hlen : (rpopSpec v.rabs).final.length ≤ v.cap := by
    have := (rpopSpec_perm v.rabs).length_eq; simp only [List.length_append] at this; omega
  obtain ⟨r, h1, h2, h3, -, -, h6⟩ := rrefines_of_eq heq hlen
  refine ⟨r, h1, ?_, ?_, h6⟩
  · rw [h2]; unfold rpopSpec; cases v.rabs <;> rfl
  · rw [h3]; unfold rpopSpec; cases v.rabs <;> rfl

/-- `truncate(n)` keeps the LAST `n` elements -/
theorem rev_truncate_refines (v : Vec) (hv : v.RWF) (n : Nat) :
    ∃ r, rtruncate [] v n = .ok r ∧ r.vec.rabs = v.rabs.drop (v.len - n) ∧ r.exit = .ret () ∧ r.vec.cap = v.cap := by
  have ⟨hs, hl⟩ := hv.slots_eq
  have hcap := hv.len_le_cap
  have heq := rtruncate_eq [] v v.rabs n hs hl
  have hlen : (rtruncateSpec [] v.rabs n).final.length ≤ v.cap := by
    have := (rtruncateSpec_perm [] v.rabs n).length_eq; simp only [List.length_append] at this; omega
  obtain ⟨r, h1, h2, h3, -, -, h6⟩ := rrefines_of_eq heq hlen
  refine ⟨r, h1, ?_, ?_, h6⟩
  · rw [h2]; unfold rtruncateSpec; split
    · have : v.len - n = 0 := by omega
      rw [this]; rfl
    · rw [hl]
  · rw [h3]; unfold rtruncateSpec; split <;> simp [dropExit]

theorem rev_remove_refines (v : Vec) (hv : v.RWF) (i : Nat) :
    ∃ r, rremove v i = .ok r ∧ r.vec.cap = v.cap ∧
      (match v.rabs[i]? with
       | some x => r.vec.rabs = v.rabs.eraseIdx i ∧ r.exit = .ret x
       | none => r.vec.rabs = v.rabs ∧ r.exit = .panic false) := by
  have ⟨hs, hl⟩ := hv.slots_eq
  have hcap := hv.len_le_cap
  have heq := rremove_eq v v.rabs i hs hl
  have hlen := removeSpec_len v.rabs i
  obtain ⟨r, h1, h2, h3, -, -, h6⟩ := rrefines_of_eq heq (by omega)
  refine ⟨r, h1, h6, ?_⟩
  rw [h2, h3]; unfold removeSpec
  split <;> simp_all

/-- `swap_remove(i)`: the FIRST element takes the place of the removed one -/
theorem rev_swap_remove_refines (v : Vec) (hv : v.RWF) (i : Nat) :
    ∃ r, rswapRemove v i = .ok r ∧ r.vec.cap = v.cap ∧
      (match v.rabs[i]?, v.rabs.head? with
       | some x, some f => r.vec.rabs = (v.rabs.set i f).tail ∧ r.exit = .ret x
       | _, _ => r.vec.rabs = v.rabs ∧ r.exit = .panic false) := by
  have ⟨hs, hl⟩ := hv.slots_eq
  have hcap := hv.len_le_cap
  have heq := rswapRemove_eq v v.rabs i hs hl
  have hlen : (rswapRemoveSpec v.rabs i).final.length ≤ v.cap := by
    have := (rswapRemoveSpec_perm v.rabs i).length_eq; simp only [List.length_append] at this; omega
  obtain ⟨r, h1, h2, h3, -, -, h6⟩ := rrefines_of_eq heq hlen
  refine ⟨r, h1, h6, ?_⟩
  rw [h2, h3]; unfold rswapRemoveSpec
  split <;> simp_all

theorem rev_insert_refines (env : Env) (v : Vec) (hv : v.RWF) (i : Nat) (id : Id) (hroom : rroom env v 1 = true) :
    ∃ r, rinsert env v i id = .ok r ∧
      (if i ≤ v.len then r.vec.rabs = v.rabs.take i ++ id :: v.rabs.drop i ∧ r.exit = .ret ()
       else r.vec.rabs = v.rabs ∧ r.exit = .panic false) := by
  have ⟨hs, hl⟩ := hv.slots_eq
  have hcap := hv.len_le_cap
  have ⟨g, hc⟩ := rgrown_grows (env := env) (n := 1) hv
  have heq := rinsert_eq env v v.rabs i id hs hl
  have hlen := insertSpec_len (rroom env v 1) v.rabs i id
  have := hc hroom
  have := g.cap
  rw [hroom] at heq hlen
  by_cases hi : i ≤ v.len
  · simp only [hi, ↓reduceIte] at heq ⊢
    have hi' : i ≤ v.rabs.length := by omega
    simp only [hi', and_self, ↓reduceIte] at hlen
    obtain ⟨r, h1, h2, h3, -, -, -⟩ := rrefines_of_eq heq (by omega)
    exact ⟨r, h1, by rw [h2, h3]; simp [insertSpec, hi']⟩
  · simp only [hi, ↓reduceIte] at heq ⊢
    have hi' : ¬ i ≤ v.rabs.length := by omega
    simp only [hi', false_and, ↓reduceIte] at hlen
    obtain ⟨r, h1, h2, h3, -, -, -⟩ := rrefines_of_eq heq (by omega)
    exact ⟨r, h1, by rw [h2, h3]; simp [insertSpec, hi']⟩

/-- the clones of `extend_from_slice_clone` are pushed to the front one after the other -/
theorem rextendCloneSpec_rets (ids : List Id) : ∀ (xs : List Id) (o : List Outcome),
    rextendCloneSpec xs ids.length (rets ids ++ o) = { final := ids.reverse ++ xs, exit := .ret (), rest := o } := by
  induction ids with
  | nil => intro xs o; simp [rextendCloneSpec, rets]
  | cons id ids ih =>
    intro xs o
    simp only [List.length_cons, rets, List.map_cons, List.cons_append, rextendCloneSpec]
    have := ih (id :: xs) o
    simp only [rets] at this
    rw [this]; simp

theorem rev_extend_from_slice_clone_refines (env : Env) (v : Vec) (hv : v.RWF) (ids : List Id) (o : List Outcome)
    (hroom : rroom env v ids.length = true) :
    ∃ r, rextendFromSliceClone env v ids.length (rets ids ++ o) = .ok r ∧ r.vec.rabs = ids.reverse ++ v.rabs ∧
      r.exit = .ret () ∧ r.rest = o := by
  have ⟨hs, hl⟩ := hv.slots_eq
  have ⟨g, hc⟩ := rgrown_grows (env := env) (n := ids.length) hv
  have heq := rextendFromSliceClone_eq env v v.rabs ids.length (rets ids ++ o) hs hl
  rw [hroom] at heq
  simp only [rextendCloneSpecR, ↓reduceIte, rextendCloneSpec_rets] at heq
  have := hc hroom
  obtain ⟨r, h1, h2, h3, h4, -, -⟩ := rrefines_of_eq heq (by simp; omega)
  exact ⟨r, h1, h2, h3, h4⟩

/-- `append(other)` puts `other` IN FRONT -/
theorem rev_append_refines (env : Env) (v other : Vec) (hv : v.RWF) (ho : other.WF) (hroom : rroom env v other.len = true) :
    ∃ r o', rappend env v other = .ok (r, o') ∧ r.exit = .ret () ∧ r.vec.rabs = other.abs ++ v.rabs ∧ o'.len = 0 := by
  have ⟨hs, hl⟩ := hv.slots_eq
  have ⟨hso, hlo⟩ := ho.slots_eq
  have heq := rappend_eq env v other v.rabs other.abs hs hl hso hlo
  have ⟨g, hc⟩ := rgrown_grows (env := env) (n := other.len) hv
  have := hc hroom
  rw [hroom] at heq
  have ⟨ha, _, _⟩ := rafter_facts (rgrown env v other.len) (rappendSpec true v.rabs other.abs) (by simp [rappendSpec]; omega)
  exact ⟨_, _, heq, by simp [rappendSpec], by rw [ha]; simp [rappendSpec], rfl⟩

/-- non-vacuity: `[1,2,3,4,5].retain(|x| answers 1,0,1,1,0)` on a vector with 2 spare slots -/
example : ∃ r, retain [] (Vec.mk' [1, 2, 3, 4, 5] 2) (rets [1, 0, 1, 1, 0]) = .ok r ∧ r.vec.abs = [1, 3, 4] ∧ r.vec.cap = 7 :=
  ⟨_, rfl, by decide, by decide⟩

example : (Vec.mk' [1, 2, 3, 4, 5] 2).WF := ⟨⟨[1, 2, 3, 4, 5], by decide, by decide⟩, by decide⟩

end C08
