/-
  Props/C07.lean — property C07: allocation failure is reported as an error value and leaves
  all state intact.  Over the frozen arena model: a fault (panic / UB / abort) is `Except.error`,
  a reported allocation error is `.ok (s', .error e)`.

  `Ledger.Intact s s'` (Lemmas/LedgerIntact.lean) spells out "intact": same live blocks and ghost
  state, same chunks with the same address ranges and the SAME BYTES, same bump positions up to
  and including the current chunk, and (since the crate fix c107ca6) the same current chunk.

  ONLY property theorems live here; helper lemmas are in `Lemmas/Ledger*.lean`.
-/
import BumpProof.Lemmas.LedgerIntact
import BumpProof.Lemmas.LedgerEx

set_option linter.unusedSimpArgs false
set_option linter.unusedVariables false

namespace C07
open Arena Rs Ledger

/-- request bookkeeping of a failed call: at most one request was made (an `alloc` with the header
    alignment), at most one response consumed, and if the error is not a base-allocator refusal
    (`capacityOverflow`, `claimed`) the base allocator was not involved at all -/
def FailLedger (cfg : Cfg) (s s' : State) (e : AErr) : Prop :=
  (s'.reqs = s.reqs ∨ ∃ size, s'.reqs = s.reqs ++ [BaseReq.alloc size cfg.hdr.align]) ∧
  (s'.resps = s.resps ∨ ∃ x, s.resps = x :: s'.resps) ∧
  (e ≠ .alloc → s'.reqs = s.reqs ∧ s'.resps = s.resps) ∧
  (e = .claimed ↔ s.cur = .claimed)

theorem FailLedger.of_frame {cfg : Cfg} {s s' : State} {α : Type} {r : Except AErr α} {e : AErr}
    (h : SlowFrame cfg s s' r) (he : r = .error e) : FailLedger cfg s s' e :=
  ⟨h.reqs, h.resps, (h.err e he).2.2.1, (h.err e he).2.2.2⟩

/-! ## Whenever an error is reported, the state is intact

  These hold for EVERY way the call can end in an error (refusal of the base allocator at any point,
  size overflow, claimed arena), for every state and every input: no hypotheses. -/

theorem inAnotherChunk_error_intact {cfg : Cfg} {k : Kind} {s s' : State} {L : Layout} {h : Hints} {e : AErr}
    (hr : inAnotherChunk cfg k s L h = .ok (s', .error e)) : Intact s s' ∧ FailLedger cfg s s' e :=
  ⟨(inAnotherChunk_frame hr).intact rfl, FailLedger.of_frame (inAnotherChunk_frame hr) rfl⟩

theorem allocGeneric_error_intact {cfg : Cfg} {k : Kind} {s s' : State} {L : Layout} {h hs : Hints} {e : AErr}
    (hr : allocGeneric cfg k s L h hs = .ok (s', .error e)) : Intact s s' ∧ FailLedger cfg s s' e := by
  obtain ⟨_, hf⟩ := (allocGeneric_frame hr).2.2.2 e rfl
  exact ⟨hf.intact rfl, FailLedger.of_frame hf rfl⟩

theorem alloc_error_intact {cfg : Cfg} {s s' : State} {L : Layout} {e : AErr}
    (hr : alloc cfg s L = .ok (s', .error e)) : Intact s s' ∧ FailLedger cfg s s' e := by
  obtain ⟨_, hf⟩ := (alloc_frame hr).2.2.2 e rfl
  exact ⟨hf.intact rfl, FailLedger.of_frame hf rfl⟩

/-- `reserve`: additionally the current chunk does not move -/
theorem reserve_error_intact {cfg : Cfg} {s s' : State} {add : Nat} {e : AErr}
    (hr : reserve cfg s add = .ok (s', .error e)) :
    Intact s s' ∧ FailLedger cfg s s' e ∧ s'.cur = s.cur ∧ s'.chunks = s.chunks := by
  obtain ⟨h1, hf, h3⟩ := reserve_frame hr
  exact ⟨hf.intact rfl, FailLedger.of_frame hf rfl, h3 e rfl, Ext.chunks_eq h1 (hf.err e rfl).1⟩

theorem reserveDyn_error_intact {cfg : Cfg} {s s' : State} {add : Nat} {e : AErr}
    (hr : reserveDyn cfg s add = .ok (s', .error e)) : Intact s s' ∧ s'.reqs.length ≤ s.reqs.length + 1 := by
  unfold reserveDyn at hr
  split at hr
  · simp only [pure_eq_ok, Except.ok.injEq, Prod.mk.injEq] at hr
    rw [← hr.1]; exact ⟨Intact.refl s, Nat.le_succ _⟩
  · obtain ⟨⟨s1, r1⟩, h1, hr⟩ := bind_eq_ok hr
    simp only [pure_eq_ok, Except.ok.injEq, Prod.mk.injEq] at hr
    obtain ⟨rfl, h2⟩ := hr
    cases r1 with
    | ok v => simp only [Except.map] at h2; cases h2
    | error e1 =>
      obtain ⟨hi, hl⟩ := allocGeneric_error_intact h1
      refine ⟨hi, ?_⟩
      rcases hl.1 with h | ⟨sz, h⟩ <;> rw [h]
      · exact Nat.le_succ _
      · simp only [List.length_append, List.length_cons, List.length_nil, Nat.le_refl]

/-- `grow` (allocator interface): a failed grow leaves the old block and everything else intact -/
theorem grow_error_intact {cfg : Cfg} {s s' : State} {ptr oldSize : Nat} {newL : Layout} {e : AErr}
    (hr : grow cfg s ptr oldSize newL = .ok (s', .error e)) : Intact s s' ∧ FailLedger cfg s s' e := by
  rcases grow_error hr with ⟨r, h1, h2⟩ | h1
  · cases r with
    | ok v => simp only [Except.map] at h2; cases h2
    | error e1 =>
      simp only [Except.map, Except.error.injEq] at h2
      subst h2
      exact inAnotherChunk_error_intact h1
  · exact alloc_error_intact h1

/-- `shrink` (allocator interface; it allocates when the alignment is raised) -/
theorem shrink_error_intact {cfg : Cfg} {s s' : State} {ptr oldSize : Nat} {newL : Layout} {e : AErr}
    (hr : shrink cfg s ptr oldSize newL = .ok (s', .error e)) : Intact s s' ∧ FailLedger cfg s s' e := by
  rcases shrink_error hr with h1 | h1
  · exact inAnotherChunk_error_intact h1
  · exact alloc_error_intact h1

/-! ## A failed call leaves the allocator in the chunk it started in

  (Crate fix c107ca6: before it, a refused chunk request left the LAST chunk current.)  Together with
  `Intact.pos` this means: after an error the current chunk and its bump position — the place the next
  allocation is served from — are exactly what they were. -/

theorem inAnotherChunk_error_keeps_cur {cfg : Cfg} {k : Kind} {s s' : State} {L : Layout} {h : Hints} {e : AErr}
    (hr : inAnotherChunk cfg k s L h = .ok (s', .error e)) : s'.cur = s.cur :=
  (inAnotherChunk_error_intact hr).1.sameCur

theorem allocGeneric_error_keeps_cur {cfg : Cfg} {k : Kind} {s s' : State} {L : Layout} {h hs : Hints} {e : AErr}
    (hr : allocGeneric cfg k s L h hs = .ok (s', .error e)) : s'.cur = s.cur :=
  (allocGeneric_error_intact hr).1.sameCur

theorem alloc_error_keeps_cur {cfg : Cfg} {s s' : State} {L : Layout} {e : AErr}
    (hr : alloc cfg s L = .ok (s', .error e)) : s'.cur = s.cur ∧ curPos cfg s' = curPos cfg s := by
  have hi := (alloc_error_intact hr).1
  refine ⟨hi.sameCur, ?_⟩
  unfold curPos
  rw [hi.sameCur]
  obtain ⟨cu, hcu⟩ : ∃ cu, s.cur = cu := ⟨_, rfl⟩
  cases cu with
  | unallocated => simp only [hcu]
  | claimed => simp only [hcu]
  | chunk i =>
    have hp := hi.pos i hcu i (Nat.le_refl i)
    simp only [hcu]
    cases h1 : s.chunks[i]? with
    | none => rw [h1] at hp; cases h2 : s'.chunks[i]? with
      | none => rfl
      | some c => rw [h2] at hp; cases hp
    | some c =>
      rw [h1] at hp
      cases h2 : s'.chunks[i]? with
      | none => rw [h2] at hp; cases hp
      | some c' => rw [h2] at hp; simp only [Option.map_some, Option.some.injEq] at hp; exact hp

theorem grow_error_keeps_cur {cfg : Cfg} {s s' : State} {ptr oldSize : Nat} {newL : Layout} {e : AErr}
    (hr : grow cfg s ptr oldSize newL = .ok (s', .error e)) : s'.cur = s.cur :=
  (grow_error_intact hr).1.sameCur

theorem shrink_error_keeps_cur {cfg : Cfg} {s s' : State} {ptr oldSize : Nat} {newL : Layout} {e : AErr}
    (hr : shrink cfg s ptr oldSize newL = .ok (s', .error e)) : s'.cur = s.cur :=
  (shrink_error_intact hr).1.sameCur

theorem reserveDyn_error_keeps_cur {cfg : Cfg} {s s' : State} {add : Nat} {e : AErr}
    (hr : reserveDyn cfg s add = .ok (s', .error e)) : s'.cur = s.cur :=
  (reserveDyn_error_intact hr).1.sameCur

/-! ## A refusing base allocator produces an error value, never a fault

  Hypotheses: the header layout is one the crate can produce (`HeaderOK`), the layout is valid, the
  next base-allocator response is a refusal, the fast path found no room (`tryCur … = .ok none`) and
  no later chunk has room (`walkNext … = .ok (none, _)`) — the situation in which the base
  allocator is consulted at all. -/

theorem inAnotherChunk_refused {cfg : Cfg} {k : Kind} {s : State} {L : Layout} {h : Hints} {rest : List BaseResp}
    (hH : Spec.HeaderOK cfg.hdr) (hmin : cfg.minChunk < 2^64) (hL : L.Valid)
    (hr : s.resps = .fail :: rest)
    (hw : ∀ i, s.cur = .chunk i → i < s.chunks.length ∧
      ∃ s1, walkNext cfg k L h (s.chunks.length - (i+1)) i s = .ok (none, s1)) :
    ∃ s' e, inAnotherChunk cfg k s L h = .ok (s', .error e) ∧ Intact s s' ∧ FailLedger cfg s s' e := by
  obtain ⟨s', e, h1⟩ := inAnotherChunk_fail hH hmin hL hr hw
  exact ⟨s', e, h1, inAnotherChunk_error_intact h1⟩

theorem allocGeneric_refused {cfg : Cfg} {k : Kind} {s : State} {L : Layout} {h hs : Hints} {rest : List BaseResp}
    (hH : Spec.HeaderOK cfg.hdr) (hmin : cfg.minChunk < 2^64) (hL : L.Valid)
    (hr : s.resps = .fail :: rest)
    (hfast : tryCur cfg k s L h = .ok none)
    (hw : ∀ i, s.cur = .chunk i → i < s.chunks.length ∧
      ∃ s1, walkNext cfg k L hs (s.chunks.length - (i+1)) i s = .ok (none, s1)) :
    ∃ s' e, allocGeneric cfg k s L h hs = .ok (s', .error e) ∧ Intact s s' ∧ FailLedger cfg s s' e := by
  obtain ⟨s', e, h1⟩ := allocGeneric_fail hH hmin hL hr hfast hw
  exact ⟨s', e, h1, allocGeneric_error_intact h1⟩

theorem alloc_refused {cfg : Cfg} {s : State} {L : Layout} {rest : List BaseResp}
    (hH : Spec.HeaderOK cfg.hdr) (hmin : cfg.minChunk < 2^64) (hL : L.Valid)
    (hr : s.resps = .fail :: rest)
    (hfast : tryCur cfg .alloc s L Hints.custom = .ok none)
    (hw : ∀ i, s.cur = .chunk i → i < s.chunks.length ∧
      ∃ s1, walkNext cfg .alloc L Hints.custom (s.chunks.length - (i+1)) i s = .ok (none, s1)) :
    ∃ s' e, alloc cfg s L = .ok (s', .error e) ∧ Intact s s' ∧ FailLedger cfg s s' e := by
  obtain ⟨s', e, h1⟩ := alloc_fail hH hmin hL hr hfast hw
  exact ⟨s', e, h1, alloc_error_intact h1⟩

/-- `reserve` needs no fast-path hypothesis: with a refusing base allocator it never faults, and it
    either reports an error (state intact) or needed no memory and changed nothing -/
theorem reserve_refused {cfg : Cfg} {s : State} {add : Nat} {rest : List BaseResp}
    (hH : Spec.HeaderOK cfg.hdr) (hmin : cfg.minChunk < 2^64)
    (hr : s.resps = .fail :: rest) (hi : ∀ i, s.cur = .chunk i → i < s.chunks.length) :
    ∃ s' r, reserve cfg s add = .ok (s', r) ∧ Intact s s' ∧ (r = .ok () → s' = s) := by
  obtain ⟨s', r, h1, h2⟩ := reserve_fail (add := add) hH hmin hr hi
  refine ⟨s', r, h1, ?_, h2⟩
  cases r with
  | error e => exact (reserve_error_intact h1).1
  | ok u => rw [h2 rfl]; exact Intact.refl s

/-- an unallocated arena whose first chunk is refused stays exactly as it was, but for the
    request log and the consumed response -/
theorem unallocated_refused {cfg : Cfg} {k : Kind} {s : State} {L : Layout} {h : Hints} {rest : List BaseResp}
    (hH : Spec.HeaderOK cfg.hdr) (hmin : cfg.minChunk < 2^64) (hL : L.Valid)
    (hr : s.resps = .fail :: rest) (hcur : s.cur = .unallocated) :
    ∃ s' e, inAnotherChunk cfg k s L h = .ok (s', .error e) ∧ s'.chunks = s.chunks ∧ s'.cur = .unallocated ∧
      s'.live = s.live ∧ (e = .alloc ∨ e = .capacityOverflow) := by
  obtain ⟨s', e, h1, hi, hl⟩ := inAnotherChunk_refused (k := k) (h := h) hH hmin hL hr
    (fun i hi => by rw [hcur] at hi; cases hi)
  refine ⟨s', e, h1, hi.noCur (fun i hi' => by rw [hcur] at hi'; cases hi'), ?_, hi.live, ?_⟩
  · rcases hi.cur with hc | ⟨i, j, hc, _⟩
    · rw [hc, hcur]
    · rw [hcur] at hc; cases hc
  · cases e with
    | alloc => exact Or.inl rfl
    | capacityOverflow => exact Or.inr rfl
    | claimed => rw [hl.2.2.2.1 rfl] at hcur; cases hcur

/-! ## Size-computation overflow: `capacityOverflow`, no base-allocator request, state unchanged -/

theorem newChunk_overflow {cfg : Cfg} {s : State} {size : Nat} (hl : layoutOk size cfg.hdr.align = false) :
    newChunk cfg s size = .ok (s, .error .capacityOverflow) := by
  unfold newChunk
  simp only [hl, Bool.not_false, ↓reduceIte]
  rfl

/-- the required chunk size does not fit in `usize` (hint or size computation returns `None`) -/
theorem newChunkForCapacity_overflow {cfg : Cfg} {s : State} {L : Layout}
    (h : Gen.SizeConfig.calc_hint_from_capacity (sizeCfg cfg) L = .ok none ∨
      ∃ hint, Gen.SizeConfig.calc_hint_from_capacity (sizeCfg cfg) L = .ok (some hint) ∧
        calcSize cfg hint = .ok none) :
    newChunkForCapacity cfg s L = .ok (s, .error .capacityOverflow) := by
  unfold newChunkForCapacity
  rcases h with h | ⟨hint, h1, h2⟩
  · rw [h]; rfl
  · rw [h1]; simp only [liftM_ok, bind_ok]; rw [h2]; rfl

theorem appendFor_overflow {cfg : Cfg} {s : State} {L : Layout} {last : Chunk}
    (hlast : s.chunks.getLast? = some last)
    (h : Gen.SizeConfig.calc_hint_from_capacity (sizeCfg cfg) L = .ok none ∨
      ∃ req, Gen.SizeConfig.calc_hint_from_capacity (sizeCfg cfg) L = .ok (some req) ∧
        (Rs.checked_mul last.size 2 = none ∨
         ∃ grown, Rs.checked_mul last.size 2 = some grown ∧
           calcSize cfg (if req > grown then req else grown) = .ok none)) :
    appendFor cfg s L = .ok (s, .error .capacityOverflow) := by
  unfold appendFor
  simp only [hlast]
  rcases h with h | ⟨req, h1, h2 | ⟨grown, h2, h3⟩⟩
  · rw [h]; rfl
  · rw [h1]; simp only [liftM_ok, bind_ok, h2]; rfl
  · rw [h1]; simp only [liftM_ok, bind_ok, h2]; rw [h3]; rfl

/-- end to end: whenever any allocating call reports `capacityOverflow`, the base allocator was
    not called and no response was consumed (and the state is intact, by the theorems above) -/
theorem capacityOverflow_no_request {cfg : Cfg} {k : Kind} {s s' : State} {L : Layout} {h hs : Hints}
    (hr : allocGeneric cfg k s L h hs = .ok (s', .error .capacityOverflow)) :
    s'.reqs = s.reqs ∧ s'.resps = s.resps ∧ Intact s s' := by
  obtain ⟨hi, hl⟩ := allocGeneric_error_intact hr
  obtain ⟨h1, h2⟩ := hl.2.2.1 (by decide)
  exact ⟨h1, h2, hi⟩

theorem reserve_capacityOverflow_unchanged {cfg : Cfg} {s s' : State} {add : Nat}
    (hr : reserve cfg s add = .ok (s', .error .capacityOverflow)) :
    s'.reqs = s.reqs ∧ s'.resps = s.resps ∧ s'.chunks = s.chunks ∧ s'.cur = s.cur ∧ s'.live = s.live := by
  obtain ⟨hi, hl, hc, hch⟩ := reserve_error_intact hr
  obtain ⟨h1, h2⟩ := hl.2.2.1 (by decide)
  exact ⟨h1, h2, hch, hc, hi.live⟩

/-! ## A claimed arena refuses with `claimed` and is not touched -/

theorem inAnotherChunk_claimed {cfg : Cfg} {k : Kind} {s : State} {L : Layout} {h : Hints}
    (hc : s.cur = .claimed) : inAnotherChunk cfg k s L h = .ok (s, .error .claimed) := by
  rw [inAnotherChunk_eq]; simp only [hc]; rfl

theorem allocGeneric_claimed {cfg : Cfg} {k : Kind} {s : State} {L : Layout} {h hs : Hints}
    (hc : s.cur = .claimed) (hfast : tryCur cfg k s L h = .ok none) :
    allocGeneric cfg k s L h hs = .ok (s, .error .claimed) := by
  unfold allocGeneric
  rw [hfast]
  exact inAnotherChunk_claimed hc

theorem alloc_claimed {cfg : Cfg} {s : State} {L : Layout}
    (hc : s.cur = .claimed) (hfast : tryCur cfg .alloc s L Hints.custom = .ok none) :
    alloc cfg s L = .ok (s, .error .claimed) := by
  unfold alloc
  rw [allocGeneric_claimed hc hfast]; rfl

theorem reserve_claimed {cfg : Cfg} {s : State} {add : Nat} (hc : s.cur = .claimed) :
    reserve cfg s add = .ok (s, .error .claimed) := by
  unfold reserve; simp only [hc]; rfl

/-- conversely `claimed` is reported only by a claimed arena -/
theorem claimed_only_if_claimed {cfg : Cfg} {k : Kind} {s s' : State} {L : Layout} {h hs : Hints}
    (hr : allocGeneric cfg k s L h hs = .ok (s', .error .claimed)) : s.cur = .claimed ∧ s' = s := by
  obtain ⟨_, hf⟩ := (allocGeneric_frame hr).2.2.2 _ rfl
  have hc := (hf.err _ rfl).2.2.2.1 rfl
  exact ⟨hc, hf.claimed hc⟩

/-! ## Unproved part -/

/-- RESOLVED — FALSE AS STATED: `C07.grow_refused_target_fails` (Props/Targets.lean; witness: a state with two
    OVERLAPPING chunks, downwards) and the corrected statement `C07.grow_refused_corrected` (the same for states
    satisfying `GeomInv` and `ChunksDisjoint`, which every reachable state does); history level:
    `C07.no_panic_on_failure`, `C07.failed_step_keeps_everything` (Props/Hist2.lean).  Original comment:
    NOT PROVED: `grow` / `shrink` with a refusing base allocator return an error VALUE (no fault).
    Proved instead: `grow_error_intact` / `shrink_error_intact` (if they return an error the state is
    intact), and the no-fault statement for the allocation they delegate to (`alloc_refused`,
    `inAnotherChunk_refused`).  Missing: no-fault of the in-place arithmetic before the allocation
    attempt (`Rs.sub`, `LibArith.bump_down`), which needs the block/position invariants of `Arena/Inv`. -/
def grow_refused_target : Prop :=
  ∀ (cfg : Cfg) (s : State) (ptr oldSize : Nat) (newL : Layout) (rest : List BaseResp) (i : Nat) (c : Chunk),
    Spec.HeaderOK cfg.hdr → cfg.minChunk < 2^64 → newL.Valid → oldSize ≤ newL.size →
    s.resps = .fail :: rest → s.cur = .chunk i → s.chunks[i]? = some c →
    c.contentStart cfg ≤ ptr → ptr + oldSize ≤ c.contentEnd cfg → c.base + c.size < 2^64 - 16 →
    (s.minAlign = 1 ∨ s.minAlign = 2 ∨ s.minAlign = 4 ∨ s.minAlign = 8 ∨ s.minAlign = 16) →
    tryCur cfg .alloc s newL Hints.custom = .ok none →
    (∃ s1, walkNext cfg .alloc newL Hints.custom (s.chunks.length - (i+1)) i s = .ok (none, s1)) →
    ∃ s' r, grow cfg s ptr oldSize newL = .ok (s', r)

/-! ## Non-vacuity: concrete states satisfying the hypotheses (checked by evaluation) -/

section Examples
open Ledger.Ex

/-- a full one-chunk arena, refusing base allocator: `alloc` reports an error, state intact -/
example : ∃ s' e, alloc cfg0 sFull L100 = .ok (s', .error e) ∧ Intact sFull s' ∧ FailLedger cfg0 sFull s' e :=
  alloc_refused hH0 hmin0 hL100 rfl sFull_fast sFull_walk
example : ∃ s' e, inAnotherChunk cfg0 .alloc sUnalloc L100 Hints.custom = .ok (s', .error e) ∧
    s'.chunks = sUnalloc.chunks ∧ s'.cur = .unallocated ∧ s'.live = sUnalloc.live ∧ (e = .alloc ∨ e = .capacityOverflow) :=
  unallocated_refused hH0 hmin0 hL100 rfl rfl
example : ∃ s' r, reserve cfg0 sFull 1000 = .ok (s', r) ∧ Intact sFull s' ∧ (r = .ok () → s' = sFull) :=
  reserve_refused hH0 hmin0 rfl (fun i hi => by cases hi; decide)
/-- the error hypotheses of the `_error_intact` theorems are met by actual runs -/
example : ∃ s', alloc cfg0 sFull L100 = .ok (s', .error .alloc) := ⟨_, rfl⟩
example : ∃ s', grow cfg0 sFull 4492 100 { size := 200, align := 8 } = .ok (s', .error .alloc) := ⟨_, rfl⟩
example : alloc cfg0 sClaimed L100 = .ok (sClaimed, .error .claimed) := alloc_claimed rfl sClaimed_fast
/-- a request whose chunk size does not fit in `usize` -/
example : ∃ s', alloc cfg0 sFull { size := 2^63 - 8, align := 8 } = .ok (s', .error .capacityOverflow) := ⟨_, rfl⟩

/-- two full chunks, the first one current; a 2000-byte request walks into the second chunk, finds no
    room, is refused by the base allocator: the first chunk is still current afterwards -/
example : ∃ s', alloc cfg0 { sFull with chunks := [ch 4096 496 4592, ch 8192 1008 9200] }
      { size := 2000, align := 8 } = .ok (s', .error .alloc) ∧ s'.cur = .chunk 0 ∧
      s'.chunks.map (·.pos) = [4592, 8224] := ⟨_, rfl, rfl, rfl⟩

end Examples

end C07
