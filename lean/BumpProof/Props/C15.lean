/-
  Props/C15.lean — property C15: exclusive-borrow collections (`MutBumpVec`, `MutBumpVecRev`,
  `MutBumpString`, the `*_mut` helpers) use the free space without moving the bump pointer.

  Model: such a collection is `Op.prepareSlice` (creation / growth: `prepare_slice_allocation(_rev)`),
  `Op.fillPrepared` (elements are written), `Op.abandonPrepared` (dropped / unwound without being
  finalised) and `Op.commitSlice` (`into_slice` & co. → `allocate_prepared_slice(_rev)`); the
  untyped interface is `Op.prepare` / `Op.commit` (`prepare_allocation` / `allocate_prepared(_rev)`).
-/
import BumpProof.Arena.Step
import BumpProof.Props.C11
import BumpProof.Lemmas.CtrlBase
import BumpProof.Lemmas.CtrlEx
import BumpProof.Lemmas.CtrlState
import BumpProof.Lemmas.CtrlPrep
import BumpProof.Lemmas.CtrlCommit
import BumpProof.Lemmas.CtrlMem

set_option linter.unusedSimpArgs false
set_option linter.unusedVariables false

namespace C15
open Arena Rs Ctrl Lemmas

/-! ## Part 1: preparing never moves the position inside a chunk -/

/-- `RawChunk::prepare_allocation` on the current chunk: the state is returned as it was -/
theorem tryCur_prepare_unchanged (cfg : Cfg) (s s' : State) (L : Layout) (h : Hints) (v : Nat × Nat)
    (hr : tryCur cfg .prepare s L h = .ok (some (v, s'))) : s' = s :=
  tryCur_keeps (by decide) hr

/-- `RawChunk::prepare_allocation_range` on the current chunk: the state is returned as it was -/
theorem tryCur_range_unchanged (cfg : Cfg) (s s' : State) (L : Layout) (h : Hints) (v : Nat × Nat)
    (hr : tryCur cfg .range s L h = .ok (some (v, s'))) : s' = s :=
  tryCur_keeps (by decide) hr

/-- What a prepare (fast path + slow path) may change, spelled out.  `i` is the index of the chunk that
    was current before. -/
structure PrepareEffect (cfg : Cfg) (i : Nat) (s s' : State) : Prop where
  /-- every chunk up to the old current one is identical: same position, same bytes -/
  upto : ∀ j : Nat, j ≤ i → s'.chunks[j]? = s.chunks[j]?
  /-- later chunks are still there, with the same block and the same bytes; they may only have been
      reset (they were empty / unused anyway: see C04) -/
  later : ∀ (j : Nat) (c : Chunk), s.chunks[j]? = some c →
    ∃ c', s'.chunks[j]? = some c' ∧ c'.base = c.base ∧ c'.size = c.size ∧ c'.data = c.data ∧
      (c'.pos = c.pos ∨ c' = c.resetPos cfg)
  /-- the current chunk is the old one or a later (possibly new) one -/
  cur : ∃ j, i ≤ j ∧ s'.cur = .chunk j ∧ j < s'.chunks.length
  /-- live blocks, open scopes, minimum alignment are untouched -/
  live : s'.live = s.live
  minAlign : s'.minAlign = s.minAlign
  frames : s'.frames = s.frames

theorem prepareEffect_of_keeps {cfg : Cfg} {i : Nat} {s s' : State} (h : Keeps cfg i s s') :
    PrepareEffect cfg i s s' := by
  refine ⟨h.upto, fun j c hj => ?_, h.cur, h.live, h.minAlign, h.frames⟩
  obtain ⟨c', hc', hcc⟩ := h.later j c hj
  rcases hcc with rfl | rfl
  · exact ⟨_, hc', rfl, rfl, rfl, Or.inl rfl⟩
  · exact ⟨_, hc', rfl, rfl, rfl, Or.inr rfl⟩

/-- `prepare_allocation` / `prepare_slice_allocation` / `reserve` of the trait object, whatever the
    outcome (success, allocation failure, capacity overflow) -/
theorem allocGeneric_range_effect (cfg : Cfg) (s s' : State) (L : Layout) (h hs : Hints) (i : Nat) (c : Chunk)
    (r : Except AErr (Nat × Nat)) (hcur : s.cur = .chunk i) (hget : s.chunks[i]? = some c)
    (hr : allocGeneric cfg .range s L h hs = .ok (s', r)) : PrepareEffect cfg i s s' :=
  prepareEffect_of_keeps (allocGeneric_keeps (by decide) ⟨hcur, hget⟩ hr)

/-- the same for `prepare_sized_allocation` (used by `alloc_try_with_mut`) -/
theorem allocGeneric_prepare_effect (cfg : Cfg) (s s' : State) (L : Layout) (h hs : Hints) (i : Nat) (c : Chunk)
    (r : Except AErr (Nat × Nat)) (hcur : s.cur = .chunk i) (hget : s.chunks[i]? = some c)
    (hr : allocGeneric cfg .prepare s L h hs = .ok (s', r)) : PrepareEffect cfg i s s' :=
  prepareEffect_of_keeps (allocGeneric_keeps (by decide) ⟨hcur, hget⟩ hr)

theorem inAnotherChunk_range_effect (cfg : Cfg) (s s' : State) (L : Layout) (h : Hints) (i : Nat) (c : Chunk)
    (r : Except AErr (Nat × Nat)) (hcur : s.cur = .chunk i) (hget : s.chunks[i]? = some c)
    (hr : inAnotherChunk cfg .range s L h = .ok (s', r)) : PrepareEffect cfg i s s' :=
  prepareEffect_of_keeps (inAnotherChunk_keeps (by decide) ⟨hcur, hget⟩ hr)

/-- a prepare that is REFUSED (allocation failure, capacity overflow) leaves the current chunk where it
    was (fix c107ca6): together with `PrepareEffect.upto` the whole bump position is then unchanged -/
theorem allocGeneric_range_error_cur (cfg : Cfg) (s s' : State) (L : Layout) (h hs : Hints) (i : Nat) (c : Chunk)
    (e : AErr) (hcur : s.cur = .chunk i) (hget : s.chunks[i]? = some c)
    (hr : allocGeneric cfg .range s L h hs = .ok (s', .error e)) :
    s'.cur = s.cur ∧ s'.chunks[i]? = s.chunks[i]? := by
  have hk := allocGeneric_keeps (by decide) ⟨hcur, hget⟩ hr
  exact ⟨(allocGeneric_error_cur (by decide) ⟨hcur, hget⟩ hr).trans hcur.symm, hk.upto i (Nat.le_refl i)⟩

theorem allocGeneric_prepare_error_cur (cfg : Cfg) (s s' : State) (L : Layout) (h hs : Hints) (i : Nat) (c : Chunk)
    (e : AErr) (hcur : s.cur = .chunk i) (hget : s.chunks[i]? = some c)
    (hr : allocGeneric cfg .prepare s L h hs = .ok (s', .error e)) :
    s'.cur = s.cur ∧ s'.chunks[i]? = s.chunks[i]? := by
  have hk := allocGeneric_keeps (by decide) ⟨hcur, hget⟩ hr
  exact ⟨(allocGeneric_error_cur (by decide) ⟨hcur, hget⟩ hr).trans hcur.symm, hk.upto i (Nat.le_refl i)⟩

theorem inAnotherChunk_range_error_cur (cfg : Cfg) (s s' : State) (L : Layout) (h : Hints) (i : Nat) (c : Chunk)
    (e : AErr) (hcur : s.cur = .chunk i) (hget : s.chunks[i]? = some c)
    (hr : inAnotherChunk cfg .range s L h = .ok (s', .error e)) : s'.cur = s.cur :=
  ((inAnotherChunk_keeps' (by decide) ⟨hcur, hget⟩ hr).2 e rfl).trans hcur.symm

/-! ## Part 2: the life of a collection in a history -/

/-- creating or growing the collection -/
theorem step_prepareSlice_effect (cfg : Cfg) (g g' : GState) (esize ealign minCap : Nat) (rev : Bool) (o : Out)
    (i : Nat) (c : Chunk) (hcur : g.s.cur = .chunk i) (hget : g.s.chunks[i]? = some c)
    (hr : stepCore cfg g (.prepareSlice esize ealign minCap rev) = .ok (g', o)) :
    PrepareEffect cfg i g.s g'.s ∧ g'.marks = g.marks := by
  have hc : CurChunk g.s i c := ⟨hcur, hget⟩
  have hrefl : PrepareEffect cfg i g.s g.s := prepareEffect_of_keeps (Keeps.refl cfg hc)
  rw [stepCore] at hr
  split at hr
  · cases hr
  · simp only at hr
    split at hr
    · simp only [R_pure_eq, Except.ok.injEq, Prod.mk.injEq] at hr
      obtain ⟨rfl, rfl⟩ := hr
      exact ⟨hrefl, rfl⟩
    · split at hr
      · simp only [R_pure_eq, Except.ok.injEq, Prod.mk.injEq] at hr
        obtain ⟨rfl, rfl⟩ := hr
        exact ⟨hrefl, rfl⟩
      · generalize hag : allocGeneric cfg .range g.s _ Hints.array Hints.array = x at hr
        cases x with
        | error e => cases hr
        | ok sr =>
          obtain ⟨s1, r⟩ := sr
          have hk := allocGeneric_keeps (by decide) hc hag
          have he := prepareEffect_of_keeps hk
          cases r with
          | error e =>
            simp only [R_ok_bind, R_pure_eq, Except.ok.injEq, Prod.mk.injEq] at hr
            obtain ⟨rfl, rfl⟩ := hr
            exact ⟨he, rfl⟩
          | ok ab =>
            obtain ⟨a, b⟩ := ab
            simp only [R_ok_bind, R_pure_eq, Except.ok.injEq, Prod.mk.injEq] at hr
            obtain ⟨rfl, rfl⟩ := hr
            exact ⟨⟨he.upto, he.later, he.cur, he.live, he.minAlign, he.frames⟩, rfl⟩

/-- a collection whose creation / growth is refused leaves the bump position exactly where it was -/
theorem step_prepareSlice_error_cur (cfg : Cfg) (g g' : GState) (esize ealign minCap : Nat) (rev : Bool) (e : AErr)
    (i : Nat) (c : Chunk) (hcur : g.s.cur = .chunk i) (hget : g.s.chunks[i]? = some c)
    (hr : stepCore cfg g (.prepareSlice esize ealign minCap rev) = .ok (g', .err e)) :
    g'.s.cur = g.s.cur ∧ g'.s.chunks[i]? = g.s.chunks[i]? := by
  have hc : CurChunk g.s i c := ⟨hcur, hget⟩
  rw [stepCore] at hr
  split at hr
  · cases hr
  · simp only at hr
    split at hr
    · simp only [R_pure_eq, Except.ok.injEq, Prod.mk.injEq] at hr
      obtain ⟨rfl, _⟩ := hr
      exact ⟨rfl, rfl⟩
    · split at hr
      · simp only [R_pure_eq, Except.ok.injEq, Prod.mk.injEq] at hr
        obtain ⟨rfl, _⟩ := hr
        exact ⟨rfl, rfl⟩
      · generalize hag : allocGeneric cfg .range g.s _ Hints.array Hints.array = x at hr
        cases x with
        | error e => cases hr
        | ok sr =>
          obtain ⟨s1, r⟩ := sr
          cases r with
          | error e1 =>
            simp only [R_ok_bind, R_pure_eq, Except.ok.injEq, Prod.mk.injEq] at hr
            obtain ⟨rfl, _⟩ := hr
            exact allocGeneric_range_error_cur cfg g.s s1 _ _ _ i c e1 hcur hget hag
          | ok ab =>
            obtain ⟨a, b⟩ := ab
            simp only [R_ok_bind, R_pure_eq, Except.ok.injEq, Prod.mk.injEq, reduceCtorEq, and_false] at hr

/-- `prepare_allocation` of the untyped interface -/
theorem step_prepare_effect (cfg : Cfg) (g g' : GState) (L : Layout) (o : Out)
    (i : Nat) (c : Chunk) (hcur : g.s.cur = .chunk i) (hget : g.s.chunks[i]? = some c)
    (hr : stepCore cfg g (.prepare L) = .ok (g', o)) :
    PrepareEffect cfg i g.s g'.s ∧ g'.marks = g.marks := by
  have hc : CurChunk g.s i c := ⟨hcur, hget⟩
  rw [stepCore] at hr
  generalize validLayout L = x1 at hr
  cases x1 with
  | error e => cases hr
  | ok u1 =>
    simp only [R_ok_bind] at hr
    generalize noPrepared g.s = x2 at hr
    cases x2 with
    | error e => cases hr
    | ok u2 =>
      simp only [R_ok_bind] at hr
      split at hr
      · cases hr
      · generalize hag : allocGeneric cfg .range g.s _ Hints.custom Hints.custom = x at hr
        cases x with
        | error e => cases hr
        | ok sr =>
          obtain ⟨s1, r⟩ := sr
          have he := prepareEffect_of_keeps (allocGeneric_keeps (by decide) hc hag)
          cases r with
          | error e =>
            simp only [R_ok_bind, R_pure_eq, Except.ok.injEq, Prod.mk.injEq] at hr
            obtain ⟨rfl, rfl⟩ := hr
            exact ⟨he, rfl⟩
          | ok ab =>
            obtain ⟨a, b⟩ := ab
            simp only [R_ok_bind, R_pure_eq, Except.ok.injEq, Prod.mk.injEq] at hr
            obtain ⟨rfl, rfl⟩ := hr
            exact ⟨⟨he.upto, he.later, he.cur, he.live, he.minAlign, he.frames⟩, rfl⟩

/-- filling the collection writes bytes only: current chunk, every position, the live blocks stay -/
theorem step_fillPrepared_shape (cfg : Cfg) (g g' : GState) (len seed : Nat) (o : Out)
    (hr : stepCore cfg g (.fillPrepared len seed) = .ok (g', o)) :
    SameShape g.s g'.s ∧ g'.marks = g.marks := by
  rw [stepCore] at hr
  split at hr
  · rename_i p hp
    by_cases hlen : len * p.esize > p.rend - p.rstart
    · simp only [hlen, ↓reduceIte] at hr
      cases hr
    · simp only [hlen, ↓reduceIte] at hr
      generalize hw : writeRange cfg g.s _ _ _ = x at hr
      cases x with
      | error e => cases hr
      | ok s1 =>
        simp only [R_ok_bind, R_pure_eq, Except.ok.injEq, Prod.mk.injEq] at hr
        obtain ⟨rfl, rfl⟩ := hr
        exact ⟨writeRange_shape hw, rfl⟩
  · cases hr

/-- in particular the position of every chunk is what it was -/
theorem step_fillPrepared_positions (cfg : Cfg) (g g' : GState) (len seed : Nat) (o : Out)
    (hr : stepCore cfg g (.fillPrepared len seed) = .ok (g', o)) (j : Nat) :
    (g'.s.chunks[j]?).map (·.pos) = (g.s.chunks[j]?).map (·.pos) ∧ g'.s.cur = g.s.cur := by
  obtain ⟨hs, _⟩ := step_fillPrepared_shape cfg g g' len seed o hr
  refine ⟨?_, hs.cur⟩
  have := hs.chunks j
  cases h1 : g'.s.chunks[j]? <;> cases h2 : g.s.chunks[j]? <;> rw [h1, h2] at this <;>
    simp only [Option.map_some, Option.map_none, Option.some.injEq, Prod.mk.injEq, reduceCtorEq] at this ⊢
  exact this.2.2

/-- dropping the collection without finalising it: the prepared area is forgotten, NOTHING else changes -/
theorem step_abandonPrepared (cfg : Cfg) (g : GState) (p : Prepared) (hp : g.s.prepared = some p) :
    stepCore cfg g .abandonPrepared = .ok ({ g with s := { g.s with prepared := none } }, .unit) := by
  rw [stepCore]
  simp only [hp]
  rfl

/-! ## Part 3: finalising moves the position to the far end of the final contents -/

/-- position after committing `bytes` bytes at address `a`: the end of the block rounded up to the
    minimum alignment (upwards) / the start of the block rounded down (downwards) -/
def commitPos (cfg : Cfg) (m a bytes : Nat) : Nat :=
  if cfg.up then Spec.upAlign (a + bytes) m else Spec.downAlign a m

/-- at most `minAlign - 1` bytes of padding beyond the contents -/
theorem commitPos_bounds (cfg : Cfg) (m a bytes : Nat) (hm : 0 < m) :
    m ∣ commitPos cfg m a bytes ∧
    (if cfg.up then a + bytes ≤ commitPos cfg m a bytes ∧ commitPos cfg m a bytes < a + bytes + m
     else commitPos cfg m a bytes ≤ a ∧ a < commitPos cfg m a bytes + m) := by
  unfold commitPos
  cases cfg.up
  · simp only [Bool.false_eq_true, ↓reduceIte]
    exact ⟨downAlign_dvd a m, downAlign_le a m, lt_downAlign_add a hm⟩
  · simp only [↓reduceIte]
    exact ⟨upAlign_dvd _ m, le_upAlign _ hm, upAlign_lt _ hm⟩

/-- address of the finalised slice -/
def commitAddr (cfg : Cfg) (ptr len cap esize : Nat) (rev : Bool) : Nat :=
  if rev then (if cfg.up then ptr - cap * esize else ptr - len * esize)
  else (if cfg.up then ptr else ptr + cap * esize - len * esize)

/-- where the collection wrote its `len` elements: at the start of the area (forward collections) or
    just below its end `ptr` (rev collections) -/
def commitSrc (ptr len esize : Nat) (rev : Bool) : Nat := if rev then ptr - len * esize else ptr

/-- `allocate_prepared_slice(_rev)`: the slice ends up at `commitAddr`, and apart from the bytes that
    are moved there the only change is the position of the current chunk, which becomes `commitPos`:
    the contents plus at most the padding for the minimum alignment are consumed. -/
theorem allocatePreparedSlice_effect (cfg : Cfg) (s s' : State) (ptr len cap esize ealign a : Nat) (rev : Bool)
    (i : Nat) (c : Chunk) (hcur : s.cur = .chunk i) (hget : s.chunks[i]? = some c)
    (hm : MinAlignOk s.minAlign) (hea : P2 ealign) (hes : ealign ∣ esize) (hp : ealign ∣ ptr)
    (hlen : len ≤ cap)
    (hfit : if rev then cap * esize ≤ ptr ∧ ptr + 16 ≤ 2 ^ 64 else ptr + cap * esize + 16 ≤ 2 ^ 64)
    (hr : allocatePreparedSlice cfg s ptr len cap esize ealign rev = .ok (s', a)) :
    a = commitAddr cfg ptr len cap esize rev ∧
    ∃ s1, SameShape s s1 ∧
      ((s1 = s ∧ a = commitSrc ptr len esize rev) ∨
        copyBytes cfg s (commitSrc ptr len esize rev) a (len * esize) false = .ok s1) ∧
      s' = setCurPos s1 (commitPos cfg s.minAlign a (len * esize)) := by
  have hle : len * esize ≤ cap * esize := Nat.mul_le_mul_right esize hlen
  have hd1 : ealign ∣ len * esize := Nat.dvd_trans hes (Nat.dvd_mul_left esize len)
  have hd2 : ealign ∣ cap * esize := Nat.dvd_trans hes (Nat.dvd_mul_left esize cap)
  unfold allocatePreparedSlice at hr
  unfold commitAddr commitPos
  simp only [hcur] at hr
  cases rev
  · simp only [Bool.false_eq_true, ↓reduceIte] at hfit
    cases hup : cfg.up
    · -- forward, downwards: copy to the end of the area
      simp only [hup, Bool.not_false, Bool.false_eq_true, ↓reduceIte] at hr ⊢
      generalize hcb : copyBytes cfg s ptr _ _ false = x at hr
      cases x with
      | error e => cases hr
      | ok s1 =>
        have hs := copyBytes_shape hcb
        have hm1 : MinAlignOk s1.minAlign := by rw [hs.minAlign]; exact hm
        have hdvd : ealign ∣ ptr + cap * esize - len * esize :=
          Nat.dvd_sub ((Nat.dvd_add_right hp).2 hd2) hd1
        simp only [R_ok_bind] at hr
        rw [setPosAlignFrom_down hup hm1 hea hdvd (by omega)] at hr
        simp only [R_ok_bind, R_pure_eq, Except.ok.injEq, Prod.mk.injEq] at hr
        obtain ⟨rfl, rfl⟩ := hr
        exact ⟨rfl, s1, hs, Or.inr hcb, by rw [hs.minAlign]⟩
    · -- forward, upwards: nothing to copy
      simp only [hup, Bool.not_false, ↓reduceIte] at hr ⊢
      have hdvd : ealign ∣ ptr + len * esize := (Nat.dvd_add_right hp).2 hd1
      rw [setPosAlignFrom_up hup hm hea hdvd (by omega)] at hr
      simp only [R_ok_bind, R_pure_eq, Except.ok.injEq, Prod.mk.injEq] at hr
      obtain ⟨rfl, rfl⟩ := hr
      exact ⟨rfl, s, SameShape.refl s, Or.inl ⟨rfl, rfl⟩, rfl⟩
  · simp only [↓reduceIte] at hfit
    cases hup : cfg.up
    · -- rev, downwards: nothing to copy
      simp only [hup, Bool.not_true, Bool.false_eq_true, ↓reduceIte] at hr ⊢
      have hdvd : ealign ∣ ptr - len * esize := Nat.dvd_sub hp hd1
      rw [setPosAlignFrom_down hup hm hea hdvd (by omega)] at hr
      simp only [R_ok_bind, R_pure_eq, Except.ok.injEq, Prod.mk.injEq] at hr
      obtain ⟨rfl, rfl⟩ := hr
      exact ⟨rfl, s, SameShape.refl s, Or.inl ⟨rfl, rfl⟩, rfl⟩
    · -- rev, upwards: copy to the start of the area
      simp only [hup, Bool.not_true, Bool.false_eq_true, ↓reduceIte] at hr ⊢
      generalize hcb : copyBytes cfg s _ _ _ false = x at hr
      cases x with
      | error e => cases hr
      | ok s1 =>
        have hs := copyBytes_shape hcb
        have hm1 : MinAlignOk s1.minAlign := by rw [hs.minAlign]; exact hm
        have hdvd : ealign ∣ ptr - cap * esize + len * esize :=
          (Nat.dvd_add_right (Nat.dvd_sub hp hd2)).2 hd1
        simp only [R_ok_bind] at hr
        rw [setPosAlignFrom_up hup hm1 hea hdvd (by omega)] at hr
        simp only [R_ok_bind, R_pure_eq, Except.ok.injEq, Prod.mk.injEq] at hr
        obtain ⟨rfl, rfl⟩ := hr
        exact ⟨rfl, s1, hs, Or.inr hcb, by rw [hs.minAlign]⟩

/-- spelled out: after finalising, the position of the current chunk is `commitPos`, i.e. it passed the
    `len * esize` bytes of contents and less than `minAlign` bytes of padding; every other chunk keeps
    its position; current chunk and live blocks are the same -/
theorem allocatePreparedSlice_position (cfg : Cfg) (s s' : State) (ptr len cap esize ealign a : Nat) (rev : Bool)
    (i : Nat) (c : Chunk) (hcur : s.cur = .chunk i) (hget : s.chunks[i]? = some c)
    (hm : MinAlignOk s.minAlign) (hea : P2 ealign) (hes : ealign ∣ esize) (hp : ealign ∣ ptr)
    (hlen : len ≤ cap)
    (hfit : if rev then cap * esize ≤ ptr ∧ ptr + 16 ≤ 2 ^ 64 else ptr + cap * esize + 16 ≤ 2 ^ 64)
    (hr : allocatePreparedSlice cfg s ptr len cap esize ealign rev = .ok (s', a)) :
    curPos cfg s' = commitPos cfg s.minAlign a (len * esize) ∧ s'.cur = s.cur ∧ s'.live = s.live ∧
    ∀ j : Nat, j ≠ i → (s'.chunks[j]?).map (·.pos) = (s.chunks[j]?).map (·.pos) := by
  obtain ⟨_, s1, hs, _, rfl⟩ :=
    allocatePreparedSlice_effect cfg s s' ptr len cap esize ealign a rev i c hcur hget hm hea hes hp hlen hfit hr
  exact setCurPos_after_copy cfg hs ⟨hcur, hget⟩ _

/-- the finalised slice holds exactly the bytes the collection wrote (`MemOk`: the chunks are disjoint
    address ranges carrying `size` bytes each) — in all four direction combinations, i.e. also when the
    elements had to be moved to the other end of the prepared area -/
theorem allocatePreparedSlice_contents (cfg : Cfg) (s s' : State) (ptr len cap esize ealign a : Nat) (rev : Bool)
    (i : Nat) (c : Chunk) (hcur : s.cur = .chunk i) (hget : s.chunks[i]? = some c)
    (hm : MinAlignOk s.minAlign) (hea : P2 ealign) (hes : ealign ∣ esize) (hp : ealign ∣ ptr)
    (hlen : len ≤ cap)
    (hfit : if rev then cap * esize ≤ ptr ∧ ptr + 16 ≤ 2 ^ 64 else ptr + cap * esize + 16 ≤ 2 ^ 64)
    (hmem : MemOk s)
    (hr : allocatePreparedSlice cfg s ptr len cap esize ealign rev = .ok (s', a)) :
    ∀ k, k < len * esize → readByte s' (a + k) = readByte s (commitSrc ptr len esize rev + k) := by
  obtain ⟨_, s1, hs, hcopy, rfl⟩ :=
    allocatePreparedSlice_effect cfg s s' ptr len cap esize ealign a rev i c hcur hget hm hea hes hp hlen hfit hr
  intro k hk
  rw [readByte_setCurPos]
  rcases hcopy with ⟨rfl, ha⟩ | hcb
  · rw [ha]
  · rw [copyBytes_read hmem hcb, if_pos ⟨by omega, by omega⟩]
    congr 1
    omega

/-- In a history: finalising the collection (`into_slice` & co.) returns a block of exactly
    `len * esize` bytes holding the elements that were written, and the position of the current
    chunk ends up at `commitPos`: the contents plus less than `minAlign` bytes of padding are consumed;
    no other chunk moves. -/
theorem step_commitSlice_effect (cfg : Cfg) (g g' : GState) (len : Nat) (o : Out) (p : Prepared)
    (i : Nat) (c : Chunk) (hp : g.s.prepared = some p) (hcur : g.s.cur = .chunk i)
    (hget : g.s.chunks[i]? = some c) (hm : MinAlignOk g.s.minAlign) (hea : P2 p.ealign)
    (hes : p.ealign ∣ p.esize) (hptr : p.ealign ∣ (if p.rev then p.rend else p.rstart))
    (hle : p.rstart ≤ p.rend) (hb : p.rend + 16 ≤ 2 ^ 64) (hmem : MemOk g.s)
    (hr : stepCore cfg g (.commitSlice len) = .ok (g', o)) :
    ∃ a, o = .block g.s.nextId a (len * p.esize) ∧
      curPos cfg g'.s = commitPos cfg g.s.minAlign a (len * p.esize) ∧
      g'.s.prepared = none ∧ g'.s.cur = g.s.cur ∧
      (∀ j : Nat, j ≠ i → (g'.s.chunks[j]?).map (·.pos) = (g.s.chunks[j]?).map (·.pos)) ∧
      (∀ k, k < len * p.esize →
        readByte g'.s (a + k) = readByte g.s (commitSrc (if p.rev then p.rend else p.rstart) len p.esize p.rev + k)) := by
  rw [stepCore] at hr
  simp only [hp] at hr
  by_cases hty : p.typed = true
  · simp only [hty, Bool.not_true, Bool.false_eq_true, ↓reduceIte] at hr
    by_cases hlen : len > (p.rend - p.rstart) / p.esize
    · simp only [hlen, ↓reduceIte] at hr; cases hr
    · simp only [hlen, ↓reduceIte] at hr
      generalize hps : allocatePreparedSlice cfg _ _ len _ p.esize p.ealign p.rev = x at hr
      cases x with
      | error e => cases hr
      | ok sa =>
        obtain ⟨s1, a⟩ := sa
        simp only [R_ok_bind, R_pure_eq, Except.ok.injEq, Prod.mk.injEq] at hr
        obtain ⟨rfl, rfl⟩ := hr
        have hcap : (p.rend - p.rstart) / p.esize * p.esize ≤ p.rend - p.rstart := Nat.div_mul_le_self _ _
        have hfit : if p.rev then (p.rend - p.rstart) / p.esize * p.esize ≤ (if p.rev then p.rend else p.rstart) ∧
              (if p.rev then p.rend else p.rstart) + 16 ≤ 2 ^ 64
            else (if p.rev then p.rend else p.rstart) + (p.rend - p.rstart) / p.esize * p.esize + 16 ≤ 2 ^ 64 := by
          cases p.rev
          · simp only [Bool.false_eq_true, ↓reduceIte]; omega
          · simp only [↓reduceIte]; omega
        have hmem0 : MemOk { g.s with prepared := none } := ⟨hmem.disjoint, hmem.dataSize⟩
        obtain ⟨h1, h2, h3, h4⟩ := allocatePreparedSlice_position cfg { g.s with prepared := none } s1 _ len _
          p.esize p.ealign a p.rev i c hcur hget hm hea hes hptr (by omega) hfit hps
        have h5 := allocatePreparedSlice_contents cfg { g.s with prepared := none } s1 _ len _
          p.esize p.ealign a p.rev i c hcur hget hm hea hes hptr (by omega) hfit hmem0 hps
        have hprep : s1.prepared = none := by
          obtain ⟨_, s2, hs, _, rfl⟩ := allocatePreparedSlice_effect cfg { g.s with prepared := none } s1 _ len _
            p.esize p.ealign a p.rev i c hcur hget hm hea hes hptr (by omega) hfit hps
          unfold setCurPos
          split
          · exact hs.prepared
          · exact hs.prepared
        have hnid : s1.nextId = g.s.nextId := by
          obtain ⟨_, s2, hs, _, rfl⟩ := allocatePreparedSlice_effect cfg { g.s with prepared := none } s1 _ len _
            p.esize p.ealign a p.rev i c hcur hget hm hea hes hptr (by omega) hfit hps
          unfold setCurPos
          split
          · exact hs.nextId
          · exact hs.nextId
        refine ⟨a, ?_, h1, hprep, h2, h4, h5⟩
        show Out.block s1.nextId a (len * p.esize) = _
        rw [hnid]
  · simp only [hty, Bool.not_false, ↓reduceIte] at hr
    cases hr

/-- `allocate_prepared(_rev)` of the untyped interface: same law -/
theorem allocatePrepared_effect (cfg : Cfg) (s s' : State) (size rstart rend a : Nat) (rev : Bool)
    (i : Nat) (hcur : s.cur = .chunk i)
    (hm : MinAlignOk s.minAlign) (hsz : rstart + size ≤ rend) (hb : rend + 16 ≤ 2 ^ 64)
    (hr : allocatePrepared cfg s size rstart rend rev = .ok (s', a)) :
    a = (if cfg.up then rstart else rend - size) ∧
    ∃ s1, SameShape s s1 ∧ s' = setCurPos s1 (commitPos cfg s.minAlign a size) := by
  unfold allocatePrepared at hr
  unfold commitPos
  simp only [hcur] at hr
  cases hup : cfg.up
  · simp only [hup, Bool.false_eq_true, ↓reduceIte] at hr ⊢
    rw [sub_ok (by omega)] at hr
    simp only [liftM_ok, R_ok_bind] at hr
    have key : ∀ s1 : State, SameShape s s1 →
        (do let p ← Arena.liftM (Gen.LibArith.align_pos false s.minAlign (rend - size))
            (pure (setCurPos s1 p, rend - size) : R (State × Nat))) = .ok (s', a) →
        a = rend - size ∧ ∃ s1, SameShape s s1 ∧ s' = setCurPos s1 (Spec.downAlign a s.minAlign) := by
      intro s1 hs h
      rw [lib_align_pos_down hm.p2 hm.lt64 (by omega)] at h
      simp only [liftM_ok, R_ok_bind, R_pure_eq, Except.ok.injEq, Prod.mk.injEq] at h
      obtain ⟨rfl, rfl⟩ := h
      exact ⟨rfl, s1, hs, rfl⟩
    cases rev
    · simp only [Bool.false_eq_true, ↓reduceIte] at hr
      generalize hcb : copyBytes cfg s _ _ _ false = x at hr
      cases x with
      | error e => cases hr
      | ok s1 =>
        simp only [R_ok_bind] at hr
        exact key s1 (copyBytes_shape hcb) hr
    · simp only [↓reduceIte, R_pure_bind] at hr
      exact key s (SameShape.refl s) hr
  · simp only [hup, ↓reduceIte] at hr ⊢
    have key : ∀ s1 : State, SameShape s s1 →
        (do let e ← Arena.liftM (Rs.add rstart size)
            let p ← Arena.liftM (Gen.LibArith.align_pos true s.minAlign e)
            (pure (setCurPos s1 p, rstart) : R (State × Nat))) = .ok (s', a) →
        a = rstart ∧ ∃ s1, SameShape s s1 ∧ s' = setCurPos s1 (Spec.upAlign (a + size) s.minAlign) := by
      intro s1 hs h
      have hle := hm.le
      rw [add_ok' (by omega)] at h
      simp only [liftM_ok, R_ok_bind] at h
      rw [lib_align_pos_up hm.p2 hm.lt64 (by omega)] at h
      simp only [liftM_ok, R_ok_bind, R_pure_eq, Except.ok.injEq, Prod.mk.injEq] at h
      obtain ⟨rfl, rfl⟩ := h
      exact ⟨rfl, s1, hs, rfl⟩
    cases rev
    · simp only [Bool.false_eq_true, ↓reduceIte, R_pure_bind] at hr
      exact key s (SameShape.refl s) hr
    · simp only [↓reduceIte] at hr
      generalize hcb : copyBytes cfg s _ _ _ false = x at hr
      cases x with
      | error e => cases hr
      | ok s1 =>
        simp only [R_ok_bind] at hr
        exact key s1 (copyBytes_shape hcb) hr

/-- When the collection was filled in the bump direction (`MutBumpVec` upwards, `MutBumpVecRev`
    downwards) nothing has to be copied: finalising ALWAYS succeeds (no fault), returns the place
    where the elements were written, only moves the position, and every byte of the arena — in
    particular the elements — is what it was. -/
theorem allocatePreparedSlice_nocopy (cfg : Cfg) (s : State) (ptr len cap esize ealign : Nat) (rev : Bool)
    (i : Nat) (hcur : s.cur = .chunk i)
    (hm : MinAlignOk s.minAlign) (hea : P2 ealign) (hes : ealign ∣ esize) (hp : ealign ∣ ptr)
    (hdir : rev = !cfg.up)
    (hfit : if rev then ptr < 2 ^ 64 else ptr + len * esize + 16 ≤ 2 ^ 64) :
    allocatePreparedSlice cfg s ptr len cap esize ealign rev =
      .ok (setCurPos s (commitPos cfg s.minAlign (commitAddr cfg ptr len cap esize rev) (len * esize)),
           commitAddr cfg ptr len cap esize rev) ∧
    commitAddr cfg ptr len cap esize rev = (if rev then ptr - len * esize else ptr) ∧
    ∀ x, readByte (setCurPos s (commitPos cfg s.minAlign (commitAddr cfg ptr len cap esize rev) (len * esize))) x =
      readByte s x := by
  have hd1 : ealign ∣ len * esize := Nat.dvd_trans hes (Nat.dvd_mul_left esize len)
  refine ⟨?_, ?_, fun x => readByte_setCurPos s _ x⟩
  · unfold allocatePreparedSlice commitAddr commitPos
    simp only [hcur]
    cases hup : cfg.up
    · rw [hup] at hdir
      simp only [Bool.not_false] at hdir
      subst hdir
      simp only [↓reduceIte] at hfit
      simp only [Bool.not_true, Bool.false_eq_true, ↓reduceIte]
      rw [setPosAlignFrom_down hup hm hea (Nat.dvd_sub hp hd1) (by omega)]
      rfl
    · rw [hup] at hdir
      simp only [Bool.not_true] at hdir
      subst hdir
      simp only [Bool.false_eq_true, ↓reduceIte] at hfit
      simp only [Bool.not_false, ↓reduceIte]
      rw [setPosAlignFrom_up hup hm hea ((Nat.dvd_add_right hp).2 hd1) (by omega)]
      rfl
  · unfold commitAddr
    cases hup : cfg.up <;> rw [hup] at hdir <;> subst hdir <;> rfl

/-! ## Non-vacuity: the hypotheses hold on concrete states (`Lemmas/CtrlEx.lean`) -/

/-- a prepare that has to move on to the second chunk (slow path) -/
example : ∃ s' r, allocGeneric wCfg .range wState { size := 64, align := 8 } Hints.array Hints.array = .ok (s', .ok r) ∧
    s'.cur = .chunk 1 := ⟨_, _, rfl, rfl⟩

example : ∃ g' o, stepCore wCfg ⟨wState, []⟩ (.prepare { size := 64, align := 8 }) = .ok (g', o) ∧ g'.s.cur = .chunk 1 :=
  ⟨_, _, rfl, rfl⟩

/-- a collection: created, filled, finalised / abandoned -/
example : ∃ g1 o1 g2 o2 g3 o3, stepCore wCfg ⟨exUp, []⟩ (.prepareSlice 8 8 4 false) = .ok (g1, o1) ∧
    stepCore wCfg g1 (.fillPrepared 2 0) = .ok (g2, o2) ∧ stepCore wCfg g2 (.commitSlice 2) = .ok (g3, o3) ∧
    stepCore wCfg g2 .abandonPrepared = .ok ({ g2 with s := { g2.s with prepared := none } }, .unit) :=
  ⟨_, _, _, _, _, _, rfl, rfl, rfl, rfl⟩

/-- upwards, forward: 2 of 4 prepared 8-byte elements are kept -/
example : ∃ s', allocatePreparedSlice wCfg exUp 0x10040 2 4 8 8 false = .ok (s', 0x10040) ∧
    curPos wCfg s' = commitPos wCfg 8 0x10040 16 :=
  ⟨_, rfl, (allocatePreparedSlice_position wCfg exUp _ 0x10040 2 4 8 8 0x10040 false 0 exChunkUp rfl rfl minAlign8
    ⟨3, rfl⟩ ⟨1, rfl⟩ ⟨0x2008, by decide⟩ (by decide) (by decide) rfl).1⟩

/-- downwards, forward: the 2 elements are copied to the end of the prepared area -/
example : ∃ s', allocatePreparedSlice dCfg exDown 0x10080 2 8 8 8 false = .ok (s', 0x100B0) ∧
    curPos dCfg s' = commitPos dCfg 8 0x100B0 16 :=
  ⟨_, rfl, (allocatePreparedSlice_position dCfg exDown _ 0x10080 2 8 8 8 0x100B0 false 0 exChunkDown rfl rfl minAlign8
    ⟨3, rfl⟩ ⟨1, rfl⟩ ⟨0x2010, by decide⟩ (by decide) (by decide) rfl).1⟩

example : allocatePreparedSlice wCfg exUp 0x10040 2 4 8 8 false =
    .ok (setCurPos exUp (commitPos wCfg 8 (commitAddr wCfg 0x10040 2 4 8 false) 16), commitAddr wCfg 0x10040 2 4 8 false) :=
  (allocatePreparedSlice_nocopy wCfg exUp 0x10040 2 4 8 8 false 0 rfl minAlign8 ⟨3, rfl⟩ ⟨1, rfl⟩ ⟨0x2008, by decide⟩
    rfl (by decide)).1

theorem exDown_memOk : MemOk exDown := by
  constructor
  · intro j k cj ck hj hk hjk
    have h1 : j < 1 := lt_length_of_get' hj
    have h2 : k < 1 := lt_length_of_get' hk
    omega
  · intro j c hj
    have h1 : j < 1 := lt_length_of_get' hj
    have h0 : j = 0 := by omega
    subst h0
    cases hj
    exact Array.size_replicate

/-- downwards, forward: the 16 bytes written at 0x10080 are found at the returned address 0x100B0 -/
example : ∃ s', allocatePreparedSlice dCfg exDown 0x10080 2 8 8 8 false = .ok (s', 0x100B0) ∧
    ∀ k, k < 16 → readByte s' (0x100B0 + k) = readByte exDown (0x10080 + k) :=
  ⟨_, rfl, allocatePreparedSlice_contents dCfg exDown _ 0x10080 2 8 8 8 0x100B0 false 0 exChunkDown rfl rfl minAlign8
    ⟨3, rfl⟩ ⟨1, rfl⟩ ⟨0x2010, by decide⟩ (by decide) (by decide) exDown_memOk rfl⟩

/-- the state after `prepare_slice_allocation::<u64>(4)` on `exUp`: the rest of the chunk is prepared -/
def exPrepG : GState :=
  ⟨{ exUp with prepared := some { rstart := 0x10040, rend := 0x10100, esize := 8, ealign := 8, typed := true, rev := false } }, []⟩

example : stepCore wCfg ⟨exUp, []⟩ (.prepareSlice 8 8 4 false) = .ok (exPrepG, .block 0 0x10040 24) := rfl

theorem exPrepG_memOk : MemOk exPrepG.s := by
  constructor
  · intro j k cj ck hj hk hjk
    have h1 : j < 1 := lt_length_of_get' hj
    have h2 : k < 1 := lt_length_of_get' hk
    omega
  · intro j c hj
    have h1 : j < 1 := lt_length_of_get' hj
    have h0 : j = 0 := by omega
    subst h0
    cases hj
    exact Array.size_replicate

example : ∃ g' o, stepCore wCfg exPrepG (.commitSlice 3) = .ok (g', o) ∧
    ∃ a, o = .block 1 a 24 ∧ curPos wCfg g'.s = commitPos wCfg 8 a 24 :=
  ⟨_, _, rfl,
    let ⟨a, h1, h2, _⟩ := step_commitSlice_effect wCfg exPrepG _ 3 _ _ 0 exChunkUp rfl rfl rfl minAlign8 ⟨3, rfl⟩ ⟨1, rfl⟩
      ⟨0x2008, by decide⟩ (by decide) (by decide) exPrepG_memOk rfl
    ⟨a, h1, h2⟩⟩

example : ∃ s', allocatePrepared wCfg exUp 16 0x10040 0x10100 false = .ok (s', 0x10040) := ⟨_, rfl⟩

end C15
