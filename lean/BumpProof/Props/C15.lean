/-
  Props/C15.lean — property C15: exclusive-borrow collections (`MutBumpVec`, `MutBumpVecRev`,
  `MutBumpString`, the `*_mut` helpers) use the free space without moving the bump pointer.

  Model: such a collection is `Op.prepareSlice` (creation / growth: `prepare_slice_allocation(_rev)`),
  `Op.fillPrepared` (elements are written), `Op.abandonPrepared` (dropped / unwound without being
  finalised) and `Op.commitSlice` (`into_slice` & co. → `allocate_prepared_slice(_rev)`); the
  untyped interface is `Op.prepare` / `Op.commit` (`prepare_allocation` / `allocate_prepared(_rev)`).
-/
import BumpProof.Arena.Step
import BumpProof.Props.C11
import BumpProof.Lemmas.CtrlBase
import BumpProof.Lemmas.CtrlState
import BumpProof.Lemmas.CtrlPrep
import BumpProof.Lemmas.CtrlCommit

namespace C15
open Arena Rs Ctrl Lemmas

/-! ## Part 1: preparing never moves the position inside a chunk -/

/-- `RawChunk::prepare_allocation` on the current chunk: the state is returned as it was -/
theorem tryCur_prepare_unchanged (cfg : Cfg) (s s' : State) (L : Layout) (h : Hints) (v : Nat × Nat)
    (hr : tryCur cfg .prepare s L h = .ok (some (v, s'))) : s' = s :=
  tryCur_keeps (by decide) hr

/-- `RawChunk::prepare_allocation_range` on the current chunk: the state is returned as it was -/
theorem tryCur_range_unchanged (cfg : Cfg) (s s' : State) (L : Layout) (h : Hints) (v : Nat × Nat)
    (hr : tryCur cfg .range s L h = .ok (some (v, s'))) : s' = s :=
  tryCur_keeps (by decide) hr

/-- What a prepare (fast path + slow path) may change, spelled out.  `i` is the index of the chunk that
    was current before. -/
structure PrepareEffect (cfg : Cfg) (i : Nat) (s s' : State) : Prop where
  /-- every chunk up to the old current one is identical: same position, same bytes -/
  upto : ∀ j : Nat, j ≤ i → s'.chunks[j]? = s.chunks[j]?
  /-- later chunks are still there, with the same block and the same bytes; they may only have been
      reset (they were empty / unused anyway: see C04) -/
  later : ∀ (j : Nat) (c : Chunk), s.chunks[j]? = some c →
    ∃ c', s'.chunks[j]? = some c' ∧ c'.base = c.base ∧ c'.size = c.size ∧ c'.data = c.data ∧
      (c'.pos = c.pos ∨ c' = c.resetPos cfg)
  /-- the current chunk is the old one or a later (possibly new) one -/
  cur : ∃ j, i ≤ j ∧ s'.cur = .chunk j ∧ j < s'.chunks.length
  /-- live blocks, open scopes, minimum alignment are untouched -/
  live : s'.live = s.live
  minAlign : s'.minAlign = s.minAlign
  frames : s'.frames = s.frames

theorem prepareEffect_of_keeps {cfg : Cfg} {i : Nat} {s s' : State} (h : Keeps cfg i s s') :
    PrepareEffect cfg i s s' := by
  refine ⟨h.upto, fun j c hj => ?_, h.cur, h.live, h.minAlign, h.frames⟩
  obtain ⟨c', hc', hcc⟩ := h.later j c hj
  rcases hcc with rfl | rfl
  · exact ⟨_, hc', rfl, rfl, rfl, Or.inl rfl⟩
  · exact ⟨_, hc', rfl, rfl, rfl, Or.inr rfl⟩

/-- `prepare_allocation` / `prepare_slice_allocation` / `reserve` of the trait object, whatever the
    outcome (success, allocation failure, capacity overflow) -/
theorem allocGeneric_range_effect (cfg : Cfg) (s s' : State) (L : Layout) (h hs : Hints) (i : Nat) (c : Chunk)
    (r : Except AErr (Nat × Nat)) (hcur : s.cur = .chunk i) (hget : s.chunks[i]? = some c)
    (hr : allocGeneric cfg .range s L h hs = .ok (s', r)) : PrepareEffect cfg i s s' :=
  prepareEffect_of_keeps (allocGeneric_keeps (by decide) ⟨hcur, hget⟩ hr)

/-- the same for `prepare_sized_allocation` (used by `alloc_try_with_mut`) -/
theorem allocGeneric_prepare_effect (cfg : Cfg) (s s' : State) (L : Layout) (h hs : Hints) (i : Nat) (c : Chunk)
    (r : Except AErr (Nat × Nat)) (hcur : s.cur = .chunk i) (hget : s.chunks[i]? = some c)
    (hr : allocGeneric cfg .prepare s L h hs = .ok (s', r)) : PrepareEffect cfg i s s' :=
  prepareEffect_of_keeps (allocGeneric_keeps (by decide) ⟨hcur, hget⟩ hr)

theorem inAnotherChunk_range_effect (cfg : Cfg) (s s' : State) (L : Layout) (h : Hints) (i : Nat) (c : Chunk)
    (r : Except AErr (Nat × Nat)) (hcur : s.cur = .chunk i) (hget : s.chunks[i]? = some c)
    (hr : inAnotherChunk cfg .range s L h = .ok (s', r)) : PrepareEffect cfg i s s' :=
  prepareEffect_of_keeps (inAnotherChunk_keeps (by decide) ⟨hcur, hget⟩ hr)

/-! ## Part 2: the life of a collection in a history -/

/-- creating or growing the collection -/
theorem step_prepareSlice_effect (cfg : Cfg) (g g' : GState) (esize ealign minCap : Nat) (rev : Bool) (o : Out)
    (i : Nat) (c : Chunk) (hcur : g.s.cur = .chunk i) (hget : g.s.chunks[i]? = some c)
    (hr : stepCore cfg g (.prepareSlice esize ealign minCap rev) = .ok (g', o)) :
    PrepareEffect cfg i g.s g'.s ∧ g'.marks = g.marks := by
  have hc : CurChunk g.s i c := ⟨hcur, hget⟩
  have hrefl : PrepareEffect cfg i g.s g.s := prepareEffect_of_keeps (Keeps.refl cfg hc)
  rw [stepCore] at hr
  split at hr
  · cases hr
  · simp only at hr
    split at hr
    · simp only [R_pure_eq, Except.ok.injEq, Prod.mk.injEq] at hr
      obtain ⟨rfl, rfl⟩ := hr
      exact ⟨hrefl, rfl⟩
    · split at hr
      · simp only [R_pure_eq, Except.ok.injEq, Prod.mk.injEq] at hr
        obtain ⟨rfl, rfl⟩ := hr
        exact ⟨hrefl, rfl⟩
      · generalize hag : allocGeneric cfg .range g.s _ Hints.array Hints.array = x at hr
        cases x with
        | error e => cases hr
        | ok sr =>
          obtain ⟨s1, r⟩ := sr
          have hk := allocGeneric_keeps (by decide) hc hag
          have he := prepareEffect_of_keeps hk
          cases r with
          | error e =>
            simp only [R_ok_bind, R_pure_eq, Except.ok.injEq, Prod.mk.injEq] at hr
            obtain ⟨rfl, rfl⟩ := hr
            exact ⟨he, rfl⟩
          | ok ab =>
            obtain ⟨a, b⟩ := ab
            simp only [R_ok_bind, R_pure_eq, Except.ok.injEq, Prod.mk.injEq] at hr
            obtain ⟨rfl, rfl⟩ := hr
            exact ⟨⟨he.upto, he.later, he.cur, he.live, he.minAlign, he.frames⟩, rfl⟩

/-- `prepare_allocation` of the untyped interface -/
theorem step_prepare_effect (cfg : Cfg) (g g' : GState) (L : Layout) (o : Out)
    (i : Nat) (c : Chunk) (hcur : g.s.cur = .chunk i) (hget : g.s.chunks[i]? = some c)
    (hr : stepCore cfg g (.prepare L) = .ok (g', o)) :
    PrepareEffect cfg i g.s g'.s ∧ g'.marks = g.marks := by
  have hc : CurChunk g.s i c := ⟨hcur, hget⟩
  rw [stepCore] at hr
  generalize validLayout L = x1 at hr
  cases x1 with
  | error e => cases hr
  | ok u1 =>
    simp only [R_ok_bind] at hr
    generalize noPrepared g.s = x2 at hr
    cases x2 with
    | error e => cases hr
    | ok u2 =>
      simp only [R_ok_bind] at hr
      split at hr
      · cases hr
      · generalize hag : allocGeneric cfg .range g.s _ Hints.custom Hints.custom = x at hr
        cases x with
        | error e => cases hr
        | ok sr =>
          obtain ⟨s1, r⟩ := sr
          have he := prepareEffect_of_keeps (allocGeneric_keeps (by decide) hc hag)
          cases r with
          | error e =>
            simp only [R_ok_bind, R_pure_eq, Except.ok.injEq, Prod.mk.injEq] at hr
            obtain ⟨rfl, rfl⟩ := hr
            exact ⟨he, rfl⟩
          | ok ab =>
            obtain ⟨a, b⟩ := ab
            simp only [R_ok_bind, R_pure_eq, Except.ok.injEq, Prod.mk.injEq] at hr
            obtain ⟨rfl, rfl⟩ := hr
            exact ⟨⟨he.upto, he.later, he.cur, he.live, he.minAlign, he.frames⟩, rfl⟩

/-- filling the collection writes bytes only: current chunk, every position, the live blocks stay -/
theorem step_fillPrepared_shape (cfg : Cfg) (g g' : GState) (len seed : Nat) (o : Out)
    (hr : stepCore cfg g (.fillPrepared len seed) = .ok (g', o)) :
    SameShape g.s g'.s ∧ g'.marks = g.marks := by
  rw [stepCore] at hr
  split at hr
  · rename_i p hp
    by_cases hlen : len * p.esize > p.rend - p.rstart
    · simp only [hlen, ↓reduceIte] at hr
      cases hr
    · simp only [hlen, ↓reduceIte] at hr
      generalize hw : writeRange cfg g.s _ _ _ = x at hr
      cases x with
      | error e => cases hr
      | ok s1 =>
        simp only [R_ok_bind, R_pure_eq, Except.ok.injEq, Prod.mk.injEq] at hr
        obtain ⟨rfl, rfl⟩ := hr
        exact ⟨writeRange_shape hw, rfl⟩
  · cases hr

/-- in particular the position of every chunk is what it was -/
theorem step_fillPrepared_positions (cfg : Cfg) (g g' : GState) (len seed : Nat) (o : Out)
    (hr : stepCore cfg g (.fillPrepared len seed) = .ok (g', o)) (j : Nat) :
    (g'.s.chunks[j]?).map (·.pos) = (g.s.chunks[j]?).map (·.pos) ∧ g'.s.cur = g.s.cur := by
  obtain ⟨hs, _⟩ := step_fillPrepared_shape cfg g g' len seed o hr
  refine ⟨?_, hs.cur⟩
  have := hs.chunks j
  cases h1 : g'.s.chunks[j]? <;> cases h2 : g.s.chunks[j]? <;> rw [h1, h2] at this <;>
    simp only [Option.map_some, Option.map_none, Option.some.injEq, Prod.mk.injEq, reduceCtorEq] at this ⊢
  exact this.2.2

/-- dropping the collection without finalising it: the prepared area is forgotten, NOTHING else changes -/
theorem step_abandonPrepared (cfg : Cfg) (g : GState) (p : Prepared) (hp : g.s.prepared = some p) :
    stepCore cfg g .abandonPrepared = .ok ({ g with s := { g.s with prepared := none } }, .unit) := by
  rw [stepCore]
  simp only [hp]
  rfl

end C15
