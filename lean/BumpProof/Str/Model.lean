/-
  Str/Model.lean — byte-level executable model of the string types of bump-scope
  (`BumpBox<str>`, `FixedBumpString`, `BumpString`, `MutBumpString`) and of the C-string
  constructors.  Import-free (Lean core only); used by the driver and by Props/C09.lean.

  A string is its allocation `buf` (capacity = `buf.length` bytes; the bytes at index ≥ `len` are
  spare capacity with stale contents) and `len`; the contents are `buf.take len`.
  Every model function mirrors ONE Rust function (named in its comment) with the same order of
  range checks, boundary assertions, capacity reservation, byte copies and length updates.
  `ptr::copy` / `copy_nonoverlapping` / `rotate_*` are the list functions `copyWithin` / `writeAt`
  / `rotateLeft|Right`; a copy that would leave the allocation is the fault `.fault`
  (undefined behaviour) — the theorems show it is unreachable.

  Outcomes (`Res`): `ok v s` | `err s` (allocation error: a FIXED string is full; `try_*` returns
  `Err`, the panicking twin panics in `panic_on_error`; growable strings are assumed to get their
  memory — running out of memory is C07's subject) | `panic s` (`s` = the string after unwinding,
  i.e. after the drop guards in scope ran) | `fault`.

  User callbacks: the predicate of `retain` is an ORACLE, a list of outcomes consumed in call order.

  `fixedC09a` (parameter of `splitOff`): `true` = the code after fix 17be2d2 (boundary assertions
  before the `start == end` early return); `false` = the order before the fix (finding C09-a).
  `Alloc` (parameter of the growing operations): fixed capacity / exact growth (`BumpString`) /
  growth to an arena-decided grant (`MutBumpString`).
-/
import BumpProof.Str.Utf8

namespace Str

structure State where
  buf : Bytes
  len : Nat
  deriving Repr, DecidableEq, Inhabited

/-- the contents (`as_bytes()`) -/
def State.bytes (s : State) : Bytes := s.buf.take s.len
/-- `capacity()` -/
def State.cap (s : State) : Nat := s.buf.length

/-- a string with contents `l` in an allocation of `max cap l.length` bytes -/
def State.ofBytes (l : Bytes) (cap : Nat := 0) : State :=
  { buf := l ++ List.replicate (cap - l.length) 0, len := l.length }

inductive Res (α : Type) where
  | ok (v : α) (s : State)
  | err (s : State)
  | panic (s : State)
  | fault
  deriving Repr, DecidableEq

/-- the string after the operation, whatever the outcome (`none` only for `fault`) -/
def Res.state? {α : Type} : Res α → Option State
  | .ok _ s => some s
  | .err s => some s
  | .panic s => some s
  | .fault => none

def Res.isPanic {α : Type} : Res α → Bool
  | .panic _ => true
  | _ => false

/-! ## memory primitives -/

/-- `ptr::copy_nonoverlapping(data, buf + dst, data.len())`; `none` = out of the allocation -/
def writeAt (buf : Bytes) (dst : Nat) (data : Bytes) : Option Bytes :=
  if dst + data.length ≤ buf.length then some (buf.take dst ++ data ++ buf.drop (dst + data.length)) else none

/-- `ptr::copy(buf + src, buf + dst, n)` (memmove); `none` = out of the allocation -/
def copyWithin (buf : Bytes) (src dst n : Nat) : Option Bytes :=
  if src + n ≤ buf.length then writeAt buf dst ((buf.drop src).take n) else none

/-- `slice::rotate_left(k)` for `k ≤ len` -/
def rotateLeft (l : Bytes) (k : Nat) : Bytes := l.drop k ++ l.take k
/-- `slice::rotate_right(k)` for `k ≤ len` -/
def rotateRight (l : Bytes) (k : Nat) : Bytes := l.drop (l.length - k) ++ l.take (l.length - k)

/-! ## ranges: `polyfill::slice::range` (src/polyfill/slice.rs) -/

inductive Bound where
  | incl (n : Nat)
  | excl (n : Nat)
  | unbounded
  deriving Repr, DecidableEq

def usizeMax : Nat := 2 ^ 64 - 1

/-- the start bound (`None` = `slice_start_index_overflow_fail`) -/
def Bound.start? : Bound → Option Nat
  | .incl s => some s
  | .excl s => if s < usizeMax then some (s + 1) else none
  | .unbounded => some 0

/-- the end bound (`None` = `slice_end_index_overflow_fail`) -/
def Bound.end? (len : Nat) : Bound → Option Nat
  | .incl e => if e < usizeMax then some (e + 1) else none
  | .excl e => some e
  | .unbounded => some len

/-- `slice::range(range, ..len)`: `none` = panic (index overflow, start > end, end > len) -/
def sliceRange (sb eb : Bound) (len : Nat) : Option (Nat × Nat) :=
  match sb.start?, eb.end? len with
  | some s, some e => if s > e then none else if e > len then none else some (s, e)
  | _, _ => none

/-! ## capacity: `generic_reserve` / `generic_grow_amortized` / `generic_grow_exact` / `generic_grow_to`
   of `FixedBumpVec<u8>` (fixed_bump_vec.rs l.1629), `BumpVec<u8>` (bump_vec.rs l.1909, 2665, 2715, 2732)
   and `MutBumpVec<u8>` (mut_bump_vec.rs l.1766, 2199, 2219, 2236) -/

/-- where the memory of a string comes from -/
inductive Alloc where
  /-- `FixedBumpString` / `BumpBox<str>`: cannot grow (`generic_reserve` fails when the room is insufficient) -/
  | fixed
  /-- `BumpString`: `generic_grow_to(new_cap)` = `allocator.grow` (or `allocate` when the capacity is 0)
      to exactly `new_cap` bytes -/
  | exact
  /-- `MutBumpString`: `grow_prepared_allocation(new_cap)` hands out the rest of the chunk that can
      hold `new_cap` bytes: `grant` bytes.  The grant is an INPUT (it is decided by the arena);
      the arena contract is `grant ≥ new_cap`, the model uses `max grant new_cap`. -/
  | atLeast (grant : Nat)
  deriving Repr, DecidableEq

def Alloc.isFixed : Alloc → Bool
  | .fixed => true
  | _ => false

/-- `min_non_zero_cap(size_of::<u8>())` (lib.rs l.544) -/
def minNonZeroCap : Nat := 8

/-- `generic_grow_amortized`: `new_cap = max(cap * 2, required_cap).max(min_non_zero_cap(1))` -/
def amortizedCap (cap required : Nat) : Nat := max (max (cap * 2) required) minNonZeroCap

/-- `generic_grow_to(new_cap)`: the contents are preserved; the new spare bytes are arbitrary (modelled as 0) -/
def growTo (a : Alloc) (s : State) (newCap : Nat) : Option State :=
  match a with
  | .fixed => none
  | .exact => some { s with buf := s.buf ++ List.replicate (newCap - s.buf.length) 0 }
  | .atLeast g => some { s with buf := s.buf ++ List.replicate (max g newCap - s.buf.length) 0 }

/-- `generic_reserve(additional)`: nothing happens (no reallocation) when
    `additional ≤ capacity - len`; otherwise a fixed string fails and a growable one grows amortized.
    (`len + additional` overflowing `usize` is a capacity-overflow error in the code; lengths that
    large cannot exist, `Layout` bounds them by `isize::MAX` — not modelled.) -/
def reserve (a : Alloc) (s : State) (additional : Nat) : Option State :=
  if additional ≤ s.buf.length - s.len then some s
  else growTo a s (amortizedCap s.buf.length (s.len + additional))

/-- `generic_reserve_exact(additional)`: grows to exactly `len + additional` -/
def reserveExact (a : Alloc) (s : State) (additional : Nat) : Option State :=
  if additional ≤ s.buf.length - s.len then some s
  else growTo a s (s.len + additional)

/-- `reserve(additional)` / `try_reserve` as an operation -/
def reserveOp (a : Alloc) (s : State) (additional : Nat) : Res Unit :=
  match reserve a s additional with
  | none => .err s
  | some s' => .ok () s'

/-- `reserve_exact(additional)` as an operation -/
def reserveExactOp (a : Alloc) (s : State) (additional : Nat) : Res Unit :=
  match reserveExact a s additional with
  | none => .err s
  | some s' => .ok () s'

/-- `generic_with_capacity_in(capacity)` (bump_string.rs l.799, mut_bump_string.rs l.239,
    fixed_bump_string.rs l.183): an empty string; capacity 0 allocates nothing; a `BumpString` /
    `FixedBumpString` gets exactly `capacity` bytes, a `MutBumpString` the grant -/
def withCapacity (a : Alloc) (capacity : Nat) : State :=
  if capacity = 0 then { buf := [], len := 0 }
  else match a with
    | .atLeast g => { buf := List.replicate (max g capacity) 0, len := 0 }
    | _ => { buf := List.replicate capacity 0, len := 0 }

/-- `generic_from_str_in(text)` (bump_string.rs l.851, mut_bump_string.rs l.789):
    `with_capacity(text.len())`, copy, `set_len` -/
def fromStr (a : Alloc) (text : Bytes) : State :=
  let s := withCapacity a text.length
  { buf := text ++ s.buf.drop text.length, len := text.length }

/-- `generic_extend_from_slice_copy(bytes)` (and `generic_push(byte)`): reserve, copy to `len`, `len += n` -/
def appendBytes (a : Alloc) (s : State) (data : Bytes) : Res Unit :=
  match reserve a s data.length with
  | none => .err s
  | some s1 =>
    match writeAt s1.buf s1.len data with
    | none => .fault
    | some b => .ok () { buf := b, len := s1.len + data.length }

/-- `{Fixed,Mut,}BumpString::generic_push` (bump_string.rs l.1186, fixed_bump_string.rs l.919,
    mut_bump_string.rs): `match ch.len_utf8() { 1 => vec.push(ch as u8), _ => vec.extend_from_slice_copy(encode_utf8) }` -/
def push (a : Alloc) (s : State) (ch : Char) : Res Unit :=
  if ch.utf8Size = 1 then appendBytes a s [UInt8.ofNat ch.toNat]
  else appendBytes a s (encodeChar ch)

/-- `generic_push_str` -/
def pushStr (a : Alloc) (s : State) (str : Bytes) : Res Unit :=
  appendBytes a s str

/-- `assert_char_boundary` (bump_box.rs l.~590): `if !self.is_char_boundary(index) { panic }` -/
def boundaryOk (s : State) (i : Nat) : Bool := isCharBoundary s.bytes i

/-- `insert_bytes` (bump_string.rs l.1823, fixed_bump_string.rs l.1386, mut_bump_string.rs l.606):
    reserve(amt); copy(idx → idx+amt, len-idx); copy_nonoverlapping(bytes → idx); set_len(len+amt) -/
def insertBytes (a : Alloc) (s : State) (idx : Nat) (data : Bytes) : Res Unit :=
  match reserve a s data.length with
  | none => .err s
  | some s1 =>
    match copyWithin s1.buf idx (idx + data.length) (s1.len - idx) with
    | none => .fault
    | some b1 =>
      match writeAt b1 idx data with
      | none => .fault
      | some b2 => .ok () { buf := b2, len := s1.len + data.length }

/-- `generic_insert`: assert_char_boundary(idx); insert_bytes(idx, encode_utf8(ch)) -/
def insert (a : Alloc) (s : State) (idx : Nat) (ch : Char) : Res Unit :=
  if !boundaryOk s idx then .panic s
  else insertBytes a s idx (encodeChar ch)

/-- `generic_insert_str`: assert_char_boundary(idx); insert_bytes(idx, string) -/
def insertStr (a : Alloc) (s : State) (idx : Nat) (str : Bytes) : Res Unit :=
  if !boundaryOk s idx then .panic s
  else insertBytes a s idx str

/-- `BumpBox<str>::pop` (bump_box.rs): `let ch = self.chars().next_back()?; set_len(len - ch.len_utf8())` -/
def pop (s : State) : Res (Option Char) :=
  match lastChar s.bytes with
  | none => .ok none s
  | some (ch, _) => .ok (some ch) { s with len := s.len - ch.utf8Size }

/-- `BumpBox<str>::truncate`: `if new_len <= len { assert_char_boundary(new_len); as_mut_bytes().truncate(new_len) }` -/
def truncate (s : State) (newLen : Nat) : Res Unit :=
  if newLen ≤ s.len then
    if !boundaryOk s newLen then .panic s
    else .ok () { s with len := newLen }
  else .ok () s

/-- `BumpBox<str>::clear`: `set_len(0)` -/
def clear (s : State) : Res Unit := .ok () { s with len := 0 }

/-- `BumpBox<str>::remove`: `self[idx..].chars().next()` (the index expression panics unless
    `is_char_boundary(idx)`; `None` → panic "cannot remove a char from the end of a string");
    copy(next → idx, len-next); set_len(len - (next-idx)) -/
def remove (s : State) (idx : Nat) : Res Char :=
  if !boundaryOk s idx then .panic s
  else
    match decodeFirst (s.bytes.drop idx) with
    | none => .panic s
    | some (ch, _) =>
      let next := idx + ch.utf8Size
      match copyWithin s.buf next idx (s.len - next) with
      | none => .fault
      | some b => .ok ch { buf := b, len := s.len - (next - idx) }

/-! ### retain -/

/-- what one call of the user predicate does -/
inductive Outcome where
  | keep      -- returns `true`
  | drop      -- returns `false`
  | panic
  deriving Repr, DecidableEq

/-- the `while guard.idx < len` loop of `BumpBox<str>::retain` (bump_box.rs l.~1014) with its
    `SetLenOnDrop` guard: `(buf, idx, del_bytes)` are the guard's fields, `fuel` bounds the number
    of iterations (each advances `idx` by ≥ 1).  An exhausted oracle answers `keep`.
    On a panic of the predicate the guard sets `len := idx - del_bytes`. -/
def retainLoop (len : Nat) : Nat → Bytes → Nat → Nat → List Outcome → Res Unit
  | 0, buf, idx, del, _ =>
    if idx < len then .fault else .ok () { buf := buf, len := idx - del }
  | fuel + 1, buf, idx, del, oracle =>
    if idx < len then
      -- `get_unchecked(idx..len).chars().next().unwrap_unchecked()`
      match decodeFirst ((buf.take len).drop idx) with
      | none => .fault
      | some (ch, _) =>
        let chLen := ch.utf8Size
        match oracle.headD .keep with
        | .panic => .panic { buf := buf, len := idx - del }          -- SetLenOnDrop::drop while unwinding
        | .drop => retainLoop len fuel buf (idx + chLen) (del + chLen) oracle.tail
        | .keep =>
          if del > 0 then
            -- `ch.encode_utf8(from_raw_parts_mut(ptr + idx - del_bytes, ch.len_utf8()))`
            match writeAt buf (idx - del) (encodeChar ch) with
            | none => .fault
            | some b => retainLoop len fuel b (idx + chLen) del oracle.tail
          else retainLoop len fuel buf (idx + chLen) del oracle.tail
    else .ok () { buf := buf, len := idx - del }                     -- `drop(guard)`

/-- `BumpBox<str>::retain` -/
def retain (s : State) (oracle : List Outcome) : Res Unit :=
  retainLoop s.len s.len s.buf 0 0 oracle

/-! ### drain -/

/-- `BumpBox<[u8]>::drain(start..end)` followed by `Drain::drop` (owned_slice/drain.rs) for `u8`:
    range check, `set_len(start)`, then the guard moves the tail back:
    `if tail_len > 0 { if tail != start { copy(tail → start, tail_len) }; set_len(start + tail_len) }` -/
def vecDrainDrop (s : State) (start end_ : Nat) : Res Unit :=
  match sliceRange (.incl start) (.excl end_) s.len with
  | none => .panic s
  | some (st, en) =>
    let tailLen := s.len - en
    if tailLen > 0 then
      if en ≠ st then
        match copyWithin s.buf en st tailLen with
        | none => .fault
        | some b => .ok () { buf := b, len := st + tailLen }
      else .ok () { s with len := st + tailLen }
    else .ok () { s with len := st }

/-- `BumpBox<str>::drain(range)` (bump_box.rs) + iteration + `owned_str::Drain::drop`
    (owned_str/drain.rs): range; assert_char_boundary(start); assert_char_boundary(end);
    the iterator yields the characters of `[start, end)` (`takeFront` of them are pulled with
    `next()` before the drop); drop: `if start <= end && end <= len { bytes.drain(start..end) }`.
    Returns the characters that were yielded. -/
def drain (s : State) (sb eb : Bound) (takeFront : Nat) : Res (List Char) :=
  match sliceRange sb eb s.len with
  | none => .panic s
  | some (start, end_) =>
    if !boundaryOk s start then .panic s
    else if !boundaryOk s end_ then .panic s
    else
      match decode ((s.bytes.drop start).take (end_ - start)) with
      | none => .fault
      | some cs =>
        if start ≤ end_ ∧ end_ ≤ s.len then
          match vecDrainDrop s start end_ with
          | .ok () s' => .ok (cs.take takeFront) s'
          | .err s' => .err s'
          | .panic s' => .panic s'
          | .fault => .fault
        else .ok (cs.take takeFront) s

/-! ### replace_range, extend_from_within -/

/-- `generic_replace_range` (bump_string.rs l.1565, fixed_bump_string.rs l.1313, mut_bump_string.rs l.526) -/
def replaceRange (a : Alloc) (s : State) (sb eb : Bound) (str : Bytes) : Res Unit :=
  match sliceRange sb eb s.len with
  | none => .panic s
  | some (start, end_) =>
    if !boundaryOk s start then .panic s
    else if !boundaryOk s end_ then .panic s
    else
      let rangeLen := end_ - start
      let givenLen := str.length
      let additional := givenLen - rangeLen                    -- saturating_sub
      match reserve a s additional with
      | none => .err s
      | some s1 =>
        -- move the tail
        let moved : Option Bytes :=
          if rangeLen ≠ givenLen then copyWithin s1.buf end_ (start + givenLen) (s1.len - end_) else some s1.buf
        match moved with
        | none => .fault
        | some b1 =>
          -- fill with the given string
          match writeAt b1 start str with
          | none => .fault
          | some b2 =>
            -- `set_len((len as isize + (given_len as isize - range_len as isize)) as usize)`
            let newLen : Int := (s1.len : Int) + ((givenLen : Int) - (rangeLen : Int))
            if newLen < 0 then .fault else .ok () { buf := b2, len := newLen.toNat }

/-- `generic_extend_from_within` (bump_string.rs l.1438 …): range; assert(start); assert(end);
    `vec.generic_extend_from_within_copy(range)`: reserve(count); copy_nonoverlapping(start → len, count); len += count -/
def extendFromWithin (a : Alloc) (s : State) (sb eb : Bound) : Res Unit :=
  match sliceRange sb eb s.len with
  | none => .panic s
  | some (start, end_) =>
    if !boundaryOk s start then .panic s
    else if !boundaryOk s end_ then .panic s
    else
      let count := end_ - start
      match reserve a s count with
      | none => .err s
      | some s1 =>
        match copyWithin s1.buf start s1.len count with
        | none => .fault
        | some b => .ok () { buf := b, len := s1.len + count }

/-! ### split_off -/

/-- THE switch for finding C09-a: `true` = /repo after the `fix:` commit 17be2d2 (both
    `BumpBox<str>::split_off` and `FixedBumpString::split_off` assert the char boundaries BEFORE the
    `start == end` early return); `false` = the behaviour before the fix (the early return preceded
    the assertions, so an empty range inside a character returned "" instead of panicking).  The
    driver and the correspondence use this value; Props/C09.lean proves the theorems for both values. -/
def c09aFixed : Bool := true

/-- `FixedBumpString::split_off` (fixed_bump_string.rs l.439; `BumpString::split_off` delegates to
    it) and `BumpBox<str>::split_off` (bump_box.rs l.~600; the same control flow with
    capacity = len).  Returns the split-off string; the state is what `self` keeps.
    The allocation is cut at `lhs_cap`: the left string gets `buf[..lhs_cap]`, the right one the rest. -/
def splitOff (fixedC09a : Bool) (s : State) (sb eb : Bound) : Res State :=
  let len := s.len
  match sliceRange sb eb len with
  | none => .panic s
  | some (start, end_) =>
    if end_ = len then
      if !boundaryOk s start then .panic s
      else
        -- self = lhs = buf[..start] (len start), other = rhs = buf[start..] (len len-start)
        .ok { buf := s.buf.drop start, len := len - start } { buf := s.buf.take start, len := start }
    else if start = 0 then
      if !boundaryOk s end_ then .panic s
      else
        -- self = rhs = buf[end..], other = lhs = buf[..end]
        .ok { buf := s.buf.take end_, len := end_ } { buf := s.buf.drop end_, len := len - end_ }
    else if !fixedC09a && start = end_ then
      .ok { buf := [], len := 0 } s                              -- C09-a: before the assertions
    else if !boundaryOk s start then .panic s
    else if !boundaryOk s end_ then .panic s
    else if fixedC09a && start = end_ then
      .ok { buf := [], len := 0 } s
    else
      let headLen := start
      let tailLen := len - end_
      let rangeLen := end_ - start
      let remainingLen := len - rangeLen
      if headLen < tailLen then
        -- `get_unchecked_mut(..end).rotate_right(range_len)`
        let b := rotateRight (s.buf.take end_) rangeLen ++ s.buf.drop end_
        .ok { buf := b.take rangeLen, len := rangeLen } { buf := b.drop rangeLen, len := remainingLen }
      else
        -- `get_unchecked_mut(start..).rotate_left(range_len)` (on the initialized part `start..len`)
        let b := s.buf.take start ++ rotateLeft ((s.buf.take len).drop start) rangeLen ++ s.buf.drop len
        .ok { buf := b.drop remainingLen, len := rangeLen } { buf := b.take remainingLen, len := remainingLen }

/-! ### C strings -/

/-- `iter().position(|&c| c == b'\0')` -/
def nulPos : Bytes → Option Nat
  | [] => none
  | b :: r => if b = 0 then some 0 else (nulPos r).map (· + 1)

/-- `{,Mut}BumpString::generic_into_cstr` (bump_string.rs l.2003, mut_bump_string.rs l.680):
    `match position(NUL) { Some(nul) => as_mut_vec().truncate(nul + 1), None => generic_push('\0')? }`;
    the result is the bytes of the string (with the NUL) -/
def intoCstr (a : Alloc) (s : State) : Res Bytes :=
  match nulPos s.bytes with
  | some nul =>
    let s' : State := if nul + 1 ≤ s.len then { s with len := nul + 1 } else s
    .ok s'.bytes s'
  | none =>
    match push a s (Char.ofNat 0) with
    | .ok () s' => .ok s'.bytes s'
    | .err s' => .err s'
    | .panic s' => .panic s'
    | .fault => .fault

/-- `alloc_cstr(src: &CStr)` (traits/bump_allocator_typed_scope.rs l.935): `alloc_slice_copy(src.to_bytes_with_nul())` -/
def allocCstr (bytesWithNul : Bytes) : Bytes := bytesWithNul

/-- `alloc_cstr_from_str` (l.982): with a NUL: `alloc_cstr(src[..nul+1])`; without: allocate
    `len + 1`, copy, write 0 at `len` -/
def allocCstrFromStr (src : Bytes) : Bytes :=
  match nulPos src with
  | some nul => allocCstr (src.take (nul + 1))
  | none => src ++ [0]

/-- `alloc_cstr_fmt` (l.1071): `if let Some(s) = args.as_str() { alloc_cstr_from_str(s) } else
    { BumpString::new; write_fmt (= one push_str per piece); into_cstr }`.  Formatting itself is
    `core::fmt` (a parameter: the pieces it produces). -/
def allocCstrFmt (asStr : Option Bytes) (pieces : List Bytes) : Res Bytes :=
  match asStr with
  | some s => .ok (allocCstrFromStr s) (State.ofBytes [])
  | none =>
    let rec go (s : State) : List Bytes → Res Unit
      | [] => .ok () s
      | p :: ps =>
        match pushStr .exact s p with
        | .ok () s' => go s' ps
        | r => r
    match go (State.ofBytes []) pieces with
    | .ok () s => intoCstr .exact s
    | .err s => .err s
    | .panic s => .panic s
    | .fault => .fault

/-! ## extend_zeroed, fmt::Write, Extend, shrink_to(_fit), consuming conversions -/

/-- `generic_extend_zeroed(additional)` (bump_string.rs l.1487, fixed_bump_string.rs l.1228,
    mut_bump_string.rs l.492): `reserve(additional)?; ptr.add(len).write_bytes(0, additional); set_len(len + additional)` -/
def extendZeroed (a : Alloc) (s : State) (additional : Nat) : Res Unit :=
  appendBytes a s (List.replicate additional 0)

/-- `fmt::Write::write_str`: `self.try_push_str(s).map_err(|_| fmt::Error)` -/
def writeStr (a : Alloc) (s : State) (str : Bytes) : Res Unit := pushStr a s str

/-- `fmt::Write::write_char`: `self.try_push(c).map_err(|_| fmt::Error)` -/
def writeChar (a : Alloc) (s : State) (c : Char) : Res Unit := push a s c

/-- `iterator.for_each(|c| self.push(c))`: stops at the first allocation error (the panicking
    `push` unwinds); what was pushed before stays -/
def pushAllChars (a : Alloc) (s : State) : List Char → Res Unit
  | [] => .ok () s
  | c :: cs =>
    match push a s c with
    | .ok () s' => pushAllChars a s' cs
    | other => other

/-- `Extend<char>` (and `Extend<&char>`): `self.reserve(size_hint().0); for_each(push)` -/
def extendChars (a : Alloc) (s : State) (cs : List Char) : Res Unit :=
  match reserve a s cs.length with
  | none => .err s
  | some s1 => pushAllChars a s1 cs

/-- `Extend<&str>` / repeated `+=`: `for str in iter { self.push_str(str) }` -/
def extendStrs (a : Alloc) (s : State) : List Bytes → Res Unit
  | [] => .ok () s
  | p :: ps =>
    match pushStr a s p with
    | .ok () s' => extendStrs a s' ps
    | other => other

/-- `BumpVec::<u8>::shrink_to(min_capacity)` (bump_vec.rs l.2836; `BumpString::shrink_to` delegates):
    `new_cap = max(len, min_capacity)`; nothing to do when `old_cap <= new_cap`; otherwise
    `allocator.shrink_slice(ptr, old_cap, new_cap)`: `Some(new_ptr)` — pointer AND capacity are
    updated (bumping downwards the allocator has moved the bytes) — or `None` (not the newest
    allocation of its chunk, or shrinking is switched off): nothing changes.  `arenaShrinks` is the
    arena's answer (an INPUT).  The contents never change. -/
def shrinkTo (s : State) (minCapacity : Nat) (arenaShrinks : Bool) : Res Unit :=
  let newCap := max s.len minCapacity
  if s.buf.length ≤ newCap then .ok () s
  else if arenaShrinks then .ok () { s with buf := s.buf.take newCap }
  else .ok () s

/-- `BumpVec::<u8>::shrink_to_fit` (bump_vec.rs l.2793): nothing when `cap <= len`, else `shrink_slice(ptr, cap, len)` -/
def shrinkToFit (s : State) (arenaShrinks : Bool) : Res Unit :=
  if s.buf.length ≤ s.len then .ok () s
  else if arenaShrinks then .ok () { s with buf := s.buf.take s.len }
  else .ok () s

/-- `into_str` / `into_boxed_str` (`shrink_to_fit` first) / `into_fixed_string` / `into_bytes` /
    `FixedBumpString::into_string`: the same bytes under another type -/
def intoBytes (s : State) (arenaShrinks : Bool) : Bytes :=
  match shrinkToFit s arenaShrinks with
  | .ok () s' => s'.bytes
  | _ => s.bytes

/-- `impl Clone for BumpString` (bump_string.rs l.2151): `allocate_slice::<u8>(len)`, copy `len`
    bytes, `from_raw_parts(slice, len)` — a NEW allocation of exactly `len` bytes: capacity = len.
    The original is not touched. -/
def cloneStr (s : State) : State := { buf := s.bytes, len := s.len }

/-! ## checked constructors -/

/-- `BumpBox<str>::from_utf8` (bump_box.rs l.~521; `FixedBumpString::from_utf8`,
    `BumpString::from_utf8`, `MutBumpString::from_utf8` do the same on their byte vector):
    `match str::from_utf8(bytes) { Ok(_) => Ok(transmute(bytes)), Err(e) => Err(FromUtf8Error::new(e, bytes)) }`.
    The byte vector `v` (allocation + length) is reinterpreted UNCHANGED when it is valid UTF-8 and
    handed back otherwise (`none`).  `str::from_utf8` is core; its accept/reject decision is the
    decoder `validUtf8` (tied to rustc by the correspondence run). -/
def fromUtf8 (v : State) : Option State :=
  if validUtf8 v.bytes then some v else none

/-- `char::decode_utf16` (core `DecodeUtf16::next`): a non-surrogate unit is a character; a
    trailing surrogate (≥ 0xDC00) is an error; a leading surrogate needs a trailing one right after
    it (otherwise an error, and the next unit is looked at again);
    `c = (((u & 0x3ff) << 10) | (u2 & 0x3ff)) + 0x10000`.  `none` = `Err(DecodeUtf16Error)`. -/
def decodeUtf16 : List UInt16 → List (Option Char)
  | [] => []
  | [u] =>
    if ¬ (0xD800 ≤ u.toNat ∧ u.toNat ≤ 0xDFFF) then [some (Char.ofNat u.toNat)] else [none]
  | u :: u2 :: r2 =>
    if ¬ (0xD800 ≤ u.toNat ∧ u.toNat ≤ 0xDFFF) then some (Char.ofNat u.toNat) :: decodeUtf16 (u2 :: r2)
    else if 0xDC00 ≤ u.toNat then none :: decodeUtf16 (u2 :: r2)
    else if u2.toNat < 0xDC00 ∨ 0xDFFF < u2.toNat then none :: decodeUtf16 (u2 :: r2)
    else some (Char.ofNat ((u.toNat % 1024) * 1024 + u2.toNat % 1024 + 0x10000)) :: decodeUtf16 r2

/-- the push loop of `generic_from_utf16_in`: `Ok(c) => push(c)?`, `Err => return Err(FromUtf16Error)`
    (`none`) -/
def pushDecoded (a : Alloc) (s : State) : List (Option Char) → Option (Res Unit)
  | [] => some (.ok () s)
  | none :: _ => none
  | some c :: r =>
    match push a s c with
    | .ok () s' => pushDecoded a s' r
    | other => some other

/-- `generic_from_utf16_in` (bump_string.rs l.1055, mut_bump_string.rs l.333):
    `with_capacity(v.len())`, then push every decoded character; the first decoding error aborts
    with `FromUtf16Error` (`none`) -/
def fromUtf16 (a : Alloc) (v : List UInt16) : Option (Res Unit) :=
  pushDecoded a (withCapacity a v.length) (decodeUtf16 v)

/-- `generic_from_utf16_lossy_in` (l.1127): capacity `size_hint().0` (= ⌈len/2⌉), every error becomes U+FFFD -/
def fromUtf16Lossy (a : Alloc) (v : List UInt16) : Option (Res Unit) :=
  pushDecoded a (withCapacity a ((v.length + 1) / 2))
    ((decodeUtf16 v).map fun o => some (o.getD (Char.ofNat 0xFFFD)))

end Str
