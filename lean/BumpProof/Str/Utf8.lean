/-
  Str/Utf8.lean — UTF-8 on byte lists (import-free, executable; used by the model, the driver and
  the theorems of C09).

  * The ENCODER is Lean core's `String.utf8EncodeChar` (Init/Prelude.lean: the definition behind
    `List.utf8Encode` and `ByteArray.IsValidUTF8`, i.e. behind core's `String`).  `Valid l` is
    "l is the concatenated encoding of some list of Unicode scalar values"
    (proved equivalent to `ByteArray.IsValidUTF8 l.toByteArray` in Lemmas/StrUtf8.lean).
  * The DECODER (`decodeFirst`, `decode`, `lastChar`) is hand-written in the shape of
    `core::str::validations::{next_code_point, next_code_point_reverse, run_utf8_validation}`:
    1–4 byte sequences, continuation bytes `10xxxxxx`, no overlong forms, no surrogates, at most
    U+10FFFF.  It is proved to be the inverse of the encoder (Lemmas/StrUtf8.lean).
  * `isCharBoundary` is `core::str::is_char_boundary` AS IMPLEMENTED (index 0, index len, or the
    byte test `(b as i8) >= -0x40`); proved equivalent to "the prefix is a whole number of
    encoded characters" for valid strings (Lemmas/StrBoundary.lean).
-/
namespace Str

abbrev Bytes := List UInt8

/-- `char::encode_utf8` (core) -/
def encodeChar (c : Char) : Bytes := String.utf8EncodeChar c

/-- the UTF-8 encoding of a sequence of scalar values -/
def encode : List Char → Bytes
  | [] => []
  | c :: cs => encodeChar c ++ encode cs

/-- valid UTF-8: the encoding of some character sequence -/
def Valid (l : Bytes) : Prop := ∃ cs : List Char, l = encode cs

/-- continuation byte `10xxxxxx` -/
abbrev IsCont (b : UInt8) : Prop := 0x80 ≤ b.toNat ∧ b.toNat < 0xC0

/-- two-byte sequence `110xxxxx 10xxxxxx` (first byte ≥ 0xC2: no overlong form) -/
def decode2 (n0 : Nat) : Bytes → Option (Char × Bytes)
  | b1 :: r1 =>
    if IsCont b1 then some (Char.ofNat ((n0 - 0xC0) * 64 + (b1.toNat - 0x80)), r1) else none
  | _ => none

/-- three-byte sequence `1110xxxx 10xxxxxx 10xxxxxx`: ≥ U+0800 (no overlong form), no surrogate -/
def decode3 (n0 : Nat) : Bytes → Option (Char × Bytes)
  | b1 :: b2 :: r2 =>
    let v := (n0 - 0xE0) * 4096 + (b1.toNat - 0x80) * 64 + (b2.toNat - 0x80)
    if IsCont b1 ∧ IsCont b2 ∧ 0x800 ≤ v ∧ ¬ (0xD800 ≤ v ∧ v ≤ 0xDFFF) then some (Char.ofNat v, r2) else none
  | _ => none

/-- four-byte sequence `11110xxx 10xxxxxx 10xxxxxx 10xxxxxx`: U+10000 ..= U+10FFFF -/
def decode4 (n0 : Nat) : Bytes → Option (Char × Bytes)
  | b1 :: b2 :: b3 :: r3 =>
    let v := (n0 - 0xF0) * 262144 + (b1.toNat - 0x80) * 4096 + (b2.toNat - 0x80) * 64 + (b3.toNat - 0x80)
    if IsCont b1 ∧ IsCont b2 ∧ IsCont b3 ∧ 0x10000 ≤ v ∧ v ≤ 0x10FFFF then some (Char.ofNat v, r3) else none
  | _ => none

/-- `core::str::validations::next_code_point` + the checks of `run_utf8_validation`: decodes one
    scalar value from the front; `none` when the input does not start with a well-formed sequence -/
def decodeFirst : Bytes → Option (Char × Bytes)
  | [] => none
  | b0 :: r =>
    let n0 := b0.toNat
    if n0 < 0x80 then some (Char.ofNat n0, r)
    else if n0 < 0xC2 then none
    else if n0 < 0xE0 then decode2 n0 r
    else if n0 < 0xF0 then decode3 n0 r
    else if n0 < 0xF5 then decode4 n0 r
    else none

/-- decode at most `fuel` characters; `none` = malformed input (or fuel exhausted) -/
def decodeAux : Nat → Bytes → Option (List Char)
  | _, [] => some []
  | 0, _ :: _ => none
  | fuel + 1, b :: r =>
    match decodeFirst (b :: r) with
    | none => none
    | some (c, rest) =>
      match decodeAux fuel rest with
      | none => none
      | some cs => some (c :: cs)

/-- `str::chars().collect()` / `core::str::from_utf8`: the decoded characters, `none` for invalid UTF-8 -/
def decode (l : Bytes) : Option (List Char) := decodeAux l.length l

/-- executable validity test (`core::str::from_utf8(..).is_ok()`) -/
def validUtf8 (l : Bytes) : Bool := (decode l).isSome

/-- `b as i8` -/
def asI8 (b : UInt8) : Int := if b.toNat < 128 then (b.toNat : Int) else (b.toNat : Int) - 256

/-- `u8::is_utf8_char_boundary`: `(self as i8) >= -0x40` -/
def isBoundaryByte (b : UInt8) : Bool := decide (asI8 b ≥ -0x40)

/-- `core::str::is_char_boundary` as implemented -/
def isCharBoundary (l : Bytes) (i : Nat) : Bool :=
  if i = 0 then true
  else if i ≥ l.length then i == l.length
  else
    match l[i]? with
    | some b => isBoundaryByte b
    | none => false

/-- `str::chars().next_back()` (`next_code_point_reverse`): walks back over at most three
    continuation bytes, then decodes.  Returns the character and the index where it starts. -/
def lastChar (l : Bytes) : Option (Char × Nat) :=
  let n := l.length
  if n = 0 then none
  else
    let start :=
      if isCharBoundary l (n - 1) then n - 1
      else if isCharBoundary l (n - 2) then n - 2
      else if isCharBoundary l (n - 3) then n - 3
      else n - 4
    match decodeFirst (l.drop start) with
    | some (c, []) => some (c, start)
    | _ => none

end Str
