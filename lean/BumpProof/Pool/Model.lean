/-
  Pool/Model.lean — hand-written executable model of `BumpPool` / `BumpPoolGuard`
  (`/repo/src/bump_pool.rs`).

  What is modelled.  `BumpPool { bumps: Mutex<Vec<Bump<A, S>>>, allocator: A }` is a mutex-protected
  stack of idle arenas.  Every public operation touches the vector inside ONE critical section:

    * `get` / `try_get` / `(try_)get_with_size` / `(try_)get_with_capacity`
          `let bump = match self.lock().pop() { Some(b) => b, None => Bump::…_in(…)? };`
      the `MutexGuard` is a temporary of the match scrutinee and therefore lives until the end of the
      `let` statement: pop-or-create is one atomic step (`Pool.get`).  The six entry points differ only
      in the constructor used for a fresh arena and in how a failed construction is reported, so they
      are one model function with the fate of a needed construction as an input (`Create`): it
      succeeds, it is refused (`try_*` returns `Err(AllocError)`: failed allocation or capacity
      overflow), or it PANICS (`get_with_size(usize::MAX)`, `get_with_capacity(huge)`: "capacity
      overflow" raised inside `Bump::generic_with_*_in` while the lock guard temporary is alive).
      The panic unwinds through the `MutexGuard`, which POISONS the mutex; `lock()` and `bumps()`
      ignore poisoning (`unwrap_or_else(PoisonError::into_inner)`), so the pool is specified to keep
      working identically afterwards.  The model carries the flag (`State.poisoned`) only to be able to
      state that nothing depends on it;
    * `BumpPoolGuard::drop`: `self.pool.lock().push(bump)` (`Pool.put`);
    * `mem::forget(guard)` (safe code; mentioned in the SAFETY comment of `Deref`): the arena is
      neither returned nor dropped (`Pool.forget`);
    * allocation through a guard (`Deref<Target = BumpScope<'pool, A, S>>`): touches only the arena
      the guard owns (`Pool.alloc`); the arena itself is abstracted to the list of tags of the blocks
      allocated in it since its last reset (the arena proper is the `Arena` engine);
    * `reset` / `reset_to_start` (`for bump in self.bumps() { bump.reset…() }`) and `Drop` of the pool
      (drops the vector) take `&mut self` / `self`: the borrow checker admits them only when no guard
      borrows the pool, i.e. no guard is live (`Pool.forAll`).

  A step sequence (`List Step`) is one linearisation of the critical sections of an arbitrary
  multi-threaded execution; thread identities are irrelevant to the pool (a guard is identified by a
  `GuardId`), so "any number of threads" = "any step list".

  NOT in the model (trusted, see Props/C19.lean): that `std::sync::Mutex` makes the critical sections
  atomic, and that `Send` hand-over of an arena between threads is a happens-before edge.

  No imports (the driver links natively).
-/
namespace Pool

abbrev ArenaId := Nat
abbrev GuardId := Nat
abbrev Tag := Nat

/-- contents abstraction of one `Bump<A, S>` of the pool -/
structure Arena where
  tags : List Tag := []      -- blocks allocated since the last reset/rewind, oldest first
  resets : Nat := 0          -- how often `Bump::reset` ran on this arena
  rewinds : Nat := 0         -- how often `Bump::reset_to_start` ran on this arena
  drops : Nat := 0           -- how often the arena was dropped (must end up 0 or 1)
  deriving Repr, DecidableEq, Inhabited

/-- an allocation through the owning guard -/
def Arena.alloc (a : Arena) (t : Tag) : Arena := { a with tags := a.tags ++ [t] }
/-- `Bump::reset` -/
def Arena.reset (a : Arena) : Arena := { a with tags := [], resets := a.resets + 1 }
/-- `Bump::reset_to_start` -/
def Arena.resetToStart (a : Arena) : Arena := { a with tags := [], rewinds := a.rewinds + 1 }
/-- `Drop for Bump` -/
def Arena.drop (a : Arena) : Arena := { a with tags := [], drops := a.drops + 1 }

structure State where
  idle : List ArenaId                  -- `bumps`: a stack, HEAD = last element of the `Vec` (what `pop` takes)
  owned : List (GuardId × ArenaId)     -- live guards and the arena inside each (`BumpPoolGuard::bump`)
  leaked : List ArenaId                -- arenas of guards that were `mem::forget`-ed
  created : Nat                        -- number of arenas ever constructed; the next fresh id
  arenas : ArenaId → Arena
  dropped : Bool                       -- the pool itself was dropped
  poisoned : Bool                      -- `Mutex::is_poisoned`: a `get*` panicked inside the critical section
  deriving Inhabited

def init : State :=
  { idle := [], owned := [], leaked := [], created := 0, arenas := fun _ => {}, dropped := false, poisoned := false }

/-- contract violations of a step list (not reachable from safe Rust) -/
inductive Err where
  | guardInUse      -- `get` with the id of a guard that is still live
  | noGuard         -- `put`/`forget`/`alloc` through a guard that is not live
  | guardsLive      -- `reset`/`reset_to_start`/`drop` while a guard borrows the pool
  | poolDropped     -- any step after the pool was dropped
  deriving Repr, DecidableEq, Inhabited

/-- what the caller observes -/
inductive Out where
  | got (a : ArenaId) (fresh : Bool)   -- a guard around arena `a`; `fresh` = constructed by this call
  | failed                             -- `Err(AllocError)` from the constructor: no guard
  | panicked                           -- the constructor panicked (capacity overflow): no guard, the call unwinds
  | done
  deriving Repr, DecidableEq, Inhabited

/-- what happens IF this `get*` has to construct a fresh arena -/
inductive Create where
  | ok       -- the base allocator serves it
  | fail     -- refused: `try_get*` returns `Err` (allocation failure, or capacity overflow of a `try_` variant)
  | panic    -- the panicking variant hits a capacity overflow and unwinds out of the critical section
  deriving Repr, DecidableEq, Inhabited

inductive Step where
  | get (g : GuardId) (c : Create)        -- `c` is consulted only when no idle arena exists
  | put (g : GuardId)
  | forget (g : GuardId)
  | alloc (g : GuardId) (t : Tag)
  | reset
  | resetToStart
  | drop
  deriving Repr, DecidableEq, Inhabited

def update (f : ArenaId → Arena) (a : ArenaId) (v : Arena) : ArenaId → Arena :=
  fun x => if x = a then v else f x

/-- `for bump in self.bumps() { op(bump) }` -/
def mapOver (op : Arena → Arena) : List ArenaId → (ArenaId → Arena) → (ArenaId → Arena)
  | [], f => f
  | a :: rest, f => mapOver op rest (update f a (op (f a)))

/-- the arena inside live guard `g` -/
def arenaOf (g : GuardId) : List (GuardId × ArenaId) → Option ArenaId
  | [] => none
  | (g', a) :: rest => if g' = g then some a else arenaOf g rest

/-- move guard `g` out of the list of live guards -/
def takeOut (g : GuardId) : List (GuardId × ArenaId) → Option (ArenaId × List (GuardId × ArenaId))
  | [] => none
  | (g', a) :: rest =>
    if g' = g then some (a, rest)
    else match takeOut g rest with
      | none => none
      | some (b, rest') => some (b, (g', a) :: rest')

/-- `BumpPool::get`, `try_get`, `generic_get_with_size`, `generic_get_with_capacity` (bump_pool.rs l.177-293) -/
def get (s : State) (g : GuardId) (c : Create) : Except Err (State × Out) :=
  if s.dropped then .error .poolDropped
  else if (arenaOf g s.owned).isSome then .error .guardInUse
  else
    match s.idle with                        -- `match self.lock().pop()`
    | a :: rest =>                           -- `Some(bump) => bump`
      .ok ({ s with idle := rest, owned := (g, a) :: s.owned }, .got a false)
    | [] =>                                  -- `None => Bump::…_in(self.allocator.clone())?`
      match c with
      | .ok => .ok ({ s with created := s.created + 1, owned := (g, s.created) :: s.owned }, .got s.created true)
      | .fail => .ok (s, .failed)                                    -- `?` returns, the lock guard is dropped normally
      | .panic => .ok ({ s with poisoned := true }, .panicked)       -- unwinding drops the lock guard: poisoned

/-- `Drop for BumpPoolGuard` (bump_pool.rs l.361-370): `self.pool.lock().push(bump)` — `lock()` recovers
    from poisoning, so the arena goes back whether or not `s.poisoned` -/
def put (s : State) (g : GuardId) : Except Err (State × Out) :=
  if s.dropped then .error .poolDropped
  else match takeOut g s.owned with
    | none => .error .noGuard
    | some (a, owned') => .ok ({ s with idle := a :: s.idle, owned := owned' }, .done)

/-- `mem::forget(guard)`: `ManuallyDrop<Bump>` is never taken -/
def forget (s : State) (g : GuardId) : Except Err (State × Out) :=
  if s.dropped then .error .poolDropped
  else match takeOut g s.owned with
    | none => .error .noGuard
    | some (a, owned') => .ok ({ s with leaked := a :: s.leaked, owned := owned' }, .done)

/-- an allocation through `Deref`/`DerefMut for BumpPoolGuard` (bump_pool.rs l.325-359) -/
def alloc (s : State) (g : GuardId) (t : Tag) : Except Err (State × Out) :=
  if s.dropped then .error .poolDropped
  else match arenaOf g s.owned with
    | none => .error .noGuard
    | some a => .ok ({ s with arenas := update s.arenas a ((s.arenas a).alloc t) }, .done)

/-- `BumpPool::reset` / `reset_to_start` (l.130-141) with `op` = the single-arena operation -/
def forAll (s : State) (op : Arena → Arena) : Except Err (State × Out) :=
  if s.dropped then .error .poolDropped
  else if !s.owned.isEmpty then .error .guardsLive     -- `&mut self`
  else .ok ({ s with arenas := mapOver op s.idle s.arenas }, .done)

/-- dropping the pool drops `Mutex<Vec<Bump>>`, i.e. every idle arena -/
def dropPool (s : State) : Except Err (State × Out) :=
  match forAll s Arena.drop with
  | .ok (s', o) => .ok ({ s' with dropped := true }, o)
  | .error e => .error e

def step (s : State) : Step → Except Err (State × Out)
  | .get g c => get s g c
  | .put g => put s g
  | .forget g => forget s g
  | .alloc g t => alloc s g t
  | .reset => forAll s Arena.reset
  | .resetToStart => forAll s Arena.resetToStart
  | .drop => dropPool s

def run (s : State) : List Step → Except Err State
  | [] => .ok s
  | st :: rest =>
    match step s st with
    | .ok (s', _) => run s' rest
    | .error e => .error e

/-- `run` that also records what every call returned: the observable history -/
def runLog (s : State) : List Step → Except Err (State × List (Step × Out))
  | [] => .ok (s, [])
  | st :: rest =>
    match step s st with
    | .ok (s', o) =>
      match runLog s' rest with
      | .ok (s'', log) => .ok (s'', (st, o) :: log)
      | .error e => .error e
    | .error e => .error e

/-! ## History-only quantities (functions of the observable history, no reference to the model state) -/

/-- number of live guards after an event, given the number before.  A call that returned a guard adds
    one, a guard drop removes one; a forgotten guard is never dropped and stays counted. -/
def liveAfter (cur : Nat) : Step × Out → Nat
  | (.get _ _, .got _ _) => cur + 1
  | (.put _, _) => cur - 1
  | _ => cur

/-- maximum number of simultaneously live guards over a history, starting from `cur` live guards and a
    previous maximum `peak` -/
def peakFrom (cur peak : Nat) : List (Step × Out) → Nat
  | [] => peak
  | e :: rest => peakFrom (liveAfter cur e) (max peak (liveAfter cur e)) rest

/-- peak number of simultaneously live guards of a history that starts with a new pool -/
def peakLive (log : List (Step × Out)) : Nat := peakFrom 0 0 log

/-- forget the poison flag (nothing the pool does may depend on it) -/
def State.unpoison (s : State) : State := { s with poisoned := false }

def Step.isClear : Step → Bool
  | .reset | .resetToStart | .drop => true
  | _ => false

end Pool
