/-
  Life/Sig.lean — data types of the signature table extracted from the Rust sources of bump-scope by
  translator/sigs2lean.py (the generated instance is `Gen/Sigs.lean`).  Import-free.

  A `Sig` records, for one public method, the receiver mode and the lifetimes the compiler attaches
  to the result.  Lifetimes are normalised by the extractor:
    `param`   the allocation lifetime of the receiver type (`'a` of `BumpScope<'a>`, of the scope traits
              `…Scope<'a>`, of the guard a `Deref` impl belongs to, of `A: BumpAllocatorTypedScope<'a>`)
    `recv`    `'_` / elided: the borrow of the receiver
    `closure` bound inside the type of a closure argument (`impl FnOnce(&mut BumpScope<'_, …>)`): higher ranked
    `static_` `'static`
-/
namespace Life

inductive Recv | ref | refMut | value
  deriving DecidableEq, Repr, Inhabited

inductive Lt | param | recv | closure | static_ | other (name : String)
  deriving DecidableEq, Repr, Inhabited

/-- classification of the result type (after peeling `Result<_, E>` / `Option<_>`) -/
inductive Ret
  | box            -- BumpBox<'l, T>, FixedBumpVec<'l, T>, FixedBumpString<'l>
  | ref            -- &'l CStr / &'l mut str / &'l mut [T] / &'l A
  | stats          -- Stats<'l, A, S>
  | guard          -- BumpScopeGuard<'l, A, S>
  | claimGuard     -- BumpClaimGuard<'l0, 'l1, A, S>
  | poolGuard      -- BumpPoolGuard<'l, A, S>
  | scopeRef       -- &'l0 BumpScope<'l1, A, S>
  | scopeMut       -- &'l0 mut BumpScope<'l1, A, S>
  | scopeVal       -- BumpScope<'l, A, S>
  | bumpRef        -- &'l Bump<A, S>
  | bumpMut        -- &'l mut Bump<A, S>
  | bumpVal        -- Bump<A, S>
  | coll
  | closureResult  -- `R`, the result of the closure argument
  | unit
  deriving DecidableEq, Repr, Inhabited

/-- the type or trait a method is declared on -/
inductive Owner | bump | scope | guard | claim | pool | poolGuard | trAllocator | trScope | trTypedScope | trMutTypedScope | coll
  deriving DecidableEq, Repr, Inhabited

/-- effect class: what the method does at run time (assigned by name in the extractor; its meaning is the
    dynamic semantics of `Life/Calculus.lean`) -/
inductive Op
  | alloc          -- yields a value that points into the arena (top epoch)
  | mkGuard        -- opens a scope: a new epoch, ended by the guard
  | guardScope     -- `BumpScopeGuard::scope`
  | guardReset     -- `BumpScopeGuard::reset`
  | resetAll       -- `Bump::reset(_to_start)`, `BumpPool::reset(_to_start)`
  | viewScope      -- another handle (a `BumpScope`) on the same arena
  | viewSame       -- another handle of the same type on the same arena (`borrow(_mut)_with_settings`)
  | claim
  | poolGet
  | convert        -- `with_settings(self)`
  | enterScoped    -- `scoped`, `scoped_aligned`
  | enterAligned   -- `aligned`
  deriving DecidableEq, Repr, Inhabited

structure Sig where
  owner : String          -- type or trait the method is declared on
  name  : String
  ownerK : Owner
  op    : Op
  recv  : Recv
  ret   : Ret
  lts   : List Lt         -- lifetime arguments of the result type, outermost first
  cl    : List Lt         -- lifetimes of the closure parameter `&'l0 mut BumpScope<'l1, …>` (scoped family), else []
  src   : String
  deriving DecidableEq, Repr, Inhabited

/-- implementors of `unsafe trait BumpAllocatorCoreScope<'a>` (the promise "my allocations live for `'a`") -/
inductive ImplTy | scope | refBump | refMutBump | refB | refMutB | wrapper
  deriving DecidableEq, Repr, Inhabited
/-- what `'a` is for the implementor: its own lifetime parameter, the lifetime of the reference, `B`'s, or
    (`anon`) a lifetime that the implementing type does not mention at all -/
inductive ImplLt | own | refLt | forward | anon
  deriving DecidableEq, Repr, Inhabited
structure ScopeImpl where
  ty   : ImplTy
  lt   : ImplLt
  text : String
  line : Nat
  deriving DecidableEq, Repr, Inhabited

inductive Setting | up | minAlign | guaranteedAllocated | claimable
  deriving DecidableEq, Repr, Inhabited
/-- `NewS::X rel S::X` -/
inductive Rel | eq | ge | le | lt | gt | ne
  deriving DecidableEq, Repr, Inhabited
structure SettingsAssert where
  block : String
  rels  : List (Setting × Rel)
  line  : Nat
  deriving DecidableEq, Repr, Inhabited
structure Conversion where
  owner : String
  name  : String
  block : String
  line  : Nat
  deriving DecidableEq, Repr, Inhabited

/-- a lifetime position of the OUTPUT of a value conversion, relative to the lifetimes the INPUT type names:
    `fromInput`: one of the input's named lifetimes; `fresh`: an elided `'_` in an impl header / a lifetime the
    caller chooses freely; `static_`; `other`: a named lifetime that is not one of the input's -/
inductive LtRel | fromInput | fresh | static_ | other (name : String)
  deriving DecidableEq, Repr, Inhabited
/-- `from_`: `impl From<In> for Out` (or an associated fn `Out::f(In) -> Out`); `accessor`: `In::name(self…) -> Out`;
    `item`: `impl Iterator for In { type Item = Out }`; `refView`: `AsRef`/`Borrow`/`Deref` (`&In -> &Out`);
    `ctor`: `Out::name(In, allocator)` — the lifetimes listed are those of the `In` ARGUMENT relative to the lifetime
    `'a` of the bound `A: …Scope<'a>` that the output's `into_*` methods hand out -/
inductive ConvForm | from_ | accessor | item | refView | ctor
  deriving DecidableEq, Repr, Inhabited
/-- a conversion between two lifetime-carrying public types -/
structure ValueConv where
  form   : ConvForm
  input  : String
  name   : String          -- `from_`: the output type or `Out::f`; `accessor`/`refView`: the method; `item`: "next"; `ctor`: `Out::f`
  output : String
  lts    : List LtRel
  src    : String
  deriving DecidableEq, Repr, Inhabited

/-- field types of the handle structs, as far as auto-trait derivation needs them -/
inductive Ty
  | alloc                       -- the base allocator parameter `A`
  | prim | phantom | nonNull
  | cell (t : Ty) | mutex (t : Ty) | vec (t : Ty) | manuallyDrop (t : Ty)
  | ref (t : Ty) | refMut (t : Ty)
  | named (n : String)
  deriving DecidableEq, Repr, Inhabited
structure StructDef where
  name   : String
  fields : List Ty
  deriving DecidableEq, Repr, Inhabited
inductive Auto | send | sync
  deriving DecidableEq, Repr, Inhabited
structure AutoImpl where
  tr     : Auto
  ty     : String
  bounds : List (String × Auto)    -- (type parameter, required auto trait)
  src    : String
  deriving DecidableEq, Repr, Inhabited

/-- a hand-written `unsafe impl Send/Sync for ty`: its bounds, and the type parameters of `ty` that occur in a field of
    the struct outside `PhantomData` (a value of that parameter type, or a pointer to one, is stored) -/
structure HandImpl where
  tr     : Auto
  ty     : String
  bounds : List (String × Auto)
  stored : List String
  src    : String
  deriving DecidableEq, Repr, Inhabited

structure Table where
  sigs            : List Sig
  scopeImpls      : List ScopeImpl
  settingsAsserts : List SettingsAssert
  conversions     : List Conversion
  valueConvs      : List ValueConv
  structs         : List StructDef
  autoImpls       : List AutoImpl
  dropImpls       : List (String × Bool)
  handImpls       : List HandImpl := []
  deriving Repr, Inhabited

def Table.lookup (t : Table) (owner name : String) : Option Sig :=
  t.sigs.find? (fun s => s.owner == owner && s.name == name)

def Table.lookupConv (t : Table) (input name : String) : Option ValueConv :=
  t.valueConvs.find? (fun c => c.input == input && c.name == name)

end Life
