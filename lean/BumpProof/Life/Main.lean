/-
  Life/Main.lean — line-protocol front end of the calculus' executable type checker, run with
  `lake env lean --run BumpProof/Life/Main.lean < programs`.  One query per line:

    prog <id> <allocSend 0|1> <allocSync 0|1> | <stmt> ; <stmt> ; …
    conv <id> <owner> <method> <up> <minAlign> <ga> <claimable> <up'> <minAlign'> <ga'> <claimable'>

  Answers: `<id> accept <run result>` / `<id> reject <class> <index of the rejected statement>`.
-/
import BumpProof.Life.Calculus
import BumpProof.Life.Settings
import BumpProof.Gen.Sigs

open Life

def parseOp : String → Option Op
  | "alloc" => some .alloc | "mkGuard" => some .mkGuard | "guardScope" => some .guardScope
  | "guardReset" => some .guardReset | "resetAll" => some .resetAll | "viewScope" => some .viewScope
  | "viewSame" => some .viewSame | "claim" => some .claim | "poolGet" => some .poolGet
  | "convert" => some .convert | "enterScoped" => some .enterScoped | "enterAligned" => some .enterAligned
  | _ => none

def parseStmt (ws : List String) : Option Stmt :=
  match ws with
  | ["newBump", b] => b.toNat?.map .newBump
  | ["newPool", p] => p.toNat?.map .newPool
  | ["call", x, h, op, owner, name] => do pure (.call (← x.toNat?) (← h.toNat?) (← parseOp op) owner name)
  | ["coll", v, h, m] => do pure (.coll (← v.toNat?) (← h.toNat?) (if m == "mut" then .mut else .shr))
  | ["enter", s, g, h, op, owner, name] => do pure (.enter (← s.toNat?) (← g.toNat?) (← h.toNat?) (← parseOp op) owner name)
  | ["exit", r] => pure (.exit (if r == "-" then none else r.toNat?))
  | ["use", x] => x.toNat?.map .use
  | ["drop", x] => x.toNat?.map .drop
  | ["slot", o] => o.toNat?.map .slot
  | ["store", o, x] => do pure (.store (← o.toNat?) (← x.toNat?))
  | ["send", x] => x.toNat?.map .send
  | ["share", x] => x.toNat?.map .share
  | ["vconv", x, v, input, name] => do pure (.vconv (← x.toNat?) (← v.toNat?) input name)
  | ["join", x, f, input, name] => do pure (.join (← x.toNat?) (← f.toNat?) input name)
  | _ => none

def words (s : String) : List String := (s.splitOn " ").filter (· ≠ "")

def rejName : Rej → String
  | .unknown => "unknown" | .dead => "dead" | .access => "access" | .escape => "escape" | .notSend => "notSend"
  | .notApplicable => "notApplicable" | .illformed => "illformed"

def faultName : Fault → String
  | .uaf => "uaf" | .deadArena => "deadArena" | .crossThread => "crossThread" | .stuck => "stuck"

/-- variables whose entry is INVALID when it goes out of scope (at the `exit` of the closure it was declared in, or
    at the end of the program).  The calculus treats a variable that is never dropped as leaked; Rust drops it
    implicitly, which is a use if its type has drop glue — the caller decides that (it knows the Rust types). -/
def invalidAtEnds (t : Table) (fl : Flags) : SEnv → List Stmt → List Var
  | Γ, [] => (Γ.ents.filter (fun e => !e.valid)).map (·.var)
  | Γ, st :: rest =>
    let here := match st with
      | .exit _ => (Γ.ents.filter (fun e => e.depth == Γ.depth && !e.valid)).map (·.var)
      | _ => []
    match checkStmt t fl Γ st with
    | .error _ => here
    | .ok Γ' => here ++ invalidAtEnds t fl Γ' rest

def runName (fl : Flags) (p : List Stmt) : String :=
  match run fl DState.empty p with
  | .ok _ => "ok"
  | .error (k, f) => s!"fault:{faultName f}@{p.length - 1 - k}"

/-- `<id> accept run=<outcome> inv=<v,v,…>` / `<id> reject <class> <statement> run=<outcome>`: the dynamic semantics is
    evaluated on EVERY program (it does not depend on types): a program that faults must not compile -/
def answerProg (id : String) (fl : Flags) (body : String) : String :=
  let stmts := (body.splitOn ";").map words |>.filter (· ≠ [])
  match stmts.mapM parseStmt with
  | none => s!"{id} parse-error"
  | some p =>
    match check Gen.Sigs.table fl SEnv.empty p with
    | .error (k, r) => s!"{id} reject {rejName r} {p.length - 1 - k} run={runName fl p}"
    | .ok _ =>
      let inv := invalidAtEnds Gen.Sigs.table fl SEnv.empty p
      s!"{id} accept run={runName fl p} inv={",".intercalate (inv.map toString)}"

def b01 (s : String) : Bool := s == "1" || s == "true"

def answer (line : String) : String :=
  match words line with
  | "prog" :: id :: s :: y :: "|" :: _ =>
      let body := (line.splitOn "|").drop 1 |> String.intercalate "|"
      answerProg id ⟨b01 s, b01 y⟩ body
  | ["conv", id, owner, name, u, m, g, c, u', m', g', c'] =>
      match convOK Gen.Sigs.table owner name ⟨b01 u, m.toNat!, b01 g, b01 c⟩ ⟨b01 u', m'.toNat!, b01 g', b01 c'⟩ with
      | some true => s!"{id} accept"
      | some false => s!"{id} reject const-assert"
      | none => s!"{id} parse-error"
  | [] => ""
  | _ => "parse-error"

partial def loop (h : IO.FS.Stream) (out : IO.FS.Stream) : IO Unit := do
  let line ← h.getLine
  if line.isEmpty then return ()
  let l := line.trimAscii.toString
  if l ≠ "" then out.putStrLn (answer l)
  loop h out

def main : IO Unit := do
  loop (← IO.getStdin) (← IO.getStdout)
