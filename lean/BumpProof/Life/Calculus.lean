/-
  Life/Calculus.lean — a small region calculus for property C04 (references into a scope cannot
  outlive it in safe code).  Imports only the table types of `Life/Sig.lean` (no Mathlib, no Std).

  WHAT IS MODELLED
  * Programs are flat lists of statements over variables (natural numbers):
      newBump b | newPool p                  `let mut b = Bump::new()` / `BumpPool::new()`
      call x h op owner name                 `let x = h.name(…)`   — any method of the signature table: the
                                             alloc family, stats, allocator, scope_guard, guard.scope(),
                                             guard.reset(), reset, reset_to_start, as_scope, as_mut_scope,
                                             by_value, borrow(_mut)_with_settings, with_settings, claim,
                                             pool.get*, collection `into_*`, trait forms of the alloc family
      coll v h m                             `BumpVec::new_in(&h)` / `MutBumpVec::new_in(&mut h)`
      enter s g h op owner name … exit r     `let r = h.scoped(|s| { … r })`  (scoped, scoped_aligned, aligned;
                                             `g` names the implicit guard / reborrow the call holds; the value
                                             handed out keeps its name)
      use x | drop x                         `touch(&x)` / `drop(x)`  (every drop is explicit)
      slot o | store o x                     `let mut o = None` / `o = Some(x)`  (outer variable)
      send x | share x                       move `x` into / share `&x` with a scoped thread that uses it
      vconv x v input name                   `let x = Out::from(v)` / `v.current_chunk()` / `v.next()`: a row of the table's
                                             `valueConvs` (conversions between lifetime-carrying values: Stats, Chunk,
                                             the chunk iterators, their `Any*` forms, BumpBox → FixedBumpVec)
      join x f input name                    `x` came out of `BumpVec::from_parts(f, allocator)`: `x` may live in `f`'s memory
  * STATIC side (`check`): every variable has an entry (kind, access, `self` region, `param` region).
    A region is a list of loans (`borrow v mode`) — the places that must stay untouched for the thing
    to stay usable — `'static` is `[]`.  The region of a result is what the signature table says
    (`Lt.recv` ↦ a new loan on the receiver plus the receiver's own region, `Lt.param` ↦ the receiver's
    allocation region).  Borrow discipline = invalidation: a `&mut self` call, a move or a drop of `h`
    invalidates every entry whose region holds a loan on `h`; a `&self` call invalidates those holding
    a mutable loan on `h`; using an invalidated entry is a type error (for straight-line code this is the
    verdict of NLL: a conflicting access between the creation of a borrow and a later use of it).
    Closure parameters carry the extra token `frame g` which may not flow into outer variables
    (higher-ranked closure lifetimes), and the call's receiver stays mutably borrowed by the implicit
    guard `g` until `exit`.
  * DYNAMIC side (`run`): arenas are stacks of *memory epochs*.  A value records the epoch that was on
    top when it was allocated.  Epochs end (memory may be reused) at: guard drop, guard reset, a
    further `scope()` of the same guard (conservative, as in the property text), exit of a `scoped`
    closure, `Bump::reset(_to_start)`, `BumpPool::reset(_to_start)`, drop of the `Bump`/`BumpPool`.
    Faults: `uaf` (a value used — touched, dropped, sent — after its epoch ended), `deadArena` (a handle
    used after its arena was dropped), `crossThread` (a handle moved to / shared with another thread
    although the base allocator is not `Send`/`Sync`, or a handle type that is never thread-safe),
    `stuck` (dynamic type error).  The dynamic semantics never looks at the signature table: what a
    method does is fixed by its effect class `Op`.

  WHAT IS NOT MODELLED (stated in the evidence as `partial`)
  * control flow, loops, user-defined functions/structs, trait objects, interior mutability,
    `mem::swap`/`mem::replace`/`mem::take` of handles (DESIGN.md §10: swapping two `&mut BumpScope<'a>`
    is outside every alphabet), `mem::forget` (an entry that is never dropped behaves like a leaked one),
    unwinding;
  * `claim(&self)` is typed as an EXCLUSIVE borrow of its receiver (stricter than the real signature):
    with the shared form, soundness rests on the run-time inertness of a claimed allocator (property
    C14), which this calculus does not model;
  * a `BumpPoolGuard` always gets a fresh arena (the pool's reuse of returned arenas is not modelled;
    for epochs a reused arena is indistinguishable from a fresh one);
  * rustc itself: that its borrow checker enforces this discipline is compared on a generated corpus
    (checks/engines/life.py), not proved.
-/
import BumpProof.Life.Sig

namespace Life

abbrev Var := Nat

inductive Mode | shr | mut
  deriving DecidableEq, Repr, Inhabited

inductive Loan
  | borrow (v : Var) (m : Mode)
  | frame (g : Var)            -- token of the closure whose implicit guard is `g`
  deriving DecidableEq, Repr, Inhabited

abbrev Region := List Loan

def Loan.on (l : Loan) (v : Var) : Bool :=
  match l with
  | .borrow w _ => w == v
  | .frame _ => false

def Loan.mutOn (l : Loan) (v : Var) : Bool :=
  match l with
  | .borrow w .mut => w == v
  | _ => false

/-- the region holds a loan on `v` -/
def Region.on (r : Region) (v : Var) : Bool := r.any (·.on v)
/-- the region holds a mutable loan on `v` -/
def Region.mutOn (r : Region) (v : Var) : Bool := r.any (·.mutOn v)

inductive Kind | bump | scope | guard | claim | pool | poolGuard | coll | val
  deriving DecidableEq, Repr, Inhabited

inductive Acc | own | mutRef | shrRef
  deriving DecidableEq, Repr, Inhabited

structure Entry where
  var   : Var
  kind  : Kind
  acc   : Acc
  self  : Region      -- loans that must stay alive for this entry to be usable
  param : Region      -- region of what is allocated through it (`'a`); for values = `self`
  valid : Bool
  depth : Nat         -- closure nesting depth of the declaration
  deriving DecidableEq, Repr, Inhabited

structure Flags where
  allocSend : Bool    -- base allocator `A: Send`
  allocSync : Bool    -- base allocator `A: Sync`
  deriving DecidableEq, Repr, Inhabited

inductive Stmt
  | newBump (b : Var)
  | newPool (p : Var)
  | call (x h : Var) (op : Op) (owner name : String)
  | coll (v h : Var) (m : Mode)
  | enter (s g h : Var) (op : Op) (owner name : String)
  | exit (ret : Option Var)
  | use (x : Var)
  | drop (x : Var)
  | slot (o : Var)
  | store (o x : Var)
  | send (x : Var)
  | share (x : Var)
  | vconv (x v : Var) (input name : String)
  | join (x f : Var) (input name : String)
  deriving Repr, Inhabited

/-! ## static semantics -/

inductive Rej
  | unknown         -- unknown / moved variable
  | dead            -- use of an invalidated entry (borrow conflict: E0499 E0502 E0505 E0506 E0597 E0716 E0713 E0503)
  | access          -- `&mut` through a shared reference, move out of a reference (E0596 E0507)
  | escape          -- a closure-bound region flows out of the closure (E0521, "lifetime may not live long enough", E0597, E0515)
  | notSend         -- E0277
  | notApplicable   -- method does not exist on this receiver (E0599 E0277)
  | illformed       -- not a program of the calculus (generator bug)
  deriving DecidableEq, Repr, Inhabited

structure SEnv where
  ents   : List Entry
  used   : List Var         -- every variable ever declared
  frames : List Var         -- implicit guards of the open closures, innermost first
  deriving Repr, Inhabited

def SEnv.empty : SEnv := ⟨[], [], []⟩

def SEnv.find (Γ : SEnv) (v : Var) : Option Entry := Γ.ents.find? (fun e => e.var == v)

def SEnv.depth (Γ : SEnv) : Nat := Γ.frames.length

def SEnv.lookupValid (Γ : SEnv) (v : Var) : Except Rej Entry :=
  if Γ.frames.contains v then .error .illformed else
  match Γ.find v with
  | none => .error .unknown
  | some e => if e.valid then .ok e else .error .dead

/-- invalidate the entry if its region holds a loan satisfying `p` -/
def kill1 (p : Loan → Bool) (e : Entry) : Entry := if e.self.any p then { e with valid := false } else e

def killEnts (p : Loan → Bool) (es : List Entry) : List Entry := es.map (kill1 p)

/-- a shared use of `v` ends the outstanding mutable loans on it -/
def SEnv.useShr (Γ : SEnv) (v : Var) : SEnv := { Γ with ents := killEnts (·.mutOn v) Γ.ents }
/-- an exclusive use of `v` ends all outstanding loans on it -/
def SEnv.useMut (Γ : SEnv) (v : Var) : SEnv := { Γ with ents := killEnts (·.on v) Γ.ents }
/-- `v` is moved or dropped: all loans on it end, the variable is gone -/
def SEnv.remove (Γ : SEnv) (v : Var) : SEnv :=
  { Γ with ents := (killEnts (·.on v) Γ.ents).filter (fun e => e.var != v) }

def SEnv.declare (Γ : SEnv) (e : Entry) : Except Rej SEnv :=
  if Γ.used.contains e.var then .error .illformed
  else .ok { Γ with ents := e :: Γ.ents, used := e.var :: Γ.used }

def Entry.movable (e : Entry) : Bool := e.acc == .own || e.kind == .coll

def Mode.recv : Mode → Recv
  | .shr => .ref
  | .mut => .refMut

def Mode.refAcc : Mode → Acc
  | .shr => .shrRef
  | .mut => .mutRef

def Recv.mode : Recv → Mode
  | .ref => .shr
  | _ => .mut

def SEnv.access (Γ : SEnv) (e : Entry) (r : Recv) : Except Rej SEnv :=
  match r with
  | .ref => .ok (Γ.useShr e.var)
  | .refMut => if e.acc == .shrRef then .error .access else .ok (Γ.useMut e.var)
  -- (a by-value method is never reached through `Deref`: a claim guard / pool guard cannot be moved out of)
  | .value => if e.movable && e.kind != .claim && e.kind != .poolGuard then .ok (Γ.remove e.var) else .error .access

def evalLt (e : Entry) (m : Mode) : Lt → Option Region
  | .recv => some (.borrow e.var m :: e.self)
  | .param => some e.param
  | .static_ => some []
  | _ => none

/-- entry of the result `x` of a call on `e` taken with mode `m`; `some none`: no result -/
def mkResult (x : Var) (d : Nat) (e : Entry) (m : Mode) (ret : Ret) (lts : List Lt) : Option (Option Entry) :=
  let mk (k : Kind) (a : Acc) (s p : Region) : Option (Option Entry) := some (some ⟨x, k, a, s, p, true, d⟩)
  match ret, lts with
  | .unit, [] => some none
  | .box, [l] | .ref, [l] | .stats, [l] => (evalLt e m l).bind fun r => mk .val .own r r
  | .guard, [l] => (evalLt e m l).bind fun r => mk .guard .own r r
  | .poolGuard, [l] => (evalLt e m l).bind fun r => mk .poolGuard .own r r
  | .scopeVal, [l] => (evalLt e m l).bind fun r => mk .scope .own r r
  | .claimGuard, [l0, l1] => (evalLt e m l0).bind fun r0 => (evalLt e m l1).bind fun r1 => mk .claim .own (r0 ++ r1) r1
  | .scopeRef, [l0, l1] => (evalLt e m l0).bind fun r0 => (evalLt e m l1).bind fun r1 => mk .scope .shrRef r0 r1
  | .scopeMut, [l0, l1] => (evalLt e m l0).bind fun r0 => (evalLt e m l1).bind fun r1 => mk .scope .mutRef r0 r1
  | .bumpRef, [l] => (evalLt e m l).bind fun r => mk .bump .shrRef r r
  | .bumpMut, [l] => (evalLt e m l).bind fun r => mk .bump .mutRef r r
  | .bumpVal, [] => mk .bump .own [] []
  | _, _ => none

def Table.implLt (t : Table) (ty : ImplTy) : Option ImplLt := (t.scopeImpls.find? (fun i => i.ty == ty)).map (·.lt)

/-- do the `…TypedScope<'a>` traits apply to this receiver, with `'a` = the entry's `param`? -/
def scopeTraitOn (t : Table) (e : Entry) : Bool :=
  match e.kind, e.acc with
  | .scope, .own => t.implLt .scope == some .own
  | .scope, .shrRef => t.implLt .scope == some .own && t.implLt .refB == some .forward
  | .scope, .mutRef => t.implLt .scope == some .own && t.implLt .refMutB == some .forward
  | .bump, .shrRef => t.implLt .refBump == some .refLt
  | .bump, .mutRef => t.implLt .refMutBump == some .refLt
  | .claim, _ | .poolGuard, _ => t.implLt .scope == some .own
  | _, _ => false

def applicable (t : Table) (o : Owner) (e : Entry) : Bool :=
  match o, e.kind with
  | .bump, .bump | .scope, .scope | .guard, .guard | .claim, .claim | .pool, .pool | .poolGuard, .poolGuard
  | .coll, .coll => true
  | .scope, .claim | .scope, .poolGuard => true          -- through Deref / DerefMut
  | .trAllocator, .bump | .trAllocator, .scope | .trScope, .scope => true
  | .trTypedScope, _ | .trMutTypedScope, _ => scopeTraitOn t e
  | _, _ => false

def Kind.structName : Kind → String
  | .bump => "Bump" | .scope => "BumpScope" | .guard => "BumpScopeGuard" | .claim => "BumpClaimGuard"
  | .pool => "BumpPool" | .poolGuard => "BumpPoolGuard" | .coll => "BumpVec" | .val => "BumpBox"

/-! auto-trait derivation from the extracted struct definitions and explicit impls -/

def Flags.has (fl : Flags) : Auto → Bool
  | .send => fl.allocSend
  | .sync => fl.allocSync

/-- does the type implement the auto trait `a`?  Structural in the fuel (every constructor costs one unit;
    the handle types nest at most 6 deep) -/
def tyAuto (t : Table) (fl : Flags) : Nat → Auto → Ty → Bool
  | 0, _, _ => false
  | n + 1, a, ty =>
    match ty with
    | .alloc => fl.has a
    | .prim => true
    | .phantom => true
    | .nonNull => false
    | .cell x => (match a with | .send => tyAuto t fl n .send x | .sync => false)
    | .mutex x => tyAuto t fl n .send x
    | .vec x => tyAuto t fl n a x
    | .manuallyDrop x => tyAuto t fl n a x
    | .ref x => tyAuto t fl n .sync x
    | .refMut x => tyAuto t fl n a x
    | .named s =>
      match t.autoImpls.find? (fun i => i.tr == a && i.ty == s) with
      | some i => i.bounds.all fun (p, b) => if p == "A" then fl.has b else true
      | none =>
        match t.structs.find? (fun d => d.name == s) with
        | some d => d.fields.all fun f => tyAuto t fl n a f
        | none => false

def Entry.ty (e : Entry) : Ty :=
  match e.acc with
  | .own => .named e.kind.structName
  | .mutRef => .refMut (.named e.kind.structName)
  | .shrRef => .ref (.named e.kind.structName)

/-- may the entry be moved into another thread? -/
def sendOK (t : Table) (fl : Flags) (e : Entry) : Bool :=
  e.kind != .coll && tyAuto t fl 16 .send e.ty
/-- may `&entry` be shared with another thread? -/
def shareOK (t : Table) (fl : Flags) (e : Entry) : Bool :=
  e.kind != .coll && tyAuto t fl 16 .sync e.ty

def Loan.depthOK (Γ : SEnv) (d : Nat) : Loan → Bool
  | .borrow v _ => match Γ.find v with
      | some e => e.depth ≤ d
      | none => false
  | .frame g =>
      -- the closure whose guard is `g` was opened at depth (position from the bottom) ≥ d ?
      match Γ.frames.reverse.idxOf? g with
      | some i => i + 1 ≤ d
      | none => false

/-- shape of a closure-taking method: (does it open a scope?, does the closure parameter allocate with the receiver's
    real allocation lifetime?) -/
def closureShape : Op → List Lt → Option (Bool × Bool)
  | .enterScoped, [.closure, .closure] => some (true, false)
  | .enterScoped, [.closure, .param] => some (true, true)       -- (rejected by `sigOK`)
  | .enterAligned, [.closure, .closure] => some (false, false)
  | .enterAligned, [.closure, .param] => some (false, true)
  | _, _ => none

def locals (Γ : SEnv) : List Var := (Γ.ents.filter (fun e => e.depth == Γ.depth)).map (·.var)

/-- the receiver mode a call is typed with: `claim(&self)` is typed as an exclusive borrow (see the file header) -/
def effRecv (sig : Sig) : Recv := if sig.ret == .claimGuard then .refMut else sig.recv

def checkCall (t : Table) (Γ : SEnv) (x h : Var) (op : Op) (owner name : String) : Except Rej SEnv :=
  match t.lookup owner name with
  | none => .error .notApplicable
  | some sig =>
    if sig.op != op || op == .enterScoped || op == .enterAligned then .error .illformed else
    match Γ.lookupValid h with
    | .error r => .error r
    | .ok e =>
      if !applicable t sig.ownerK e then .error .notApplicable else
      match Γ.access e (effRecv sig) with
      | .error r => .error r
      | .ok Γ1 =>
        match mkResult x Γ.depth e (effRecv sig).mode sig.ret sig.lts with
        | none => .error .illformed
        | some none => .ok Γ1
        | some (some ne) => Γ1.declare ne

/-- may a collection be built over this handle, and is its allocation lifetime the lifetime of the reference
    (`&'a Bump`) rather than the handle's own parameter? -/
def collParamIsSelf (t : Table) (k : Kind) (m : Mode) : Option Bool :=
  match k, m with
  | .bump, .shr => if t.implLt .refBump == some .refLt then some true else none
  | .bump, .mut => if t.implLt .refMutBump == some .refLt then some true else none
  | .scope, .shr => if t.implLt .scope == some .own && t.implLt .refB == some .forward then some false else none
  | .scope, .mut => if t.implLt .scope == some .own && t.implLt .refMutB == some .forward then some false else none
  | _, _ => none

def checkColl (t : Table) (Γ : SEnv) (v h : Var) (m : Mode) : Except Rej SEnv :=
  match Γ.lookupValid h with
  | .error r => .error r
  | .ok e =>
    match collParamIsSelf t e.kind m with
    | none => .error .notApplicable
    | some paramIsSelf =>
      match Γ.access e m.recv with
      | .error r => .error r
      | .ok Γ1 =>
        Γ1.declare ⟨v, .coll, m.refAcc, .borrow e.var m :: e.self,
                    if paramIsSelf then .borrow e.var m :: e.self else e.param, true, Γ.depth⟩

def checkEnter (t : Table) (Γ : SEnv) (s g h : Var) (op : Op) (owner name : String) : Except Rej SEnv :=
  match t.lookup owner name with
  | none => .error .notApplicable
  | some sig =>
    if sig.op != op || sig.ret != .closureResult then .error .illformed else
    match Γ.lookupValid h with
    | .error r => .error r
    | .ok e =>
      if !applicable t sig.ownerK e then .error .notApplicable else
      match closureShape op sig.cl with
      | none => .error .illformed
      | some (opens, realParam) =>
        match Γ.access e sig.recv with
        | .error r => .error r
        | .ok Γ1 =>
          -- the implicit guard (scoped) / reborrow (aligned) the call holds on its receiver
          let gself : Region := .borrow e.var sig.recv.mode :: e.self
          let ge : Entry := if opens then ⟨g, .guard, .own, gself, gself, true, Γ.depth⟩
                            else ⟨g, .scope, .mutRef, gself, if realParam then e.param else gself, true, Γ.depth⟩
          match Γ1.declare ge with
          | .error r => .error r
          | .ok Γ2 =>
            let sself : Region := .frame g :: .borrow g .mut :: gself
            ({ Γ2 with frames := g :: Γ2.frames } : SEnv).declare
              ⟨s, .scope, .mutRef, sself, if realParam then e.param else sself, true, Γ.depth + 1⟩

def checkExit (Γ : SEnv) (ret : Option Var) : Except Rej SEnv :=
  match Γ.frames with
  | [] => .error .illformed
  | g :: rest =>
    -- the locals of the closure body go away (the value handed out keeps its name) …
    let ls := (locals Γ).filter (fun v => some v != ret)
    let Γ1 := ls.foldl (fun Γ v => Γ.remove v) { Γ with frames := rest }
    -- … the implicit guard / reborrow of the call must still be intact (the receiver and its ancestors
    -- were not touched inside the closure body) and ends now …
    match Γ1.find g with
    | none => .error .illformed
    | some eg =>
      if !eg.valid then .error .dead else
      let Γ2 := Γ1.remove g
      -- … and what is handed out must have survived all of that
      match ret with
      | none => .ok Γ2
      | some r =>
        match Γ2.find r with
        | none => .error .unknown
        | some e =>
          if e.kind != .val then .error .illformed
          else if !e.valid then .error .escape
          else .ok { Γ2 with ents := Γ2.ents.map fun e => if e.var == r then { e with depth := min e.depth rest.length } else e }

def checkStore (Γ : SEnv) (o x : Var) : Except Rej SEnv :=
  match Γ.lookupValid o with
  | .error r => .error r
  | .ok eo =>
    match Γ.lookupValid x with
    | .error r => .error r
    | .ok ex =>
      if eo.kind != .val || ex.kind != .val || o == x then .error .illformed
      else if !ex.self.all (Loan.depthOK Γ eo.depth) then .error .escape
      else
        let Γ1 := Γ.remove x
        .ok { Γ1 with ents := Γ1.ents.map fun e => if e.var == o then { e with self := e.self ++ ex.self, param := e.param ++ ex.self } else e }

/-- every lifetime position of the output is one of the input's lifetimes -/
def ValueConv.tied (c : ValueConv) : Bool := c.lts != [] && c.lts.all (· == .fromInput)

/-- what the borrow checker knows about the output of a conversion of the value `e`: it is bounded by the region of `e`
    exactly if its type names a lifetime of the input; an elided (= fresh) or `'static` output lifetime is bounded by
    nothing -/
def convRegion (c : ValueConv) (e : Entry) : Region := if c.lts.any (· == .fromInput) then e.self else []

/-- `let x = Out::from(v)` / `v.accessor()` / `v.next()`: the source is `Copy` (or not used again) -/
def checkVconv (t : Table) (Γ : SEnv) (x v : Var) (input name : String) : Except Rej SEnv :=
  match t.lookupConv input name with
  | none => .error .notApplicable
  | some c =>
    if c.form == .ctor || c.form == .refView then .error .illformed else
    match Γ.lookupValid v with
    | .error r => .error r
    | .ok e =>
      if e.kind != .val then .error .illformed
      else Γ.declare ⟨x, .val, .own, convRegion c e, convRegion c e, true, Γ.depth⟩

/-- `x` was obtained from a collection built by `Out::from_parts(f, allocator)`: if the signature ties the lifetime of `f`
    to the allocator's, `x` is bounded by `f`'s region as well (`store`), otherwise `f` is merely consumed -/
def checkJoin (t : Table) (Γ : SEnv) (x f : Var) (input name : String) : Except Rej SEnv :=
  match t.lookupConv input name with
  | none => .error .notApplicable
  | some c =>
    if c.form != .ctor then .error .illformed
    else if c.tied then checkStore Γ x f
    else
      match Γ.lookupValid x with
      | .error r => .error r
      | .ok ex =>
        match Γ.lookupValid f with
        | .error r => .error r
        | .ok ef =>
          if ex.kind != .val || ef.kind != .val || x == f then .error .illformed else .ok (Γ.remove f)

def checkStmt (t : Table) (fl : Flags) (Γ : SEnv) : Stmt → Except Rej SEnv
  | .newBump b => Γ.declare ⟨b, .bump, .own, [], [], true, Γ.depth⟩
  | .newPool p => Γ.declare ⟨p, .pool, .own, [], [], true, Γ.depth⟩
  | .call x h op owner name => checkCall t Γ x h op owner name
  | .coll v h m => checkColl t Γ v h m
  | .enter s g h op owner name => checkEnter t Γ s g h op owner name
  | .exit ret => checkExit Γ ret
  | .use x =>
      match Γ.lookupValid x with
      | .error r => .error r
      | .ok e => .ok (if e.kind == .val then Γ else Γ.useShr x)
  | .drop x =>
      match Γ.lookupValid x with
      | .error r => .error r
      | .ok e => if e.kind != .val && !e.movable then .error .access else .ok (Γ.remove x)
  | .slot o => Γ.declare ⟨o, .val, .own, [], [], true, Γ.depth⟩
  | .store o x => checkStore Γ o x
  | .send x =>
      match Γ.lookupValid x with
      | .error r => .error r
      | .ok e =>
        if e.kind != .val && !e.movable then .error .access
        else if !sendOK t fl e then .error .notSend
        else .ok (Γ.remove x)
  | .share x =>
      match Γ.lookupValid x with
      | .error r => .error r
      | .ok e =>
        if !shareOK t fl e then .error .notSend
        else .ok (if e.kind == .val then Γ else Γ.useShr x)
  | .vconv x v input name => checkVconv t Γ x v input name
  | .join x f input name => checkJoin t Γ x f input name

def check (t : Table) (fl : Flags) : SEnv → List Stmt → Except (Nat × Rej) SEnv
  | Γ, [] => .ok Γ
  | Γ, st :: rest =>
    match checkStmt t fl Γ st with
    | .error r => .error (rest.length, r)
    | .ok Γ' => check t fl Γ' rest

/-! ## dynamic semantics -/

structure Rt where
  kind   : Kind
  arena  : Nat
  epoch  : Option Nat    -- val: the epoch of its memory (`none`: no memory); guard: its own epoch
  own    : Bool          -- bump: owns the arena
  arenas : List Nat      -- pool: its arenas
  deriving DecidableEq, Repr, Inhabited

inductive Fault | uaf | deadArena | crossThread | stuck
  deriving DecidableEq, Repr, Inhabited

structure DState where
  store  : List (Var × Rt)        -- newest binding first
  arenas : List (List Nat)        -- arena ↦ its open epochs, bottom first; `[]`: dropped
  next   : Nat                    -- fresh epoch ids
  frames : List Var
  deriving Repr, Inhabited

def DState.empty : DState := ⟨[], [], 0, []⟩

def DState.get (σ : DState) (v : Var) : Option Rt := (σ.store.find? (fun p => p.1 == v)).map (·.2)
def DState.set (σ : DState) (v : Var) (r : Rt) : DState := { σ with store := (v, r) :: σ.store }
def DState.epochs (σ : DState) (a : Nat) : List Nat := σ.arenas.getD a []
def DState.setEpochs (σ : DState) (a : Nat) (eps : List Nat) : DState := { σ with arenas := σ.arenas.set a eps }

/-- the epochs strictly below `e` -/
def cutAt (e : Nat) (eps : List Nat) : List Nat := eps.takeWhile (· != e)

/-- end epoch `e` of arena `a` and every epoch above it -/
def DState.endFrom (σ : DState) (a e : Nat) : DState := σ.setEpochs a (cutAt e (σ.epochs a))
/-- open a new epoch on top of arena `a` -/
def DState.push (σ : DState) (a : Nat) : Nat × DState :=
  (σ.next, { σ.setEpochs a (σ.epochs a ++ [σ.next]) with next := σ.next + 1 })
/-- end every epoch of arena `a` and start over (`reset`) -/
def DState.resetArena (σ : DState) (a : Nat) : DState :=
  { σ.setEpochs a [σ.next] with next := σ.next + 1 }
def DState.killArena (σ : DState) (a : Nat) : DState := σ.setEpochs a []

def Rt.val (a : Nat) (e : Option Nat) : Rt := ⟨.val, a, e, false, []⟩
def Rt.hdl (k : Kind) (a : Nat) : Rt := ⟨k, a, none, false, []⟩

def Kind.allocates : Kind → Bool
  | .bump | .scope | .claim | .poolGuard | .coll => true
  | _ => false
def Kind.scopes : Kind → Bool
  | .bump | .scope | .claim | .poolGuard => true
  | _ => false

/-- is the memory of the value still there? -/
def DState.alive (σ : DState) (r : Rt) : Bool :=
  match r.epoch with
  | none => true
  | some e => (σ.epochs r.arena).contains e

/-- what dropping (or sending away and dropping there) the run-time object does -/
def DState.dropRt (σ : DState) (r : Rt) : Except Fault DState :=
  match r.kind with
  | .val => if σ.alive r then .ok σ else .error .uaf
  | .guard => match r.epoch with
      | some e => .ok (σ.endFrom r.arena e)
      | none => .ok σ
  | .bump => if r.own then .ok (σ.killArena r.arena) else .ok σ
  | .pool => .ok (r.arenas.foldl (fun σ a => σ.killArena a) σ)
  | _ => .ok σ

/-- a guard's `reset` / (conservatively) a further `scope()`: its epoch and everything above ends, a new one starts
    (and is the guard's own from now on) -/
def DState.guardReset (σ : DState) (g : Var) (r : Rt) : DState :=
  match r.epoch with
  | some e =>
    if (σ.epochs r.arena).contains e then
      ((σ.endFrom r.arena e).push r.arena).2.set g { r with epoch := some σ.next }
    else σ
  | none => σ

def runCall (σ : DState) (x h : Var) (op : Op) : Except Fault DState :=
  match σ.get h with
  | none => .error .stuck
  | some r =>
    if r.kind == .val then .error .stuck else
    if r.kind == .pool then
      match op with
      | .poolGet =>
          let a := σ.arenas.length
          let σ1 : DState := { σ with arenas := σ.arenas ++ [[σ.next]], next := σ.next + 1 }
          .ok ((σ1.set h { r with arenas := a :: r.arenas }).set x (Rt.hdl .poolGuard a))
      | .resetAll => .ok (r.arenas.foldl (fun σ a => σ.resetArena a) σ)
      | _ => .error .stuck
    else if σ.epochs r.arena == [] then .error .deadArena else
    match op with
    | .alloc =>
        if r.kind.allocates then .ok (σ.set x (Rt.val r.arena (σ.epochs r.arena).getLast?)) else .error .stuck
    | .mkGuard =>
        if r.kind.scopes then
          .ok ((σ.push r.arena).2.set x ⟨.guard, r.arena, some σ.next, false, []⟩)
        else .error .stuck
    | .guardScope =>
        if r.kind == .guard then .ok ((σ.guardReset h r).set x (Rt.hdl .scope r.arena)) else .error .stuck
    | .guardReset =>
        if r.kind == .guard then .ok (σ.guardReset h r) else .error .stuck
    | .resetAll =>
        if r.kind == .bump then .ok (σ.resetArena r.arena) else .error .stuck
    | .viewScope =>
        if r.kind.scopes then .ok (σ.set x (Rt.hdl .scope r.arena)) else .error .stuck
    | .viewSame =>
        if r.kind == .bump then .ok (σ.set x (Rt.hdl .bump r.arena))
        else if r.kind.scopes then .ok (σ.set x (Rt.hdl .scope r.arena)) else .error .stuck
    | .claim =>
        if r.kind.scopes then .ok (σ.set x (Rt.hdl .claim r.arena)) else .error .stuck
    | .convert =>
        if r.kind == .bump || r.kind == .scope then .ok (σ.set x r) else .error .stuck
    | _ => .error .stuck

def threadSafe (fl : Flags) (r : Rt) (shared : Bool) : Bool :=
  match r.kind with
  | .val => true
  | .bump => r.own && !shared && fl.allocSend
  | .pool => fl.allocSend && (!shared || fl.allocSync)
  | .poolGuard => !shared && fl.allocSend && fl.allocSync
  | _ => false

def runStmt (fl : Flags) (σ : DState) : Stmt → Except Fault DState
  | .newBump b =>
      .ok ({ σ with arenas := σ.arenas ++ [[σ.next]], next := σ.next + 1 }.set b ⟨.bump, σ.arenas.length, none, true, []⟩)
  | .newPool p => .ok (σ.set p ⟨.pool, 0, none, true, []⟩)
  | .call x h op _ _ => runCall σ x h op
  | .coll v h _ =>
      match σ.get h with
      | none => .error .stuck
      | some r =>
        if !r.kind.scopes then .error .stuck
        else if σ.epochs r.arena == [] then .error .deadArena
        else .ok (σ.set v (Rt.hdl .coll r.arena))
  | .enter s g h op _ _ =>
      match σ.get h with
      | none => .error .stuck
      | some r =>
        if !r.kind.scopes then .error .stuck
        else if σ.epochs r.arena == [] then .error .deadArena
        else match op with
          | .enterScoped =>
              .ok { ((σ.push r.arena).2.set g ⟨.guard, r.arena, some σ.next, false, []⟩).set s (Rt.hdl .scope r.arena)
                    with frames := g :: σ.frames }
          | .enterAligned =>
              .ok { (σ.set g (Rt.hdl .scope r.arena)).set s (Rt.hdl .scope r.arena) with frames := g :: σ.frames }
          | _ => .error .stuck
  | .exit _ =>
      match σ.frames with
      | [] => .error .stuck
      | g :: rest =>
        match σ.get g with
        | none => .error .stuck
        | some rg =>
          match σ.dropRt rg with
          | .error f => .error f
          | .ok σ1 => .ok { σ1 with frames := rest }
  | .use x =>
      match σ.get x with
      | none => .error .stuck
      | some r => if r.kind == .val && !σ.alive r then .error .uaf else .ok σ
  | .drop x =>
      match σ.get x with
      | none => .error .stuck
      | some r => σ.dropRt r
  | .slot o => .ok (σ.set o (Rt.val 0 none))
  | .store o x =>
      match σ.get o, σ.get x with
      | some ro, some rx =>
          -- the old content is dropped (its destructor touches the memory), then overwritten
          if !σ.alive ro then .error .uaf else .ok (σ.set o rx)
      | _, _ => .error .stuck
  | .send x =>
      match σ.get x with
      | none => .error .stuck
      | some r => if !threadSafe fl r false then .error .crossThread else σ.dropRt r
  | .share x =>
      match σ.get x with
      | none => .error .stuck
      | some r =>
        if !threadSafe fl r true then .error .crossThread
        else if r.kind == .val && !σ.alive r then .error .uaf else .ok σ
  | .vconv x v _ _ =>
      -- the output points to the same memory as the input (reading it, for the chunk iterators)
      match σ.get v with
      | none => .error .stuck
      | some r => if r.kind != .val then .error .stuck else if !σ.alive r then .error .uaf else .ok (σ.set x r)
  | .join x f _ _ =>
      -- (without growth) the collection's buffer is the memory of `f`
      match σ.get x, σ.get f with
      | some rx, some rf => if !σ.alive rx then .error .uaf else .ok (σ.set x rf)
      | _, _ => .error .stuck

def run (fl : Flags) : DState → List Stmt → Except (Nat × Fault) DState
  | σ, [] => .ok σ
  | σ, st :: rest =>
    match runStmt fl σ st with
    | .error f => .error (rest.length, f)
    | .ok σ' => run fl σ' rest

/-- verdict of the type checker on a whole program: `none` = accepted, else (statements left, reason) -/
def verdict (t : Table) (fl : Flags) (p : List Stmt) : Option (Nat × Rej) :=
  match check t fl SEnv.empty p with
  | .ok _ => none
  | .error e => some e

/-- outcome of running a whole program: `none` = ran to completion, else (statements left, fault) -/
def faultOf (fl : Flags) (p : List Stmt) : Option (Nat × Fault) :=
  match run fl DState.empty p with
  | .ok _ => none
  | .error e => some e

end Life
