/-
  Life/Settings.lean — the compile-time assertions of the settings conversions (`with_settings`,
  `borrow_with_settings`, `borrow_mut_with_settings` of `Bump` and `BumpScope`) as data, their executable
  meaning (`convOK`: does the conversion `S → NewS` compile?) and what the property requires of them.
  Import-free apart from the table types.
-/
import BumpProof.Life.Sig

namespace Life

structure Settings where
  up : Bool
  minAlign : Nat
  guaranteedAllocated : Bool
  claimable : Bool
  deriving DecidableEq, Repr, Inhabited

def Settings.get (s : Settings) : Setting → Nat
  | .up => s.up.toNat
  | .minAlign => s.minAlign
  | .guaranteedAllocated => s.guaranteedAllocated.toNat
  | .claimable => s.claimable.toNat

/-- `new rel old` -/
def Rel.holds : Rel → Nat → Nat → Bool
  | .eq, n, o => n == o
  | .ge, n, o => n ≥ o
  | .le, n, o => n ≤ o
  | .lt, n, o => n < o
  | .gt, n, o => n > o
  | .ne, n, o => n != o

def Table.convBlock (t : Table) (owner name : String) : Option SettingsAssert :=
  match t.conversions.find? (fun c => c.owner == owner && c.name == name) with
  | none => none
  | some c => t.settingsAsserts.find? (fun b => b.block == c.block)

/-- does `owner::name::<NewS>()` compile for a receiver with settings `old`?  (`none`: no such conversion) -/
def convOK (t : Table) (owner name : String) (old new : Settings) : Option Bool :=
  (t.convBlock owner name).map fun b => b.rels.all fun (f, r) => r.holds (new.get f) (old.get f)

/-- kind of conversion, by what it does to the receiver -/
inductive ConvKind | bumpByValue | scopeByValue | shared | exclusive
  deriving DecidableEq, Repr, Inhabited

def convKind (owner name : String) : Option ConvKind :=
  if name == "borrow_with_settings" then some .shared
  else if name == "borrow_mut_with_settings" then some .exclusive
  else if name == "with_settings" then (if owner == "Bump" then some .bumpByValue else some .scopeByValue)
  else none

/-- what the property demands of a conversion `old → new` (C04, last sentence; DESIGN.md §7):
    the direction never changes; the minimum alignment is not lowered on any borrow nor on a scope taken by
    value (the parent resumes with its own alignment afterwards); guaranteed-allocated is not upgraded on a
    borrow (a shared or exclusive view cannot allocate the first chunk on behalf of its owner);
    claimable does not change on a borrow (the owner's view must agree on whether the allocator can be claimed). -/
def required (k : ConvKind) (old new : Settings) : Bool :=
  new.up == old.up &&
  match k with
  | .bumpByValue => true
  | .scopeByValue => new.minAlign ≥ old.minAlign
  | .shared | .exclusive =>
      new.minAlign ≥ old.minAlign && (!new.guaranteedAllocated || old.guaranteedAllocated) && new.claimable == old.claimable

/-- a relation asserted for one setting implies … -/
def Rel.impliesGe : Rel → Bool
  | .eq | .ge | .gt => true
  | _ => false
def Rel.impliesLe : Rel → Bool
  | .eq | .le | .lt => true
  | _ => false
def Rel.impliesEq : Rel → Bool
  | .eq => true
  | _ => false

def SettingsAssert.has (b : SettingsAssert) (f : Setting) (p : Rel → Bool) : Bool :=
  b.rels.any fun (g, r) => g == f && p r

/-- decidable, syntactic: the asserted relations of the block entail `required` for every pair of settings -/
def blockEntails (k : ConvKind) (b : SettingsAssert) : Bool :=
  b.has .up Rel.impliesEq &&
  match k with
  | .bumpByValue => true
  | .scopeByValue => b.has .minAlign Rel.impliesGe
  | .shared | .exclusive =>
      b.has .minAlign Rel.impliesGe && b.has .guaranteedAllocated Rel.impliesLe && b.has .claimable Rel.impliesEq

def settingsOK (t : Table) : Bool :=
  t.conversions.length == 6 &&
  t.conversions.all fun c =>
    match convKind c.owner c.name, t.settingsAsserts.find? (fun b => b.block == c.block) with
    | some k, some b => blockEntails k b
    | _, _ => false

end Life
