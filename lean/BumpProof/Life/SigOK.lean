/-
  Life/SigOK.lean — the decidable adequacy predicate on a signature table: "what the signatures promise
  to the borrow checker is enough for what the methods do at run time".  `Props/C04.lean` proves that it
  implies soundness of the calculus and that the extracted table (minus recorded deviations) satisfies it.
-/
import BumpProof.Life.Calculus
import BumpProof.Life.Settings

namespace Life

/-- receivers of these owners have no allocation lifetime of their own that a method may hand out:
    what they allocate is bounded by the borrow of the receiver only -/
def Owner.hasParam : Owner → Bool
  | .bump | .pool | .guard | .trAllocator => false
  | _ => true

/-- the lifetime is bounded by the receiver borrow, or by the allocation lifetime of a receiver that has one -/
def ltBounded (o : Owner) (l : Lt) : Bool := l == .recv || (l == .param && o.hasParam)

def Ret.isValue : Ret → Bool
  | .box | .ref | .stats => true
  | _ => false

/-- adequacy of one signature for the effect class of its method -/
def sigAdequate (s : Sig) : Bool :=
  match s.op with
  | .alloc =>
      -- the result points into the top epoch: its lifetime must be bounded
      s.ret.isValue && (match s.lts with | [l] => ltBounded s.ownerK l | _ => false) &&
      (s.recv != .value || (s.ownerK == .coll && s.lts == [.param])) &&
      (s.ownerK != .coll || s.recv == .value) &&
      (s.ownerK == .bump || s.ownerK == .scope || s.ownerK == .trScope || s.ownerK == .trTypedScope ||
       s.ownerK == .trMutTypedScope || s.ownerK == .coll || s.ownerK == .trAllocator)
  | .mkGuard => s.recv == .refMut && s.ret == .guard && s.lts == [.recv] &&
      (s.ownerK == .bump || s.ownerK == .scope || s.ownerK == .trAllocator)
  | .guardScope => s.ownerK == .guard && s.recv == .refMut && s.ret == .scopeMut && s.lts == [.recv, .recv]
  | .guardReset => s.ownerK == .guard && s.recv == .refMut && s.ret == .unit && s.lts == []
  | .resetAll => (s.ownerK == .bump || s.ownerK == .pool) && s.recv == .refMut && s.ret == .unit && s.lts == []
  | .viewScope =>
      s.ownerK != .pool && s.ownerK != .guard && s.ownerK != .coll && s.recv != .value &&
      (match s.ret, s.lts with
       | .scopeRef, [.recv, l1] => ltBounded s.ownerK l1
       | .scopeMut, [.recv, l1] => s.recv == .refMut && ltBounded s.ownerK l1
       | .scopeVal, [.recv] => s.recv == .refMut
       | _, _ => false)
  | .viewSame =>
      s.recv != .value &&
      (match s.ownerK, s.ret, s.lts with
       | .bump, .bumpRef, [.recv] => true
       | .bump, .bumpMut, [.recv] => s.recv == .refMut
       | .scope, .scopeRef, [.recv, l1] => ltBounded .scope l1
       | .scope, .scopeMut, [.recv, l1] => s.recv == .refMut && ltBounded .scope l1
       | _, _, _ => false)
  | .claim =>
      s.recv != .value && s.ret == .claimGuard &&
      (s.ownerK == .bump || s.ownerK == .scope || s.ownerK == .trScope) &&
      (match s.lts with | [.recv, l1] => ltBounded s.ownerK l1 | _ => false)
  | .poolGet => s.ownerK == .pool && s.recv != .value && s.ret == .poolGuard && s.lts == [.recv]
  | .convert =>
      s.recv == .value &&
      (match s.ownerK, s.ret, s.lts with
       | .bump, .bumpVal, [] => true
       | .scope, .scopeVal, [.param] => true
       | _, _, _ => false)
  | .enterScoped =>
      -- the closure parameter's lifetimes are both bound by the closure type (higher ranked): nothing allocated
      -- inside can be named outside
      s.recv == .refMut && s.ret == .closureResult && s.cl == [.closure, .closure] &&
      (s.ownerK == .bump || s.ownerK == .scope || s.ownerK == .trAllocator)
  | .enterAligned =>
      s.recv == .refMut && s.ret == .closureResult &&
      (s.cl == [.closure, .closure] || (s.cl == [.closure, .param] && s.ownerK.hasParam)) &&
      (s.ownerK == .bump || s.ownerK == .scope || s.ownerK == .trScope)

/-- implementors of `BumpAllocatorCoreScope<'a>` for which "allocations live for `'a`" is true:
    `BumpScope<'a>` (its own parameter), `&'a Bump` (nothing can reset it during `'a`), and the forwarding
    impls.  NOT `&'a mut Bump`: the holder can reborrow it mutably during `'a` and `reset()`. -/
def implAdequate (i : ScopeImpl) : Bool :=
  match i.ty, i.lt with
  | .scope, .own | .refBump, .refLt | .refB, .forward | .refMutB, .forward | .wrapper, .forward => true
  | _, _ => false

/-- the `Deref`/`DerefMut` impls of a guard type hand out its claimed / pooled scope with the guard's own
    allocation lifetime -/
def derefAdequate (t : Table) (o : Owner) : Bool :=
  t.sigs.any (fun s => s.ownerK == o && s.op == .viewScope && s.recv == .ref && s.ret == .scopeRef && s.lts == [.recv, .param]) &&
  t.sigs.any (fun s => s.ownerK == o && s.op == .viewScope && s.recv == .refMut && s.ret == .scopeMut && s.lts == [.recv, .param])

def allFlags : List Flags := [⟨true, true⟩, ⟨true, false⟩, ⟨false, true⟩, ⟨false, false⟩]

def probe (k : Kind) (a : Acc) : Entry := ⟨0, k, a, [], [], true, 0⟩

/-- what the auto-trait derivation may allow: a `Bump` / `BumpPool` moves to another thread only with `A: Send`,
    a pool guard moves and a pool is shared only with `A: Send + Sync`, nothing else that holds an arena is
    thread-safe at all -/
def threadsAdequate (t : Table) : Bool :=
  allFlags.all fun fl =>
    [Kind.bump, .scope, .guard, .claim, .pool, .poolGuard, .coll].all fun k =>
      ([Acc.own, .mutRef, .shrRef].all fun a =>
        !shareOK t fl (probe k a) || (k == .pool && fl.allocSend && fl.allocSync)) &&
      (!sendOK t fl (probe k .own) ||
        ((k == .bump || k == .pool) && fl.allocSend) || (k == .poolGuard && fl.allocSend && fl.allocSync))

/-- a conversion between lifetime-carrying types (`From`, accessors of `Stats`/`Chunk`/…, iterator items, `AsRef`/`Borrow`/
    `Deref`, `from_parts`) must not lose the bound: every lifetime of its output is one the input names.  (An elided `'_`
    on both sides of an impl header is two independent lifetimes: the output would be bounded by nothing.) -/
def convsAdequate (t : Table) : Bool := t.valueConvs.all ValueConv.tied

/-- a hand-written `Send` (`Sync`) impl must require `P: Send` (`P: Sync`) of every type parameter `P` of which the type stores
    a value (the allocator parameter `A` in particular: an owned `Bump<A>`, a `&mut Bump<A>`, …).  A sibling of `sigOK`
    (checked by `C04.hand_impls_ok`); the calculus' thread rules only cover the handle types (`threadsAdequate`). -/
def handImplsAdequate (t : Table) : Bool :=
  t.handImpls.all fun i => i.stored.all fun p => i.bounds.contains (p, i.tr)

def sigOK (t : Table) : Bool :=
  t.sigs.all sigAdequate &&
  t.scopeImpls.all implAdequate &&
  derefAdequate t .claim && derefAdequate t .poolGuard &&
  settingsOK t &&
  threadsAdequate t &&
  convsAdequate t

end Life
