/-
  Arena/Hist.lean — histories of the arena model: runs of `Arena.step`, what a correct base
  allocator guarantees about the responses it supplies (`EnvOK`), and the combined inductive
  invariant `Inv` over `GState` (definitions only; theorems are in `Lemmas/Hist*.lean` and
  `Props/Hist.lean`).
-/
import BumpProof.Arena.Inv
import BumpProof.Arena.Step
import BumpProof.Lemmas.MemLive

namespace Arena.Hist
open Rs

/-! ## Runs -/

/-- the state every history starts from -/
def initG (cfg : Cfg) : GState := ⟨initState cfg, []⟩

/-- run a finite history (each operation comes with the base-allocator responses available to it);
    any fault of any step is a fault of the run -/
def runOps (cfg : Cfg) : GState → List (Op × List BaseResp) → R GState
  | g, [] => pure g
  | g, (op, resps) :: rest => do
    let (g', _, _) ← step cfg g op resps
    runOps cfg g' rest

/-- one entry of the base-allocator log of a run: the requests a step made (in call order) and the
    responses that were supplied to it -/
abbrev LogEntry := List BaseReq × List BaseResp

/-- like `runOps`, also returning the base-allocator traffic of every step -/
def runLog (cfg : Cfg) : GState → List (Op × List BaseResp) → R (GState × List LogEntry)
  | g, [] => pure (g, [])
  | g, (op, resps) :: rest => do
    let (g', _, reqs) ← step cfg g op resps
    let (g'', log) ← runLog cfg g' rest
    pure (g'', (reqs, resps) :: log)

/-! ## The environment (base allocator) -/

/-- the state on which `stepCore` runs: the responses of this step installed, no requests yet -/
def install (g : GState) (resps : List BaseResp) : GState :=
  { g with s := { g.s with resps := resps, reqs := [] } }

/-- what a correct base allocator guarantees for the blocks it hands out during one step, whatever
    was asked: each granted block is aligned for the chunk header, not null, lies in the lower half of
    the address space (`RespGeomOK`), and overlaps neither a chunk the arena currently owns nor another
    block granted in the same step (`RespsFresh`).
    That a granted block is at least as large as REQUESTED is not part of `EnvOK`: the request size is
    computed by the model during the step, and the model faults (`Fault.rs`, the debug assertion in
    `NonDummyChunk::new`) on a block that is too small, so preservation of the invariant does not need it;
    it is the extra hypothesis `Answered` (built from `BaseOK` / `HeadOK` of Arena/Inv.lean) of the
    no-fault theorem (Lemmas/HistNoFault.lean). -/
def EnvOK (cfg : Cfg) (g : GState) (resps : List BaseResp) : Prop :=
  RespsOK cfg (install g resps).s ∧ RespsFresh (install g resps).s

/-! ## Checkpoints, frames, prepared allocations -/

/-- a checkpoint names a chunk of the arena and an address inside its content range, or it was
    taken while the arena was unallocated -/
def CpGeom (cfg : Cfg) (s : State) (cp : Checkpoint) : Prop :=
  match cp.cur with
  | .chunk i => ∃ c : Chunk, s.chunks[i]? = some c ∧ c.contentStart cfg ≤ cp.addr ∧ cp.addr ≤ c.contentEnd cfg
  | .unallocated => True
  | .claimed => False

/-- a checkpoint `cp` taken when `m` was the next block id: it is geometrically sound, `m` is not in
    the future, and every non-empty live block older than the checkpoint lies before it -/
structure CpOK (cfg : Cfg) (s : State) (cp : Checkpoint) (m : Nat) : Prop where
  geom : CpGeom cfg s cp
  mark : m ≤ s.nextId
  older : ∀ b ∈ s.live, b.id < m → 0 < b.size → Mem.PlacedAt cfg s cp b.addr b.size

/-- the chunk a `BumpAlignGuard` recorded when it was created (`Frame.alignedLower _ start`): the arena was
    unallocated (or the claimed dummy) at that moment, or `start` names a chunk that still exists (chunks are
    only appended while a region is open: `reset`, `drop` and `with_settings` need exclusive access) -/
def StartOK (s : State) : Cur → Prop
  | .chunk j => ∃ c : Chunk, s.chunks[j]? = some c
  | _ => True

/-- well-formedness of the open regions (innermost first) against the marks of the scope-like ones and
    the minimum alignment in force inside the innermost region -/
def FramesOK (cfg : Cfg) (s : State) : Nat → List Frame → List Nat → Prop
  | _, [], [] => True
  | ma, .scope cp :: fs, m :: ms => CpOK cfg s cp m ∧ FramesOK cfg s ma fs ms
  | _, .scopedAligned cp outer :: fs, m :: ms => MinAlignOK outer ∧ CpOK cfg s cp m ∧ FramesOK cfg s outer fs ms
  | _, .alignedLower outer start :: fs, ms => MinAlignOK outer ∧ StartOK s start ∧ FramesOK cfg s outer fs ms
  | ma, .alignedRaise outer :: fs, ms => MinAlignOK outer ∧ outer ≤ ma ∧ FramesOK cfg s outer fs ms
  | ma, .claim :: fs, ms => FramesOK cfg s ma fs ms
  | _, _, _ => False

/-- an outstanding prepared allocation: its range lies in the free part of the current chunk, both
    ends are aligned for the element type; the typed variant consists of whole element slots -/
structure PrepOK (cfg : Cfg) (s : State) (p : Prepared) : Prop where
  range : ∃ (i : Nat) (c : Chunk), s.cur = .chunk i ∧ s.chunks[i]? = some c ∧ p.rstart ≤ p.rend ∧
    (if cfg.up then c.pos ≤ p.rstart ∧ p.rend ≤ c.contentEnd cfg
     else c.contentStart cfg ≤ p.rstart ∧ p.rend ≤ c.pos)
  p2 : ∃ k, k < 64 ∧ p.ealign = 2 ^ k
  start_al : p.ealign ∣ p.rstart
  end_al : p.ealign ∣ p.rend
  typed : p.typed = true → 0 < p.esize ∧ p.ealign ∣ p.esize ∧ p.esize ∣ p.rend - p.rstart

/-! ## The combined invariant -/

/-- the inductive invariant of histories -/
structure Inv (cfg : Cfg) (g : GState) : Prop where
  cfgOK : CfgOK cfg
  /-- C10: geometry and position -/
  geom : GeomInv cfg g.s
  /-- granted blocks of different chunks do not overlap -/
  disj : ChunksDisjoint g.s
  /-- C01: live blocks are aligned, inside owned content memory, pairwise disjoint -/
  live : Mem.LiveOK cfg g.s
  unalloc : UnallocEmpty g.s
  /-- the active handle is never the claimed dummy -/
  notClaimed : g.s.cur ≠ .claimed
  /-- an unallocated arena has handed out nothing -/
  liveCur : g.s.cur = .unallocated → g.s.live = []
  ids : ∀ b ∈ g.s.live, b.id < g.s.nextId
  /-- block alignments are alignments of Rust layouts -/
  aligns : ∀ b ∈ g.s.live, ∃ k, k < 64 ∧ b.align = 2 ^ k
  frames : FramesOK cfg g.s g.s.minAlign g.s.frames g.marks
  marks : ∀ m ∈ g.marks, m ≤ g.s.nextId
  cps : ∀ x ∈ g.s.userCps, CpOK cfg g.s x.2.1 x.2.2
  prep : ∀ p, g.s.prepared = some p → PrepOK cfg g.s p

/-! ## Which operations the preservation theorem covers -/

/-- The operations for which preservation of `Inv` is proved: every constructor, with three side conditions
    that say that numeric arguments come from Rust values: `newWithSize n` takes a `usize`; the element
    alignment of `prepareSlice` is a power of two (alignment of a Rust type); the `Result` layout of
    `allocTryWith` has a size that is a multiple of its alignment (size of a Rust type — the model calls
    the fast path with `Hints.sized`, which asserts exactly this). -/
def _root_.Arena.Op.covered : Op → Bool
  | .newWithSize n => decide (n < 2 ^ 64)
  | .newWithCapacity _ => true
  | .newUnallocated => true
  | .drop => true
  | .allocate _ _ _ => true
  | .deallocate _ _ => true
  | .grow _ _ _ _ => true
  | .shrink _ _ _ => true
  | .allocLayout _ _ => true
  | .shrinkSlice _ _ => true
  | .prepare _ => true
  | .commit _ _ => true
  | .prepareSlice _ ealign _ _ => Rs.is_power_of_two ealign
  | .fillPrepared _ _ => true
  | .commitSlice _ => true
  | .abandonPrepared => true
  | .reserve _ _ => true
  | .scopeEnter => true
  | .scopeExit => true
  | .checkpoint _ => true
  | .resetTo _ => true
  | .reset => true
  | .resetToStart => true
  | .claim => true
  | .claimEnd => true
  | .onClaimed _ => true
  | .alignedEnter _ => true
  | .alignedExit => true
  | .scopedAlignedEnter _ => true
  | .scopedAlignedExit => true
  | .withSettings _ _ _ => true
  | .allocTryWith L _ _ _ _ _ => L.size % L.align == 0
  | .write _ _ => true
  | .split _ _ => true

def _root_.Arena.Op.Covered (op : Op) : Prop := op.covered = true

instance (op : Op) : Decidable op.Covered := by unfold Op.Covered; infer_instance

/-! ## Environment and coverage along a run -/

/-- every operation of the history is covered -/
def AllCovered (ops : List (Op × List BaseResp)) : Prop := ∀ x ∈ ops, x.1.Covered

/-- the base allocator behaves correctly at every step of the run (the states are those of the run) -/
def RunEnvOK (cfg : Cfg) : GState → List (Op × List BaseResp) → Prop
  | _, [] => True
  | g, (op, resps) :: rest =>
    EnvOK cfg g resps ∧ ∀ g' out reqs, step cfg g op resps = .ok (g', out, reqs) → RunEnvOK cfg g' rest

/-! ## The base-allocator ledger of a run (C05) -/

/-- a block the base allocator granted: pointer, granted size, the size and alignment that were requested -/
structure Grant where
  ptr : Nat
  granted : Nat
  reqSize : Nat
  align : Nat
  deriving Repr, DecidableEq

/-- the `.alloc` requests of one step paired with the responses in call order: the grants of the step -/
def grantsOf : List BaseReq → List BaseResp → List Grant
  | [], _ => []
  | .alloc sz al :: rs, .granted p g :: resps => ⟨p, g, sz, al⟩ :: grantsOf rs resps
  | .alloc _ _ :: rs, .fail :: resps => grantsOf rs resps
  | .alloc _ _ :: rs, [] => grantsOf rs []
  | .dealloc _ _ _ :: rs, resps => grantsOf rs resps

def isDealloc : BaseReq → Bool
  | .dealloc _ _ _ => true
  | .alloc _ _ => false

/-- the `.dealloc` requests of one step -/
def releasesOf (reqs : List BaseReq) : List BaseReq := reqs.filter isDealloc

/-- all grants / all releases of a log, in order -/
def logGrants (log : List LogEntry) : List Grant := log.flatMap (fun e => grantsOf e.1 e.2)
def logReleases (log : List LogEntry) : List BaseReq := log.flatMap (fun e => releasesOf e.1)

/-- what the arena must still give back: one release per chunk it owns -/
def owned (cfg : Cfg) (s : State) : List BaseReq := s.chunks.map (deallocReq cfg)

/-- chunk `c` was built in the block of grant `gr`: same pointer, header alignment requested, and the
    size in use (which is the size that will be released) lies between the requested and the granted size -/
def ChunkOfGrant (cfg : Cfg) (c : Chunk) (gr : Grant) : Prop :=
  c.base = gr.ptr ∧ gr.align = cfg.hdr.align ∧ gr.reqSize ≤ c.size ∧ c.size ≤ gr.granted

/-- the two lists correspond element by element -/
inductive Matched {α β : Type} (R : α → β → Prop) : List α → List β → Prop
  | nil : Matched R [] []
  | cons {a b as bs} : R a b → Matched R as bs → Matched R (a :: as) (b :: bs)

/-- the ledger is balanced: the chunks ever created (`acq`) correspond one to one, in order, to the grants,
    and the releases made so far together with the releases still due are exactly one release per chunk
    ever created -/
def Balanced (cfg : Cfg) (grants : List Grant) (releases : List BaseReq) (s : State) : Prop :=
  ∃ acq : List Chunk, Matched (ChunkOfGrant cfg) acq grants ∧
    (releases ++ owned cfg s).Perm (acq.map (deallocReq cfg))

end Arena.Hist
