/-
  Arena/Model.lean — hand-written executable model of the arena core of bump-scope:
  `src/raw_bump.rs`, `src/allocator_impl.rs`, `src/without_dealloc.rs`,
  `src/traits/bump_allocator_core.rs` (prepare/allocate_prepared),
  `src/traits/bump_allocator_typed.rs` (typed prepare/commit, shrink_slice),
  `src/bump_scope_guard.rs`, `src/bump_claim_guard.rs`, `src/bump_align_guard.rs`,
  `src/traits/bump_allocator(_scope).rs` (scoped, scoped_aligned, aligned),
  `src/bump_scope.rs` (alloc_try_with(_mut)), `src/stats.rs`, `src/stats/any.rs`.

  Modelling rules (DESIGN.md §4.1): control flow follows the Rust functions one to
  one; every address computation is a call to a GENERATED function (`Gen.*`); the base
  allocator is a list of responses consumed in call order; memory is bytes per chunk.
  The model is tied to the code by the correspondence check (`harness/arena` ↔ driver).

  No imports outside Lean core (the driver links natively).
-/
import BumpProof.Rs
import BumpProof.Gen.Bumping
import BumpProof.Gen.SizeConfig
import BumpProof.Gen.LibArith

namespace Arena
open Rs

/-! ## Configuration, faults, state -/

/-- compile-time settings of a `Bump<A, S>` plus the header layout `Layout::new::<ChunkHeader<A>>()` -/
structure Cfg where
  up : Bool
  minAlign0 : Nat          -- `S::MIN_ALIGN` of the outermost handle
  ga : Bool                -- GUARANTEED_ALLOCATED
  claimable : Bool
  deallocates : Bool
  shrinks : Bool
  minChunk : Nat           -- MINIMUM_CHUNK_SIZE
  hdr : Layout
  deriving Repr, Inhabited

/-- things that must never happen (each is a bug of the code or a contract violation of the caller) -/
inductive Fault where
  | rs (e : Rs.Err)                 -- overflow / failed debug assertion inside translated code
  | ub (what : String)              -- undefined behaviour: bad copy, out-of-bounds write, `unreachable_unchecked`
  | contract (what : String)        -- the caller broke the documented safety contract
  | noResp                          -- the trace supplied no base-allocator response
  deriving Repr, Inhabited

abbrev R := Except Fault

def liftM {α} (x : Rs.M α) : R α :=
  match x with
  | .ok v => .ok v
  | .error e => .error (.rs e)

/-- why a memory request was refused (all three are `AllocError` for `try_` methods) -/
inductive AErr where
  | claimed | capacityOverflow | alloc
  deriving Repr, DecidableEq, Inhabited

structure Chunk where
  base : Nat               -- start of the granted block (`chunk_start`)
  size : Nat               -- aligned size in use (`chunk_end - chunk_start`)
  pos : Nat                -- bump position
  granted : Nat            -- ghost: size the base allocator granted
  reqSize : Nat            -- ghost: size that was requested
  data : Array UInt8       -- the bytes of `[base, base+size)`
  deriving Inhabited

/-- `RawBump.chunk` -/
inductive Cur where
  | unallocated | claimed | chunk (i : Nat)
  deriving Repr, DecidableEq, Inhabited

structure Checkpoint where
  cur : Cur
  addr : Nat
  deriving Repr, DecidableEq, Inhabited

/-- open regions, innermost first; each corresponds to a guard / closure of the API -/
inductive Frame where
  | scope (cp : Checkpoint)                          -- BumpScopeGuard / scoped
  | alignedLower (outer : Nat) (start : Cur)         -- aligned::<N> with N < MIN_ALIGN (BumpAlignGuard); `start`: the chunk current at creation
  | alignedRaise (outer : Nat)                       -- aligned::<N> with N ≥ MIN_ALIGN
  | scopedAligned (cp : Checkpoint) (outer : Nat)    -- scoped_aligned::<N>
  | claim                                            -- BumpClaimGuard
  deriving Repr, Inhabited

/-- ghost: a block handed out and still live -/
structure Block where
  id : Nat
  addr : Nat
  size : Nat
  align : Nat
  depth : Nat              -- number of scope-like frames open when it was (re)allocated
  init : Nat               -- length of the prefix whose bytes are defined (written or zeroed)
  deriving Repr, Inhabited

inductive BaseResp where
  | granted (ptr size : Nat) | fail
  deriving Repr, Inhabited

inductive BaseReq where
  | alloc (size align : Nat) | dealloc (ptr size align : Nat)
  deriving Repr, DecidableEq, Inhabited

/-- a prepared (not yet committed) allocation -/
structure Prepared where
  rstart : Nat
  rend : Nat
  esize : Nat              -- element size (1 for the untyped interface)
  ealign : Nat
  typed : Bool
  rev : Bool
  deriving Repr, Inhabited

structure State where
  chunks : List Chunk
  cur : Cur
  minAlign : Nat
  frames : List Frame
  live : List Block
  nextId : Nat
  userCps : List (Nat × Checkpoint × Nat)      -- key, checkpoint, frame depth when taken
  prepared : Option Prepared
  resps : List BaseResp                          -- per-step input
  reqs : List BaseReq                            -- per-step output (in call order)
  dropped : Bool
  deriving Inhabited

/-- the optimisation hints a layout carries (`LayoutProps`) -/
structure Hints where
  aic : Bool
  sic : Bool
  sma : Bool
  deriving Repr, Inhabited

def Hints.custom : Hints := ⟨false, false, false⟩      -- CustomLayout
def Hints.sized : Hints := ⟨true, true, true⟩           -- SizedLayout
def Hints.array : Hints := ⟨true, false, true⟩          -- ArrayLayout

/-! ## Chunk geometry (`NonDummyChunk::{content_start, content_end, reset, ...}`) -/

def Chunk.contentStart (cfg : Cfg) (c : Chunk) : Nat := if cfg.up then c.base + cfg.hdr.size else c.base
def Chunk.contentEnd (cfg : Cfg) (c : Chunk) : Nat := if cfg.up then c.base + c.size else c.base + c.size - cfg.hdr.size
def Chunk.capacity (cfg : Cfg) (c : Chunk) : Nat := c.contentEnd cfg - c.contentStart cfg
def Chunk.allocated (cfg : Cfg) (c : Chunk) : Nat := if cfg.up then c.pos - c.contentStart cfg else c.contentEnd cfg - c.pos
def Chunk.remaining (cfg : Cfg) (c : Chunk) : Nat := if cfg.up then c.contentEnd cfg - c.pos else c.pos - c.contentStart cfg
def Chunk.resetPos (cfg : Cfg) (c : Chunk) : Chunk := { c with pos := if cfg.up then c.contentStart cfg else c.contentEnd cfg }

/-- address used for the static dummy chunk headers (any 16-aligned address that no block has) -/
def dummyAddr : Nat := 0x4000000000000050

/-- `(start, end)` of the free range as `RawChunk::bump_props` computes it -/
def freeRange (cfg : Cfg) (s : State) : Nat × Nat :=
  match s.cur with
  | .chunk i =>
    match s.chunks[i]? with
    | some c => if cfg.up then (c.pos, c.contentEnd cfg) else (c.contentStart cfg, c.pos)
    | none => (dummyAddr + 16, dummyAddr)
  | _ => (dummyAddr + 16, dummyAddr)

/-- `RawChunk::pos()` of the current chunk (dummy chunks have a position too) -/
def curPos (cfg : Cfg) (s : State) : Nat :=
  match s.cur with
  | .chunk i => match s.chunks[i]? with
    | some c => c.pos
    | none => 0
  | _ => if cfg.up then dummyAddr + 16 else dummyAddr

def bumpProps (cfg : Cfg) (s : State) (L : Layout) (h : Hints) : Gen.Bumping.BumpProps :=
  let r := freeRange cfg s
  { start := r.1, «end» := r.2, min_align := s.minAlign, layout := L,
    align_is_const := h.aic, size_is_const := h.sic, size_is_multiple_of_align := h.sma }

def setPos (s : State) (i : Nat) (p : Nat) : State :=
  { s with chunks := s.chunks.modify i (fun c => { c with pos := p }) }

def setCurPos (s : State) (p : Nat) : State :=
  match s.cur with
  | .chunk i => setPos s i p
  | _ => s

def sizeCfg (cfg : Cfg) : Gen.SizeConfig.ChunkSizeConfig :=
  { up := cfg.up, assumed_malloc_overhead_layout := { size := 16, align := 8 }, chunk_header_layout := cfg.hdr }

/-! ## Memory -/

/-- index of the chunk whose block `[base, base+size)` contains `[lo, hi)` -/
def findChunk (chunks : List Chunk) (lo hi : Nat) : Option Nat :=
  chunks.findIdx? (fun c => c.base ≤ lo ∧ hi ≤ c.base + c.size)

def readByte (s : State) (a : Nat) : UInt8 :=
  match s.chunks.find? (fun c => c.base ≤ a ∧ a < c.base + c.size) with
  | some c => c.data.getD (a - c.base) 0
  | none => 0

/-- overwrite `[lo, hi)` (which must lie inside the content range of one chunk) with `f` -/
def writeRange (cfg : Cfg) (s : State) (lo hi : Nat) (f : Nat → UInt8) : R State :=
  if hi ≤ lo then pure s else
  match findChunk s.chunks lo hi with
  | none => throw (.ub s!"write of [{lo},{hi}) outside every chunk")
  | some i =>
    match s.chunks[i]? with
    | none => throw (.ub "unreachable: chunk index")
    | some c =>
      if c.contentStart cfg ≤ lo ∧ hi ≤ c.contentEnd cfg then
        let data := Array.ofFn (n := c.data.size) fun (k : Fin c.data.size) =>
          if lo ≤ c.base + k.val ∧ c.base + k.val < hi then f (c.base + k.val) else c.data.getD k.val 0
        pure { s with chunks := s.chunks.modify i (fun c => { c with data := data }) }
      else throw (.ub s!"write of [{lo},{hi}) touches a chunk header")

/-- `ptr::copy` (memmove) / `ptr::copy_nonoverlapping` -/
def copyBytes (cfg : Cfg) (s : State) (src dst len : Nat) (nonoverlapping : Bool) : R State :=
  if len = 0 then pure s else
  if nonoverlapping ∧ src < dst + len ∧ dst < src + len then
    throw (.ub s!"copy_nonoverlapping of {len} bytes from {src} to {dst} overlaps")
  else
    match findChunk s.chunks src (src + len) with
    | none => throw (.ub s!"copy reads [{src},{src+len}) outside every chunk")
    | some _ => writeRange cfg s dst (dst + len) (fun a => readByte s (src + (a - dst)))

/-! ## `RawChunk::alloc / prepare_allocation / prepare_allocation_range` on the current chunk -/

inductive Kind where
  | alloc | prepare | range
  deriving Repr, DecidableEq, Inhabited

/-- result `(a, b)`: `alloc`/`prepare`: `a` = pointer; `range`: `(start, end)` -/
def tryCur (cfg : Cfg) (k : Kind) (s : State) (L : Layout) (h : Hints) : R (Option ((Nat × Nat) × State)) := do
  let props := bumpProps cfg s L h
  match k with
  | .alloc =>
    if cfg.up then
      match ← liftM (Gen.Bumping.bump_up props) with
      | none => pure none
      | some r => pure (some ((r.ptr, 0), setCurPos s r.new_pos))
    else
      match ← liftM (Gen.Bumping.bump_down props) with
      | none => pure none
      | some p => pure (some ((p, 0), setCurPos s p))
  | .prepare =>
    if cfg.up then
      match ← liftM (Gen.Bumping.bump_up props) with
      | none => pure none
      | some r => pure (some ((r.ptr, 0), s))
    else
      match ← liftM (Gen.Bumping.bump_down props) with
      | none => pure none
      | some p => pure (some ((p, 0), s))
  | .range =>
    let r ← liftM (if cfg.up then Gen.Bumping.bump_prepare_up props else Gen.Bumping.bump_prepare_down props)
    match r with
    | none => pure none
    | some x => pure (some (x, s))

/-! ## Chunk creation (`NonDummyChunk::new`, `append_for`, `ChunkSize*`) -/

def layoutOk (size align : Nat) : Bool := decide (size + (align - 1) ≤ Rs.IMAX)

/-- `ChunkSizeHint::calc_size` -/
def calcSize (cfg : Cfg) (hint : Nat) : R (Option Nat) := do
  let hint' := if hint > cfg.minChunk then hint else cfg.minChunk
  liftM (Gen.SizeConfig.calc_size_from_hint (sizeCfg cfg) hint')

/-- `NonDummyChunk::new`: asks the base allocator; the new chunk is appended at the end of the
    list (it becomes the `next` of the last chunk).  Returns the index of the new chunk.
    The state is returned in every case: the base-allocator traffic happened even on failure. -/
def newChunk (cfg : Cfg) (s : State) (size : Nat) : R (State × Except AErr Nat) := do
  if !layoutOk size cfg.hdr.align then return (s, .error .capacityOverflow)
  let s := { s with reqs := s.reqs ++ [BaseReq.alloc size cfg.hdr.align] }
  match s.resps with
  | [] => throw Fault.noResp
  | .fail :: rest => return ({ s with resps := rest }, .error .alloc)
  | .granted p g :: rest =>
    let s := { s with resps := rest }
    let size' ← liftM (Gen.SizeConfig.align_size (sizeCfg cfg) g)
    liftM (Rs.assert (decide (size' ≥ size)))
    liftM (Rs.assert (decide (size' % 16 = 0)))
    let pos := if cfg.up then p + cfg.hdr.size else p + size' - cfg.hdr.size
    let c : Chunk := { base := p, size := size', pos := pos, granted := g, reqSize := size,
                       data := Array.replicate size' 0xAA }
    return ({ s with chunks := s.chunks ++ [c] }, .ok s.chunks.length)

/-- `ChunkSize::from_capacity(layout)` then `NonDummyChunk::new` (first chunk of an unallocated arena,
    `Bump::with_capacity`) -/
def newChunkForCapacity (cfg : Cfg) (s : State) (L : Layout) : R (State × Except AErr Nat) := do
  match ← liftM (Gen.SizeConfig.calc_hint_from_capacity (sizeCfg cfg) L) with
  | none => return (s, .error .capacityOverflow)
  | some hint =>
    match ← calcSize cfg hint with
    | none => return (s, .error .capacityOverflow)
    | some size => newChunk cfg s size

/-- `NonDummyChunk::append_for` called on the LAST chunk of the list -/
def appendFor (cfg : Cfg) (s : State) (L : Layout) : R (State × Except AErr Nat) := do
  match s.chunks.getLast? with
  | none => throw (.ub "append_for without a chunk")
  | some last =>
    match ← liftM (Gen.SizeConfig.calc_hint_from_capacity (sizeCfg cfg) L) with
    | none => return (s, .error .capacityOverflow)
    | some required =>
      match Rs.checked_mul last.size 2 with
      | none => return (s, .error .capacityOverflow)
      | some grown =>
        let hint := if required > grown then required else grown
        match ← calcSize cfg hint with
        | none => return (s, .error .capacityOverflow)
        | some size => newChunk cfg s size

/-! ## The allocation slow path (`RawBump::in_another_chunk`) -/

/-- walk the successors of chunk `i`: each becomes current, is reset, and is tried (`fuel` = number
    of successors) -/
def walkNext (cfg : Cfg) (k : Kind) (L : Layout) (h : Hints) : Nat → Nat → State → R (Option ((Nat × Nat) × State) × State)
  | 0, _, s => pure (none, s)
  | fuel+1, i, s =>
    match s.chunks[i+1]? with
    | none => pure (none, s)
    | some c => do
      let s := { s with chunks := s.chunks.set (i+1) (c.resetPos cfg), cur := .chunk (i+1) }
      match ← tryCur cfg k s L h with
      | some r => pure (some r, r.2)
      | none => walkNext cfg k L h fuel (i+1) s

def inAnotherChunk (cfg : Cfg) (k : Kind) (s : State) (L : Layout) (h : Hints) : R (State × Except AErr (Nat × Nat)) := do
  let fresh (s : State) (r : State × Except AErr Nat) : R (State × Except AErr (Nat × Nat)) :=
    match r with
    | (s', .error e) => pure (s', .error e)
    | (s', .ok i) => do
      let s' := { s' with cur := .chunk i }
      match ← tryCur cfg k s' L h with
      | some (v, s'') => pure (s'', .ok v)
      | none => throw (.ub "unreachable_unchecked: the layout does not fit the chunk that was created for it")
  match s.cur with
  | .claimed => pure (s, .error .claimed)
  | .unallocated => fresh s (← newChunkForCapacity cfg s L)
  | .chunk i =>
    match ← walkNext cfg k L h (s.chunks.length - (i+1)) i s with
    | (some (v, s'), _) => pure (s', .ok v)
    | (none, s') =>
      match ← appendFor cfg s' L with
      -- the request failed: the allocator stays in the chunk it started in (fix c107ca6); the
      -- successors that were walked keep their reset positions
      | (s'', .error e) => pure ({ s'' with cur := .chunk i }, .error e)
      | r => fresh s' r

/-- `RawBump::{alloc, alloc_sized, alloc_slice, prepare_*}`: fast path, then the slow path.
    NB: the slow path of the typed fast paths uses a plain `Layout` (`CustomLayout` hints). -/
def allocGeneric (cfg : Cfg) (k : Kind) (s : State) (L : Layout) (h : Hints) (hSlow : Hints) : R (State × Except AErr (Nat × Nat)) := do
  match ← tryCur cfg k s L h with
  | some (v, s') => pure (s', .ok v)
  | none => inAnotherChunk cfg k s L hSlow

def alloc (cfg : Cfg) (s : State) (L : Layout) : R (State × Except AErr Nat) := do
  let (s', r) ← allocGeneric cfg .alloc s L Hints.custom Hints.custom
  pure (s', r.map (·.1))

/-! ## `allocator_impl.rs` -/

def isLast (cfg : Cfg) (s : State) (ptr size : Nat) : Bool :=
  if cfg.up then ptr + size == curPos cfg s else ptr == curPos cfg s

/-- `deallocate_assume_last` -/
def deallocAssumeLast (cfg : Cfg) (s : State) (ptr size : Nat) : R State := do
  if !cfg.deallocates then return s
  match s.cur with
  | .chunk _ =>
    let target := if cfg.up then ptr else ptr + size
    if target > Rs.MAX then throw (.rs .overflow)
    let p ← liftM (Gen.LibArith.align_pos cfg.up s.minAlign target)
    pure (setCurPos s p)
  | _ => throw (.ub "as_non_dummy_unchecked on a dummy chunk")

def deallocate (cfg : Cfg) (s : State) (ptr size : Nat) : R State := do
  if !cfg.deallocates then return s
  if isLast cfg s ptr size then deallocAssumeLast cfg s ptr size else pure s

def alignFits (ptr align : Nat) : Bool := ptr % align == 0

def curChunk? (s : State) : Option Chunk :=
  match s.cur with
  | .chunk i => s.chunks[i]?
  | _ => none

/-- `allocator_impl::grow`; returns the new address -/
def grow (cfg : Cfg) (s : State) (ptr oldSize : Nat) (newL : Layout) : R (State × Except AErr Nat) := do
  liftM (Rs.assert (decide (newL.size ≥ oldSize)))
  let moveTo (r : State × Except AErr Nat) : R (State × Except AErr Nat) :=
    match r with
    | (s', .error e) => pure (s', .error e)
    | (s', .ok np) => do
      let s'' ← copyBytes cfg s' ptr np oldSize true
      pure (s'', .ok np)
  if cfg.up then
    if isLast cfg s ptr oldSize && alignFits ptr newL.align then
      match curChunk? s with
      | none => throw (.ub "as_non_dummy_unchecked on a dummy chunk")
      | some c =>
        let remaining ← liftM (Rs.sub (c.contentEnd cfg) ptr)
        if newL.size ≤ remaining then
          let t ← liftM (Rs.add ptr newL.size)
          let np ← liftM (Gen.LibArith.up_align_usize_unchecked t s.minAlign)
          pure (setCurPos s np, .ok ptr)
        else
          let (s', r) ← inAnotherChunk cfg .alloc s newL Hints.custom
          moveTo (s', r.map (·.1))
    else
      moveTo (← alloc cfg s newL)
  else
    if isLast cfg s ptr oldSize then
      match curChunk? s with
      | none => throw (.ub "as_non_dummy_unchecked on a dummy chunk")
      | some c =>
        let additional ← liftM (Rs.sub newL.size oldSize)
        let newAddr ← liftM (Gen.LibArith.bump_down ptr additional (Rs.max newL.align s.minAlign))
        if newAddr ≥ c.contentStart cfg then
          let newEnd ← liftM (Rs.add newAddr newL.size)
          let s' ← copyBytes cfg s ptr newAddr oldSize (decide (newEnd < ptr))
          pure (setCurPos s' newAddr, .ok newAddr)
        else
          let (s', r) ← inAnotherChunk cfg .alloc s newL Hints.custom
          moveTo (s', r.map (·.1))
    else
      moveTo (← alloc cfg s newL)

/-- `allocator_impl::shrink`; returns `(new address, new size)` -/
def shrink (cfg : Cfg) (s : State) (ptr oldSize : Nat) (newL : Layout) : R (State × Except AErr (Nat × Nat)) := do
  liftM (Rs.assert (decide (newL.size ≤ oldSize)))
  if !alignFits ptr newL.align then
    -- shrink_unfit
    if cfg.shrinks && isLast cfg s ptr oldSize then
      let oldPos := curPos cfg s
      let s1 ← deallocAssumeLast cfg s ptr oldSize
      match ← tryCur cfg .alloc s1 newL Hints.custom with
      | some ((np, _), s2) =>
        let overlaps := if cfg.up then decide (ptr + newL.size > np) else decide (np + newL.size > ptr)
        let s3 ← copyBytes cfg s2 ptr np newL.size (!overlaps)
        pure (s3, .ok (np, newL.size))
      | none =>
        let s2 := setCurPos s1 oldPos
        let (s3, r) ← inAnotherChunk cfg .alloc s2 newL Hints.custom
        match r with
        | .error e => pure (s3, .error e)
        | .ok (np, _) =>
          let s4 ← copyBytes cfg s3 ptr np newL.size true
          pure (s4, .ok (np, newL.size))
    else
      match ← alloc cfg s newL with
      | (s', .error e) => pure (s', .error e)
      | (s', .ok np) =>
        let s'' ← copyBytes cfg s' ptr np newL.size true
        pure (s'', .ok (np, newL.size))
  else if !cfg.shrinks || !isLast cfg s ptr oldSize then
    pure (s, .ok (ptr, oldSize))
  else if cfg.up then
    let e ← liftM (Rs.add ptr newL.size)
    let np ← liftM (Gen.LibArith.up_align_usize_unchecked e s.minAlign)
    match s.cur with
    | .chunk _ => pure (setCurPos s np, .ok (ptr, newL.size))
    | _ => throw (.ub "as_non_dummy_unchecked on a dummy chunk")
  else
    let oldEnd ← liftM (Rs.add ptr oldSize)
    let newAddr ← liftM (Gen.LibArith.bump_down oldEnd newL.size (Rs.max newL.align s.minAlign))
    let overlaps := decide (ptr + newL.size > newAddr)
    let s' ← copyBytes cfg s ptr newAddr newL.size (!overlaps)
    match s.cur with
    | .chunk _ => pure (setCurPos s' newAddr, .ok (newAddr, newL.size))
    | _ => throw (.ub "as_non_dummy_unchecked on a dummy chunk")

/-- `WithoutShrink::shrink` (`src/without_dealloc.rs`) -/
def shrinkWithoutShrink (cfg : Cfg) (s : State) (ptr oldSize : Nat) (newL : Layout) : R (State × Except AErr (Nat × Nat)) := do
  if alignFits ptr newL.align then pure (s, .ok (ptr, newL.size))
  else
    match ← alloc cfg s newL with
    | (s', .error e) => pure (s', .error e)
    | (s', .ok np) =>
      -- shrink_unfit copies `new_layout.size()` bytes (after the fix of finding C02-a)
      let s'' ← copyBytes cfg s' ptr np newL.size true
      pure (s'', .ok (np, newL.size))

/-- `BumpAllocatorTyped::shrink_slice` for `BumpScope`; `none` = nothing done -/
def shrinkSlice (cfg : Cfg) (s : State) (ptr oldSize newSize ealign : Nat) : R (State × Option Nat) := do
  if !cfg.shrinks then return (s, none)
  if !isLast cfg s ptr oldSize then return (s, none)
  match s.cur with
  | .chunk _ =>
    if cfg.up then
      let e ← liftM (Rs.add ptr newSize)
      let np ← liftM (Gen.LibArith.up_align_usize_unchecked e s.minAlign)
      pure (setCurPos s np, some ptr)
    else
      let oldEnd ← liftM (Rs.add ptr oldSize)
      let newAddr ← liftM (Gen.LibArith.bump_down oldEnd newSize (Rs.max ealign s.minAlign))
      let overlaps := decide (ptr + newSize > newAddr)
      let s' ← copyBytes cfg s ptr newAddr newSize (!overlaps)
      pure (setCurPos s' newAddr, some newAddr)
  | _ => throw (.ub "as_non_dummy_unchecked on a dummy chunk")

/-! ## reserve, reset, reset_to, checkpoint, drop -/

def walkReserve (cfg : Cfg) (chunks : List Chunk) : Nat → Nat → Nat → Option Nat
  | 0, _, additional => some additional
  | fuel+1, i, additional =>
    match chunks[i+1]? with
    | none => some additional
    | some c =>
      match Rs.checked_sub additional (c.capacity cfg) with
      | none => none
      | some rest => walkReserve cfg chunks fuel (i+1) rest

/-- `RawBump::reserve` (typed entry points) -/
def reserve (cfg : Cfg) (s : State) (additional : Nat) : R (State × Except AErr Unit) := do
  match s.cur with
  | .claimed => pure (s, .error .claimed)
  | .unallocated =>
    if !layoutOk additional 1 then return (s, .error .capacityOverflow)
    match ← newChunkForCapacity cfg s { size := additional, align := 1 } with
    | (s', .error e) => pure (s', .error e)
    | (s', .ok i) => pure ({ s' with cur := .chunk i }, .ok ())
  | .chunk i =>
    match s.chunks[i]? with
    | none => throw (.ub "dangling chunk index")
    | some c =>
      match Rs.checked_sub additional (c.remaining cfg) with
      | none => pure (s, .ok ())
      | some rest =>
        match walkReserve cfg s.chunks (s.chunks.length - (i+1)) i rest with
        | none => pure (s, .ok ())
        | some rest =>
          if rest = 0 then return (s, .ok ())
          if !layoutOk rest 1 then return (s, .error .capacityOverflow)
          match ← appendFor cfg s { size := rest, align := 1 } with
          | (s', .error e) => pure (s', .error e)
          | (s', .ok _) => pure (s', .ok ())

/-- `for_trait_object::reserve` (`dyn BumpAllocatorCore`): built on `prepare_allocation` (finding C17-a:
    its slow path makes the next / new chunk current) -/
def reserveDyn (cfg : Cfg) (s : State) (additional : Nat) : R (State × Except AErr Unit) := do
  if !layoutOk additional 1 then return (s, .error .capacityOverflow)
  let (s', r) ← allocGeneric cfg .range s { size := additional, align := 1 } Hints.custom Hints.custom
  pure (s', r.map (fun _ => ()))

def deallocReq (cfg : Cfg) (c : Chunk) : BaseReq := .dealloc c.base c.size cfg.hdr.align

/-- `RawBump::reset`: releases every chunk except the last one, in the order the code does -/
def reset (cfg : Cfg) (s : State) : State :=
  match s.cur with
  | .chunk i =>
    let before := (s.chunks.take i).reverse                -- for_each_prev
    let fromCur := (s.chunks.drop i).dropLast              -- current, next, ... up to the one before last
    match s.chunks.getLast? with
    | none => s
    | some last =>
      { s with reqs := s.reqs ++ (before ++ fromCur).map (deallocReq cfg),
               chunks := [last.resetPos cfg], cur := .chunk 0 }
  | _ => s

/-- `RawBump::reset_to_start` -/
def resetToStart (cfg : Cfg) (s : State) : State :=
  match s.cur with
  | .chunk _ =>
    match s.chunks with
    | [] => s
    | c :: rest => { s with chunks := c.resetPos cfg :: rest, cur := .chunk 0 }
  | _ => s

def checkpoint (cfg : Cfg) (s : State) : Checkpoint := { cur := s.cur, addr := curPos cfg s }

/-- `RawBump::reset_to` -/
def resetTo (cfg : Cfg) (s : State) (cp : Checkpoint) : R State :=
  if !cfg.ga && cp.cur == .unallocated then pure (resetToStart cfg s)
  else
    match cp.cur with
    | .chunk i =>
      match s.chunks[i]? with
      | none => throw (.contract "checkpoint does not refer to a chunk of this arena")
      | some c =>
        if c.contentStart cfg ≤ cp.addr ∧ cp.addr ≤ c.contentEnd cfg then do
          -- the checkpoint may stem from a region with a lower minimum alignment: re-align
          let p ← liftM (Gen.LibArith.align_pos cfg.up s.minAlign cp.addr)
          pure { setPos s i p with cur := .chunk i }
        else throw (.contract "checkpoint address outside its chunk")
    | _ => throw (.contract "checkpoint of a claimed / unallocated arena")

/-- `RawBump::manually_drop` -/
def manuallyDrop (cfg : Cfg) (s : State) : State :=
  match s.cur with
  | .chunk i =>
    let before := (s.chunks.take i).reverse
    let after := s.chunks.drop (i+1)
    let curr := (s.chunks[i]?).toList
    { s with reqs := s.reqs ++ (before ++ after ++ curr).map (deallocReq cfg), chunks := [], cur := .unallocated, dropped := true }
  | _ => { s with dropped := true }

/-- `RawBump::align_to::<N>` -/
def alignTo (cfg : Cfg) (s : State) (n : Nat) : R State := do
  if n > s.minAlign then
    match s.cur with
    | .chunk i =>
      match s.chunks[i]? with
      | none => pure s
      | some c =>
        let p ← liftM (Gen.LibArith.align_pos cfg.up n c.pos)
        pure (setPos s i p)
    | _ => pure s
  else pure s

/-- `BumpAlignGuard::drop`, first half (`align_chunk(current)`): re-align the current chunk to the
    outer minimum alignment -/
def alignGuardDrop (cfg : Cfg) (s : State) (outer : Nat) : R State := do
  match s.cur with
  | .chunk i =>
    match s.chunks[i]? with
    | none => pure s
    | some c =>
      let p ← liftM (Gen.LibArith.align_pos cfg.up outer c.pos)
      pure (setPos s i p)
  | _ => pure s

/-- `BumpAlignGuard::drop`, second half (`if self.start.header != current.header { align_chunk(self.start) }`):
    the chunk that was current when the guard was created (`start`) is re-aligned to the outer minimum
    alignment too when it is not the current chunk (a by-value copy of the scope that moved on to another
    chunk leaves the scope it was copied from pointing at `start`).  Dummy chunks are skipped. -/
def alignChunkAt (cfg : Cfg) (s : State) (outer : Nat) (start : Cur) : R State := do
  match start with
  | .chunk j =>
    if s.cur = .chunk j then pure s
    else
      match s.chunks[j]? with
      | none => pure s
      | some c =>
        let p ← liftM (Gen.LibArith.align_pos cfg.up outer c.pos)
        pure (setPos s j p)
  | _ => pure s

/-- `RawBump::make_allocated` -/
def makeAllocated (cfg : Cfg) (s : State) : R (State × Except AErr Unit) := do
  match s.cur with
  | .claimed => pure (s, .error .claimed)
  | .chunk _ => pure (s, .ok ())
  | .unallocated =>
    match ← calcSize cfg cfg.minChunk with
    | none => throw (.ub "ChunkSize::MINIMUM failed to compute (compile-time panic)")
    | some size =>
      match ← newChunk cfg s size with
      | (s', .error e) => pure (s', .error e)
      | (s', .ok i) => pure ({ s' with cur := .chunk i }, .ok ())

/-! ## prepared allocations -/

/-- `BumpAllocatorCore::allocate_prepared(_rev)` for `BumpScope`; returns the final address -/
def allocatePrepared (cfg : Cfg) (s : State) (size rstart rend : Nat) (rev : Bool) : R (State × Nat) := do
  match s.cur with
  | .chunk _ =>
    if cfg.up then
      let s1 ← if rev then copyBytes cfg s (rend - size) rstart size false else pure s
      let e ← liftM (Rs.add rstart size)
      let p ← liftM (Gen.LibArith.align_pos cfg.up s.minAlign e)
      pure (setCurPos s1 p, rstart)
    else
      let dst ← liftM (Rs.sub rend size)
      let s1 ← if rev then pure s else copyBytes cfg s rstart dst size false
      let p ← liftM (Gen.LibArith.align_pos cfg.up s.minAlign dst)
      pure (setCurPos s1 p, dst)
  | _ => throw (.ub "as_non_dummy_unchecked on a dummy chunk")

/-- `set_pos_addr_and_align_from` -/
def setPosAlignFrom (cfg : Cfg) (s : State) (pos posAlign : Nat) : R State := do
  liftM (Rs.assert (decide (pos % posAlign = 0)))
  let p ← if posAlign < s.minAlign then liftM (Gen.LibArith.align_pos cfg.up s.minAlign pos) else pure pos
  pure (setCurPos s p)

/-- `BumpAllocatorTyped::allocate_prepared_slice(_rev)` for `BumpScope`.  `ptr` is what the typed
    prepare returned (`start` for the forward variant, `end` for the rev variant). -/
def allocatePreparedSlice (cfg : Cfg) (s : State) (ptr len cap esize ealign : Nat) (rev : Bool) : R (State × Nat) := do
  match s.cur with
  | .chunk _ =>
    if !rev then
      if cfg.up then
        let s' ← setPosAlignFrom cfg s (ptr + len * esize) ealign
        pure (s', ptr)
      else
        let dst := ptr + cap * esize - len * esize
        let s1 ← copyBytes cfg s ptr dst (len * esize) false
        let s2 ← setPosAlignFrom cfg s1 dst ealign
        pure (s2, dst)
    else
      if cfg.up then
        let dst := ptr - cap * esize
        let src := ptr - len * esize
        let s1 ← copyBytes cfg s src dst (len * esize) false
        let s2 ← setPosAlignFrom cfg s1 (dst + len * esize) ealign
        pure (s2, dst)
      else
        let dst := ptr - len * esize
        let s' ← setPosAlignFrom cfg s dst ealign
        pure (s', dst)
  | _ => throw (.ub "as_non_dummy_unchecked on a dummy chunk")

/-! ## Statistics (`src/stats.rs`, `src/stats/any.rs`) -/

structure StatsOut where
  count : Nat
  size : Nat
  capacity : Nat
  allocated : Nat
  remaining : Nat
  deriving Repr, DecidableEq, Inhabited

def stats (cfg : Cfg) (s : State) : StatsOut :=
  match s.cur with
  | .chunk i =>
    match s.chunks[i]? with
    | none => ⟨0, 0, 0, 0, 0⟩
    | some c =>
      let before := s.chunks.take i
      let after := s.chunks.drop (i+1)
      let cap (l : List Chunk) := (l.map (Chunk.capacity cfg)).foldl (· + ·) 0
      { count := s.chunks.length,
        size := (s.chunks.map (·.size)).foldl (· + ·) 0,
        capacity := cap s.chunks,
        allocated := c.allocated cfg + cap before,
        remaining := c.remaining cfg + cap after }
  | _ => ⟨0, 0, 0, 0, 0⟩

end Arena
