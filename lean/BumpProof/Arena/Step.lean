/-
  Arena/Step.lean — the operation alphabet of the arena model and its `step` function.
  Each `Op` mirrors one public entry point of bump-scope (named in the comments); block
  arguments are ids of earlier results.  `step` also maintains the GHOST state (`live`
  blocks, marks of open scopes, user checkpoints) and rejects operations that violate the
  documented safety contract (`Fault.contract`, printed as `bad-op` by the driver).
-/
import BumpProof.Arena.Model

namespace Arena
open Rs

inductive Via where
  | plain            -- Bump / BumpScope / & / &mut / dyn: all forward to `allocator_impl`
  | withoutDealloc   -- `WithoutDealloc(&bump)`
  | withoutShrink    -- `WithoutShrink(&bump)`
  deriving Repr, DecidableEq, Inhabited

inductive Op where
  -- constructors / destructor
  | newWithSize (n : Nat)                         -- Bump::try_with_size_in (try_new_in = MINIMUM_CHUNK_SIZE)
  | newWithCapacity (L : Layout)                  -- Bump::try_with_capacity_in
  | newUnallocated                                -- Bump::unallocated
  | drop                                          -- drop(Bump)
  -- allocator interface (`Allocator` impl → allocator_impl.rs), optionally through a wrapper
  | allocate (L : Layout) (zeroed : Bool) (via : Via)
  | deallocate (b : Nat) (via : Via)
  | grow (b : Nat) (L : Layout) (zeroed : Bool) (via : Via)
  | shrink (b : Nat) (L : Layout) (via : Via)
  -- typed fast paths (`try_allocate_layout / _sized / _slice`): layout + its hints
  | allocLayout (L : Layout) (h : Hints)
  | shrinkSlice (b : Nat) (newSize : Nat)         -- BumpAllocatorTyped::shrink_slice (sizes in bytes)
  -- prepared allocations
  | prepare (L : Layout)                          -- BumpAllocatorCore::prepare_allocation
  | commit (size : Nat) (rev : Bool)              -- allocate_prepared(_rev) with Layout(size, same align)
  | prepareSlice (esize ealign minCap : Nat) (rev : Bool)   -- try_prepare_slice_allocation(_rev)::<T>
  | fillPrepared (len : Nat) (seed : Nat)         -- the collection writes `len` elements into the prepared area
  | commitSlice (len : Nat)                       -- allocate_prepared_slice(_rev)
  | abandonPrepared                               -- the collection is dropped without being finalised
  | reserve (n : Nat) (dyn : Bool)                -- try_reserve (typed) / via dyn BumpAllocatorCore
  -- scopes, checkpoints, resets
  | scopeEnter | scopeExit                        -- scope_guard()/scoped: guard creation, guard drop
  | checkpoint (k : Nat) | resetTo (k : Nat)      -- BumpAllocatorCore::checkpoint / reset_to
  | reset | resetToStart                          -- Bump::reset / reset_to_start
  -- claims
  | claim | claimEnd                              -- BumpAllocatorScope::claim, guard drop
  | onClaimed (op : Op)                           -- `op` addressed to the claimed (original) handle
  -- minimum alignment
  | alignedEnter (n : Nat) | alignedExit          -- aligned::<N>
  | scopedAlignedEnter (n : Nat) | scopedAlignedExit
  | withSettings (n : Nat) (ga claimable : Bool)  -- Bump::with_settings to MIN_ALIGN n (by value)
  -- alloc_try_with(_mut): value of `vsize` bytes inside a Result of layout `L` at offset `off`;
  -- the closure optionally allocates `inner` itself; returns Ok or Err
  | allocTryWith (L : Layout) (off vsize : Nat) (ok : Bool) (inner : Option Layout) (mut_ : Bool)
  -- ghost operations on blocks
  | write (b : Nat) (seed : Nat)
  | split (b : Nat) (at_ : Nat)
  deriving Repr, Inhabited

inductive Out where
  | block (id addr size : Nat)
  | unit
  | err (e : AErr)
  | panic (what : String)
  | none_                                         -- shrink_slice returned None
  deriving Repr, Inhabited

/-! ## ghost helpers -/

def pattern (seed k : Nat) : UInt8 := UInt8.ofNat ((seed * 131 + k * 17 + (k / 256) * 29 + 7) % 251)

def findBlock (s : State) (id : Nat) : R Block :=
  match s.live.find? (·.id == id) with
  | some b => pure b
  | none => throw (.contract s!"block {id} is not live")

def addBlock (s : State) (addr size align init : Nat) : State × Nat :=
  let id := s.nextId
  ({ s with live := s.live ++ [{ id := id, addr := addr, size := size, align := align, depth := 0, init := init }],
            nextId := id + 1 }, id)

def removeBlock (s : State) (id : Nat) : State := { s with live := s.live.filter (·.id != id) }

def killFrom (s : State) (mark : Nat) : State :=
  { s with live := s.live.filter (·.id < mark), userCps := s.userCps.filter (fun x => x.2.2 < mark) }

def noFrames (s : State) : R Unit :=
  if s.frames.isEmpty then pure () else throw (.contract "operation needs exclusive access but a scope/claim/aligned region is open")

def noPrepared (s : State) : R Unit :=
  if s.prepared.isNone then pure () else throw (.contract "operation while a prepared allocation is outstanding")

def validLayout (L : Layout) : R Unit :=
  if L.align > 0 && Rs.is_power_of_two L.align && decide (L.size + (L.align - 1) ≤ Rs.IMAX) then pure ()
  else throw (.contract "invalid Layout")

def okOut (s : State) (addr size align init : Nat) : State × Out :=
  let (s', id) := addBlock s addr size align init
  (s', .block id addr size)

/-! ## step -/

/-- State + the marks of open scope-like frames (innermost first), kept outside `State` so that
    `Model.lean` stays a pure mirror of the Rust data. -/
structure GState where
  s : State
  marks : List Nat
  deriving Inhabited

def initState (cfg : Cfg) : State :=
  { chunks := [], cur := .unallocated, minAlign := cfg.minAlign0, frames := [], live := [], nextId := 0,
    userCps := [], prepared := none, resps := [], reqs := [], dropped := false }

def zeroRange (cfg : Cfg) (s : State) (addr len : Nat) : R State := writeRange cfg s addr (addr + len) (fun _ => 0)

def stepCore (cfg : Cfg) (g : GState) : Op → R (GState × Out)
  | .newWithSize n => do
    if !g.s.chunks.isEmpty || g.s.cur != .unallocated then throw (.contract "constructor on a live arena")
    match ← liftM (Gen.SizeConfig.calc_size_from_hint (sizeCfg cfg) (if n > cfg.minChunk then n else cfg.minChunk)) with
    | none => pure (g, .err .capacityOverflow)
    | some size =>
      match ← newChunk cfg g.s size with
      | (s', .error e) => pure ({ g with s := s' }, .err e)
      | (s', .ok i) => pure ({ g with s := { s' with cur := .chunk i } }, .unit)
  | .newWithCapacity L => do
    validLayout L
    if !g.s.chunks.isEmpty || g.s.cur != .unallocated then throw (.contract "constructor on a live arena")
    match ← newChunkForCapacity cfg g.s L with
    | (s', .error e) => pure ({ g with s := s' }, .err e)
    | (s', .ok i) => pure ({ g with s := { s' with cur := .chunk i } }, .unit)
  | .newUnallocated =>
    if cfg.ga then throw (.contract "unallocated() needs GUARANTEED_ALLOCATED = false") else pure (g, .unit)
  | .drop => do
    noFrames g.s; noPrepared g.s
    let s' := manuallyDrop cfg g.s
    pure ({ g with s := { s' with live := [], userCps := [] } }, .unit)
  | .allocate L zeroed _via => do
    validLayout L; noPrepared g.s
    match ← alloc cfg g.s L with
    | (s', .error e) => pure ({ g with s := s' }, .err e)
    | (s', .ok p) =>
      let s'' ← if zeroed then zeroRange cfg s' p L.size else pure s'
      let (s3, o) := okOut s'' p L.size L.align (if zeroed then L.size else 0)
      pure ({ g with s := s3 }, o)
  | .allocLayout L h => do
    validLayout L; noPrepared g.s
    if h.sma && L.size % L.align != 0 then throw (.contract "untruthful hint")
    match ← allocGeneric cfg .alloc g.s L h Hints.custom with
    | (s', .error e) => pure ({ g with s := s' }, .err e)
    | (s', .ok (p, _)) =>
      let (s3, o) := okOut s' p L.size L.align 0
      pure ({ g with s := s3 }, o)
  | .deallocate b via => do
    noPrepared g.s
    let blk ← findBlock g.s b
    let s' ← if via == .withoutDealloc then pure g.s else deallocate cfg g.s blk.addr blk.size
    pure ({ g with s := removeBlock s' b }, .unit)
  | .grow b L zeroed _via => do
    validLayout L; noPrepared g.s
    let blk ← findBlock g.s b
    if L.size < blk.size then throw (.contract "grow to a smaller size")
    match ← grow cfg g.s blk.addr blk.size L with
    | (s', .error e) => pure ({ g with s := s' }, .err e)
    | (s', .ok np) =>
      let s'' ← if zeroed then zeroRange cfg s' (np + blk.size) (L.size - blk.size) else pure s'
      let init := if zeroed && blk.init == blk.size then L.size else blk.init
      let (s3, o) := okOut (removeBlock s'' b) np L.size L.align init
      pure ({ g with s := s3 }, o)
  | .shrink b L via => do
    validLayout L; noPrepared g.s
    let blk ← findBlock g.s b
    if L.size > blk.size then throw (.contract "shrink to a bigger size")
    let r ← if via == .withoutShrink then shrinkWithoutShrink cfg g.s blk.addr blk.size L
             else shrink cfg g.s blk.addr blk.size L
    match r with
    | (s', .error e) => pure ({ g with s := s' }, .err e)
    | (s', .ok (np, nsize)) =>
      let (s3, o) := okOut (removeBlock s' b) np nsize L.align (Nat.min blk.init L.size)
      pure ({ g with s := s3 }, o)
  | .shrinkSlice b newSize => do
    noPrepared g.s
    let blk ← findBlock g.s b
    if newSize > blk.size then throw (.contract "shrink_slice to a bigger size")
    match ← shrinkSlice cfg g.s blk.addr blk.size newSize blk.align with
    | (s', none) => pure ({ g with s := s' }, .none_)
    | (s', some np) =>
      let (s3, o) := okOut (removeBlock s' b) np newSize blk.align (Nat.min blk.init newSize)
      pure ({ g with s := s3 }, o)
  | .prepare L => do
    validLayout L; noPrepared g.s
    if L.size % L.align != 0 then throw (.contract "prepare_allocation needs size % align == 0")
    match ← allocGeneric cfg .range g.s L Hints.custom Hints.custom with
    | (s', .error e) => pure ({ g with s := s' }, .err e)
    | (s', .ok (a, b)) =>
      pure ({ g with s := { s' with prepared := some { rstart := a, rend := b, esize := 1, ealign := L.align, typed := false, rev := false } } },
            .block 0 a (b - a))
  | .commit size rev => do
    match g.s.prepared with
    | some p =>
      if p.typed then throw (.contract "commit of a typed prepared allocation")
      if size > p.rend - p.rstart || size % p.ealign != 0 then throw (.contract "commit larger than the prepared range")
      let s0 := { g.s with prepared := none }
      let (s', addr) ← allocatePrepared cfg s0 size p.rstart p.rend rev
      let (s3, o) := okOut s' addr size p.ealign size
      pure ({ g with s := s3 }, o)
    | none => throw (.contract "commit without prepare")
  | .prepareSlice esize ealign minCap rev => do
    if esize == 0 || esize % ealign != 0 then throw (.contract "element layout")
    -- a collection that grows asks again while its old prepared area is still in use
    match Rs.checked_mul esize minCap with
    | none => pure (g, .err .capacityOverflow)
    | some bytes =>
      if !layoutOk bytes ealign then return (g, .err .capacityOverflow)
      let L : Layout := { size := bytes, align := ealign }
      match ← allocGeneric cfg .range g.s L Hints.array Hints.array with
      | (s', .error e) => pure ({ g with s := s' }, .err e)
      | (s', .ok (a, b)) =>
        let cap := (b - a) / esize
        -- forward: pointer to the first element slot; rev: pointer to the end of the slots
        let (lo, hi) := if rev then (if cfg.up then (a, a + cap * esize) else (b - cap * esize, b))
                        else (if cfg.up then (a, a + cap * esize) else (b - cap * esize, b))
        pure ({ g with s := { s' with prepared := some { rstart := lo, rend := hi, esize := esize, ealign := ealign, typed := true, rev := rev } } },
              .block (if rev then 1 else 0) (if rev then hi else lo) cap)
  | .fillPrepared len seed => do
    match g.s.prepared with
    | some p =>
      if len * p.esize > p.rend - p.rstart then throw (.contract "fill beyond capacity")
      -- the harness tells us through `seed` parity which end is filled: even = from the start, odd = from the end
      let lo := if seed % 2 == 0 then p.rstart else p.rend - len * p.esize
      let s' ← writeRange cfg g.s lo (lo + len * p.esize) (fun a => pattern seed (a - lo))
      pure ({ g with s := s' }, .unit)
    | none => throw (.contract "fill without prepare")
  | .commitSlice len => do
    match g.s.prepared with
    | some p =>
      if !p.typed then throw (.contract "commitSlice of an untyped prepared allocation")
      let cap := (p.rend - p.rstart) / p.esize
      if len > cap then throw (.contract "commit larger than capacity")
      let s0 := { g.s with prepared := none }
      let (s', addr) ← allocatePreparedSlice cfg s0 (if p.rev then p.rend else p.rstart) len cap p.esize p.ealign p.rev
      let (s3, o) := okOut s' addr (len * p.esize) p.ealign (len * p.esize)
      pure ({ g with s := s3 }, o)
    | none => throw (.contract "commit without prepare")
  | .abandonPrepared =>
    match g.s.prepared with
    | some _ => pure ({ g with s := { g.s with prepared := none } }, .unit)
    | none => throw (.contract "abandon without prepare")
  | .reserve n dyn => do
    noPrepared g.s
    match ← (if dyn then reserveDyn cfg g.s n else reserve cfg g.s n) with
    | (s', .error e) => pure ({ g with s := s' }, .err e)
    | (s', .ok ()) => pure ({ g with s := s' }, .unit)
  | .scopeEnter => do
    noPrepared g.s
    let cp := checkpoint cfg g.s
    pure ({ s := { g.s with frames := .scope cp :: g.s.frames }, marks := g.s.nextId :: g.marks }, .unit)
  | .scopeExit => do
    noPrepared g.s
    match g.s.frames, g.marks with
    | .scope cp :: rest, m :: ms =>
      let s' ← resetTo cfg g.s cp
      pure ({ s := killFrom { s' with frames := rest } m, marks := ms }, .unit)
    | _, _ => throw (.contract "scopeExit without matching scopeEnter")
  | .checkpoint k => do
    noPrepared g.s
    if g.s.cur == .claimed then throw (.contract "checkpoint of a claimed arena")
    let cp := checkpoint cfg g.s
    pure ({ g with s := { g.s with userCps := (k, cp, g.s.nextId) :: g.s.userCps.filter (·.1 != k) } }, .unit)
  | .resetTo k => do
    noPrepared g.s
    match g.s.userCps.find? (·.1 == k) with
    | none => throw (.contract "unknown / dead checkpoint")
    | some (_, cp, mark) =>
      -- the checkpoint must not be older than an open scope (it would end that scope's memory early)
      if g.marks.any (fun m => m > mark) then throw (.contract "reset_to across an open scope")
      if g.s.cur == .claimed then throw (.contract "reset_to on a claimed arena")
      let s' ← resetTo cfg g.s cp
      pure ({ g with s := killFrom s' mark }, .unit)
  | .reset => do
    noFrames g.s; noPrepared g.s
    let s' := reset cfg g.s
    pure ({ g with s := { s' with live := [], userCps := [] } }, .unit)
  | .resetToStart => do
    noFrames g.s; noPrepared g.s
    let s' := resetToStart cfg g.s
    pure ({ g with s := { s' with live := [], userCps := [] } }, .unit)
  | .claim => do
    noPrepared g.s
    if !cfg.claimable then throw (.contract "claim needs CLAIMABLE")
    -- the active handle is by construction unclaimed (claiming the claimed original is `onClaimed claim`)
    pure ({ g with s := { g.s with frames := .claim :: g.s.frames } }, .unit)
  | .claimEnd => do
    noPrepared g.s
    match g.s.frames with
    | .claim :: rest => pure ({ g with s := { g.s with frames := rest } }, .unit)   -- reclaim: original.chunk := claimant.chunk
    | _ => throw (.contract "claimEnd without claim")
  | .onClaimed op => do
    if !g.s.frames.any (fun f => match f with | .claim => true | _ => false) then throw (.contract "no claim is active")
    -- the original handle holds the CLAIMED dummy chunk: run `op` against it, then restore the claimant's view
    match op with
    | .claim => pure (g, .panic "bump allocator is already claimed")
    | .allocate L _ _ => do
      validLayout L
      let (_, r) ← alloc cfg { g.s with cur := .claimed } L
      match r with
      | .error e => pure (g, .err e)
      | .ok _ => throw (.ub "allocation succeeded on a claimed handle")
    | .allocLayout L h => do
      validLayout L
      let (_, r) ← allocGeneric cfg .alloc { g.s with cur := .claimed } L h Hints.custom
      match r with
      | .error e => pure (g, .err e)
      | .ok _ => throw (.ub "allocation succeeded on a claimed handle")
    | .reserve n dyn => do
      let (_, r) ← (if dyn then reserveDyn cfg { g.s with cur := .claimed } n else reserve cfg { g.s with cur := .claimed } n)
      match r with
      | .error e => pure (g, .err e)
      | .ok _ => throw (.ub "reserve succeeded on a claimed handle")
    | .grow b L _ _ => do
      validLayout L
      let blk ← findBlock g.s b
      if L.size < blk.size then throw (.contract "grow to a smaller size")
      let (s', r) ← grow cfg { g.s with cur := .claimed } blk.addr blk.size L
      match r with
      | .error e => pure (g, .err e)
      | .ok _ => let _ := s'; throw (.ub "grow succeeded on a claimed handle")
    | .deallocate b _ => do
      let blk ← findBlock g.s b
      let s' ← deallocate cfg { g.s with cur := .claimed } blk.addr blk.size
      -- must be a no-op on the arena; the block is dead afterwards as far as the caller is concerned
      pure ({ g with s := removeBlock { s' with cur := g.s.cur } b }, .unit)
    | .shrink b L _ => do
      validLayout L
      let blk ← findBlock g.s b
      if L.size > blk.size then throw (.contract "shrink to a bigger size")
      if !alignFits blk.addr L.align then throw (.contract "model: alignment-raising shrink on a claimed handle not generated")
      let (s', r) ← shrink cfg { g.s with cur := .claimed } blk.addr blk.size L
      match r with
      | .error e => pure (g, .err e)
      | .ok (np, nsize) =>
        let (s3, o) := okOut (removeBlock { s' with cur := g.s.cur } b) np nsize L.align (Nat.min blk.init nsize)
        pure ({ g with s := s3 }, o)
    | _ => throw (.contract "operation not available on the claimed handle in this model")
  | .alignedEnter n => do
    noPrepared g.s
    if !(n == 1 || n == 2 || n == 4 || n == 8 || n == 16) then throw (.contract "unsupported minimum alignment")
    if n < g.s.minAlign then
      pure ({ g with s := { g.s with frames := .alignedLower g.s.minAlign g.s.cur :: g.s.frames, minAlign := n } }, .unit)
    else
      let s' ← alignTo cfg g.s n
      pure ({ g with s := { s' with frames := .alignedRaise g.s.minAlign :: g.s.frames, minAlign := n } }, .unit)
  | .alignedExit => do
    noPrepared g.s
    match g.s.frames with
    | .alignedLower outer start :: rest =>
      let s1 ← alignGuardDrop cfg g.s outer
      let s' ← alignChunkAt cfg s1 outer start
      pure ({ g with s := { s' with frames := rest, minAlign := outer } }, .unit)
    | .alignedRaise outer :: rest =>
      pure ({ g with s := { g.s with frames := rest, minAlign := outer } }, .unit)
    | _ => throw (.contract "alignedExit without alignedEnter")
  | .scopedAlignedEnter n => do
    noPrepared g.s
    if !(n == 1 || n == 2 || n == 4 || n == 8 || n == 16) then throw (.contract "unsupported minimum alignment")
    let cp := checkpoint cfg g.s
    let s' ← alignTo cfg g.s n
    pure ({ s := { s' with frames := .scopedAligned cp g.s.minAlign :: g.s.frames, minAlign := n }, marks := g.s.nextId :: g.marks }, .unit)
  | .scopedAlignedExit => do
    noPrepared g.s
    match g.s.frames, g.marks with
    | .scopedAligned cp outer :: rest, m :: ms =>
      -- the guard was created from the OUTER handle: its `reset_to` runs with the outer MIN_ALIGN
      let s' ← resetTo cfg { g.s with minAlign := outer } cp
      pure ({ s := killFrom { s' with frames := rest } m, marks := ms }, .unit)
    | _, _ => throw (.contract "scopedAlignedExit without matching enter")
  | .withSettings n ga claimable => do
    noFrames g.s; noPrepared g.s
    if !(n == 1 || n == 2 || n == 4 || n == 8 || n == 16) then throw (.contract "unsupported minimum alignment")
    -- ensure_satisfies_settings: runtime checks, then align_to
    if !claimable && g.s.cur == .claimed then return (g, .panic "claimed")
    if ga && g.s.cur == .unallocated then return (g, .panic "unallocated")
    let s' ← alignTo cfg g.s n
    pure ({ g with s := { s' with minAlign := n } }, .unit)
  | .allocTryWith L off vsize ok inner mut_ => do
    validLayout L; noPrepared g.s
    if off + vsize > L.size then throw (.contract "value outside its Result")
    let cpBefore := checkpoint cfg g.s
    let markBefore := g.s.nextId
    -- generic_alloc_try_with: alloc_sized::<Result<T,E>>;  _mut: prepare_sized_allocation
    let r ← allocGeneric cfg (if mut_ then .prepare else .alloc) g.s L Hints.sized Hints.custom
    match r with
    | (s', .error e) => pure ({ g with s := s' }, .err e)
    | (s1, .ok (ptr, _)) =>
      let pos := if cfg.up then curPos cfg s1 else ptr
      -- the closure runs; it may allocate through the same arena (only possible for the non-mut variant)
      let (s2, innerOut) ← match inner with
        | some Li => do
          if mut_ then throw (.contract "closure of alloc_try_with_mut cannot use the arena")
          validLayout Li
          match ← alloc cfg s1 Li with
          | (s', .error _) => pure (s', none)
          | (s', .ok p) => pure (s', some (p, Li))
        | none => pure (s1, none)
      let canShrink := mut_ || pos == curPos cfg s2
      -- the inner block (if any) is an ordinary live block
      let s2 := match innerOut with
        | some (p, Li) => (addBlock s2 p Li.size Li.align 0).1
        | none => s2
      if ok then
        let s3 ← if canShrink then do
            let np ← if cfg.up then liftM (Gen.LibArith.up_align_usize_unchecked (ptr + off + vsize) s2.minAlign)
                     else liftM (Gen.LibArith.down_align_usize (ptr + off) s2.minAlign)
            match s2.cur with
            | .chunk _ => pure (setCurPos s2 np)
            | _ => throw (.ub "as_non_dummy_unchecked on a dummy chunk")
          else pure s2
        -- the caller owns the value: a live block `[ptr+off, ptr+off+vsize)`
        let (s4, o) := okOut s3 (ptr + off) vsize 1 0
        pure ({ g with s := s4 }, o)
      else
        let s3 ← if canShrink then resetTo cfg s2 cpBefore else pure s2
        let s3 := if canShrink then killFrom s3 markBefore else s3
        pure ({ g with s := s3 }, .none_)
  | .write b seed => do
    let blk ← findBlock g.s b
    let s' ← writeRange cfg g.s blk.addr (blk.addr + blk.size) (fun a => pattern seed (a - blk.addr))
    pure ({ g with s := { s' with live := s'.live.map (fun x => if x.id == b then { x with init := x.size } else x) } }, .unit)
  | .split b at_ => do
    let blk ← findBlock g.s b
    if at_ > blk.size then throw (.contract "split point outside the block")
    let s0 := removeBlock g.s b
    let (s1, i1) := addBlock s0 blk.addr at_ 1 (Nat.min blk.init at_)
    let (s2, _) := addBlock s1 (blk.addr + at_) (blk.size - at_) 1 (blk.init - at_)
    pure ({ g with s := s2 }, .block i1 blk.addr at_)

/-- one step: installs the base-allocator responses of this step, runs the op, returns the requests made -/
def step (cfg : Cfg) (g : GState) (op : Op) (resps : List BaseResp) : R (GState × Out × List BaseReq) := do
  let g0 := { g with s := { g.s with resps := resps, reqs := [] } }
  let (g1, out) ← stepCore cfg g0 op
  if !g1.s.resps.isEmpty then throw (.contract "more base-allocator responses supplied than the model consumed")
  pure (g1, out, g1.s.reqs)

end Arena
