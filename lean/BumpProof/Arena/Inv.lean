/-
  Arena/Inv.lean — the geometry / position part of the central arena invariant
  (definitions only; the theorems are in `Props/C10.lean`, `Props/C18.lean`, helper
  lemmas in `Lemmas/Geom*.lean`).

  Everything here is a plain, decidable-looking predicate over the frozen model of
  `Arena/Model.lean`.
-/
import BumpProof.Arena.Model
import BumpProof.Spec.Size

namespace Arena
open Rs

/-- the minimum alignments the crate supports (`SupportedMinimumAlignment`) -/
def MinAlignOK (m : Nat) : Prop := m = 1 ∨ m = 2 ∨ m = 4 ∨ m = 8 ∨ m = 16

/-- admissible compile-time configuration: a real `ChunkHeader<A>` layout, a supported
    `MIN_ALIGN`, and a `MINIMUM_CHUNK_SIZE` that is a `usize` -/
structure CfgOK (cfg : Cfg) : Prop where
  hdr : Spec.HeaderOK cfg.hdr
  minAlign0 : MinAlignOK cfg.minAlign0
  minChunk : cfg.minChunk < 2 ^ 64

/-- one chunk is well formed: size a multiple of 16 with room for the header, block aligned
    for the header, inside the address space, position inside the content range, the bytes
    cover the block; downwards the header (at the end) is aligned too; the part of the block
    in use lies inside what the base allocator granted and covers what was requested -/
structure ChunkWF (cfg : Cfg) (c : Chunk) : Prop where
  size16 : 16 ∣ c.size
  hdr_le : cfg.hdr.size ≤ c.size
  base_al : cfg.hdr.align ∣ c.base
  base_ne : c.base ≠ 0
  end_lt : c.base + c.size < 2 ^ 64
  size_le : c.size ≤ Rs.IMAX
  pos_ge : c.contentStart cfg ≤ c.pos
  pos_le : c.pos ≤ c.contentEnd cfg
  data : c.data.size = c.size
  size_al : cfg.up = false → cfg.hdr.align ∣ c.size
  req_le : c.reqSize ≤ c.size
  le_granted : c.size ≤ c.granted

/-- the geometry invariant of an arena state -/
structure GeomInv (cfg : Cfg) (s : State) : Prop where
  chunks : ∀ (i : Nat) (c : Chunk), s.chunks[i]? = some c → ChunkWF cfg c
  minAlign : MinAlignOK s.minAlign
  cur : ∀ i : Nat, s.cur = .chunk i → ∃ c : Chunk, s.chunks[i]? = some c ∧ s.minAlign ∣ c.pos

/-- chunk sizes strictly increase along the list (kept separate from `GeomInv`) -/
def SizesIncreasing (s : State) : Prop :=
  ∀ (i : Nat) (a b : Chunk), s.chunks[i]? = some a → s.chunks[i+1]? = some b → a.size < b.size

/-- an unallocated arena has no chunks -/
def UnallocEmpty (s : State) : Prop := s.cur = .unallocated → s.chunks = []

/-- what every base-allocator response must satisfy whatever was asked: the block is aligned
    for the header, not null, and lies in the user half of the address space -/
def RespGeomOK (cfg : Cfg) : BaseResp → Prop
  | .fail => True
  | .granted p g => cfg.hdr.align ∣ p ∧ p ≠ 0 ∧ p + g < 2 ^ 63

/-- a correct answer of the base allocator to the request `(size, cfg.hdr.align)` -/
def RespOK (cfg : Cfg) (size : Nat) : BaseResp → Prop
  | .fail => True
  | .granted p g => size ≤ g ∧ cfg.hdr.align ∣ p ∧ p ≠ 0 ∧ p + g < 2 ^ 63

/-- all pending responses are geometrically admissible -/
def RespsOK (cfg : Cfg) (s : State) : Prop := ∀ r, r ∈ s.resps → RespGeomOK cfg r

/-- a response is pending and it is a correct answer to a request of `size` bytes -/
def HeadOK (cfg : Cfg) (s : State) (size : Nat) : Prop :=
  ∃ r rest, s.resps = r :: rest ∧ RespOK cfg size r

/-- the size the slow path asks the base allocator for (wide-integer specification):
    `max(required, MINIMUM_CHUNK_SIZE)` for the first chunk, `max(required, 2 * last, MINIMUM_CHUNK_SIZE)`
    for a further chunk, rounded by `ChunkSizeHint::calc_size`.  `none`: no request is made. -/
def requestSize (cfg : Cfg) (s : State) (L : Layout) : Option Nat :=
  let req := Spec.hintFromCapacity cfg.up cfg.hdr L
  match s.cur with
  | .claimed => none
  | .unallocated => Spec.calcSize cfg.up cfg.hdr (Nat.max req cfg.minChunk)
  | .chunk _ =>
    match s.chunks.getLast? with
    | none => none
    | some last => Spec.calcSize cfg.up cfg.hdr (Nat.max (Nat.max req (2 * last.size)) cfg.minChunk)

/-- the base allocator answers the (at most one) request of the slow path for `L` correctly -/
def BaseOK (cfg : Cfg) (s : State) (L : Layout) : Prop :=
  ∀ size, requestSize cfg s L = some size → HeadOK cfg s size

/-- the block `[ptr, ptr+size)` lies in the content range of the current chunk on the allocated
    side of the bump position (what the safety contract of `deallocate / grow / shrink` gives) -/
def BlockInCur (cfg : Cfg) (s : State) (ptr size : Nat) : Prop :=
  ∃ (i : Nat) (c : Chunk), s.cur = .chunk i ∧ s.chunks[i]? = some c ∧
    c.contentStart cfg ≤ ptr ∧ ptr + size ≤ c.contentEnd cfg ∧
    (if cfg.up then ptr + size ≤ c.pos else c.pos ≤ ptr)

/-- the block `[ptr, ptr+size)` lies in the content range of some chunk -/
def BlockInChunk (cfg : Cfg) (s : State) (ptr size : Nat) : Prop :=
  ∃ (i : Nat) (c : Chunk), s.chunks[i]? = some c ∧ c.contentStart cfg ≤ ptr ∧ ptr + size ≤ c.contentEnd cfg

/-- the granted blocks of different chunks do not overlap -/
def ChunksDisjoint (s : State) : Prop :=
  ∀ (i j : Nat) (a b : Chunk), i ≠ j → s.chunks[i]? = some a → s.chunks[j]? = some b →
    a.base + a.size ≤ b.base ∨ b.base + b.size ≤ a.base

/-- the blocks the base allocator is about to hand out overlap neither an existing chunk nor each other -/
def RespsFresh (s : State) : Prop :=
  s.resps.Pairwise (fun r1 r2 => match r1, r2 with
    | .granted p1 g1, .granted p2 g2 => p1 + g1 ≤ p2 ∨ p2 + g2 ≤ p1
    | _, _ => True) ∧
  ∀ (p g : Nat), BaseResp.granted p g ∈ s.resps → ∀ (i : Nat) (c : Chunk), s.chunks[i]? = some c →
    p + g ≤ c.base ∨ c.base + c.size ≤ p

/-- where a live block can be: in the content range of the current chunk on the allocated side of the
    position, or in the content range of an earlier chunk (used only to STATE the open no-fault targets) -/
def LiveBlock (cfg : Cfg) (s : State) (ptr size : Nat) : Prop :=
  ∃ (i j : Nat) (c : Chunk), s.cur = .chunk i ∧ j ≤ i ∧ s.chunks[j]? = some c ∧
    c.contentStart cfg ≤ ptr ∧ ptr + size ≤ c.contentEnd cfg ∧
    (j = i → if cfg.up then ptr + size ≤ c.pos else c.pos ≤ ptr)

/-- `[a, b]` lies in the content range of the current chunk (a prepared range) -/
def RangeInCur (cfg : Cfg) (s : State) (a b : Nat) : Prop :=
  ∃ (i : Nat) (c : Chunk), s.cur = .chunk i ∧ s.chunks[i]? = some c ∧
    c.contentStart cfg ≤ a ∧ a ≤ b ∧ b ≤ c.contentEnd cfg

/-- a checkpoint taken in this arena: it names a chunk and an address in its content range,
    or it is the checkpoint of an unallocated arena (only possible without GUARANTEED_ALLOCATED) -/
def CheckpointOK (cfg : Cfg) (s : State) (cp : Checkpoint) : Prop :=
  match cp.cur with
  | .chunk i => ∃ c : Chunk, s.chunks[i]? = some c ∧ c.contentStart cfg ≤ cp.addr ∧ cp.addr ≤ c.contentEnd cfg
  | .unallocated => cfg.ga = false
  | .claimed => False

/-! ## A concrete configuration and state satisfying the predicates (non-vacuity) -/

def exCfg : Cfg :=
  { up := true, minAlign0 := 8, ga := false, claimable := true, deallocates := true, shrinks := true,
    minChunk := 512, hdr := { size := 32, align := 16 } }

def exCfgDown : Cfg := { exCfg with up := false }

def exChunk : Chunk :=
  { base := 0x10000, size := 496, pos := 0x10000 + 32 + 40, granted := 496, reqSize := 496,
    data := Array.replicate 496 0 }

def exChunk2 : Chunk :=
  { base := 0x20000, size := 976, pos := 0x20000 + 32, granted := 1000, reqSize := 976,
    data := Array.replicate 976 0 }

def exChunkDown : Chunk :=
  { base := 0x10000, size := 496, pos := 0x10000 + 496 - 32 - 40, granted := 496, reqSize := 496,
    data := Array.replicate 496 0 }

def exState : State :=
  { chunks := [exChunk, exChunk2], cur := .chunk 0, minAlign := 8, frames := [], live := [], nextId := 0,
    userCps := [], prepared := none, resps := [.granted 0x40000 4000], reqs := [], dropped := false }

def exStateDown : State := { exState with chunks := [exChunkDown] }

def exStateUnalloc : State := { exState with chunks := [], cur := .unallocated }

end Arena
