/-
  Arena/Family.lean — the high-level typed allocation family (`BumpAllocatorTypedScope`,
  `MutBumpAllocatorTypedScope`: src/traits/bump_allocator_typed_scope.rs, mut_bump_allocator_typed_scope.rs)
  as DENOTATIONS in the operation alphabet of `Arena/Step.lean`.  No new model operation: every entry
  point is a provided trait method whose body is one call of a typed fast path
  (`allocate_sized`, `allocate_slice`, `allocate_slice_for`, `prepare_slice_allocation(_rev)` +
  `allocate_prepared_slice(_rev)`) plus moves/copies of values into the block.

  The harness (harness/src/arena_inc/family.rs) drives every entry point on the real crate and logs
  exactly these operation lists; the driver replays them on the model (address-exact, contents via the
  checksum of the live blocks).
-/
import BumpProof.Arena.Step

namespace Arena
open Rs

/-- the entry points driven by the harness (each also as its `try_` twin, through `BumpScope`, `&`, `&mut`
    and `dyn (Mut)BumpAllocatorCoreScope`) -/
inductive Entry where
  -- a value of type `T`: `alloc_uninit` (= `allocate_sized::<T>`) + `init`
  | alloc | allocWith | allocDefault | allocUninit
  -- `len` elements of `T`: `allocate_slice_for` / `allocate_slice::<T>(len)` + copy / clone / closure results
  | sliceCopy | sliceClone | sliceFill | sliceFillWith | uninitSlice | uninitSliceFor
  -- `len` elements through `BumpVec::with_capacity_in(len)` (= `allocate_slice::<T>(len)`), `into_boxed_slice`
  | sliceMove | iterExact | iter
  -- `len` bytes (`alloc_slice_copy` of the bytes) / `len` bytes and the terminating NUL
  | str | cstr | cstrFromStr
  -- through `MutBumpVec` / `MutBumpVecRev`: `prepare_slice_allocation(_rev)`, pushes, `allocate_prepared_slice(_rev)`
  | iterMut | iterMutRev
  deriving Repr, DecidableEq, Inhabited

namespace Entry

def isValue : Entry → Bool
  | .alloc | .allocWith | .allocDefault | .allocUninit => true
  | _ => false

def isText : Entry → Bool
  | .str | .cstr | .cstrFromStr => true
  | _ => false

/-- built on `BumpVec`: no allocator call for an empty source; the buffer is DEALLOCATED when a callback unwinds -/
def viaBumpVec : Entry → Bool
  | .sliceMove | .iterExact | .iter => true
  | _ => false

/-- built on `MutBumpVec(Rev)`: prepare + commit -/
def viaPrepare : Entry → Bool
  | .iterMut | .iterMutRev => true
  | _ => false

/-- layout of the block the call allocates (`len` = number of elements; text: bytes without the NUL) -/
def layout (e : Entry) (elemSize elemAlign len : Nat) : Layout :=
  match e with
  | .alloc | .allocWith | .allocDefault | .allocUninit => { size := elemSize, align := elemAlign }
  | .str => { size := len, align := 1 }
  | .cstr | .cstrFromStr => { size := len + 1, align := 1 }
  | _ => { size := elemSize * len, align := elemAlign }

/-- the compile-time layout hints the entry point passes down (`SizedLayout` / `ArrayLayout`); the trait
    object implementation (`mod for_trait_object`) only has `Allocator::allocate`: no hints -/
def hints (e : Entry) (dyn : Bool) : Hints :=
  if dyn then Hints.custom else if e.isValue then Hints.sized else Hints.array

/-- for a zero-sized `T`: does the entry point still call the allocator?  `alloc_uninit_slice(_for)` have no
    `T::IS_ZST` shortcut (they issue `allocate_slice(_for)` with a size-0 / align-of-T layout: the position is padded
    to the alignment, an unallocated arena gets its first chunk); every other entry point returns a dangling box
    (`BumpBox::zst_*`, `BumpVec` / `MutBumpVec(Rev)` never allocate for zero-sized elements) -/
def zstReachesAllocator : Entry → Bool
  | .uninitSlice | .uninitSliceFor => true
  | _ => false

/-- does the call reach the allocator?  for a zero-sized `T` only `alloc_uninit_slice(_for)`; the collection-based
    entry points not for an empty source -/
def allocates (e : Entry) (elemSize len : Nat) : Bool :=
  e.isText || (if elemSize == 0 then e.zstReachesAllocator else (len != 0 || !(e.viaBumpVec || e.viaPrepare)))

/-- a call that RETURNS (block id `blk`, contents = byte pattern `seed`) -/
def ops (e : Entry) (elemSize elemAlign len seed : Nat) (dyn : Bool) (blk : Nat) : List Op :=
  if !e.allocates elemSize len then []
  else if e.viaPrepare then
    [.prepareSlice elemSize elemAlign len (e == .iterMutRev), .fillPrepared len seed, .commitSlice len]
  else [.allocLayout (e.layout elemSize elemAlign len) (e.hints dyn), .write blk seed]

/-- a call UNWOUND by a panicking callback (closure, `Clone`, `Default`, `Iterator::next`) after the allocation:
    `BumpVec`'s drop deallocates its buffer, an uninitialised `BumpBox` just dies (nothing is reclaimed),
    `MutBumpVec(Rev)` never committed -/
def opsUnwound (e : Entry) (elemSize elemAlign len seed : Nat) (dyn : Bool) (blk : Nat) : List Op :=
  if !e.allocates elemSize len then []
  else if e.viaPrepare then
    [.prepareSlice elemSize elemAlign len (e == .iterMutRev), .fillPrepared len seed, .abandonPrepared]
  else [.allocLayout (e.layout elemSize elemAlign len) (e.hints dyn),
        .deallocate blk (if e.viaBumpVec then .plain else .withoutDealloc)]

end Entry

/-- a list of operations run in sequence (all outcomes collected); a fault of any step is the fault of the run -/
def runOps (cfg : Cfg) : GState → List Op → R (GState × List Out)
  | g, [] => pure (g, [])
  | g, op :: rest => do
    let (g1, o) ← stepCore cfg g op
    let (g2, os) ← runOps cfg g1 rest
    pure (g2, o :: os)

end Arena
