// Thin adapters: one object-safe trait over the four REAL string types, so that the generator,
// the executor and the oracles (strs.rs) are ordinary non-generic code.  The adapters are
// instantiated (macro `config!`) for several arena configurations: both bump directions and
// minimum alignments 1 / 8 / 16.

pub type Rg = (Bound<usize>, Bound<usize>);

/// when set, a range argument is handed to the implementation (and to std) in its NATIVE Rust form
/// (`a..b`, `a..`, `..b`, `..=b`, `a..=b`, `..`) whenever the bound pair has one; otherwise as the
/// `(Bound, Bound)` tuple.  Set by the executor from the PRNG before every operation.
pub static NATIVE_RANGES: std::sync::atomic::AtomicBool = std::sync::atomic::AtomicBool::new(false);

/// every `RangeBounds<usize>` form behind one type (one monomorphisation of the code under test; the
/// bound accessors of the native range types are the ones that run)
pub enum AnyRange {
    R(std::ops::Range<usize>),
    From(std::ops::RangeFrom<usize>),
    To(std::ops::RangeTo<usize>),
    ToIncl(std::ops::RangeToInclusive<usize>),
    Incl(std::ops::RangeInclusive<usize>),
    Full,
    Tuple(Rg),
}

impl std::ops::RangeBounds<usize> for AnyRange {
    fn start_bound(&self) -> Bound<&usize> {
        match self {
            AnyRange::R(r) => r.start_bound(),
            AnyRange::From(r) => r.start_bound(),
            AnyRange::To(r) => r.start_bound(),
            AnyRange::ToIncl(r) => r.start_bound(),
            AnyRange::Incl(r) => r.start_bound(),
            AnyRange::Full => (..).start_bound(),
            AnyRange::Tuple(r) => r.start_bound(),
        }
    }
    fn end_bound(&self) -> Bound<&usize> {
        match self {
            AnyRange::R(r) => r.end_bound(),
            AnyRange::From(r) => r.end_bound(),
            AnyRange::To(r) => r.end_bound(),
            AnyRange::ToIncl(r) => r.end_bound(),
            AnyRange::Incl(r) => r.end_bound(),
            AnyRange::Full => Bound::Unbounded,
            AnyRange::Tuple(r) => r.end_bound(),
        }
    }
}

pub fn any_range(r: Rg) -> AnyRange {
    if !NATIVE_RANGES.load(std::sync::atomic::Ordering::Relaxed) {
        return AnyRange::Tuple(r);
    }
    match r {
        (Bound::Included(a), Bound::Excluded(b)) => AnyRange::R(a..b),
        (Bound::Included(a), Bound::Unbounded) => AnyRange::From(a..),
        (Bound::Unbounded, Bound::Excluded(b)) => AnyRange::To(..b),
        (Bound::Unbounded, Bound::Included(b)) => AnyRange::ToIncl(..=b),
        (Bound::Included(a), Bound::Included(b)) => AnyRange::Incl(a..=b),
        (Bound::Unbounded, Bound::Unbounded) => AnyRange::Full,
        _ => AnyRange::Tuple(r), // an excluded start has no native syntax
    }
}

/// `Err(())` = the operation returned an allocation error (fixed capacity exhausted)
pub type R = Result<(), ()>;

#[derive(Clone, Copy, PartialEq, Eq, Debug)]
pub enum Kind {
    Box,
    Fixed,
    Bump,
    Mut,
}

impl Kind {
    pub fn name(self) -> &'static str {
        match self {
            Kind::Box => "box",
            Kind::Fixed => "fixed",
            Kind::Bump => "bump",
            Kind::Mut => "mut",
        }
    }
    pub fn idx(self) -> usize {
        self as usize
    }
}

/// how the string is constructed
#[derive(Clone, Copy, PartialEq, Eq, Debug)]
pub enum Ctor {
    /// `from_str_in` / `try_from_str_in` (`alloc_str` for a box)
    FromStr { try_: bool },
    /// `with_capacity_in(c)` / `try_with_capacity_in(c)` followed by `push_str(text)`
    WithCap { cap: usize, try_: bool },
}

/// consuming conversions (the last operation of a sequence)
#[derive(Clone, Copy, PartialEq, Eq, Debug)]
pub enum Conv {
    IntoCstr,
    IntoStr,
    IntoBoxedStr,
    IntoFixedString,
    IntoBytes,
    /// `FixedBumpString::into_string(allocator)` followed by a `push` that has to grow
    IntoString,
}

impl Conv {
    pub fn name(self) -> &'static str {
        match self {
            Conv::IntoCstr => "into_cstr",
            Conv::IntoStr => "into_str",
            Conv::IntoBoxedStr => "into_boxed_str",
            Conv::IntoFixedString => "into_fixed_string",
            Conv::IntoBytes => "into_bytes",
            Conv::IntoString => "into_string",
        }
    }
}

/// what a consuming conversion produced: the bytes right after the conversion, and the bytes
/// re-read after a further allocation from the same arena (`None`: no further allocation possible)
pub struct Fin {
    pub bytes: Vec<u8>,
    pub reread: Option<Vec<u8>>,
    pub probe_ok: bool,
    pub probes_intact: bool,
}

pub trait StrOps {
    /// the raw bytes of the string (no UTF-8 assumption is made by the caller)
    fn bytes(&self) -> Vec<u8>;
    fn cap(&self) -> usize;
    fn push(&mut self, _c: char, _t: bool) -> R {
        unreachable!()
    }
    fn push_str(&mut self, _s: &str, _t: bool) -> R {
        unreachable!()
    }
    fn insert(&mut self, _i: usize, _c: char, _t: bool) -> R {
        unreachable!()
    }
    fn insert_str(&mut self, _i: usize, _s: &str, _t: bool) -> R {
        unreachable!()
    }
    fn replace_range(&mut self, _r: Rg, _s: &str, _t: bool) -> R {
        unreachable!()
    }
    fn extend_from_within(&mut self, _r: Rg, _t: bool) -> R {
        unreachable!()
    }
    fn extend_zeroed(&mut self, _n: usize, _t: bool) -> R {
        unreachable!()
    }
    fn write_str(&mut self, _s: &str) -> R {
        unreachable!()
    }
    fn write_char(&mut self, _c: char) -> R {
        unreachable!()
    }
    fn write_fmt_args(&mut self, _a: std::fmt::Arguments<'_>) -> R {
        unreachable!()
    }
    /// `Extend<char>` (`by_ref`: `Extend<&char>`)
    fn extend_chars(&mut self, _cs: &[char], _by_ref: bool) {
        unreachable!()
    }
    /// `Extend<&str>` (`add_assign`: one `+=` per piece)
    fn extend_strs(&mut self, _ss: &[&str], _add_assign: bool) {
        unreachable!()
    }
    fn reserve(&mut self, _n: usize, _t: bool) -> R {
        unreachable!()
    }
    fn reserve_exact(&mut self, _n: usize, _t: bool) -> R {
        unreachable!()
    }
    fn shrink_to(&mut self, _n: usize) {
        unreachable!()
    }
    fn shrink_to_fit(&mut self) {
        unreachable!()
    }
    fn remove(&mut self, i: usize) -> char;
    fn pop(&mut self) -> Option<char>;
    fn truncate(&mut self, n: usize);
    fn clear(&mut self);
    fn retain(&mut self, f: &mut dyn FnMut(char) -> bool);
    fn drain(&mut self, r: Rg, take: usize) -> Vec<char>;
    /// bytes and capacity of the split-off string (kept alive by the adapter, see `others_intact`)
    fn split_off(&mut self, _r: Rg, _keep: bool) -> (Vec<u8>, usize) {
        unreachable!()
    }
    /// a further allocation from the SAME arena, filled with `byte`; false = not possible
    /// (a `MutBumpString` holds the arena exclusively)
    fn probe(&mut self, _byte: u8, _len: usize) -> bool {
        false
    }
    /// every earlier probe allocation still holds its pattern, every split-off string its bytes
    fn others_intact(&self) -> Result<(), String> {
        Ok(())
    }
    fn finish(self: Box<Self>, _conv: Conv, _byte: u8, _len: usize) -> Fin {
        unreachable!()
    }
    /// `clone()`: bytes and capacity of the clone.  The clone stays alive as a SECOND string of the
    /// arena: `swap` makes it the string the next operations go to and parks the original (whose
    /// expected contents are `expected`), otherwise the clone is parked.
    fn clone_live(&mut self, _swap: bool, _expected: Vec<u8>) -> (Vec<u8>, usize) {
        unreachable!()
    }
    /// number of parked strings
    fn parked(&self) -> usize {
        0
    }
    /// parks the current string (expected contents `expected`) and continues with parked string `i`;
    /// returns the expected contents of that one
    fn swap_live(&mut self, _i: usize, _expected: Vec<u8>) -> Vec<u8> {
        unreachable!()
    }
    /// drops parked string `i` (its memory goes back to the arena if it is the newest allocation)
    fn drop_parked(&mut self, _i: usize) {
        unreachable!()
    }
    fn display(&self) -> (String, String);
}

fn take_front(d: &mut dyn Iterator<Item = char>, take: usize) -> Vec<char> {
    let mut v = Vec::new();
    for _ in 0..take {
        match d.next() {
            Some(c) => v.push(c),
            None => break,
        }
    }
    v
}

/// probe allocations and split-off strings that must stay untouched
#[derive(Default)]
pub struct Others<'a> {
    probes: Vec<(&'a [u8], u8)>,
    parts: Vec<(*const u8, usize, Vec<u8>)>,
}

impl<'a> Others<'a> {
    fn intact(&self) -> Result<(), String> {
        for (i, (p, b)) in self.probes.iter().enumerate() {
            if p.iter().any(|x| x != b) {
                return Err(format!("probe allocation {i} ({} bytes of {b:#04x}) was overwritten: {}", p.len(), hex(p)));
            }
        }
        for (i, (ptr, len, want)) in self.parts.iter().enumerate() {
            let got = unsafe { std::slice::from_raw_parts(*ptr, *len) };
            if got != &want[..] {
                return Err(format!("split-off string {i} changed from {} to {}", hex(want), hex(got)));
            }
        }
        Ok(())
    }
}

macro_rules! common_ops {
    () => {
        fn bytes(&self) -> Vec<u8> {
            self.s.as_bytes().to_vec()
        }
        fn remove(&mut self, i: usize) -> char {
            self.s.remove(i)
        }
        fn pop(&mut self) -> Option<char> {
            self.s.pop()
        }
        fn truncate(&mut self, n: usize) {
            self.s.truncate(n)
        }
        fn clear(&mut self) {
            self.s.clear()
        }
        fn retain(&mut self, f: &mut dyn FnMut(char) -> bool) {
            self.s.retain(|c| f(c))
        }
        fn drain(&mut self, r: Rg, take: usize) -> Vec<char> {
            let mut d = self.s.drain(any_range(r));
            take_front(&mut d, take)
        }
        fn display(&self) -> (String, String) {
            (format!("{}", self.s), format!("{:?}", self.s))
        }
    };
}

/// the operations that may need memory: `t` selects the `try_` twin
macro_rules! growing_ops {
    () => {
        fn push(&mut self, c: char, t: bool) -> R {
            if t { self.s.try_push(c).map_err(|_| ()) } else { self.s.push(c); Ok(()) }
        }
        fn push_str(&mut self, x: &str, t: bool) -> R {
            if t { self.s.try_push_str(x).map_err(|_| ()) } else { self.s.push_str(x); Ok(()) }
        }
        fn insert(&mut self, i: usize, c: char, t: bool) -> R {
            if t { self.s.try_insert(i, c).map_err(|_| ()) } else { self.s.insert(i, c); Ok(()) }
        }
        fn insert_str(&mut self, i: usize, x: &str, t: bool) -> R {
            if t { self.s.try_insert_str(i, x).map_err(|_| ()) } else { self.s.insert_str(i, x); Ok(()) }
        }
        fn replace_range(&mut self, r: Rg, x: &str, t: bool) -> R {
            if t { self.s.try_replace_range(any_range(r), x).map_err(|_| ()) } else { self.s.replace_range(any_range(r), x); Ok(()) }
        }
        fn extend_from_within(&mut self, r: Rg, t: bool) -> R {
            if t { self.s.try_extend_from_within(any_range(r)).map_err(|_| ()) } else { self.s.extend_from_within(any_range(r)); Ok(()) }
        }
        fn extend_zeroed(&mut self, n: usize, t: bool) -> R {
            if t { self.s.try_extend_zeroed(n).map_err(|_| ()) } else { self.s.extend_zeroed(n); Ok(()) }
        }
        fn write_str(&mut self, x: &str) -> R {
            std::fmt::Write::write_str(&mut self.s, x).map_err(|_| ())
        }
        fn write_char(&mut self, c: char) -> R {
            std::fmt::Write::write_char(&mut self.s, c).map_err(|_| ())
        }
        fn write_fmt_args(&mut self, a: std::fmt::Arguments<'_>) -> R {
            std::fmt::Write::write_fmt(&mut self.s, a).map_err(|_| ())
        }
        fn extend_chars(&mut self, cs: &[char], by_ref: bool) {
            if by_ref { self.s.extend(cs.iter()) } else { self.s.extend(cs.iter().copied()) }
        }
        fn extend_strs(&mut self, ss: &[&str], add_assign: bool) {
            if add_assign {
                for x in ss {
                    self.s += *x;
                }
            } else {
                self.s.extend(ss.iter().copied())
            }
        }
        fn reserve(&mut self, n: usize, t: bool) -> R {
            if t { self.s.try_reserve(n).map_err(|_| ()) } else { self.s.reserve(n); Ok(()) }
        }
    };
}

macro_rules! config {
    ($m:ident, $ma:literal, $up:literal) => {
        pub mod $m {
            use super::*;
            pub type B = Bump<Global, BumpSettings<$ma, $up>>;
            pub type Sc<'a> = BumpScope<'a, Global, BumpSettings<$ma, $up>>;

            fn probe_in<'a>(bump: &'a B, o: &mut Others<'a>, byte: u8, len: usize) -> bool {
                let v = vec![byte; len];
                let p: &'a [u8] = bump.alloc_slice_copy(&v).into_ref();
                o.probes.push((p, byte));
                true
            }

            // ---------------------------------------------------------------- BumpBox<str>
            pub struct AdBox<'a> {
                s: BumpBox<'a, str>,
                bump: &'a B,
                o: Others<'a>,
            }
            impl<'a> StrOps for AdBox<'a> {
                common_ops!();
                fn cap(&self) -> usize {
                    self.s.len()
                }
                fn split_off(&mut self, r: Rg, keep: bool) -> (Vec<u8>, usize) {
                    let part = self.s.split_off(any_range(r));
                    let res = (part.as_bytes().to_vec(), part.len());
                    if keep {
                        let p: &'a mut str = part.into_mut();
                        self.o.parts.push((p.as_ptr(), p.len(), res.0.clone()));
                    }
                    res
                }
                fn probe(&mut self, byte: u8, len: usize) -> bool {
                    probe_in(self.bump, &mut self.o, byte, len)
                }
                fn others_intact(&self) -> Result<(), String> {
                    self.o.intact()
                }
                fn finish(self: Box<Self>, conv: Conv, byte: u8, len: usize) -> Fin {
                    let AdBox { s, bump, mut o } = *self;
                    let out: &'a [u8] = match conv {
                        Conv::IntoStr => s.into_mut().as_bytes(),
                        _ => unreachable!(),
                    };
                    let bytes = out.to_vec();
                    let probe_ok = probe_in(bump, &mut o, byte, len);
                    Fin { bytes, reread: Some(out.to_vec()), probe_ok, probes_intact: o.intact().is_ok() }
                }
            }

            // ---------------------------------------------------------------- FixedBumpString
            pub struct AdFixed<'a> {
                s: FixedBumpString<'a>,
                bump: &'a B,
                o: Others<'a>,
            }
            impl<'a> StrOps for AdFixed<'a> {
                common_ops!();
                growing_ops!();
                fn cap(&self) -> usize {
                    self.s.capacity()
                }
                fn split_off(&mut self, r: Rg, keep: bool) -> (Vec<u8>, usize) {
                    let part = self.s.split_off(any_range(r));
                    let res = (part.as_bytes().to_vec(), part.capacity());
                    if keep {
                        let p: &'a mut str = part.into_str();
                        self.o.parts.push((p.as_ptr(), p.len(), res.0.clone()));
                    }
                    res
                }
                fn probe(&mut self, byte: u8, len: usize) -> bool {
                    probe_in(self.bump, &mut self.o, byte, len)
                }
                fn others_intact(&self) -> Result<(), String> {
                    self.o.intact()
                }
                fn finish(self: Box<Self>, conv: Conv, byte: u8, len: usize) -> Fin {
                    let AdFixed { s, bump, mut o } = *self;
                    if conv == Conv::IntoString {
                        // continue as a BumpString in the same arena: a further allocation, then growth
                        let mut st: BumpString<&'a B> = s.into_string(bump);
                        let bytes = st.as_bytes().to_vec();
                        let probe_ok = probe_in(bump, &mut o, byte, len);
                        st.push('\u{e9}');
                        st.reserve(st.capacity() + 1);
                        let mut re = st.as_bytes().to_vec();
                        re.truncate(bytes.len());
                        let grown_ok = st.as_bytes().ends_with("\u{e9}".as_bytes());
                        return Fin { bytes, reread: Some(re), probe_ok: probe_ok && grown_ok, probes_intact: o.intact().is_ok() };
                    }
                    let out: &'a [u8] = match conv {
                        Conv::IntoStr => s.into_str().as_bytes(),
                        Conv::IntoBoxedStr => s.into_boxed_str().into_mut().as_bytes(),
                        Conv::IntoBytes => s.into_bytes().into_boxed_slice().into_ref(),
                        _ => unreachable!(),
                    };
                    let bytes = out.to_vec();
                    let probe_ok = probe_in(bump, &mut o, byte, len);
                    Fin { bytes, reread: Some(out.to_vec()), probe_ok, probes_intact: o.intact().is_ok() }
                }
            }

            // ---------------------------------------------------------------- BumpString
            pub struct AdBump<'a> {
                s: BumpString<&'a B>,
                bump: &'a B,
                o: Others<'a>,
                parked: Vec<(BumpString<&'a B>, Vec<u8>)>,
            }
            impl<'a> StrOps for AdBump<'a> {
                common_ops!();
                growing_ops!();
                fn cap(&self) -> usize {
                    self.s.capacity()
                }
                fn reserve_exact(&mut self, n: usize, t: bool) -> R {
                    if t { self.s.try_reserve_exact(n).map_err(|_| ()) } else { self.s.reserve_exact(n); Ok(()) }
                }
                fn shrink_to(&mut self, n: usize) {
                    self.s.shrink_to(n)
                }
                fn shrink_to_fit(&mut self) {
                    self.s.shrink_to_fit()
                }
                fn split_off(&mut self, r: Rg, keep: bool) -> (Vec<u8>, usize) {
                    let part = self.s.split_off(any_range(r));
                    let res = (part.as_bytes().to_vec(), part.capacity());
                    if keep {
                        // keep the split-off string alive (it must stay untouched); otherwise it is dropped
                        // here, which gives its memory back to the arena if it is the newest allocation
                        let p: &'a mut str = part.into_fixed_string().into_str();
                        self.o.parts.push((p.as_ptr(), p.len(), res.0.clone()));
                    }
                    res
                }
                fn probe(&mut self, byte: u8, len: usize) -> bool {
                    probe_in(self.bump, &mut self.o, byte, len)
                }
                fn others_intact(&self) -> Result<(), String> {
                    for (i, (p, want)) in self.parked.iter().enumerate() {
                        if p.as_bytes() != &want[..] {
                            return Err(format!("the other live string {i} (a clone / the cloned original) changed from {} to {}", hex(want), hex(p.as_bytes())));
                        }
                        if p.capacity() < p.len() {
                            return Err(format!("the other live string {i}: len {} > capacity {}", p.len(), p.capacity()));
                        }
                    }
                    self.o.intact()
                }
                fn clone_live(&mut self, swap: bool, expected: Vec<u8>) -> (Vec<u8>, usize) {
                    let c = self.s.clone();
                    let res = (c.as_bytes().to_vec(), c.capacity());
                    if swap {
                        let orig = std::mem::replace(&mut self.s, c);
                        self.parked.push((orig, expected));
                    } else {
                        self.parked.push((c, expected));
                    }
                    res
                }
                fn parked(&self) -> usize {
                    self.parked.len()
                }
                fn swap_live(&mut self, i: usize, expected: Vec<u8>) -> Vec<u8> {
                    std::mem::swap(&mut self.s, &mut self.parked[i].0);
                    std::mem::replace(&mut self.parked[i].1, expected)
                }
                fn drop_parked(&mut self, i: usize) {
                    drop(self.parked.remove(i));
                }
                fn finish(self: Box<Self>, conv: Conv, byte: u8, len: usize) -> Fin {
                    let AdBump { s, bump, mut o, parked } = *self;
                    // the other live strings stay alive (leaked) across the conversion
                    std::mem::forget(parked);
                    let out: &'a [u8] = match conv {
                        Conv::IntoCstr => s.into_cstr().to_bytes_with_nul(),
                        Conv::IntoStr => s.into_str().as_bytes(),
                        Conv::IntoBoxedStr => s.into_boxed_str().into_mut().as_bytes(),
                        Conv::IntoFixedString => s.into_fixed_string().into_str().as_bytes(),
                        Conv::IntoBytes => s.into_bytes().into_boxed_slice().into_ref(),
                        Conv::IntoString => unreachable!(),
                    };
                    let bytes = out.to_vec();
                    let probe_ok = probe_in(bump, &mut o, byte, len);
                    Fin { bytes, reread: Some(out.to_vec()), probe_ok, probes_intact: o.intact().is_ok() }
                }
            }

            // ---------------------------------------------------------------- MutBumpString
            pub struct AdMut<'b, 'a> {
                s: MutBumpString<&'b mut Sc<'a>>,
                scope: *mut Sc<'a>,
            }
            impl<'b, 'a> StrOps for AdMut<'b, 'a> {
                common_ops!();
                growing_ops!();
                fn cap(&self) -> usize {
                    self.s.capacity()
                }
                fn reserve_exact(&mut self, n: usize, t: bool) -> R {
                    if t { self.s.try_reserve_exact(n).map_err(|_| ()) } else { self.s.reserve_exact(n); Ok(()) }
                }
                fn finish(self: Box<Self>, conv: Conv, byte: u8, len: usize) -> Fin {
                    let AdMut { s, scope } = *self;
                    let out: &'a [u8] = match conv {
                        Conv::IntoCstr => s.into_cstr().to_bytes_with_nul(),
                        Conv::IntoStr => s.into_str().as_bytes(),
                        Conv::IntoBoxedStr => s.into_boxed_str().into_mut().as_bytes(),
                        Conv::IntoBytes => s.into_bytes().into_boxed_slice().into_ref(),
                        _ => unreachable!(),
                    };
                    let bytes = out.to_vec();
                    // the string (and with it the exclusive borrow of the scope) is gone: allocate again
                    let scope: &mut Sc<'a> = unsafe { &mut *scope };
                    let v = vec![byte; len];
                    let p: &'a [u8] = scope.alloc_slice_copy(&v).into_ref();
                    let probes_intact = p.iter().all(|x| *x == byte);
                    Fin { bytes, reread: Some(out.to_vec()), probe_ok: true, probes_intact }
                }
            }

            /// creates the real string of `kind` holding `text` in a fresh arena and hands it to `f`
            pub fn with_string(kind: Kind, text: &str, ctor: Ctor, f: &mut dyn FnMut(Box<dyn StrOps + '_>)) {
                let mut bump: B = Bump::new();
                match kind {
                    Kind::Box => {
                        let b = &bump;
                        f(Box::new(AdBox { s: b.alloc_str(text), bump: b, o: Others::default() }))
                    }
                    Kind::Fixed => {
                        let b = &bump;
                        let (c, t) = match ctor {
                            Ctor::WithCap { cap, try_ } => (cap.max(text.len()), try_),
                            Ctor::FromStr { try_ } => (text.len(), try_),
                        };
                        let mut s = if t { FixedBumpString::try_with_capacity_in(c, b).unwrap() } else { FixedBumpString::with_capacity_in(c, b) };
                        s.push_str(text);
                        f(Box::new(AdFixed { s, bump: b, o: Others::default() }))
                    }
                    Kind::Bump => {
                        let b = &bump;
                        let s = match ctor {
                            Ctor::FromStr { try_: false } => BumpString::from_str_in(text, b),
                            Ctor::FromStr { try_: true } => BumpString::try_from_str_in(text, b).unwrap(),
                            Ctor::WithCap { cap, try_ } => {
                                let mut s = if try_ { BumpString::try_with_capacity_in(cap, b).unwrap() } else { BumpString::with_capacity_in(cap, b) };
                                s.push_str(text);
                                s
                            }
                        };
                        f(Box::new(AdBump { s, bump: b, o: Others::default(), parked: Vec::new() }))
                    }
                    Kind::Mut => {
                        let scope: &mut Sc<'_> = bump.as_mut_scope();
                        let ptr: *mut Sc<'_> = scope;
                        let sc: &mut Sc<'_> = unsafe { &mut *ptr };
                        let s = match ctor {
                            Ctor::FromStr { try_: false } => MutBumpString::from_str_in(text, sc),
                            Ctor::FromStr { try_: true } => MutBumpString::try_from_str_in(text, sc).unwrap(),
                            Ctor::WithCap { cap, try_ } => {
                                let c = cap.max(text.len());
                                let mut s = if try_ { MutBumpString::try_with_capacity_in(c, sc).unwrap() } else { MutBumpString::with_capacity_in(c, sc) };
                                s.push_str(text);
                                s
                            }
                        };
                        f(Box::new(AdMut { s, scope: ptr }))
                    }
                }
            }
        }
    };
}

config!(up1, 1, true);
config!(down1, 1, false);
config!(down8, 8, false);
config!(up16, 16, true);

pub const CONFIGS: [&str; 4] = ["up1", "down1", "down8", "up16"];

pub fn with_config(cfg: usize, kind: Kind, text: &str, ctor: Ctor, f: &mut dyn FnMut(Box<dyn StrOps + '_>)) {
    match cfg {
        0 => up1::with_string(kind, text, ctor, f),
        1 => down1::with_string(kind, text, ctor, f),
        2 => down8::with_string(kind, text, ctor, f),
        _ => up16::with_string(kind, text, ctor, f),
    }
}
