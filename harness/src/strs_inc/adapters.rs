// Thin adapters: one object-safe trait over the four REAL string types, so that the generator,
// the executor and the oracles (strs.rs) are ordinary non-generic code.

pub type Rg = (Bound<usize>, Bound<usize>);
pub type BumpT<const UP: bool> = Bump<Global, BumpSettings<1, UP>>;

/// `Err(())` = the operation returned an allocation error (fixed capacity exhausted)
pub type R = Result<(), ()>;

#[derive(Clone, Copy, PartialEq, Eq, Debug)]
pub enum Kind {
    Box,
    Fixed,
    Bump,
    Mut,
}

impl Kind {
    pub fn name(self) -> &'static str {
        match self {
            Kind::Box => "box",
            Kind::Fixed => "fixed",
            Kind::Bump => "bump",
            Kind::Mut => "mut",
        }
    }
    pub fn idx(self) -> usize {
        self as usize
    }
}

pub trait StrOps {
    /// the raw bytes of the string (no UTF-8 assumption is made by the caller)
    fn bytes(&self) -> Vec<u8>;
    fn cap(&self) -> usize;
    fn push(&mut self, _c: char) -> R {
        unreachable!()
    }
    fn push_str(&mut self, _s: &str) -> R {
        unreachable!()
    }
    fn insert(&mut self, _i: usize, _c: char) -> R {
        unreachable!()
    }
    fn insert_str(&mut self, _i: usize, _s: &str) -> R {
        unreachable!()
    }
    fn replace_range(&mut self, _r: Rg, _s: &str) -> R {
        unreachable!()
    }
    fn extend_from_within(&mut self, _r: Rg) -> R {
        unreachable!()
    }
    fn write_fmt_args(&mut self, _a: std::fmt::Arguments<'_>) -> R {
        unreachable!()
    }
    fn reserve(&mut self, _n: usize) -> R {
        unreachable!()
    }
    fn reserve_exact(&mut self, _n: usize) -> R {
        unreachable!()
    }
    fn remove(&mut self, i: usize) -> char;
    fn pop(&mut self) -> Option<char>;
    fn truncate(&mut self, n: usize);
    fn clear(&mut self);
    fn retain(&mut self, f: &mut dyn FnMut(char) -> bool);
    fn drain(&mut self, r: Rg, take: usize) -> Vec<char>;
    /// bytes and capacity of the split-off string
    fn split_off(&mut self, _r: Rg) -> (Vec<u8>, usize) {
        unreachable!()
    }
    fn into_cstr(self: Box<Self>) -> Vec<u8> {
        unreachable!()
    }
    fn display(&self) -> (String, String);
}

fn take_front(d: &mut dyn Iterator<Item = char>, take: usize) -> Vec<char> {
    let mut v = Vec::new();
    for _ in 0..take {
        match d.next() {
            Some(c) => v.push(c),
            None => break,
        }
    }
    v
}

macro_rules! common_ops {
    () => {
        fn bytes(&self) -> Vec<u8> {
            self.0.as_bytes().to_vec()
        }
        fn remove(&mut self, i: usize) -> char {
            self.0.remove(i)
        }
        fn pop(&mut self) -> Option<char> {
            self.0.pop()
        }
        fn truncate(&mut self, n: usize) {
            self.0.truncate(n)
        }
        fn clear(&mut self) {
            self.0.clear()
        }
        fn retain(&mut self, f: &mut dyn FnMut(char) -> bool) {
            self.0.retain(|c| f(c))
        }
        fn drain(&mut self, r: Rg, take: usize) -> Vec<char> {
            let mut d = self.0.drain(r);
            take_front(&mut d, take)
        }
        fn display(&self) -> (String, String) {
            (format!("{}", self.0), format!("{:?}", self.0))
        }
    };
}

macro_rules! growable_ops {
    () => {
        fn push(&mut self, c: char) -> R {
            self.0.push(c);
            Ok(())
        }
        fn push_str(&mut self, s: &str) -> R {
            self.0.push_str(s);
            Ok(())
        }
        fn insert(&mut self, i: usize, c: char) -> R {
            self.0.insert(i, c);
            Ok(())
        }
        fn insert_str(&mut self, i: usize, s: &str) -> R {
            self.0.insert_str(i, s);
            Ok(())
        }
        fn replace_range(&mut self, r: Rg, s: &str) -> R {
            self.0.replace_range(r, s);
            Ok(())
        }
        fn extend_from_within(&mut self, r: Rg) -> R {
            self.0.extend_from_within(r);
            Ok(())
        }
        fn write_fmt_args(&mut self, a: std::fmt::Arguments<'_>) -> R {
            std::fmt::Write::write_fmt(&mut self.0, a).map_err(|_| ())
        }
        fn into_cstr(self: Box<Self>) -> Vec<u8> {
            self.0.into_cstr().to_bytes_with_nul().to_vec()
        }
        fn reserve(&mut self, n: usize) -> R {
            self.0.reserve(n);
            Ok(())
        }
        fn reserve_exact(&mut self, n: usize) -> R {
            self.0.reserve_exact(n);
            Ok(())
        }
    };
}

pub struct AdBox<'a>(pub BumpBox<'a, str>);
impl StrOps for AdBox<'_> {
    common_ops!();
    fn cap(&self) -> usize {
        self.0.len()
    }
    fn split_off(&mut self, r: Rg) -> (Vec<u8>, usize) {
        let o = self.0.split_off(r);
        (o.as_bytes().to_vec(), o.len())
    }
}

pub struct AdFixed<'a>(pub FixedBumpString<'a>);
impl StrOps for AdFixed<'_> {
    common_ops!();
    fn cap(&self) -> usize {
        self.0.capacity()
    }
    fn push(&mut self, c: char) -> R {
        self.0.try_push(c).map_err(|_| ())
    }
    fn push_str(&mut self, s: &str) -> R {
        self.0.try_push_str(s).map_err(|_| ())
    }
    fn insert(&mut self, i: usize, c: char) -> R {
        self.0.try_insert(i, c).map_err(|_| ())
    }
    fn insert_str(&mut self, i: usize, s: &str) -> R {
        self.0.try_insert_str(i, s).map_err(|_| ())
    }
    fn replace_range(&mut self, r: Rg, s: &str) -> R {
        self.0.try_replace_range(r, s).map_err(|_| ())
    }
    fn extend_from_within(&mut self, r: Rg) -> R {
        self.0.try_extend_from_within(r).map_err(|_| ())
    }
    fn write_fmt_args(&mut self, a: std::fmt::Arguments<'_>) -> R {
        std::fmt::Write::write_fmt(&mut self.0, a).map_err(|_| ())
    }
    fn reserve(&mut self, n: usize) -> R {
        self.0.try_reserve(n).map_err(|_| ())
    }
    fn split_off(&mut self, r: Rg) -> (Vec<u8>, usize) {
        let o = self.0.split_off(r);
        (o.as_bytes().to_vec(), o.capacity())
    }
}

pub struct AdBump<'a, const UP: bool>(pub BumpString<&'a BumpT<UP>>);
impl<const UP: bool> StrOps for AdBump<'_, UP> {
    common_ops!();
    growable_ops!();
    fn cap(&self) -> usize {
        self.0.capacity()
    }
    fn split_off(&mut self, r: Rg) -> (Vec<u8>, usize) {
        let o = self.0.split_off(r);
        (o.as_bytes().to_vec(), o.capacity())
    }
}

pub struct AdMut<'a, const UP: bool>(pub MutBumpString<&'a mut BumpT<UP>>);
impl<const UP: bool> StrOps for AdMut<'_, UP> {
    common_ops!();
    growable_ops!();
    fn cap(&self) -> usize {
        self.0.capacity()
    }
}

/// creates the real string of `kind` holding `text` in a fresh arena and hands it to `f`.
/// `ctor`: `None` = `from_str_in` / `alloc_str`; `Some(c)` = `with_capacity_in(c)` followed by `push_str(text)`
/// (a fixed string is always built with `with_capacity_in(c.max(text.len()))`)
pub fn with_string<const UP: bool>(kind: Kind, text: &str, ctor: Option<usize>, f: &mut dyn FnMut(Box<dyn StrOps + '_>)) {
    let mut bump: BumpT<UP> = Bump::new();
    match (kind, ctor) {
        (Kind::Box, _) => f(Box::new(AdBox(bump.alloc_str(text)))),
        (Kind::Fixed, c) => {
            let mut s = FixedBumpString::with_capacity_in(c.unwrap_or(0).max(text.len()), &bump);
            s.push_str(text);
            f(Box::new(AdFixed(s)))
        }
        (Kind::Bump, None) => f(Box::new(AdBump::<UP>(BumpString::from_str_in(text, &bump)))),
        (Kind::Bump, Some(c)) => {
            let mut s = BumpString::with_capacity_in(c, &bump);
            s.push_str(text);
            f(Box::new(AdBump::<UP>(s)))
        }
        (Kind::Mut, None) => f(Box::new(AdMut::<UP>(MutBumpString::from_str_in(text, &mut bump)))),
        (Kind::Mut, Some(c)) => {
            let mut s = MutBumpString::with_capacity_in(c.max(text.len()), &mut bump);
            s.push_str(text);
            f(Box::new(AdMut::<UP>(s)))
        }
    }
}
