// Decoding constructors and formatting — compared with std only (no model lines): they are built
// from `core`'s `from_utf8`, `utf8_chunks`, `decode_utf16` and `fmt` machinery plus `push`/`push_str`.

fn gen_bytes(rng: &mut Rng) -> Vec<u8> {
    // valid text with byte-level damage: truncated sequences, stray continuation bytes, overlong
    // forms, surrogates, bytes 0xF5..0xFF
    let mut v = gen_text(rng, 6).into_bytes();
    let damage = rng.below(4);
    for _ in 0..damage {
        let bad: &[&[u8]] = &[
            &[0x80], &[0xbf], &[0xc0, 0x80], &[0xc1, 0xbf], &[0xc3], &[0xe0, 0x80, 0x80], &[0xe2, 0x82], &[0xed, 0xa0, 0x80],
            &[0xed, 0xbf, 0xbf], &[0xf0, 0x80, 0x80, 0x80], &[0xf0, 0x9f, 0x98], &[0xf4, 0x90, 0x80, 0x80], &[0xf5], &[0xff], &[0xfe],
            &[0xe2], &[0xf0, 0x9f], &[0xf8, 0x88, 0x80, 0x80, 0x80],
        ];
        let pos = rng.below(v.len() as u64 + 1) as usize;
        match rng.below(3) {
            0 => {
                let b = *rng.pick(bad);
                for (k, x) in b.iter().enumerate() {
                    v.insert(pos + k, *x);
                }
            }
            1 if !v.is_empty() => {
                let p = rng.below(v.len() as u64) as usize;
                v.remove(p);
            }
            _ if !v.is_empty() => {
                let p = rng.below(v.len() as u64) as usize;
                v[p] = rng.below(256) as u8;
            }
            _ => {}
        }
    }
    v
}

fn gen_u16s(rng: &mut Rng) -> Vec<u16> {
    let mut v: Vec<u16> = gen_text(rng, 6).encode_utf16().collect();
    for _ in 0..rng.below(3) {
        let pos = rng.below(v.len() as u64 + 1) as usize;
        let x = match rng.below(4) {
            0 => 0xd800 + rng.below(0x400) as u16, // lone high surrogate
            1 => 0xdc00 + rng.below(0x400) as u16, // lone low surrogate
            2 => rng.below(0x10000) as u16,
            _ => 0xdbff,
        };
        v.insert(pos, x);
    }
    v
}

fn utf8_err_eq(a: core::str::Utf8Error, b: core::str::Utf8Error) -> bool {
    a.valid_up_to() == b.valid_up_to() && a.error_len() == b.error_len()
}

/// returns the counters line
fn decode_section(ctx: &mut Ctx, n: u64) -> String {
    let mut c_utf8 = [0u64; 2]; // ok, err
    let mut c_lossy = [0u64; 2]; // unchanged, replaced
    let mut c_utf16 = [0u64; 2];
    let mut c_fmt = 0u64;
    for _ in 0..n {
        let mut bump: Bump = Bump::new();
        // ---- from_utf8 (four types)
        let bytes = gen_bytes(&mut ctx.rng);
        let want = String::from_utf8(bytes.clone());
        c_utf8[want.is_err() as usize] += 1;
        let cmp = |ctx: &mut Ctx, what: &str, got: Result<Vec<u8>, (core::str::Utf8Error, Vec<u8>)>| {
            let same = match (&got, &want) {
                (Ok(g), Ok(w)) => g == w.as_bytes(),
                (Err((e, b)), Err(w)) => utf8_err_eq(*e, w.utf8_error()) && b == w.as_bytes(),
                _ => false,
            };
            if !same {
                ctx.oracle(format!("DECODE-MISMATCH {what} on {}: {:?} but std {:?}", hex(&bytes), got.as_ref().map(|g| hex(g)), want));
            }
            if let Ok(g) = &got {
                if core::str::from_utf8(g).is_err() {
                    ctx.oracle(format!("INVALID-UTF8 {what} accepted {}", hex(&bytes)));
                }
            }
        };
        let got = BumpString::from_utf8(BumpVec::from_iter_in(bytes.iter().copied(), &bump))
            .map(|s| s.as_bytes().to_vec())
            .map_err(|e| (e.utf8_error(), e.as_bytes().to_vec()));
        // modelled part: accept (unchanged) iff valid UTF-8
        let _ = writeln!(ctx.out, "op from_utf8 {} => {}", hex(&bytes), match &got {
            Ok(g) => format!("ok:{}", hex(g)),
            Err(_) => "err".to_string(),
        });
        cmp(ctx, "BumpString::from_utf8", got);
        let got = FixedBumpString::from_utf8(FixedBumpVec::from_init(bump.alloc_slice_copy(&bytes)))
            .map(|s| s.as_bytes().to_vec())
            .map_err(|e| (e.utf8_error(), e.as_bytes().to_vec()));
        cmp(ctx, "FixedBumpString::from_utf8", got);
        let got = BumpBox::<str>::from_utf8(bump.alloc_slice_copy(&bytes))
            .map(|s| s.as_bytes().to_vec())
            .map_err(|e| (e.utf8_error(), e.as_bytes().to_vec()));
        cmp(ctx, "BumpBox<str>::from_utf8", got);
        let got = MutBumpString::from_utf8(MutBumpVec::from_iter_in(bytes.iter().copied(), &mut bump))
            .map(|s| s.as_bytes().to_vec())
            .map_err(|e| (e.utf8_error(), e.as_bytes().to_vec()));
        cmp(ctx, "MutBumpString::from_utf8", got);
        // ---- from_utf8_lossy
        let want = String::from_utf8_lossy(&bytes).into_owned();
        c_lossy[(want.as_bytes() != &bytes[..]) as usize] += 1;
        let got = BumpString::from_utf8_lossy_in(&bytes, &bump).as_bytes().to_vec();
        if got != want.as_bytes() {
            ctx.oracle(format!("DECODE-MISMATCH BumpString::from_utf8_lossy_in on {}: {} but std {}", hex(&bytes), hex(&got), hex(want.as_bytes())));
        }
        let got = MutBumpString::from_utf8_lossy_in(&bytes, &mut bump).as_bytes().to_vec();
        if got != want.as_bytes() {
            ctx.oracle(format!("DECODE-MISMATCH MutBumpString::from_utf8_lossy_in on {}: {} but std {}", hex(&bytes), hex(&got), hex(want.as_bytes())));
        }
        // ---- from_utf16 / lossy
        let u = gen_u16s(&mut ctx.rng);
        let want = String::from_utf16(&u);
        c_utf16[want.is_err() as usize] += 1;
        let u_hex = hex(&u.iter().flat_map(|x| x.to_be_bytes()).collect::<Vec<u8>>());
        let _ = writeln!(ctx.out, "op from_utf16 {u_hex} => {}", match BumpString::from_utf16_in(&u, &bump) {
            Ok(s) => format!("ok:{}:{}", hex(s.as_bytes()), s.capacity()),
            Err(_) => "err".to_string(),
        });
        {
            let s = BumpString::from_utf16_lossy_in(&u, &bump);
            let _ = writeln!(ctx.out, "op from_utf16_lossy {u_hex} => ok:{}:{}", hex(s.as_bytes()), s.capacity());
        }
        let got = BumpString::from_utf16_in(&u, &bump).map(|s| s.as_bytes().to_vec()).map_err(|_| ());
        let w = want.as_ref().map(|s| s.as_bytes().to_vec()).map_err(|_| ());
        if got != w {
            ctx.oracle(format!("DECODE-MISMATCH BumpString::from_utf16_in on {u:04x?}: {got:?} but std {w:?}"));
        }
        let got = MutBumpString::from_utf16_in(&u, &mut bump).map(|s| s.as_bytes().to_vec()).map_err(|_| ());
        if got != w {
            ctx.oracle(format!("DECODE-MISMATCH MutBumpString::from_utf16_in on {u:04x?}: {got:?} but std {w:?}"));
        }
        let want = String::from_utf16_lossy(&u);
        let got = BumpString::from_utf16_lossy_in(&u, &bump).as_bytes().to_vec();
        if got != want.as_bytes() {
            ctx.oracle(format!("DECODE-MISMATCH BumpString::from_utf16_lossy_in on {u:04x?}: {} but std {}", hex(&got), hex(want.as_bytes())));
        }
        let got = MutBumpString::from_utf16_lossy_in(&u, &mut bump).as_bytes().to_vec();
        if got != want.as_bytes() {
            ctx.oracle(format!("DECODE-MISMATCH MutBumpString::from_utf16_lossy_in on {u:04x?}: {} but std {}", hex(&got), hex(want.as_bytes())));
        }
        // ---- formatting
        let a = gen_text(&mut ctx.rng, 4);
        let ch = gen_char(&mut ctx.rng);
        let num = ctx.rng.next() as i64;
        let fl = (ctx.rng.below(100000) as f64) / 37.0;
        let w = ctx.rng.below(12) as usize;
        macro_rules! templates {
            ($m:ident) => {
                [
                    $m!("{a}"),
                    $m!("{a}|{ch}|{num}"),
                    $m!("{a:>w$}|{a:<w$}|{a:^w$}"),
                    $m!("{a:?}/{ch:?}"),
                    $m!("{num:#x} {num:+} {fl:.3} {fl:e}"),
                    $m!("\u{20ac}{a:.2}\u{1f600}{ch:>w$}"),
                ]
            };
        }
        macro_rules! std_fmt {
            ($($t:tt)*) => { format!($($t)*) };
        }
        let wants: [String; 6] = templates!(std_fmt);
        macro_rules! alloc_fmt {
            ($($t:tt)*) => { bump.alloc_fmt(format_args!($($t)*)).as_bytes().to_vec() };
        }
        let gots: [Vec<u8>; 6] = templates!(alloc_fmt);
        for (g, w) in gots.iter().zip(&wants) {
            c_fmt += 1;
            if g != w.as_bytes() {
                ctx.oracle(format!("FORMAT-MISMATCH alloc_fmt: {} but std {}", hex(g), hex(w.as_bytes())));
            }
        }
        macro_rules! alloc_fmt_mut {
            ($($t:tt)*) => {{ let v = bump.alloc_fmt_mut(format_args!($($t)*)).as_bytes().to_vec(); v }};
        }
        let gots: [Vec<u8>; 6] = templates!(alloc_fmt_mut);
        for (g, w) in gots.iter().zip(&wants) {
            c_fmt += 1;
            if g != w.as_bytes() {
                ctx.oracle(format!("FORMAT-MISMATCH alloc_fmt_mut: {} but std {}", hex(g), hex(w.as_bytes())));
            }
        }
        // `write!` into an existing string of each growable/fixed type, and Display/Debug of the result
        let prefix = gen_text(&mut ctx.rng, 3);
        for kind in [Kind::Fixed, Kind::Bump, Kind::Mut] {
            let mut want = prefix.clone();
            let _ = write!(want, "{a}|{ch:?}|{num}|{a:>w$}");
            let cap = prefix.len() + ctx.rng.below(40) as usize;
            let fits = want.len() <= cap;
            let cfg = ctx.rng.below(4) as usize;
            with_config(cfg, kind, &prefix, Ctor::WithCap { cap, try_: false }, &mut |mut s| {
                let r = catch_unwind(AssertUnwindSafe(|| s.write_fmt_args(format_args!("{a}|{ch:?}|{num}|{a:>w$}"))));
                c_fmt += 1;
                let b = s.bytes();
                if core::str::from_utf8(&b).is_err() {
                    ctx.oracle(format!("INVALID-UTF8 kind={} after write! : {}", kind.name(), hex(&b)));
                    return;
                }
                match r {
                    Ok(Ok(())) => {
                        if b != want.as_bytes() {
                            ctx.oracle(format!("FORMAT-MISMATCH write! into {}: {} but std {}", kind.name(), hex(&b), hex(want.as_bytes())));
                        }
                        let (d, g) = s.display();
                        if d != format!("{want}") || g != format!("{want:?}") {
                            ctx.oracle(format!("FORMAT-MISMATCH Display/Debug of {}: {d:?} {g:?}", kind.name()));
                        }
                    }
                    Ok(Err(())) => {
                        // fmt::Error: only a fixed string that ran out of capacity; what was written is a prefix
                        if kind != Kind::Fixed || fits || !want.as_bytes().starts_with(&b) {
                            ctx.oracle(format!("FORMAT-MISMATCH write! into {} (cap {cap}) failed; contents {} std {}", kind.name(), hex(&b), hex(want.as_bytes())));
                        }
                    }
                    Err(_) => ctx.oracle(format!("PANIC-MISMATCH write! into {} panicked", kind.name())),
                }
            });
        }
    }
    ctx.cases += c_utf8[0] + c_utf8[1] + c_lossy[0] + c_lossy[1] + c_utf16[0] + c_utf16[1] + c_fmt;
    format!(
        "from_utf8 ok/err={}/{} (x4 types) lossy unchanged/replaced={}/{} (x2) utf16 ok/err={}/{} (x2, +lossy) formatting comparisons={}",
        c_utf8[0], c_utf8[1], c_lossy[0], c_lossy[1], c_utf16[0], c_utf16[1], c_fmt
    )
}
