//! Shared pieces of the verification harness: PRNG, argument parsing.

/// xorshift64* — the single source of randomness; seeded from `VERIF_SEED`.
#[derive(Clone)]
pub struct Rng(pub u64);

impl Rng {
    pub fn new(seed: u64) -> Self {
        let mut r = Rng(seed ^ 0x9E37_79B9_7F4A_7C15);
        if r.0 == 0 {
            r.0 = 0x1234_5678_9ABC_DEF1;
        }
        for _ in 0..8 {
            r.next();
        }
        r
    }
    pub fn next(&mut self) -> u64 {
        let mut x = self.0;
        x ^= x >> 12;
        x ^= x << 25;
        x ^= x >> 27;
        self.0 = x;
        x.wrapping_mul(0x2545_F491_4F6C_DD1D)
    }
    /// uniform in `0..n` (n > 0)
    pub fn below(&mut self, n: u64) -> u64 {
        self.next() % n
    }
    pub fn range(&mut self, lo: u64, hi_incl: u64) -> u64 {
        lo + self.below(hi_incl - lo + 1)
    }
    pub fn chance(&mut self, num: u64, den: u64) -> bool {
        self.below(den) < num
    }
    pub fn pick<'a, T>(&mut self, xs: &'a [T]) -> &'a T {
        &xs[self.below(xs.len() as u64) as usize]
    }
}

pub fn env_u64(name: &str, default: u64) -> u64 {
    std::env::var(name).ok().and_then(|s| s.parse().ok()).unwrap_or(default)
}

pub fn seed() -> u64 {
    env_u64("VERIF_SEED", 1)
}

pub mod base;
pub mod scope_ops;
