//! `ScopeOps`: a dyn-compatible facade over `BumpScope<'_, A, BumpSettings<..>>` so that the
//! (large, non-generic) trace generator / executor is compiled once, while the thin adapter
//! below is monomorphised per configuration.  Every method is one call into the real crate.

use std::alloc::Layout;
use std::ops::Range;
use std::ptr::NonNull;

use bump_scope::alloc::Allocator;
use bump_scope::settings::{Bool, BumpSettings, MinimumAlignment, SupportedMinimumAlignment};
use bump_scope::traits::{BumpAllocator, BumpAllocatorCore, BumpAllocatorScope, BumpAllocatorTyped};
use bump_scope::{BaseAllocator, BumpScope, Checkpoint, WithoutDealloc, WithoutShrink};

use crate::base::TestBase;

pub const DUMMY_ADDR: usize = 0x4000000000000050;

#[derive(Clone, Copy, PartialEq, Eq, Debug)]
pub enum Via {
    Plain,
    WithoutDealloc,
    WithoutShrink,
}

#[derive(Clone, Debug, Default, PartialEq, Eq)]
pub struct StatNums {
    pub count: usize,
    pub size: usize,
    pub capacity: usize,
    pub allocated: usize,
    pub remaining: usize,
}

#[derive(Clone, Debug, PartialEq, Eq)]
pub struct ChunkInfo {
    pub chunk_start: usize,
    pub chunk_end: usize,
    pub content_start: usize,
    pub content_end: usize,
    pub pos: usize,
    pub size: usize,
    pub capacity: usize,
    pub allocated: usize,
    pub remaining: usize,
}

#[derive(Clone, Debug, Default)]
pub struct Dump {
    pub claimed: bool,
    pub cur: Option<usize>, // index in small_to_big order
    pub typed: StatNums,
    pub any: StatNums,
    pub fwd: Vec<ChunkInfo>,
    pub bwd: Vec<ChunkInfo>,
    pub any_fwd: Vec<ChunkInfo>,
    pub any_bwd: Vec<ChunkInfo>,
    pub any_cur: Option<ChunkInfo>,
}

/// element types used for the typed entry points (size, align)
#[derive(Clone, Copy, Debug, PartialEq, Eq)]
pub enum Elem {
    U8,
    U16,
    U32,
    U64,
    U128,
    A32,
    B3,
    W5,
    Q9,
}

#[derive(Clone, Copy)]
#[repr(align(32))]
pub struct Al32(pub [u8; 32]);

impl Elem {
    pub const ALL: [Elem; 6] = [Elem::U8, Elem::U32, Elem::U64, Elem::A32, Elem::B3, Elem::Q9];
    pub const SLICEABLE: [Elem; 5] = [Elem::U8, Elem::U32, Elem::U64, Elem::A32, Elem::B3];
    pub fn layout(self) -> Layout {
        match self {
            Elem::U8 => Layout::new::<u8>(),
            Elem::U16 => Layout::new::<u16>(),
            Elem::U32 => Layout::new::<u32>(),
            Elem::U64 => Layout::new::<u64>(),
            Elem::U128 => Layout::new::<u128>(),
            Elem::A32 => Layout::new::<Al32>(),
            Elem::B3 => Layout::new::<[u8; 3]>(),
            Elem::W5 => Layout::new::<[u32; 5]>(),
            Elem::Q9 => Layout::new::<[u64; 9]>(),
        }
    }
}

/// which `Result<T, E>` instantiation `alloc_try_with` uses
#[derive(Clone, Copy, Debug, PartialEq, Eq)]
pub enum TryKind {
    U64U8,
    U8U64,
    U32U32,
    A32U8,
    U8U8,
    B5U8,
    U16U8,
}

pub struct TryInfo {
    pub layout: Layout,
    pub off: usize,
    pub vsize: usize,
}

fn try_info<T: Copy, E: Copy>(v: T) -> TryInfo {
    let r: Result<T, E> = Ok(v);
    let base = &r as *const _ as usize;
    let off = match &r {
        Ok(x) => x as *const T as usize - base,
        Err(_) => 0,
    };
    TryInfo { layout: Layout::new::<Result<T, E>>(), off, vsize: size_of::<T>() }
}

impl TryKind {
    pub const ALL: [TryKind; 7] = [TryKind::U64U8, TryKind::U8U64, TryKind::A32U8, TryKind::U32U32, TryKind::U8U8, TryKind::B5U8, TryKind::U16U8];
    pub fn info(self) -> TryInfo {
        match self {
            TryKind::U64U8 => try_info::<u64, u8>(0),
            TryKind::U8U64 => try_info::<u8, u64>(0),
            TryKind::U32U32 => try_info::<u32, u32>(0),
            TryKind::A32U8 => try_info::<Al32, u8>(Al32([0; 32])),
            TryKind::U8U8 => try_info::<u8, u8>(0),
            TryKind::B5U8 => try_info::<[u8; 5], u8>([0; 5]),
            TryKind::U16U8 => try_info::<u16, u8>(0),
        }
    }
}

type R<T> = Result<T, ()>;

pub trait ScopeOps {
    fn x_min_align(&self) -> usize;
    fn x_up(&self) -> bool;
    /// `entry`: 0 BumpScope, 1 &BumpScope, 2 &mut-reborrow, 3 dyn BumpAllocatorCore
    fn x_allocate(&self, l: Layout, zeroed: bool, via: Via, entry: u8) -> R<(usize, usize)>;
    fn x_deallocate(&self, ptr: usize, l: Layout, via: Via, entry: u8);
    fn x_grow(&self, ptr: usize, old: Layout, new: Layout, zeroed: bool, via: Via, entry: u8) -> R<(usize, usize)>;
    fn x_shrink(&self, ptr: usize, old: Layout, new: Layout, via: Via, entry: u8) -> R<(usize, usize)>;
    fn x_alloc_layout(&self, l: Layout, mode: u8) -> R<usize>;
    fn x_alloc_sized(&self, e: Elem, mode: u8) -> R<usize>;
    fn x_alloc_slice(&self, e: Elem, len: usize, mode: u8) -> R<usize>;
    fn x_shrink_slice(&self, e: Elem, ptr: usize, old_len: usize, new_len: usize) -> Option<usize>;
    fn x_prepare(&self, l: Layout, dyn_: bool) -> R<(usize, usize)>;
    fn x_commit(&self, l: Layout, range: (usize, usize), rev: bool, dyn_: bool) -> usize;
    /// returns (pointer, cap): pointer = start of slots (forward) / end of slots (rev)
    fn x_prepare_slice(&self, e: Elem, cap: usize, rev: bool, dyn_: bool) -> R<(usize, usize)>;
    fn x_commit_slice(&self, e: Elem, ptr: usize, len: usize, cap: usize, rev: bool, dyn_: bool) -> (usize, usize);
    fn x_reserve(&self, n: usize, dyn_: bool) -> R<()>;
    fn x_checkpoint(&self) -> Checkpoint;
    fn x_reset_to(&self, cp: Checkpoint);
    fn x_is_claimed(&self) -> bool;
    fn x_dump(&self) -> Dump;
    /// mode 0: `scoped(closure)`, 1: `scope_guard()` + drop, 2: `scope_guard()` + `reset()` + drop
    fn x_scoped(&mut self, mode: u8, f: &mut dyn FnMut(&mut dyn ScopeOps));
    fn x_aligned(&mut self, n: usize, f: &mut dyn FnMut(&mut dyn ScopeOps));
    fn x_scoped_aligned(&mut self, n: usize, f: &mut dyn FnMut(&mut dyn ScopeOps));
    /// `self.by_value().with_settings::<MIN_ALIGN = n>()` (n ≥ current minimum alignment, arena allocated)
    fn x_by_value_with_settings(&mut self, n: usize, f: &mut dyn FnMut(&mut dyn ScopeOps));
    /// `f(claimant, original)`; both views are usable while the claim guard lives
    fn x_claim(&mut self, f: &mut dyn FnMut(&mut dyn ScopeOps, &dyn ScopeOps));
    /// second `claim()` on an already claimed handle: must panic
    fn x_claim_again_panics(&self) -> bool;
    /// `try_alloc_try_with(_mut)`: `inner` is run inside the closure with a view of the same arena
    /// (only for the non-mut variant); returns Ok(Some(value ptr)) / Ok(None) for closure-Err / Err(())
    fn x_try_with(&mut self, k: TryKind, ok: bool, mut_: bool, inner: &mut dyn FnMut(&dyn ScopeOps)) -> R<Option<usize>>;
    /// one entry point of the high-level typed family (`BumpAllocatorTypedScope` / `MutBumpAllocatorTypedScope`);
    /// `hook` is called with a view of the handle at the moments described by `FamEvent`
    fn x_family(&mut self, q: &FamReq, hook: &mut dyn FnMut(&dyn ScopeOps, FamEvent)) -> FamRes;
}

fn nn(p: usize) -> NonNull<u8> {
    NonNull::new(p as *mut u8).unwrap()
}

fn res(r: Result<NonNull<[u8]>, bump_scope::alloc::AllocError>) -> R<(usize, usize)> {
    r.map(|p| (p.cast::<u8>().as_ptr() as usize, p.len())).map_err(|_| ())
}

macro_rules! with_entry {
    ($self:ident, $via:ident, $entry:ident, |$a:ident| $body:expr) => {{
        match $via {
            Via::Plain => match $entry {
                0 => {
                    let $a = &*$self;
                    $body
                }
                1 => {
                    let r = &*$self;
                    let $a = &r;
                    $body
                }
                2 => {
                    let r = &*$self;
                    let rr = &r;
                    let $a = &rr;
                    $body
                }
                _ => {
                    let $a: &dyn BumpAllocatorCore = &*$self;
                    $body
                }
            },
            Via::WithoutDealloc => {
                let $a = WithoutDealloc(&*$self);
                let $a = &$a;
                $body
            }
            Via::WithoutShrink => {
                let $a = WithoutShrink(&*$self);
                let $a = &$a;
                $body
            }
        }
    }};
}

macro_rules! for_elem {
    ($e:expr, $T:ident => $body:expr) => {
        match $e {
            Elem::U8 => {
                type $T = u8;
                $body
            }
            Elem::U16 | Elem::U128 | Elem::W5 => unreachable!("element type not instantiated"),
            Elem::U32 => {
                type $T = u32;
                $body
            }
            Elem::U64 => {
                type $T = u64;
                $body
            }

            Elem::A32 => {
                type $T = Al32;
                $body
            }
            Elem::B3 => {
                type $T = [u8; 3];
                $body
            }

            Elem::Q9 => {
                type $T = [u64; 9];
                $body
            }
        }
    };
}

fn chunk_info<A, S: bump_scope::settings::BumpAllocatorSettings>(c: bump_scope::stats::Chunk<'_, A, S>) -> ChunkInfo {
    ChunkInfo {
        chunk_start: c.chunk_start().as_ptr() as usize,
        chunk_end: c.chunk_end().as_ptr() as usize,
        content_start: c.content_start().as_ptr() as usize,
        content_end: c.content_end().as_ptr() as usize,
        pos: c.bump_position().as_ptr() as usize,
        size: c.size(),
        capacity: c.capacity(),
        allocated: c.allocated(),
        remaining: c.remaining(),
    }
}

fn any_chunk_info(c: bump_scope::stats::AnyChunk<'_>) -> ChunkInfo {
    ChunkInfo {
        chunk_start: c.chunk_start().as_ptr() as usize,
        chunk_end: c.chunk_end().as_ptr() as usize,
        content_start: c.content_start().as_ptr() as usize,
        content_end: c.content_end().as_ptr() as usize,
        pos: c.bump_position().as_ptr() as usize,
        size: c.size(),
        capacity: c.capacity(),
        allocated: c.allocated(),
        remaining: c.remaining(),
    }
}

impl<'a, A, const MA: usize, const UP: bool, const GA: bool, const DE: bool, const SH: bool, const MCS: usize> ScopeOps
    for BumpScope<'a, A, BumpSettings<MA, UP, GA, true, DE, SH, MCS>>
where
    A: TestBase + BaseAllocator<Bool<GA>>,
    MinimumAlignment<MA>: SupportedMinimumAlignment,
    for<'x> BumpScope<'x, A, BumpSettings<MA, UP, GA, true, DE, SH, MCS>>: ByValueRaise,
{
    fn x_min_align(&self) -> usize {
        MA
    }
    fn x_up(&self) -> bool {
        UP
    }
    fn x_allocate(&self, l: Layout, zeroed: bool, via: Via, entry: u8) -> R<(usize, usize)> {
        with_entry!(self, via, entry, |a| res(if zeroed { a.allocate_zeroed(l) } else { a.allocate(l) }))
    }
    fn x_deallocate(&self, ptr: usize, l: Layout, via: Via, entry: u8) {
        with_entry!(self, via, entry, |a| unsafe { a.deallocate(nn(ptr), l) })
    }
    fn x_grow(&self, ptr: usize, old: Layout, new: Layout, zeroed: bool, via: Via, entry: u8) -> R<(usize, usize)> {
        with_entry!(self, via, entry, |a| res(unsafe { if zeroed { a.grow_zeroed(nn(ptr), old, new) } else { a.grow(nn(ptr), old, new) } }))
    }
    fn x_shrink(&self, ptr: usize, old: Layout, new: Layout, via: Via, entry: u8) -> R<(usize, usize)> {
        with_entry!(self, via, entry, |a| res(unsafe { a.shrink(nn(ptr), old, new) }))
    }
    fn x_alloc_layout(&self, l: Layout, mode: u8) -> R<usize> {
        // mode 0: try_ method, 1: through dyn BumpAllocatorCore, 2: panicking twin, 3: panicking twin through dyn
        match mode {
            1 => {
                let d: &dyn BumpAllocatorCore = &*self;
                d.try_allocate_layout(l).map(|p| p.as_ptr() as usize).map_err(|_| ())
            }
            2 => Ok(self.allocate_layout(l).as_ptr() as usize),
            3 => {
                let d: &dyn BumpAllocatorCore = &*self;
                Ok(d.allocate_layout(l).as_ptr() as usize)
            }
            _ => self.try_allocate_layout(l).map(|p| p.as_ptr() as usize).map_err(|_| ()),
        }
    }
    fn x_alloc_sized(&self, e: Elem, mode: u8) -> R<usize> {
        for_elem!(e, T => match mode {
            1 => {
                let d: &dyn BumpAllocatorCore = &*self;
                d.try_allocate_sized::<T>().map(|p| p.as_ptr() as usize).map_err(|_| ())
            }
            2 => Ok(self.allocate_sized::<T>().as_ptr() as usize),
            _ => self.try_allocate_sized::<T>().map(|p| p.as_ptr() as usize).map_err(|_| ()),
        })
    }
    fn x_alloc_slice(&self, e: Elem, len: usize, mode: u8) -> R<usize> {
        for_elem!(e, T => match mode {
            1 => {
                let d: &dyn BumpAllocatorCore = &*self;
                d.try_allocate_slice::<T>(len).map(|p| p.as_ptr() as usize).map_err(|_| ())
            }
            2 => Ok(self.allocate_slice::<T>(len).as_ptr() as usize),
            3 => {
                // `try_allocate_slice_for(&[T])`: a real (zeroed) slice of `len` elements as the template
                let l = Layout::array::<T>(len).map_err(|_| ())?;
                if l.size() == 0 || l.size() > 1 << 22 {
                    return self.try_allocate_slice::<T>(len).map(|p| p.as_ptr() as usize).map_err(|_| ());
                }
                unsafe {
                    let mem = std::alloc::alloc_zeroed(l);
                    let template = std::slice::from_raw_parts(mem as *const T, len);
                    let r = self.try_allocate_slice_for::<T>(template).map(|p| p.as_ptr() as usize).map_err(|_| ());
                    std::alloc::dealloc(mem, l);
                    r
                }
            }
            _ => self.try_allocate_slice::<T>(len).map(|p| p.as_ptr() as usize).map_err(|_| ()),
        })
    }
    fn x_shrink_slice(&self, e: Elem, ptr: usize, old_len: usize, new_len: usize) -> Option<usize> {
        for_elem!(e, T => unsafe {
            BumpAllocatorTyped::shrink_slice::<T>(&*self, NonNull::new(ptr as *mut T).unwrap(), old_len, new_len).map(|p| p.as_ptr() as usize)
        })
    }
    fn x_prepare(&self, l: Layout, dyn_: bool) -> R<(usize, usize)> {
        let r: Result<Range<NonNull<u8>>, _> = if dyn_ {
            let d: &dyn BumpAllocatorCore = &*self;
            d.prepare_allocation(l)
        } else {
            BumpAllocatorCore::prepare_allocation(&*self, l)
        };
        r.map(|r| (r.start.as_ptr() as usize, r.end.as_ptr() as usize)).map_err(|_| ())
    }
    fn x_commit(&self, l: Layout, range: (usize, usize), rev: bool, dyn_: bool) -> usize {
        let r = nn(range.0)..nn(range.1);
        unsafe {
            let p = if dyn_ {
                let d: &dyn BumpAllocatorCore = &*self;
                if rev { d.allocate_prepared_rev(l, r) } else { d.allocate_prepared(l, r) }
            } else if rev {
                BumpAllocatorCore::allocate_prepared_rev(&*self, l, r)
            } else {
                BumpAllocatorCore::allocate_prepared(&*self, l, r)
            };
            p.as_ptr() as usize
        }
    }
    fn x_prepare_slice(&self, e: Elem, cap: usize, rev: bool, dyn_: bool) -> R<(usize, usize)> {
        for_elem!(e, T => if dyn_ {
            let d: &dyn BumpAllocatorCore = &*self;
            if rev {
                d.try_prepare_slice_allocation_rev::<T>(cap).map(|(p, c)| (p.as_ptr() as usize, c)).map_err(|_| ())
            } else {
                d.try_prepare_slice_allocation::<T>(cap).map(|p| (p.cast::<T>().as_ptr() as usize, p.len())).map_err(|_| ())
            }
        } else if rev {
            self.try_prepare_slice_allocation_rev::<T>(cap).map(|(p, c)| (p.as_ptr() as usize, c)).map_err(|_| ())
        } else {
            self.try_prepare_slice_allocation::<T>(cap).map(|p| (p.cast::<T>().as_ptr() as usize, p.len())).map_err(|_| ())
        })
    }
    fn x_commit_slice(&self, e: Elem, ptr: usize, len: usize, cap: usize, rev: bool, dyn_: bool) -> (usize, usize) {
        for_elem!(e, T => unsafe {
            let p = NonNull::new(ptr as *mut T).unwrap();
            let s = if dyn_ {
                let d: &dyn BumpAllocatorCore = &*self;
                if rev { d.allocate_prepared_slice_rev::<T>(p, len, cap) } else { d.allocate_prepared_slice::<T>(p, len, cap) }
            } else if rev {
                self.allocate_prepared_slice_rev::<T>(p, len, cap)
            } else {
                self.allocate_prepared_slice::<T>(p, len, cap)
            };
            (s.cast::<T>().as_ptr() as usize, s.len())
        })
    }
    fn x_reserve(&self, n: usize, dyn_: bool) -> R<()> {
        if dyn_ {
            let d: &dyn BumpAllocatorCore = &*self;
            d.try_reserve(n).map_err(|_| ())
        } else {
            self.try_reserve(n).map_err(|_| ())
        }
    }
    fn x_checkpoint(&self) -> Checkpoint {
        BumpAllocatorCore::checkpoint(&*self)
    }
    fn x_reset_to(&self, cp: Checkpoint) {
        unsafe { BumpAllocatorCore::reset_to(&*self, cp) }
    }
    fn x_is_claimed(&self) -> bool {
        BumpAllocatorCore::is_claimed(self)
    }
    fn x_dump(&self) -> Dump {
        let st = self.stats();
        let any = self.any_stats();
        let fwd: Vec<ChunkInfo> = st.small_to_big().map(chunk_info).collect();
        let bwd: Vec<ChunkInfo> = st.big_to_small().map(chunk_info).collect();
        let cur = st.current_chunk().map(chunk_info).and_then(|c| fwd.iter().position(|x| *x == c));
        Dump {
            claimed: BumpAllocatorCore::is_claimed(self),
            cur,
            typed: StatNums { count: st.count(), size: st.size(), capacity: st.capacity(), allocated: st.allocated(), remaining: st.remaining() },
            any: StatNums { count: any.count(), size: any.size(), capacity: any.capacity(), allocated: any.allocated(), remaining: any.remaining() },
            fwd,
            bwd,
            any_fwd: any.small_to_big().map(any_chunk_info).collect(),
            any_bwd: any.big_to_small().map(any_chunk_info).collect(),
            any_cur: any.current_chunk().map(any_chunk_info),
        }
    }
    fn x_scoped(&mut self, mode: u8, f: &mut dyn FnMut(&mut dyn ScopeOps)) {
        match mode {
            0 => BumpAllocator::scoped(self, |inner| f(inner)),
            1 => {
                let mut guard = self.scope_guard();
                f(guard.scope());
            }
            _ => {
                let mut guard = self.scope_guard();
                f(guard.scope());
                guard.reset();
            }
        }
    }
    fn x_aligned(&mut self, n: usize, f: &mut dyn FnMut(&mut dyn ScopeOps)) {
        match n {
            1 => BumpAllocatorScope::aligned::<1, _>(self, |inner| f(inner)),
            2 => BumpAllocatorScope::aligned::<2, _>(self, |inner| f(inner)),
            4 => BumpAllocatorScope::aligned::<4, _>(self, |inner| f(inner)),
            8 => BumpAllocatorScope::aligned::<8, _>(self, |inner| f(inner)),
            _ => BumpAllocatorScope::aligned::<16, _>(self, |inner| f(inner)),
        }
    }
    fn x_scoped_aligned(&mut self, n: usize, f: &mut dyn FnMut(&mut dyn ScopeOps)) {
        match n {
            1 => BumpAllocator::scoped_aligned::<1, _>(self, |inner| f(inner)),
            2 => BumpAllocator::scoped_aligned::<2, _>(self, |inner| f(inner)),
            4 => BumpAllocator::scoped_aligned::<4, _>(self, |inner| f(inner)),
            8 => BumpAllocator::scoped_aligned::<8, _>(self, |inner| f(inner)),
            _ => BumpAllocator::scoped_aligned::<16, _>(self, |inner| f(inner)),
        }
    }
    fn x_by_value_with_settings(&mut self, n: usize, f: &mut dyn FnMut(&mut dyn ScopeOps)) {
        ByValueRaise::raise(self, n, f)
    }
    fn x_claim(&mut self, f: &mut dyn FnMut(&mut dyn ScopeOps, &dyn ScopeOps)) {
        // the original handle stays usable through `&BumpScope` while the guard lives
        let orig: &Self = &*self;
        let mut guard = orig.claim();
        f(&mut *guard, orig);
    }
    fn x_claim_again_panics(&self) -> bool {
        let orig: &Self = self;
        std::panic::catch_unwind(std::panic::AssertUnwindSafe(|| {
            let g = orig.claim();
            drop(g);
        }))
        .is_err()
    }
    fn x_try_with(&mut self, k: TryKind, ok: bool, mut_: bool, inner: &mut dyn FnMut(&dyn ScopeOps)) -> R<Option<usize>> {
        macro_rules! go {
            ($T:ty, $E:ty, $tv:expr, $ev:expr) => {{
                if mut_ {
                    let r = self.try_alloc_try_with_mut(|| -> Result<$T, $E> { if ok { Ok($tv) } else { Err($ev) } });
                    match r {
                        Err(_) => Err(()),
                        Ok(Ok(b)) => Ok(Some(bump_scope::BumpBox::into_raw(b).as_ptr() as usize)),
                        Ok(Err(_)) => Ok(None),
                    }
                } else {
                    let this: &Self = &*self;
                    let r = this.try_alloc_try_with(|| -> Result<$T, $E> {
                        inner(this);
                        if ok { Ok($tv) } else { Err($ev) }
                    });
                    match r {
                        Err(_) => Err(()),
                        Ok(Ok(b)) => Ok(Some(bump_scope::BumpBox::into_raw(b).as_ptr() as usize)),
                        Ok(Err(_)) => Ok(None),
                    }
                }
            }};
        }
        match k {
            TryKind::U64U8 => go!(u64, u8, 0x1122334455667788, 7),
            TryKind::U8U64 => go!(u8, u64, 9, 0x8877665544332211),
            TryKind::U32U32 => go!(u32, u32, 0x11223344, 0x55667788),
            TryKind::A32U8 => go!(Al32, u8, Al32([0x5A; 32]), 3),
            TryKind::U8U8 => go!(u8, u8, 0x42, 7),
            TryKind::B5U8 => go!([u8; 5], u8, [1, 2, 3, 4, 5], 9),
            TryKind::U16U8 => go!(u16, u8, 0x1234, 5),
        }
    }
    fn x_family(&mut self, q: &FamReq, hook: &mut dyn FnMut(&dyn ScopeOps, FamEvent)) -> FamRes {
        run_family::<Self>(self, q, hook)
    }
}

/// `scope.by_value().with_settings::<MIN_ALIGN = n>()` for n ≥ the current minimum alignment.
/// (`with_settings` const-asserts `NEW_MIN_ALIGN >= MIN_ALIGN`, so only the admissible pairs may be
/// instantiated: one impl per current alignment, listing the targets.)
pub trait ByValueRaise {
    fn raise(&mut self, n: usize, f: &mut dyn FnMut(&mut dyn ScopeOps));
}

macro_rules! impl_raise {
    ($MA:literal => [$($N:literal),*]) => {
        impl<'a, A, const UP: bool, const GA: bool, const DE: bool, const SH: bool, const MCS: usize> ByValueRaise
            for BumpScope<'a, A, BumpSettings<$MA, UP, GA, true, DE, SH, MCS>>
        where
            A: TestBase + BaseAllocator<Bool<GA>>,
        {
            fn raise(&mut self, n: usize, f: &mut dyn FnMut(&mut dyn ScopeOps)) {
                match n {
                    $($N => {
                        if let Ok(scope) = self.try_by_value() {
                            let mut raised = scope.with_settings::<BumpSettings<$N, UP, GA, true, DE, SH, MCS>>();
                            f(&mut raised);
                        }
                    })*
                    _ => {}
                }
            }
        }
    };
}
impl_raise!(1 => [1, 2, 4, 8, 16]);
impl_raise!(2 => [2, 4, 8, 16]);
impl_raise!(4 => [4, 8, 16]);
impl_raise!(8 => [8, 16]);
impl_raise!(16 => [16]);

// =================================================================================================
// The high-level typed family (`BumpAllocatorTypedScope` / `MutBumpAllocatorTypedScope`).
//
// `x_family` runs ONE entry point of the family on the handle.  The executor (arena_inc/family.rs)
// works on bytes; here the bytes are turned into typed sources (values, slices, strs, closures,
// iterators), the real method is called and the returned box is dropped / leaked.
//
// Compile-time budget: the complete cross product (entry point x element type x try_/panicking twin)
// is instantiated ONCE, for `dyn BumpAllocatorCoreScope` / `dyn MutBumpAllocatorCoreScope`
// (`fam_dyn`, `fam_dyn_mut`: not generic over the configuration).  Per configuration only a small
// covering subset is instantiated for the static handle types (`fam_lite*`).

use std::cell::{Cell, RefCell};
use std::collections::BTreeMap;
use std::marker::PhantomData;

use bump_scope::BumpBox;
use bump_scope::traits::{BumpAllocatorCoreScope, BumpAllocatorTypedScope, MutBumpAllocatorCoreScope, MutBumpAllocatorTypedScope};

/// entry points of the family
#[derive(Clone, Copy, Debug, PartialEq, Eq)]
pub enum Fam {
    Alloc,
    AllocWith,
    AllocDefault,
    AllocUninit,
    SliceCopy,
    SliceClone,
    SliceFill,
    SliceFillWith,
    SliceMove,
    Str,
    CStr,
    CStrFromStr,
    UninitSlice,
    UninitSliceFor,
    IterExact,
    Iter,
    IterMut,
    IterMutRev,
}

impl Fam {
    pub const ALL: [Fam; 18] = [
        Fam::Alloc,
        Fam::AllocWith,
        Fam::AllocDefault,
        Fam::AllocUninit,
        Fam::SliceCopy,
        Fam::SliceClone,
        Fam::SliceFill,
        Fam::SliceFillWith,
        Fam::SliceMove,
        Fam::Str,
        Fam::CStr,
        Fam::CStrFromStr,
        Fam::UninitSlice,
        Fam::UninitSliceFor,
        Fam::IterExact,
        Fam::Iter,
        Fam::IterMut,
        Fam::IterMutRev,
    ];
    /// needs `&mut self` (goes through `MutBumpVec(Rev)`: prepare + allocate_prepared_slice(_rev))
    pub fn is_mut(self) -> bool {
        matches!(self, Fam::IterMut | Fam::IterMutRev)
    }
    /// allocates a single value (layout of T) rather than a slice
    pub fn is_value(self) -> bool {
        matches!(self, Fam::Alloc | Fam::AllocWith | Fam::AllocDefault | Fam::AllocUninit)
    }
    /// built on `BumpVec::with_capacity_in`: no allocator call at all for an empty source, deallocates on unwind
    pub fn via_bump_vec(self) -> bool {
        matches!(self, Fam::SliceMove | Fam::IterExact | Fam::Iter)
    }
    pub fn is_text(self) -> bool {
        matches!(self, Fam::Str | Fam::CStr | Fam::CStrFromStr)
    }
    /// element types the entry point is instantiated with (through `dyn`; see `fam_lite` for the static subset)
    pub fn elems(self) -> &'static [FElem] {
        use FElem::*;
        match self {
            Fam::Alloc | Fam::AllocWith | Fam::AllocUninit => &[U8, U32, U64, A32, B3, Q9, Trk, Zst, Z8, Unit],
            Fam::AllocDefault => &[U32, U64, Trk, Zst, Z8, Unit],
            Fam::SliceCopy | Fam::UninitSlice => &[U8, U32, U64, A32, B3, Z8, Unit],
            Fam::SliceClone | Fam::SliceFill | Fam::SliceFillWith | Fam::SliceMove | Fam::UninitSliceFor | Fam::IterExact | Fam::Iter | Fam::IterMut | Fam::IterMutRev => {
                &[U8, U32, U64, A32, B3, Trk, Zst, Z8, Unit]
            }
            Fam::Str | Fam::CStr | Fam::CStrFromStr => &[U8],
        }
    }
    pub fn name(self) -> &'static str {
        match self {
            Fam::Alloc => "fam:alloc",
            Fam::AllocWith => "fam:alloc_with",
            Fam::AllocDefault => "fam:alloc_default",
            Fam::AllocUninit => "fam:alloc_uninit+init",
            Fam::SliceCopy => "fam:alloc_slice_copy",
            Fam::SliceClone => "fam:alloc_slice_clone",
            Fam::SliceFill => "fam:alloc_slice_fill",
            Fam::SliceFillWith => "fam:alloc_slice_fill_with",
            Fam::SliceMove => "fam:alloc_slice_move",
            Fam::Str => "fam:alloc_str",
            Fam::CStr => "fam:alloc_cstr",
            Fam::CStrFromStr => "fam:alloc_cstr_from_str",
            Fam::UninitSlice => "fam:alloc_uninit_slice+init_copy",
            Fam::UninitSliceFor => "fam:alloc_uninit_slice_for+init_move",
            Fam::IterExact => "fam:alloc_iter_exact",
            Fam::Iter => "fam:alloc_iter",
            Fam::IterMut => "fam:alloc_iter_mut",
            Fam::IterMutRev => "fam:alloc_iter_mut_rev",
        }
    }
}

/// element types of the family: the plain ones of `Elem` plus an instrumented 16-byte / 16-aligned
/// type with drop accounting (`Trk`) and an instrumented zero-sized type (`TrkZ`)
#[derive(Clone, Copy, Debug, PartialEq, Eq)]
pub enum FElem {
    U8,
    U32,
    U64,
    A32,
    B3,
    Q9,
    Trk,
    /// `TrkZ`: zero-sized, align 1, drop accounting
    Zst,
    /// `[u64; 0]`: zero-sized, `Copy`, align 8 (a zero-sized request that reaches the allocator pads the position)
    Z8,
    /// `()`: zero-sized, `Copy`, align 1
    Unit,
}

impl FElem {
    pub fn layout(self) -> Layout {
        match self {
            FElem::U8 => Layout::new::<u8>(),
            FElem::U32 => Layout::new::<u32>(),
            FElem::U64 => Layout::new::<u64>(),
            FElem::A32 => Layout::new::<Al32>(),
            FElem::B3 => Layout::new::<[u8; 3]>(),
            FElem::Q9 => Layout::new::<[u64; 9]>(),
            FElem::Trk => Layout::new::<Trk>(),
            FElem::Zst => Layout::new::<TrkZ>(),
            FElem::Z8 => Layout::new::<[u64; 0]>(),
            FElem::Unit => Layout::new::<()>(),
        }
    }
    /// the `Elem` under which a slice block of this type can later be handed to `shrink_slice`
    pub fn as_elem(self) -> Option<Elem> {
        match self {
            FElem::U8 => Some(Elem::U8),
            FElem::U32 => Some(Elem::U32),
            FElem::U64 => Some(Elem::U64),
            FElem::A32 => Some(Elem::A32),
            FElem::B3 => Some(Elem::B3),
            _ => None,
        }
    }
    pub fn tracked(self) -> bool {
        matches!(self, FElem::Trk | FElem::Zst)
    }
}

pub struct FamReq<'r> {
    pub ep: Fam,
    pub elem: FElem,
    /// number of elements (slices / iterators); text: number of bytes without the NUL
    pub len: usize,
    /// the source values, `len * size_of::<T>()` bytes (at least one element for value entry points and `alloc_slice_fill`);
    /// empty when `huge`
    pub src: &'r [u8],
    /// the panicking twin instead of `try_…`
    pub panicking: bool,
    /// 0: the handle itself (`BumpScope`), 1: `&BumpScope` as the implementor, 2: `&mut BumpScope` as the implementor,
    /// 3: `dyn (Mut)BumpAllocatorCoreScope`
    pub entry: u8,
    /// what happens to the returned `BumpBox`: 0 dropped, 1 `into_raw`, 2 `leak`
    pub keep: u8,
    /// `alloc_slice_move`: 0 `Vec<T>`, 1 `Box<[T]>`, 2 `&mut Vec<T>`
    pub owned: u8,
    /// `alloc_iter_exact`: number of items the `ExactSizeIterator` really yields (`len` is what its `len()` announces;
    /// equal for a truthful iterator, smaller = over-reporting, bigger = under-reporting)
    pub avail: usize,
    /// a request that cannot succeed: no source is materialised (only for entry points that do not need one up front)
    pub huge: bool,
}

#[derive(Clone, Copy, Debug, PartialEq, Eq)]
pub struct FamOk {
    pub ptr: usize,
    pub len: usize,
}
pub type FamRes = Result<FamOk, ()>;

pub enum FamEvent {
    /// the first user callback (closure / Clone / Default / Iterator::next) of the call is about to run:
    /// the allocation (if the entry point allocates before its callbacks) has happened, nothing else has
    FirstCallback,
    /// `alloc_iter_mut(_rev)`: result of the same `try_prepare_slice_allocation(_rev)::<T>(len)` the entry point
    /// is about to issue, observed on the unchanged state: (pointer, capacity)
    Prepared(R<(usize, usize)>),
}

// ---- instrumentation (thread local; the callbacks carry no state of their own)

/// payload of the injected panics (raised with `resume_unwind`: the panic hook stays silent)
pub struct FamPanic;

#[derive(Default)]
pub struct FamTl {
    src: Vec<u8>,
    total: usize,
    rev: bool,
    fuse: Option<usize>,
    pub calls: usize,
    pub fused: bool,
    /// created - dropped per value (the 16 content bytes identify a value up to multiplicity)
    balance: BTreeMap<[u8; 16], i64>,
    pub created: u64,
    pub dropped: u64,
    pub zst_created: u64,
    pub zst_dropped: u64,
    pub errors: Vec<String>,
}

thread_local! {
    static FAM_TL: RefCell<FamTl> = RefCell::new(FamTl::default());
    static FAM_HOOK: Cell<Option<*mut (dyn FnMut() + 'static)>> = const { Cell::new(None) };
}

/// arms the instrumentation for one call: callbacks produce the elements of `src` (in reverse index order if `rev`),
/// the callback number `fuse` (0-based) panics instead
pub fn fam_begin(src: &[u8], total: usize, rev: bool, fuse: Option<usize>) {
    FAM_TL.with(|t| {
        *t.borrow_mut() = FamTl { src: src.to_vec(), total, rev, fuse, ..Default::default() };
    });
}

pub struct FamReport {
    pub calls: usize,
    pub fused: bool,
    pub created: u64,
    pub dropped: u64,
    pub zst_created: u64,
    pub zst_dropped: u64,
    /// values whose created - dropped count is not zero
    pub unbalanced: Vec<([u8; 16], i64)>,
    pub errors: Vec<String>,
}

pub fn fam_end() -> FamReport {
    FAM_TL.with(|t| {
        let t = std::mem::take(&mut *t.borrow_mut());
        FamReport {
            calls: t.calls,
            fused: t.fused,
            created: t.created,
            dropped: t.dropped,
            zst_created: t.zst_created,
            zst_dropped: t.zst_dropped,
            unbalanced: t.balance.into_iter().filter(|(_, v)| *v != 0).collect(),
            errors: t.errors,
        }
    })
}

struct HookGuard;
impl Drop for HookGuard {
    fn drop(&mut self) {
        FAM_HOOK.with(|h| h.set(None));
    }
}

fn with_hook<R>(f: &mut dyn FnMut(), body: impl FnOnce() -> R) -> R {
    let p: *mut (dyn FnMut() + '_) = f;
    // lifetime erasure: the guard removes the pointer before `f` goes out of scope (also on unwind)
    let p: *mut (dyn FnMut() + 'static) = unsafe { std::mem::transmute(p) };
    FAM_HOOK.with(|h| h.set(Some(p)));
    let _g = HookGuard;
    body()
}

/// every user callback goes through here: returns the index of the element to produce
fn fam_callback() -> usize {
    let (first, fire, idx) = FAM_TL.with(|t| {
        let mut t = t.borrow_mut();
        let c = t.calls;
        t.calls += 1;
        let idx = if t.rev { t.total.wrapping_sub(1).wrapping_sub(c) } else { c };
        (c == 0, t.fuse == Some(c), idx)
    });
    if first {
        if let Some(p) = FAM_HOOK.with(|h| h.take()) {
            unsafe { (*p)() }
        }
    }
    if fire {
        FAM_TL.with(|t| t.borrow_mut().fused = true);
        std::panic::resume_unwind(Box::new(FamPanic));
    }
    idx
}

#[repr(C, align(16))]
pub struct Trk {
    pub bytes: [u8; 16],
}

impl Trk {
    fn new(bytes: [u8; 16]) -> Trk {
        FAM_TL.with(|t| {
            let mut t = t.borrow_mut();
            t.created += 1;
            *t.balance.entry(bytes).or_insert(0) += 1;
        });
        Trk { bytes }
    }
}

impl Clone for Trk {
    fn clone(&self) -> Trk {
        fam_callback();
        Trk::new(self.bytes)
    }
}

impl Default for Trk {
    fn default() -> Trk {
        <Trk as FT>::make()
    }
}

impl Drop for Trk {
    fn drop(&mut self) {
        let bytes = self.bytes;
        let addr = self as *const Trk as usize;
        FAM_TL.with(|t| {
            if let Ok(mut t) = t.try_borrow_mut() {
                t.dropped += 1;
                let e = t.balance.entry(bytes).or_insert(0);
                *e -= 1;
                if *e < 0 {
                    let v = *e;
                    t.errors.push(format!("value {bytes:02x?} at {addr:#x} dropped {} time(s) more often than it was created", -v));
                }
            }
        });
    }
}

pub struct TrkZ;

impl TrkZ {
    fn new() -> TrkZ {
        FAM_TL.with(|t| t.borrow_mut().zst_created += 1);
        TrkZ
    }
}
impl Clone for TrkZ {
    fn clone(&self) -> TrkZ {
        fam_callback();
        TrkZ::new()
    }
}
impl Default for TrkZ {
    fn default() -> TrkZ {
        <TrkZ as FT>::make()
    }
}
impl Drop for TrkZ {
    fn drop(&mut self) {
        FAM_TL.with(|t| {
            if let Ok(mut t) = t.try_borrow_mut() {
                t.zst_dropped += 1;
                if t.zst_dropped > t.zst_created {
                    let (c, d) = (t.zst_created, t.zst_dropped);
                    t.errors.push(format!("zero-sized values: {d} dropped but only {c} created"));
                }
            }
        });
    }
}

/// element types of the family: constructible from source bytes
pub trait FT: Sized + 'static {
    fn from_src(src: &[u8], i: usize) -> Self;
    /// a value produced by a user callback (counts as a callback invocation: first-callback hook, injected panic)
    fn make() -> Self {
        let i = fam_callback();
        let n = size_of::<Self>();
        let mut buf = [0u8; 80];
        FAM_TL.with(|t| {
            let t = t.borrow();
            if n > 0 {
                buf[..n].copy_from_slice(&t.src[i * n..(i + 1) * n]);
            }
        });
        Self::from_src(&buf[..n], 0)
    }
    /// the explicit leak route (`into_raw` / `leak`): the values behind `ptr` will never be dropped
    fn forget(_ptr: usize, _len: usize) {}
}

macro_rules! impl_ft_pod {
    ($($T:ty)*) => {$(
        impl FT for $T {
            fn from_src(src: &[u8], i: usize) -> Self {
                let n = size_of::<Self>();
                assert!(src.len() >= (i + 1) * n);
                unsafe { std::ptr::read_unaligned(src.as_ptr().add(i * n) as *const Self) }
            }
        }
    )*};
}
impl_ft_pod!(u8 u32 u64 Al32 [u8; 3] [u64; 9] [u64; 0] ());

impl FT for Trk {
    fn from_src(src: &[u8], i: usize) -> Self {
        let mut b = [0u8; 16];
        b.copy_from_slice(&src[i * 16..(i + 1) * 16]);
        Trk::new(b)
    }
    fn forget(ptr: usize, len: usize) {
        FAM_TL.with(|t| {
            let mut t = t.borrow_mut();
            for i in 0..len {
                let b = unsafe { *((ptr + 16 * i) as *const [u8; 16]) };
                *t.balance.entry(b).or_insert(0) -= 1;
            }
        });
    }
}

impl FT for TrkZ {
    fn from_src(_src: &[u8], _i: usize) -> Self {
        TrkZ::new()
    }
    fn forget(_ptr: usize, len: usize) {
        FAM_TL.with(|t| t.borrow_mut().zst_dropped += len as u64);
    }
}

struct SrcIter<T> {
    /// what `size_hint` / `len()` announce
    left: usize,
    /// what `next` really has
    avail: usize,
    _m: PhantomData<T>,
}
impl<T> SrcIter<T> {
    fn new(left: usize) -> Self {
        SrcIter { left, avail: left, _m: PhantomData }
    }
    fn lying(left: usize, avail: usize) -> Self {
        SrcIter { left, avail, _m: PhantomData }
    }
}
impl<T: FT> Iterator for SrcIter<T> {
    type Item = T;
    fn next(&mut self) -> Option<T> {
        if self.avail == 0 {
            None
        } else {
            self.avail -= 1;
            self.left = self.left.saturating_sub(1);
            Some(T::make())
        }
    }
    fn size_hint(&self) -> (usize, Option<usize>) {
        (self.left, Some(self.left))
    }
}
impl<T: FT> ExactSizeIterator for SrcIter<T> {}

fn mkvec<T: FT>(q: &FamReq) -> Vec<T> {
    (0..q.len).map(|i| T::from_src(q.src, i)).collect()
}

fn fin1<T: FT>(bx: BumpBox<'_, T>, q: &FamReq) -> FamOk {
    let ptr = &*bx as *const T as usize;
    match q.keep {
        0 => drop(bx),
        1 => {
            let _ = BumpBox::into_raw(bx);
            T::forget(ptr, 1);
        }
        _ => {
            let _ = BumpBox::leak(bx);
            T::forget(ptr, 1);
        }
    }
    FamOk { ptr, len: 1 }
}

fn fin_s<T: FT>(bx: BumpBox<'_, [T]>, q: &FamReq) -> FamOk {
    let (ptr, len) = (bx.as_ptr() as usize, bx.len());
    match q.keep {
        0 => drop(bx),
        1 => {
            let _ = BumpBox::into_raw(bx);
            T::forget(ptr, len);
        }
        _ => {
            let _ = BumpBox::leak(bx);
            T::forget(ptr, len);
        }
    }
    FamOk { ptr, len }
}

fn fin_str(bx: BumpBox<'_, str>, q: &FamReq) -> FamOk {
    let (ptr, len) = (bx.as_ptr() as usize, bx.len());
    match q.keep {
        0 => drop(bx),
        1 => {
            let _ = BumpBox::into_raw(bx);
        }
        _ => {
            let _ = BumpBox::leak(bx);
        }
    }
    FamOk { ptr, len }
}

// ---- one generic function per entry point (B: the implementor the call is dispatched on)

macro_rules! twin {
    ($q:ident, $b:ident . $m:ident / $tm:ident $(::<$G:ty>)? ( $($arg:expr),* )) => {
        if $q.panicking { $b.$m $(::<$G>)? ($($arg),*) } else { $b.$tm $(::<$G>)? ($($arg),*).map_err(|_| ())? }
    };
}

fn ep_alloc<'a, B: BumpAllocatorTypedScope<'a> + ?Sized, T: FT>(b: &B, q: &FamReq) -> FamRes {
    let v = T::from_src(q.src, 0);
    Ok(fin1(twin!(q, b.alloc / try_alloc(v)), q))
}
fn ep_alloc_with<'a, B: BumpAllocatorTypedScope<'a> + ?Sized, T: FT>(b: &B, q: &FamReq) -> FamRes {
    Ok(fin1(twin!(q, b.alloc_with / try_alloc_with(|| T::make())), q))
}
fn ep_alloc_default<'a, B: BumpAllocatorTypedScope<'a> + ?Sized, T: FT + Default>(b: &B, q: &FamReq) -> FamRes {
    Ok(fin1::<T>(twin!(q, b.alloc_default / try_alloc_default()), q))
}
fn ep_alloc_uninit<'a, B: BumpAllocatorTypedScope<'a> + ?Sized, T: FT>(b: &B, q: &FamReq) -> FamRes {
    let u = twin!(q, b.alloc_uninit / try_alloc_uninit());
    Ok(fin1::<T>(u.init(T::from_src(q.src, 0)), q))
}
fn ep_slice_copy<'a, B: BumpAllocatorTypedScope<'a> + ?Sized, T: FT + Copy>(b: &B, q: &FamReq) -> FamRes {
    let v: Vec<T> = mkvec(q);
    Ok(fin_s(twin!(q, b.alloc_slice_copy / try_alloc_slice_copy(&v)), q))
}
fn ep_slice_clone<'a, B: BumpAllocatorTypedScope<'a> + ?Sized, T: FT + Clone>(b: &B, q: &FamReq) -> FamRes {
    let v: Vec<T> = mkvec(q);
    Ok(fin_s(twin!(q, b.alloc_slice_clone / try_alloc_slice_clone(&v)), q))
}
fn ep_slice_fill<'a, B: BumpAllocatorTypedScope<'a> + ?Sized, T: FT + Clone>(b: &B, q: &FamReq) -> FamRes {
    let v = T::from_src(q.src, 0);
    Ok(fin_s(twin!(q, b.alloc_slice_fill / try_alloc_slice_fill(q.len, v)), q))
}
fn ep_slice_fill_with<'a, B: BumpAllocatorTypedScope<'a> + ?Sized, T: FT>(b: &B, q: &FamReq) -> FamRes {
    Ok(fin_s(twin!(q, b.alloc_slice_fill_with / try_alloc_slice_fill_with(q.len, || T::make())), q))
}
fn ep_slice_move<'a, B: BumpAllocatorTypedScope<'a> + ?Sized, T: FT>(b: &B, q: &FamReq) -> FamRes {
    let mut v: Vec<T> = mkvec(q);
    let bx = match q.owned {
        0 => twin!(q, b.alloc_slice_move / try_alloc_slice_move(v)),
        1 => twin!(q, b.alloc_slice_move / try_alloc_slice_move(v.into_boxed_slice())),
        _ => {
            let r = if q.panicking { Ok(b.alloc_slice_move(&mut v)) } else { b.try_alloc_slice_move(&mut v) };
            match r {
                Ok(bx) => {
                    if !v.is_empty() {
                        FAM_TL.with(|t| t.borrow_mut().errors.push("alloc_slice_move(&mut Vec) left elements in the source vector".into()));
                    }
                    bx
                }
                Err(_) => return Err(()),
            }
        }
    };
    Ok(fin_s(bx, q))
}
fn ep_str<'a, B: BumpAllocatorTypedScope<'a> + ?Sized>(b: &B, q: &FamReq) -> FamRes {
    let s = std::str::from_utf8(q.src).unwrap();
    Ok(fin_str(twin!(q, b.alloc_str / try_alloc_str(s)), q))
}
fn ep_cstr<'a, B: BumpAllocatorTypedScope<'a> + ?Sized>(b: &B, q: &FamReq) -> FamRes {
    let c = std::ffi::CString::new(q.src.to_vec()).unwrap();
    let r = twin!(q, b.alloc_cstr / try_alloc_cstr(&c));
    Ok(FamOk { ptr: r.as_ptr() as usize, len: r.to_bytes_with_nul().len() })
}
fn ep_cstr_from_str<'a, B: BumpAllocatorTypedScope<'a> + ?Sized>(b: &B, q: &FamReq) -> FamRes {
    let s = std::str::from_utf8(q.src).unwrap();
    let r = twin!(q, b.alloc_cstr_from_str / try_alloc_cstr_from_str(s));
    Ok(FamOk { ptr: r.as_ptr() as usize, len: r.to_bytes_with_nul().len() })
}
fn ep_uninit_slice<'a, B: BumpAllocatorTypedScope<'a> + ?Sized, T: FT + Copy>(b: &B, q: &FamReq) -> FamRes {
    let u = twin!(q, b.alloc_uninit_slice / try_alloc_uninit_slice::<T>(q.len));
    if q.huge {
        // cannot happen for a request no allocator can satisfy; reported by the caller through the length
        let p = u.as_ptr() as usize;
        let _ = BumpBox::into_raw(u);
        return Ok(FamOk { ptr: p, len: q.len });
    }
    let v: Vec<T> = mkvec(q);
    Ok(fin_s(u.init_copy(&v), q))
}
fn ep_uninit_slice_for<'a, B: BumpAllocatorTypedScope<'a> + ?Sized, T: FT>(b: &B, q: &FamReq) -> FamRes {
    let template: Vec<T> = mkvec(q);
    let u = twin!(q, b.alloc_uninit_slice_for / try_alloc_uninit_slice_for(&template));
    let v: Vec<T> = mkvec(q);
    Ok(fin_s(u.init_move(v), q))
}
fn ep_iter_exact<'a, B: BumpAllocatorTypedScope<'a> + ?Sized, T: FT>(b: &B, q: &FamReq) -> FamRes {
    Ok(fin_s(twin!(q, b.alloc_iter_exact / try_alloc_iter_exact(SrcIter::<T>::lying(q.len, q.avail))), q))
}
fn ep_iter<'a, B: BumpAllocatorTypedScope<'a> + ?Sized, T: FT>(b: &B, q: &FamReq) -> FamRes {
    Ok(fin_s(twin!(q, b.alloc_iter / try_alloc_iter(SrcIter::<T>::new(q.len))), q))
}
fn ep_iter_mut<'a, B: MutBumpAllocatorTypedScope<'a> + ?Sized, T: FT>(b: &mut B, q: &FamReq) -> FamRes {
    Ok(fin_s(twin!(q, b.alloc_iter_mut / try_alloc_iter_mut(SrcIter::<T>::new(q.len))), q))
}
fn ep_iter_mut_rev<'a, B: MutBumpAllocatorTypedScope<'a> + ?Sized, T: FT>(b: &mut B, q: &FamReq) -> FamRes {
    Ok(fin_s(twin!(q, b.alloc_iter_mut_rev / try_alloc_iter_mut_rev(SrcIter::<T>::new(q.len))), q))
}
fn ep_prepare<B: BumpAllocatorTyped + ?Sized, T>(b: &B, len: usize, rev: bool) -> R<(usize, usize)> {
    if rev {
        b.try_prepare_slice_allocation_rev::<T>(len).map(|(p, c)| (p.as_ptr() as usize, c)).map_err(|_| ())
    } else {
        b.try_prepare_slice_allocation::<T>(len).map(|p| (p.cast::<T>().as_ptr() as usize, p.len())).map_err(|_| ())
    }
}

macro_rules! for_felem {
    ($e:expr, [$($V:ident => $Ty:ty),*], $T:ident => $body:expr) => {
        match $e {
            $(FElem::$V => {
                type $T = $Ty;
                $body
            })*
            #[allow(unreachable_patterns)]
            _ => unreachable!("element type not instantiated for this entry point"),
        }
    };
}

/// the complete family through the trait object (compiled once)
pub fn fam_dyn<'a>(b: &dyn BumpAllocatorCoreScope<'a>, q: &FamReq) -> FamRes {
    match q.ep {
        Fam::Alloc => for_felem!(q.elem, [U8 => u8, U32 => u32, U64 => u64, A32 => Al32, B3 => [u8; 3], Q9 => [u64; 9], Trk => Trk, Zst => TrkZ, Z8 => [u64; 0], Unit => ()], T => ep_alloc::<_, T>(b, q)),
        Fam::AllocWith => for_felem!(q.elem, [U8 => u8, U32 => u32, U64 => u64, A32 => Al32, B3 => [u8; 3], Q9 => [u64; 9], Trk => Trk, Zst => TrkZ, Z8 => [u64; 0], Unit => ()], T => ep_alloc_with::<_, T>(b, q)),
        Fam::AllocDefault => for_felem!(q.elem, [U32 => u32, U64 => u64, Trk => Trk, Zst => TrkZ, Z8 => [u64; 0], Unit => ()], T => ep_alloc_default::<_, T>(b, q)),
        Fam::AllocUninit => for_felem!(q.elem, [U8 => u8, U32 => u32, U64 => u64, A32 => Al32, B3 => [u8; 3], Q9 => [u64; 9], Trk => Trk, Zst => TrkZ, Z8 => [u64; 0], Unit => ()], T => ep_alloc_uninit::<_, T>(b, q)),
        Fam::SliceCopy => for_felem!(q.elem, [U8 => u8, U32 => u32, U64 => u64, A32 => Al32, B3 => [u8; 3], Z8 => [u64; 0], Unit => ()], T => ep_slice_copy::<_, T>(b, q)),
        Fam::SliceClone => for_felem!(q.elem, [U8 => u8, U32 => u32, U64 => u64, A32 => Al32, B3 => [u8; 3], Trk => Trk, Zst => TrkZ, Z8 => [u64; 0], Unit => ()], T => ep_slice_clone::<_, T>(b, q)),
        Fam::SliceFill => for_felem!(q.elem, [U8 => u8, U32 => u32, U64 => u64, A32 => Al32, B3 => [u8; 3], Trk => Trk, Zst => TrkZ, Z8 => [u64; 0], Unit => ()], T => ep_slice_fill::<_, T>(b, q)),
        Fam::SliceFillWith => for_felem!(q.elem, [U8 => u8, U32 => u32, U64 => u64, A32 => Al32, B3 => [u8; 3], Trk => Trk, Zst => TrkZ, Z8 => [u64; 0], Unit => ()], T => ep_slice_fill_with::<_, T>(b, q)),
        Fam::SliceMove => for_felem!(q.elem, [U8 => u8, U32 => u32, U64 => u64, A32 => Al32, B3 => [u8; 3], Trk => Trk, Zst => TrkZ, Z8 => [u64; 0], Unit => ()], T => ep_slice_move::<_, T>(b, q)),
        Fam::Str => ep_str(b, q),
        Fam::CStr => ep_cstr(b, q),
        Fam::CStrFromStr => ep_cstr_from_str(b, q),
        Fam::UninitSlice => for_felem!(q.elem, [U8 => u8, U32 => u32, U64 => u64, A32 => Al32, B3 => [u8; 3], Z8 => [u64; 0], Unit => ()], T => ep_uninit_slice::<_, T>(b, q)),
        Fam::UninitSliceFor => for_felem!(q.elem, [U8 => u8, U32 => u32, U64 => u64, A32 => Al32, B3 => [u8; 3], Trk => Trk, Zst => TrkZ, Z8 => [u64; 0], Unit => ()], T => ep_uninit_slice_for::<_, T>(b, q)),
        Fam::IterExact => for_felem!(q.elem, [U8 => u8, U32 => u32, U64 => u64, A32 => Al32, B3 => [u8; 3], Trk => Trk, Zst => TrkZ, Z8 => [u64; 0], Unit => ()], T => ep_iter_exact::<_, T>(b, q)),
        Fam::Iter => for_felem!(q.elem, [U8 => u8, U32 => u32, U64 => u64, A32 => Al32, B3 => [u8; 3], Trk => Trk, Zst => TrkZ, Z8 => [u64; 0], Unit => ()], T => ep_iter::<_, T>(b, q)),
        Fam::IterMut | Fam::IterMutRev => unreachable!(),
    }
}

pub fn fam_dyn_mut<'a>(b: &mut dyn MutBumpAllocatorCoreScope<'a>, q: &FamReq) -> FamRes {
    match q.ep {
        Fam::IterMut => for_felem!(q.elem, [U8 => u8, U32 => u32, U64 => u64, A32 => Al32, B3 => [u8; 3], Trk => Trk, Zst => TrkZ, Z8 => [u64; 0], Unit => ()], T => ep_iter_mut::<_, T>(b, q)),
        Fam::IterMutRev => for_felem!(q.elem, [U8 => u8, U32 => u32, U64 => u64, A32 => Al32, B3 => [u8; 3], Trk => Trk, Zst => TrkZ, Z8 => [u64; 0], Unit => ()], T => ep_iter_mut_rev::<_, T>(b, q)),
        _ => unreachable!(),
    }
}

pub fn fam_dyn_prepare<'a>(b: &dyn BumpAllocatorCoreScope<'a>, q: &FamReq) -> R<(usize, usize)> {
    let rev = q.ep == Fam::IterMutRev;
    for_felem!(q.elem, [U8 => u8, U32 => u32, U64 => u64, A32 => Al32, B3 => [u8; 3], Trk => Trk], T => ep_prepare::<_, T>(b, q.len, rev))
}

/// the covering subset instantiated per configuration for the handle type itself (kept small: every line here is
/// compiled once per settings combination; the complete cross product runs through `fam_dyn`)
fn fam_lite<'a, B: BumpAllocatorTypedScope<'a>>(b: &B, q: &FamReq) -> Option<FamRes> {
    use FElem::*;
    Some(match (q.ep, q.elem, q.panicking) {
        (Fam::Alloc, U64, _) => ep_alloc::<B, u64>(b, q),
        (Fam::AllocWith, Trk, false) => ep_alloc_with::<B, self::Trk>(b, q),
        (Fam::SliceCopy, U32, false) => ep_slice_copy::<B, u32>(b, q),
        (Fam::SliceFillWith, Trk, false) => ep_slice_fill_with::<B, self::Trk>(b, q),
        (Fam::Str, _, false) => ep_str::<B>(b, q),
        (Fam::CStr, _, true) => ep_cstr::<B>(b, q),
        (Fam::IterExact, Trk, false) => ep_iter_exact::<B, self::Trk>(b, q),
        _ => return None,
    })
}

/// `&BumpScope` / `&mut BumpScope` as the implementor (the forwarding impls)
fn fam_ref<'a, B: BumpAllocatorTypedScope<'a>>(b: &B, q: &FamReq) -> Option<FamRes> {
    use FElem::*;
    Some(match (q.ep, q.elem, q.panicking) {
        (Fam::Alloc, U64, false) => ep_alloc::<B, u64>(b, q),
        (Fam::Str, _, false) => ep_str::<B>(b, q),
        _ => return None,
    })
}

/// is (entry point, element, twin) instantiated for the static entry `entry` (0, 1, 2)?  entry 3 (`dyn`) has everything
pub fn fam_static_has(q: &FamReq) -> bool {
    use FElem::*;
    match q.entry {
        0 => matches!(
            (q.ep, q.elem, q.panicking),
            (Fam::Alloc, U64, _)
                | (Fam::AllocWith, Trk, false)
                | (Fam::SliceCopy, U32, false)
                | (Fam::SliceFillWith, Trk, false)
                | (Fam::Str, _, false)
                | (Fam::CStr, _, true)
                | (Fam::IterExact, Trk, false)
        ),
        1 | 2 => matches!((q.ep, q.elem, q.panicking), (Fam::Alloc, U64, false) | (Fam::Str, _, false)),
        _ => true,
    }
}

/// generic part of `ScopeOps::x_family` (one instantiation per configuration)
fn run_family<'a, S>(sc: &mut S, q: &FamReq, hook: &mut dyn FnMut(&dyn ScopeOps, FamEvent)) -> FamRes
where
    S: ScopeOps + BumpAllocatorTypedScope<'a> + MutBumpAllocatorCoreScope<'a>,
{
    assert!(fam_static_has(q), "family call not instantiated for this entry");
    if q.ep.is_mut() {
        if q.len > 0 && q.elem.layout().size() != 0 {
            // the same preparation the entry point is about to issue, observed on the unchanged state
            let pre = {
                let d: &dyn BumpAllocatorCoreScope<'a> = &*sc;
                fam_dyn_prepare(d, q)
            };
            hook(&*sc, FamEvent::Prepared(pre));
            // the prepared area cannot be observed from outside the call: the entry point is only entered when its
            // preparation is known to succeed (or cannot succeed at all)
            if pre.is_err() && !q.huge {
                return Err(());
            }
        }
        // (`MutBumpVec(Rev)<T, &mut BumpScope>` is not instantiated per configuration: compile time)
        let d: &mut dyn MutBumpAllocatorCoreScope<'a> = &mut *sc;
        return fam_dyn_mut(d, q);
    }
    if q.entry == 2 {
        // `&mut BumpScope` as the implementor: only entry points without callbacks (the hook cannot view the handle)
        let m: &mut S = &mut *sc;
        return fam_ref::<&mut S>(&m, q).unwrap();
    }
    let this: &S = &*sc;
    let mut h = || hook(this, FamEvent::FirstCallback);
    with_hook(&mut h, || match q.entry {
        0 => fam_lite::<S>(this, q).unwrap(),
        1 => fam_ref::<&S>(&this, q).unwrap(),
        _ => {
            let d: &dyn BumpAllocatorCoreScope<'a> = this;
            fam_dyn(d, q)
        }
    })
}
