//! `ScopeOps`: a dyn-compatible facade over `BumpScope<'_, A, BumpSettings<..>>` so that the
//! (large, non-generic) trace generator / executor is compiled once, while the thin adapter
//! below is monomorphised per configuration.  Every method is one call into the real crate.

use std::alloc::Layout;
use std::ops::Range;
use std::ptr::NonNull;

use bump_scope::alloc::Allocator;
use bump_scope::settings::{Bool, BumpSettings, MinimumAlignment, SupportedMinimumAlignment};
use bump_scope::traits::{BumpAllocator, BumpAllocatorCore, BumpAllocatorScope, BumpAllocatorTyped};
use bump_scope::{BaseAllocator, BumpScope, Checkpoint, WithoutDealloc, WithoutShrink};

use crate::base::TestBase;

pub const DUMMY_ADDR: usize = 0x4000000000000050;

#[derive(Clone, Copy, PartialEq, Eq, Debug)]
pub enum Via {
    Plain,
    WithoutDealloc,
    WithoutShrink,
}

#[derive(Clone, Debug, Default, PartialEq, Eq)]
pub struct StatNums {
    pub count: usize,
    pub size: usize,
    pub capacity: usize,
    pub allocated: usize,
    pub remaining: usize,
}

#[derive(Clone, Debug, PartialEq, Eq)]
pub struct ChunkInfo {
    pub chunk_start: usize,
    pub chunk_end: usize,
    pub content_start: usize,
    pub content_end: usize,
    pub pos: usize,
    pub size: usize,
    pub capacity: usize,
    pub allocated: usize,
    pub remaining: usize,
}

#[derive(Clone, Debug, Default)]
pub struct Dump {
    pub claimed: bool,
    pub cur: Option<usize>, // index in small_to_big order
    pub typed: StatNums,
    pub any: StatNums,
    pub fwd: Vec<ChunkInfo>,
    pub bwd: Vec<ChunkInfo>,
    pub any_fwd: Vec<ChunkInfo>,
    pub any_bwd: Vec<ChunkInfo>,
    pub any_cur: Option<ChunkInfo>,
}

/// element types used for the typed entry points (size, align)
#[derive(Clone, Copy, Debug, PartialEq, Eq)]
pub enum Elem {
    U8,
    U16,
    U32,
    U64,
    U128,
    A32,
    B3,
    W5,
    Q9,
}

#[derive(Clone, Copy)]
#[repr(align(32))]
pub struct Al32(pub [u8; 32]);

impl Elem {
    pub const ALL: [Elem; 6] = [Elem::U8, Elem::U32, Elem::U64, Elem::A32, Elem::B3, Elem::Q9];
    pub const SLICEABLE: [Elem; 5] = [Elem::U8, Elem::U32, Elem::U64, Elem::A32, Elem::B3];
    pub fn layout(self) -> Layout {
        match self {
            Elem::U8 => Layout::new::<u8>(),
            Elem::U16 => Layout::new::<u16>(),
            Elem::U32 => Layout::new::<u32>(),
            Elem::U64 => Layout::new::<u64>(),
            Elem::U128 => Layout::new::<u128>(),
            Elem::A32 => Layout::new::<Al32>(),
            Elem::B3 => Layout::new::<[u8; 3]>(),
            Elem::W5 => Layout::new::<[u32; 5]>(),
            Elem::Q9 => Layout::new::<[u64; 9]>(),
        }
    }
}

/// which `Result<T, E>` instantiation `alloc_try_with` uses
#[derive(Clone, Copy, Debug, PartialEq, Eq)]
pub enum TryKind {
    U64U8,
    U8U64,
    U32U32,
    A32U8,
}

pub struct TryInfo {
    pub layout: Layout,
    pub off: usize,
    pub vsize: usize,
}

fn try_info<T: Copy, E: Copy>(v: T) -> TryInfo {
    let r: Result<T, E> = Ok(v);
    let base = &r as *const _ as usize;
    let off = match &r {
        Ok(x) => x as *const T as usize - base,
        Err(_) => 0,
    };
    TryInfo { layout: Layout::new::<Result<T, E>>(), off, vsize: size_of::<T>() }
}

impl TryKind {
    pub const ALL: [TryKind; 3] = [TryKind::U64U8, TryKind::U8U64, TryKind::A32U8];
    pub fn info(self) -> TryInfo {
        match self {
            TryKind::U64U8 => try_info::<u64, u8>(0),
            TryKind::U8U64 => try_info::<u8, u64>(0),
            TryKind::U32U32 => try_info::<u32, u32>(0),
            TryKind::A32U8 => try_info::<Al32, u8>(Al32([0; 32])),
        }
    }
}

type R<T> = Result<T, ()>;

pub trait ScopeOps {
    fn x_min_align(&self) -> usize;
    fn x_up(&self) -> bool;
    /// `entry`: 0 BumpScope, 1 &BumpScope, 2 &mut-reborrow, 3 dyn BumpAllocatorCore
    fn x_allocate(&self, l: Layout, zeroed: bool, via: Via, entry: u8) -> R<(usize, usize)>;
    fn x_deallocate(&self, ptr: usize, l: Layout, via: Via, entry: u8);
    fn x_grow(&self, ptr: usize, old: Layout, new: Layout, zeroed: bool, via: Via, entry: u8) -> R<(usize, usize)>;
    fn x_shrink(&self, ptr: usize, old: Layout, new: Layout, via: Via, entry: u8) -> R<(usize, usize)>;
    fn x_alloc_layout(&self, l: Layout, mode: u8) -> R<usize>;
    fn x_alloc_sized(&self, e: Elem, mode: u8) -> R<usize>;
    fn x_alloc_slice(&self, e: Elem, len: usize, mode: u8) -> R<usize>;
    fn x_shrink_slice(&self, e: Elem, ptr: usize, old_len: usize, new_len: usize) -> Option<usize>;
    fn x_prepare(&self, l: Layout, dyn_: bool) -> R<(usize, usize)>;
    fn x_commit(&self, l: Layout, range: (usize, usize), rev: bool, dyn_: bool) -> usize;
    /// returns (pointer, cap): pointer = start of slots (forward) / end of slots (rev)
    fn x_prepare_slice(&self, e: Elem, cap: usize, rev: bool, dyn_: bool) -> R<(usize, usize)>;
    fn x_commit_slice(&self, e: Elem, ptr: usize, len: usize, cap: usize, rev: bool, dyn_: bool) -> (usize, usize);
    fn x_reserve(&self, n: usize, dyn_: bool) -> R<()>;
    fn x_checkpoint(&self) -> Checkpoint;
    fn x_reset_to(&self, cp: Checkpoint);
    fn x_is_claimed(&self) -> bool;
    fn x_dump(&self) -> Dump;
    /// mode 0: `scoped(closure)`, 1: `scope_guard()` + drop, 2: `scope_guard()` + `reset()` + drop
    fn x_scoped(&mut self, mode: u8, f: &mut dyn FnMut(&mut dyn ScopeOps));
    fn x_aligned(&mut self, n: usize, f: &mut dyn FnMut(&mut dyn ScopeOps));
    fn x_scoped_aligned(&mut self, n: usize, f: &mut dyn FnMut(&mut dyn ScopeOps));
    /// `self.by_value().with_settings::<MIN_ALIGN = n>()` (n ≥ current minimum alignment, arena allocated)
    fn x_by_value_with_settings(&mut self, n: usize, f: &mut dyn FnMut(&mut dyn ScopeOps));
    /// `f(claimant, original)`; both views are usable while the claim guard lives
    fn x_claim(&mut self, f: &mut dyn FnMut(&mut dyn ScopeOps, &dyn ScopeOps));
    /// second `claim()` on an already claimed handle: must panic
    fn x_claim_again_panics(&self) -> bool;
    /// `try_alloc_try_with(_mut)`: `inner` is run inside the closure with a view of the same arena
    /// (only for the non-mut variant); returns Ok(Some(value ptr)) / Ok(None) for closure-Err / Err(())
    fn x_try_with(&mut self, k: TryKind, ok: bool, mut_: bool, inner: &mut dyn FnMut(&dyn ScopeOps)) -> R<Option<usize>>;
}

fn nn(p: usize) -> NonNull<u8> {
    NonNull::new(p as *mut u8).unwrap()
}

fn res(r: Result<NonNull<[u8]>, bump_scope::alloc::AllocError>) -> R<(usize, usize)> {
    r.map(|p| (p.cast::<u8>().as_ptr() as usize, p.len())).map_err(|_| ())
}

macro_rules! with_entry {
    ($self:ident, $via:ident, $entry:ident, |$a:ident| $body:expr) => {{
        match $via {
            Via::Plain => match $entry {
                0 => {
                    let $a = &*$self;
                    $body
                }
                1 => {
                    let r = &*$self;
                    let $a = &r;
                    $body
                }
                2 => {
                    let r = &*$self;
                    let rr = &r;
                    let $a = &rr;
                    $body
                }
                _ => {
                    let $a: &dyn BumpAllocatorCore = &*$self;
                    $body
                }
            },
            Via::WithoutDealloc => {
                let $a = WithoutDealloc(&*$self);
                let $a = &$a;
                $body
            }
            Via::WithoutShrink => {
                let $a = WithoutShrink(&*$self);
                let $a = &$a;
                $body
            }
        }
    }};
}

macro_rules! for_elem {
    ($e:expr, $T:ident => $body:expr) => {
        match $e {
            Elem::U8 => {
                type $T = u8;
                $body
            }
            Elem::U16 | Elem::U128 | Elem::W5 => unreachable!("element type not instantiated"),
            Elem::U32 => {
                type $T = u32;
                $body
            }
            Elem::U64 => {
                type $T = u64;
                $body
            }

            Elem::A32 => {
                type $T = Al32;
                $body
            }
            Elem::B3 => {
                type $T = [u8; 3];
                $body
            }

            Elem::Q9 => {
                type $T = [u64; 9];
                $body
            }
        }
    };
}

fn chunk_info<A, S: bump_scope::settings::BumpAllocatorSettings>(c: bump_scope::stats::Chunk<'_, A, S>) -> ChunkInfo {
    ChunkInfo {
        chunk_start: c.chunk_start().as_ptr() as usize,
        chunk_end: c.chunk_end().as_ptr() as usize,
        content_start: c.content_start().as_ptr() as usize,
        content_end: c.content_end().as_ptr() as usize,
        pos: c.bump_position().as_ptr() as usize,
        size: c.size(),
        capacity: c.capacity(),
        allocated: c.allocated(),
        remaining: c.remaining(),
    }
}

fn any_chunk_info(c: bump_scope::stats::AnyChunk<'_>) -> ChunkInfo {
    ChunkInfo {
        chunk_start: c.chunk_start().as_ptr() as usize,
        chunk_end: c.chunk_end().as_ptr() as usize,
        content_start: c.content_start().as_ptr() as usize,
        content_end: c.content_end().as_ptr() as usize,
        pos: c.bump_position().as_ptr() as usize,
        size: c.size(),
        capacity: c.capacity(),
        allocated: c.allocated(),
        remaining: c.remaining(),
    }
}

impl<'a, A, const MA: usize, const UP: bool, const GA: bool, const DE: bool, const SH: bool, const MCS: usize> ScopeOps
    for BumpScope<'a, A, BumpSettings<MA, UP, GA, true, DE, SH, MCS>>
where
    A: TestBase + BaseAllocator<Bool<GA>>,
    MinimumAlignment<MA>: SupportedMinimumAlignment,
    for<'x> BumpScope<'x, A, BumpSettings<MA, UP, GA, true, DE, SH, MCS>>: ByValueRaise,
{
    fn x_min_align(&self) -> usize {
        MA
    }
    fn x_up(&self) -> bool {
        UP
    }
    fn x_allocate(&self, l: Layout, zeroed: bool, via: Via, entry: u8) -> R<(usize, usize)> {
        with_entry!(self, via, entry, |a| res(if zeroed { a.allocate_zeroed(l) } else { a.allocate(l) }))
    }
    fn x_deallocate(&self, ptr: usize, l: Layout, via: Via, entry: u8) {
        with_entry!(self, via, entry, |a| unsafe { a.deallocate(nn(ptr), l) })
    }
    fn x_grow(&self, ptr: usize, old: Layout, new: Layout, zeroed: bool, via: Via, entry: u8) -> R<(usize, usize)> {
        with_entry!(self, via, entry, |a| res(unsafe { if zeroed { a.grow_zeroed(nn(ptr), old, new) } else { a.grow(nn(ptr), old, new) } }))
    }
    fn x_shrink(&self, ptr: usize, old: Layout, new: Layout, via: Via, entry: u8) -> R<(usize, usize)> {
        with_entry!(self, via, entry, |a| res(unsafe { a.shrink(nn(ptr), old, new) }))
    }
    fn x_alloc_layout(&self, l: Layout, mode: u8) -> R<usize> {
        // mode 0: try_ method, 1: through dyn BumpAllocatorCore, 2: panicking twin, 3: panicking twin through dyn
        match mode {
            1 => {
                let d: &dyn BumpAllocatorCore = &*self;
                d.try_allocate_layout(l).map(|p| p.as_ptr() as usize).map_err(|_| ())
            }
            2 => Ok(self.allocate_layout(l).as_ptr() as usize),
            3 => {
                let d: &dyn BumpAllocatorCore = &*self;
                Ok(d.allocate_layout(l).as_ptr() as usize)
            }
            _ => self.try_allocate_layout(l).map(|p| p.as_ptr() as usize).map_err(|_| ()),
        }
    }
    fn x_alloc_sized(&self, e: Elem, mode: u8) -> R<usize> {
        for_elem!(e, T => match mode {
            1 => {
                let d: &dyn BumpAllocatorCore = &*self;
                d.try_allocate_sized::<T>().map(|p| p.as_ptr() as usize).map_err(|_| ())
            }
            2 => Ok(self.allocate_sized::<T>().as_ptr() as usize),
            _ => self.try_allocate_sized::<T>().map(|p| p.as_ptr() as usize).map_err(|_| ()),
        })
    }
    fn x_alloc_slice(&self, e: Elem, len: usize, mode: u8) -> R<usize> {
        for_elem!(e, T => match mode {
            1 => {
                let d: &dyn BumpAllocatorCore = &*self;
                d.try_allocate_slice::<T>(len).map(|p| p.as_ptr() as usize).map_err(|_| ())
            }
            2 => Ok(self.allocate_slice::<T>(len).as_ptr() as usize),
            3 => {
                // `try_allocate_slice_for(&[T])`: a real (zeroed) slice of `len` elements as the template
                let l = Layout::array::<T>(len).map_err(|_| ())?;
                if l.size() == 0 || l.size() > 1 << 22 {
                    return self.try_allocate_slice::<T>(len).map(|p| p.as_ptr() as usize).map_err(|_| ());
                }
                unsafe {
                    let mem = std::alloc::alloc_zeroed(l);
                    let template = std::slice::from_raw_parts(mem as *const T, len);
                    let r = self.try_allocate_slice_for::<T>(template).map(|p| p.as_ptr() as usize).map_err(|_| ());
                    std::alloc::dealloc(mem, l);
                    r
                }
            }
            _ => self.try_allocate_slice::<T>(len).map(|p| p.as_ptr() as usize).map_err(|_| ()),
        })
    }
    fn x_shrink_slice(&self, e: Elem, ptr: usize, old_len: usize, new_len: usize) -> Option<usize> {
        for_elem!(e, T => unsafe {
            BumpAllocatorTyped::shrink_slice::<T>(&*self, NonNull::new(ptr as *mut T).unwrap(), old_len, new_len).map(|p| p.as_ptr() as usize)
        })
    }
    fn x_prepare(&self, l: Layout, dyn_: bool) -> R<(usize, usize)> {
        let r: Result<Range<NonNull<u8>>, _> = if dyn_ {
            let d: &dyn BumpAllocatorCore = &*self;
            d.prepare_allocation(l)
        } else {
            BumpAllocatorCore::prepare_allocation(&*self, l)
        };
        r.map(|r| (r.start.as_ptr() as usize, r.end.as_ptr() as usize)).map_err(|_| ())
    }
    fn x_commit(&self, l: Layout, range: (usize, usize), rev: bool, dyn_: bool) -> usize {
        let r = nn(range.0)..nn(range.1);
        unsafe {
            let p = if dyn_ {
                let d: &dyn BumpAllocatorCore = &*self;
                if rev { d.allocate_prepared_rev(l, r) } else { d.allocate_prepared(l, r) }
            } else if rev {
                BumpAllocatorCore::allocate_prepared_rev(&*self, l, r)
            } else {
                BumpAllocatorCore::allocate_prepared(&*self, l, r)
            };
            p.as_ptr() as usize
        }
    }
    fn x_prepare_slice(&self, e: Elem, cap: usize, rev: bool, dyn_: bool) -> R<(usize, usize)> {
        for_elem!(e, T => if dyn_ {
            let d: &dyn BumpAllocatorCore = &*self;
            if rev {
                d.try_prepare_slice_allocation_rev::<T>(cap).map(|(p, c)| (p.as_ptr() as usize, c)).map_err(|_| ())
            } else {
                d.try_prepare_slice_allocation::<T>(cap).map(|p| (p.cast::<T>().as_ptr() as usize, p.len())).map_err(|_| ())
            }
        } else if rev {
            self.try_prepare_slice_allocation_rev::<T>(cap).map(|(p, c)| (p.as_ptr() as usize, c)).map_err(|_| ())
        } else {
            self.try_prepare_slice_allocation::<T>(cap).map(|p| (p.cast::<T>().as_ptr() as usize, p.len())).map_err(|_| ())
        })
    }
    fn x_commit_slice(&self, e: Elem, ptr: usize, len: usize, cap: usize, rev: bool, dyn_: bool) -> (usize, usize) {
        for_elem!(e, T => unsafe {
            let p = NonNull::new(ptr as *mut T).unwrap();
            let s = if dyn_ {
                let d: &dyn BumpAllocatorCore = &*self;
                if rev { d.allocate_prepared_slice_rev::<T>(p, len, cap) } else { d.allocate_prepared_slice::<T>(p, len, cap) }
            } else if rev {
                self.allocate_prepared_slice_rev::<T>(p, len, cap)
            } else {
                self.allocate_prepared_slice::<T>(p, len, cap)
            };
            (s.cast::<T>().as_ptr() as usize, s.len())
        })
    }
    fn x_reserve(&self, n: usize, dyn_: bool) -> R<()> {
        if dyn_ {
            let d: &dyn BumpAllocatorCore = &*self;
            d.try_reserve(n).map_err(|_| ())
        } else {
            self.try_reserve(n).map_err(|_| ())
        }
    }
    fn x_checkpoint(&self) -> Checkpoint {
        BumpAllocatorCore::checkpoint(&*self)
    }
    fn x_reset_to(&self, cp: Checkpoint) {
        unsafe { BumpAllocatorCore::reset_to(&*self, cp) }
    }
    fn x_is_claimed(&self) -> bool {
        BumpAllocatorCore::is_claimed(self)
    }
    fn x_dump(&self) -> Dump {
        let st = self.stats();
        let any = self.any_stats();
        let fwd: Vec<ChunkInfo> = st.small_to_big().map(chunk_info).collect();
        let bwd: Vec<ChunkInfo> = st.big_to_small().map(chunk_info).collect();
        let cur = st.current_chunk().map(chunk_info).and_then(|c| fwd.iter().position(|x| *x == c));
        Dump {
            claimed: BumpAllocatorCore::is_claimed(self),
            cur,
            typed: StatNums { count: st.count(), size: st.size(), capacity: st.capacity(), allocated: st.allocated(), remaining: st.remaining() },
            any: StatNums { count: any.count(), size: any.size(), capacity: any.capacity(), allocated: any.allocated(), remaining: any.remaining() },
            fwd,
            bwd,
            any_fwd: any.small_to_big().map(any_chunk_info).collect(),
            any_bwd: any.big_to_small().map(any_chunk_info).collect(),
            any_cur: any.current_chunk().map(any_chunk_info),
        }
    }
    fn x_scoped(&mut self, mode: u8, f: &mut dyn FnMut(&mut dyn ScopeOps)) {
        match mode {
            0 => BumpAllocator::scoped(self, |inner| f(inner)),
            1 => {
                let mut guard = self.scope_guard();
                f(guard.scope());
            }
            _ => {
                let mut guard = self.scope_guard();
                f(guard.scope());
                guard.reset();
            }
        }
    }
    fn x_aligned(&mut self, n: usize, f: &mut dyn FnMut(&mut dyn ScopeOps)) {
        match n {
            1 => BumpAllocatorScope::aligned::<1, _>(self, |inner| f(inner)),
            2 => BumpAllocatorScope::aligned::<2, _>(self, |inner| f(inner)),
            4 => BumpAllocatorScope::aligned::<4, _>(self, |inner| f(inner)),
            8 => BumpAllocatorScope::aligned::<8, _>(self, |inner| f(inner)),
            _ => BumpAllocatorScope::aligned::<16, _>(self, |inner| f(inner)),
        }
    }
    fn x_scoped_aligned(&mut self, n: usize, f: &mut dyn FnMut(&mut dyn ScopeOps)) {
        match n {
            1 => BumpAllocator::scoped_aligned::<1, _>(self, |inner| f(inner)),
            2 => BumpAllocator::scoped_aligned::<2, _>(self, |inner| f(inner)),
            4 => BumpAllocator::scoped_aligned::<4, _>(self, |inner| f(inner)),
            8 => BumpAllocator::scoped_aligned::<8, _>(self, |inner| f(inner)),
            _ => BumpAllocator::scoped_aligned::<16, _>(self, |inner| f(inner)),
        }
    }
    fn x_by_value_with_settings(&mut self, n: usize, f: &mut dyn FnMut(&mut dyn ScopeOps)) {
        ByValueRaise::raise(self, n, f)
    }
    fn x_claim(&mut self, f: &mut dyn FnMut(&mut dyn ScopeOps, &dyn ScopeOps)) {
        // the original handle stays usable through `&BumpScope` while the guard lives
        let orig: &Self = &*self;
        let mut guard = orig.claim();
        f(&mut *guard, orig);
    }
    fn x_claim_again_panics(&self) -> bool {
        let orig: &Self = self;
        std::panic::catch_unwind(std::panic::AssertUnwindSafe(|| {
            let g = orig.claim();
            drop(g);
        }))
        .is_err()
    }
    fn x_try_with(&mut self, k: TryKind, ok: bool, mut_: bool, inner: &mut dyn FnMut(&dyn ScopeOps)) -> R<Option<usize>> {
        macro_rules! go {
            ($T:ty, $E:ty, $tv:expr, $ev:expr) => {{
                if mut_ {
                    let r = self.try_alloc_try_with_mut(|| -> Result<$T, $E> { if ok { Ok($tv) } else { Err($ev) } });
                    match r {
                        Err(_) => Err(()),
                        Ok(Ok(b)) => Ok(Some(bump_scope::BumpBox::into_raw(b).as_ptr() as usize)),
                        Ok(Err(_)) => Ok(None),
                    }
                } else {
                    let this: &Self = &*self;
                    let r = this.try_alloc_try_with(|| -> Result<$T, $E> {
                        inner(this);
                        if ok { Ok($tv) } else { Err($ev) }
                    });
                    match r {
                        Err(_) => Err(()),
                        Ok(Ok(b)) => Ok(Some(bump_scope::BumpBox::into_raw(b).as_ptr() as usize)),
                        Ok(Err(_)) => Ok(None),
                    }
                }
            }};
        }
        match k {
            TryKind::U64U8 => go!(u64, u8, 0x1122334455667788, 7),
            TryKind::U8U64 => go!(u8, u64, 9, 0x8877665544332211),
            TryKind::U32U32 => unreachable!(),
            TryKind::A32U8 => go!(Al32, u8, Al32([0x5A; 32]), 3),
        }
    }
}

/// `scope.by_value().with_settings::<MIN_ALIGN = n>()` for n ≥ the current minimum alignment.
/// (`with_settings` const-asserts `NEW_MIN_ALIGN >= MIN_ALIGN`, so only the admissible pairs may be
/// instantiated: one impl per current alignment, listing the targets.)
pub trait ByValueRaise {
    fn raise(&mut self, n: usize, f: &mut dyn FnMut(&mut dyn ScopeOps));
}

macro_rules! impl_raise {
    ($MA:literal => [$($N:literal),*]) => {
        impl<'a, A, const UP: bool, const GA: bool, const DE: bool, const SH: bool, const MCS: usize> ByValueRaise
            for BumpScope<'a, A, BumpSettings<$MA, UP, GA, true, DE, SH, MCS>>
        where
            A: TestBase + BaseAllocator<Bool<GA>>,
        {
            fn raise(&mut self, n: usize, f: &mut dyn FnMut(&mut dyn ScopeOps)) {
                match n {
                    $($N => {
                        if let Ok(scope) = self.try_by_value() {
                            let mut raised = scope.with_settings::<BumpSettings<$N, UP, GA, true, DE, SH, MCS>>();
                            f(&mut raised);
                        }
                    })*
                    _ => {}
                }
            }
        }
    };
}
impl_raise!(1 => [1, 2, 4, 8, 16]);
impl_raise!(2 => [2, 4, 8, 16]);
impl_raise!(4 => [4, 8, 16]);
impl_raise!(8 => [8, 16]);
impl_raise!(16 => [16]);
