// included by src/bin/arena.rs — the state-aware generator / executor (compiled once, non-generic)

include!("family.rs");

fn gen_size(ctx: &mut Ctx, remaining: usize) -> usize {
    let remaining = remaining.min(60_000);
    // overflow-class requests: valid layouts that no allocator can satisfy / whose chunk size overflows
    if ctx.rng.below(1000) < 8 {
        return match ctx.rng.below(4) {
            0 => (isize::MAX as usize) - 4096 - ctx.rng.below(64) as usize,
            1 => 1usize << ctx.rng.range(44, 62),
            2 => (isize::MAX as usize) / 2 + ctx.rng.below(4096) as usize,
            _ => (1usize << 47) + ctx.rng.below(1 << 20) as usize,
        };
    }
    let r = ctx.rng.below(100);
    if r < ctx.prof.big_pct {
        // chunk-boundary and chunk-spanning sizes
        match ctx.rng.below(5) {
            4 => remaining, // exactly fills the current chunk
            0 => remaining.saturating_sub(ctx.rng.below(24) as usize),
            1 => remaining + ctx.rng.below(24) as usize,
            2 => 400 + ctx.rng.below(3000) as usize,
            _ => 3000 + ctx.rng.below(20000) as usize,
        }
    } else if r < 30 {
        ctx.rng.below(9) as usize
    } else if r < 75 {
        ctx.rng.below(65) as usize
    } else {
        ctx.rng.below(400) as usize
    }
}

fn gen_align(ctx: &mut Ctx) -> usize {
    match ctx.rng.below(20) {
        0..=11 => 1 << ctx.rng.below(5),
        12..=17 => 1 << ctx.rng.below(8),
        _ => 1 << ctx.rng.below(13),
    }
}

fn gen_layout(ctx: &mut Ctx, remaining: usize) -> Layout {
    let a = gen_align(ctx);
    let s = gen_size(ctx, remaining);
    Layout::from_size_align(s, a).unwrap()
}

fn gen_via(ctx: &mut Ctx) -> (Via, u8) {
    if ctx.rng.below(100) < ctx.prof.wrappers {
        (if ctx.rng.chance(1, 2) { Via::WithoutDealloc } else { Via::WithoutShrink }, 0)
    } else {
        (Via::Plain, ctx.rng.below(4) as u8)
    }
}

fn remaining_of(sc: &dyn ScopeOps) -> usize {
    let d = sc.x_dump();
    d.cur.map_or(0, |i| d.fwd[i].remaining)
}

fn fill_block(ptr: usize, size: usize, seed: u64) -> Vec<u8> {
    let v: Vec<u8> = (0..size).map(|k| pattern(seed, k)).collect();
    unsafe { std::ptr::copy_nonoverlapping(v.as_ptr(), ptr as *mut u8, size) };
    v
}

/// which ops of the allocator interface may be addressed to a claimed original handle
fn op_on_claimed(ctx: &mut Ctx, claimant: &dyn ScopeOps, orig: &dyn ScopeOps) {
    let rem = 64;
    match ctx.rng.below(6) {
        0 => {
            let l = gen_layout(ctx, rem);
            let (via, e) = (Via::Plain, ctx.rng.below(4) as u8);
            let r = orig.x_allocate(l, false, via, e);
            ctx.count("on_claimed allocate");
            if r.is_ok() {
                ctx.oracle("C14", format!("allocate({l:?}) through the claimed handle succeeded"));
            }
            log_op(ctx, claimant, &format!("on_claimed allocate {} {} 0 p", l.size(), l.align()), if r.is_ok() { "ok" } else { "err" });
        }
        1 => {
            let e = *ctx.rng.pick(&Elem::SLICEABLE);
            let n = ctx.rng.below(20) as usize + 1;
            let r = orig.x_alloc_slice(e, n, 0);
            ctx.count("on_claimed alloc_slice");
            if r.is_ok() {
                ctx.oracle("C14", "try_allocate_slice through the claimed handle succeeded".into());
            }
            let l = e.layout();
            log_op(ctx, claimant, &format!("on_claimed alloc_layout {} {} 1 0 1", l.size() * n, l.align()), if r.is_ok() { "ok" } else { "err" });
        }
        2 => {
            let n = if ctx.rng.chance(1, 4) { 0 } else { ctx.rng.below(5000) as usize + 1 };
            let dy = ctx.rng.chance(1, 3);
            let r = orig.x_reserve(n, dy);
            ctx.count("on_claimed reserve");
            if r.is_ok() {
                ctx.oracle("C14", "reserve through the claimed handle succeeded".into());
            }
            log_op(ctx, claimant, &format!("on_claimed reserve {n} {}", dy as u8), if r.is_ok() { "unit" } else { "err" });
        }
        3 => {
            if ctx.blocks.is_empty() {
                return;
            }
            let el = eligible(ctx);
            if el.is_empty() {
                return;
            }
            let b = ctx.rng.pick(&el).clone();
            let nl = Layout::from_size_align(b.size + ctx.rng.below(64) as usize + 1, b.align).unwrap();
            let r = orig.x_grow(b.ptr, Layout::from_size_align(b.size, b.align).unwrap(), nl, false, Via::Plain, 0);
            ctx.count("on_claimed grow");
            if r.is_ok() {
                ctx.oracle("C14", "grow through the claimed handle succeeded".into());
            }
            log_op(ctx, claimant, &format!("on_claimed grow {} {} {} 0 p", b.id, nl.size(), nl.align()), if r.is_ok() { "ok" } else { "err" });
        }
        4 => {
            if ctx.blocks.is_empty() {
                return;
            }
            let el = eligible(ctx);
            if el.is_empty() {
                return;
            }
            let b = ctx.rng.pick(&el).clone();
            let before = claimant.x_dump();
            orig.x_deallocate(b.ptr, Layout::from_size_align(b.size, b.align).unwrap(), Via::Plain, 0);
            ctx.count("on_claimed dealloc");
            ctx.remove_block(b.id);
            let d = log_op(ctx, claimant, &format!("on_claimed dealloc {} p", b.id), "unit");
            if d.typed != before.typed {
                ctx.oracle("C14", "deallocate through the claimed handle changed the arena".into());
            }
        }
        _ => {
            let d = orig.x_dump();
            ctx.oracle_checks += 1;
            if !d.claimed || d.typed != Default::default() || !orig.x_is_claimed() {
                ctx.oracle("C14", format!("claimed handle reports is_claimed={} stats {:?}", d.claimed, d.typed));
            }
        }
    }
}

fn exec(ctx: &mut Ctx, sc: &mut dyn ScopeOps, orig: Option<&dyn ScopeOps>, depth: usize) {
    loop {
        if ctx.ops_left == 0 {
            break;
        }
        ctx.ops_left -= 1;
        // leave the current region?
        if depth > 0 && ctx.rng.below(100) < 12 {
            break;
        }
        if let Some(o) = orig {
            if ctx.rng.below(100) < 25 {
                op_on_claimed(ctx, &*sc, o);
                continue;
            }
        }
        if ctx.prepared.is_some() {
            step_prepared(ctx, sc);
            continue;
        }
        let p = ctx.prof.clone();
        let weights = [
            p.alloc, p.dealloc, p.grow, p.shrink, p.typed, p.prepare, p.reserve, p.scope, p.checkpoint, p.claim, p.aligned, p.try_with, p.write,
            p.split,
            family_weight(&p),
        ];
        let total: u64 = weights.iter().sum();
        let mut r = ctx.rng.below(total);
        let mut k = 0;
        while r >= weights[k] {
            r -= weights[k];
            k += 1;
        }
        let before_alloc = sc.x_dump().typed.allocated;
        // a collection created on a still unallocated arena (its first chunk is made by the prepare)
        let k = if ctx.prof.name == "prepared" && sc.x_dump().cur.is_none() && !sc.x_is_claimed() && ctx.rng.chance(1, 2) { 5 } else { k };
        match k {
            0 => op_allocate(ctx, sc),
            1 => op_dealloc(ctx, sc),
            2 => op_grow(ctx, sc),
            3 => op_shrink(ctx, sc),
            4 => op_typed(ctx, sc),
            5 => op_prepare(ctx, sc),
            6 => op_reserve(ctx, sc),
            7 => op_scope(ctx, sc, orig, depth),
            8 => op_checkpoint(ctx, sc),
            9 => op_claim(ctx, sc, depth),
            10 => op_aligned(ctx, sc, orig, depth),
            11 => op_try_with(ctx, sc),
            12 => op_write(ctx, sc),
            13 => op_split(ctx, sc),
            _ => op_family(ctx, sc),
        }
        // ---- C13: the allocated byte count decreases only through the permitted operations
        let after_alloc = sc.x_dump().typed.allocated;
        if after_alloc < before_alloc && !matches!(k, 1 | 2 | 3 | 4 | 7 | 8 | 9 | 10 | 11) {
            ctx.oracle("C13", format!("allocated() decreased from {before_alloc} to {after_alloc} in an operation of class {k}"));
        }
    }
}

fn op_allocate(ctx: &mut Ctx, sc: &mut dyn ScopeOps) {
    let rem = remaining_of(sc);
    let l = gen_layout(ctx, rem);
    let zeroed = ctx.rng.chance(1, 4);
    let (via, e) = gen_via(ctx);
    let text = format!("allocate {} {} {} {}", l.size(), l.align(), zeroed as u8, via_tok(via));
    ctx.count("allocate");
    match sc.x_allocate(l, zeroed, via, e) {
        Ok((ptr, len)) => {
            check_new_block(ctx, &text, ptr, len, l);
            let shadow = if zeroed {
                // the whole RETURNED block is zero
                let bytes = unsafe { std::slice::from_raw_parts(ptr as *const u8, len.max(l.size())) };
                if bytes.iter().any(|&b| b != 0) {
                    ctx.oracle("C02", format!("`{text}`: allocate_zeroed returned non-zero bytes (returned block of {len} bytes)"));
                }
                vec![0; l.size()]
            } else {
                Vec::new()
            };
            let id = ctx.add_block(ptr, l.size(), l.align(), shadow, None);
            log_op(ctx, sc, &text, &format!("ok {id} {ptr} {len}"));
        }
        Err(()) => {
            ctx.br("allocate err");
            log_op(ctx, sc, &text, "err");
        }
    }
}

fn op_write(ctx: &mut Ctx, sc: &mut dyn ScopeOps) {
    let el = eligible(ctx);
    if el.is_empty() {
        return;
    }
    let pick = ctx.rng.pick(&el).id;
    let i = ctx.blocks.iter().position(|b| b.id == pick).unwrap();
    let seed = ctx.rng.below(1 << 20);
    let (id, ptr, size) = (ctx.blocks[i].id, ctx.blocks[i].ptr, ctx.blocks[i].size);
    ctx.blocks[i].shadow = fill_block(ptr, size, seed);
    ctx.count("write");
    log_op(ctx, sc, &format!("write {id} {seed}"), "unit");
}

fn op_split(ctx: &mut Ctx, sc: &mut dyn ScopeOps) {
    let el = eligible(ctx);
    if el.is_empty() {
        return;
    }
    let pick = ctx.rng.pick(&el).id;
    let i = ctx.blocks.iter().position(|b| b.id == pick).unwrap();
    let b = ctx.blocks[i].clone();
    let at = ctx.rng.range(0, b.size as u64) as usize;
    ctx.remove_block(b.id);
    let init = b.shadow.len();
    let s1 = b.shadow[..init.min(at)].to_vec();
    let s2 = if init > at { b.shadow[at..].to_vec() } else { Vec::new() };
    let id1 = ctx.add_block(b.ptr, at, 1, s1, None);
    ctx.add_block(b.ptr + at, b.size - at, 1, s2, None);
    ctx.count("split");
    log_op(ctx, sc, &format!("split {} {at}", b.id), &format!("ok {id1} {} {at}", b.ptr));
}

/// blocks the generator may operate on: during a replayed scope only blocks created inside it
fn eligible(ctx: &Ctx) -> Vec<Blk> {
    ctx.blocks.iter().filter(|b| b.id >= ctx.floor).cloned().collect()
}

fn pick_block(ctx: &mut Ctx, prefer_last: bool, sc: &dyn ScopeOps) -> Option<Blk> {
    let el = eligible(ctx);
    if el.is_empty() {
        return None;
    }
    if prefer_last && ctx.rng.chance(3, 5) {
        // the block that ends (up) / starts (down) at the bump position, if any
        let d = sc.x_dump();
        if let Some(i) = d.cur {
            let pos = d.fwd[i].pos;
            let up = sc.x_up();
            if let Some(b) = el.iter().rev().find(|b| if up { b.ptr + b.size == pos } else { b.ptr == pos }) {
                return Some(b.clone());
            }
        }
    }
    Some(ctx.rng.pick(&el).clone())
}

fn op_dealloc(ctx: &mut Ctx, sc: &mut dyn ScopeOps) {
    let Some(b) = pick_block(ctx, true, &*sc) else { return };
    let (via, e) = gen_via(ctx);
    let l = Layout::from_size_align(b.size, b.align).unwrap();
    let before = sc.x_dump();
    let text = format!("dealloc {} {}", b.id, via_tok(via));
    sc.x_deallocate(b.ptr, l, via, e);
    ctx.remove_block(b.id);
    ctx.count("dealloc");
    let d = log_op(ctx, sc, &text, "unit");
    // ---- C13
    let ma = sc.x_min_align();
    let was_last = before.cur.is_some_and(|i| if sc.x_up() { b.ptr + b.size == before.fwd[i].pos } else { b.ptr == before.fwd[i].pos });
    if via == Via::WithoutDealloc || !ctx.de {
        if d.typed.allocated != before.typed.allocated {
            ctx.oracle("C13", format!("`{text}`: deallocation is disabled but allocated() changed {} -> {}", before.typed.allocated, d.typed.allocated));
        }
    } else if !was_last {
        if d.typed != before.typed || cur_pos(&d, ctx.up) != cur_pos(&before, ctx.up) {
            ctx.oracle("C13", format!("`{text}`: deallocating a block that is not the newest changed the arena"));
        }
    } else if b.size % ma == 0 && b.size > 0 && ctx.rng.chance(1, 2) && ctx.ops_left > 0 {
        // reclaiming the newest allocation: the same layout again must return the same address
        ctx.br("dealloc-last then realloc");
        let text2 = format!("allocate {} {} 0 p", l.size(), l.align());
        match sc.x_allocate(l, false, Via::Plain, 0) {
            Ok((ptr, _)) => {
                if ptr != b.ptr {
                    ctx.oracle("C13", format!("deallocated the newest block {:#x} (size {}, align {}), the same request returned {ptr:#x}", b.ptr, b.size, b.align));
                }
                let id = ctx.add_block(ptr, l.size(), l.align(), Vec::new(), None);
                log_op(ctx, sc, &text2, &format!("ok {id} {ptr} {}", l.size()));
            }
            Err(()) => {
                ctx.oracle("C13", "re-allocation after deallocating the newest block failed".into());
                log_op(ctx, sc, &text2, "err");
            }
        }
    }
}

fn op_grow(ctx: &mut Ctx, sc: &mut dyn ScopeOps) {
    let Some(b) = pick_block(ctx, true, &*sc) else { return };
    let rem = remaining_of(sc);
    let add = gen_size(ctx, rem);
    let na = if ctx.rng.chance(1, 5) { gen_align(ctx) } else { b.align };
    let Ok(nl) = Layout::from_size_align(b.size + add, na) else { return };
    let zeroed = ctx.rng.chance(1, 4);
    let (via, e) = gen_via(ctx);
    let ol = Layout::from_size_align(b.size, b.align).unwrap();
    let text = format!("grow {} {} {} {} {}", b.id, nl.size(), nl.align(), zeroed as u8, via_tok(via));
    let before = sc.x_dump();
    ctx.count("grow");
    match sc.x_grow(b.ptr, ol, nl, zeroed, via, e) {
        Ok((ptr, len)) => {
            check_new_block(ctx, &text, ptr, len, nl);
            if ptr == b.ptr {
                ctx.br("grow in place");
            } else {
                ctx.br("grow moved");
            }
            // ---- C13: growing the newest block upwards with room and fitting alignment stays in place
            if ctx.up && via != Via::WithoutDealloc {
                if let Some(i) = before.cur {
                    let c = &before.fwd[i];
                    if b.ptr + b.size == c.pos && b.ptr % nl.align() == 0 && b.ptr + nl.size() <= c.content_end && ptr != b.ptr {
                        ctx.oracle("C13", format!("`{text}`: newest block with room was moved from {:#x} to {ptr:#x}", b.ptr));
                    }
                }
            }
            let mut shadow = b.shadow.clone();
            if zeroed {
                // `Allocator::grow_zeroed`: bytes old_size..(length of the RETURNED block) are zero
                let upto = len.max(nl.size());
                let tail = unsafe { std::slice::from_raw_parts((ptr + b.size) as *const u8, upto - b.size) };
                if let Some(k) = tail.iter().position(|&x| x != 0) {
                    ctx.oracle("C02", format!("`{text}`: the new tail of grow_zeroed is not all zero (byte {} of the returned block of {len} bytes reads {:#04x})", b.size + k, tail[k]));
                }
                if shadow.len() == b.size {
                    shadow.resize(nl.size(), 0);
                }
            }
            ctx.remove_block(b.id);
            let id = ctx.add_block(ptr, nl.size(), nl.align(), shadow, None);
            // the outcome carries the length the implementation RETURNED (the model returns exactly the requested size)
            log_op(ctx, sc, &text, &format!("ok {id} {ptr} {len}"));
        }
        Err(()) => {
            ctx.br("grow err");
            log_op(ctx, sc, &text, "err");
        }
    }
}

fn op_shrink(ctx: &mut Ctx, sc: &mut dyn ScopeOps) {
    let Some(b) = pick_block(ctx, true, &*sc) else { return };
    if b.elem.is_some() && ctx.rng.chance(1, 2) {
        return op_shrink_slice(ctx, sc, b);
    }
    let ns = ctx.rng.range(0, b.size as u64) as usize;
    let na = if ctx.rng.chance(1, 4) { gen_align(ctx) } else { b.align };
    let Ok(nl) = Layout::from_size_align(ns, na) else { return };
    let (via, e) = gen_via(ctx);
    let ol = Layout::from_size_align(b.size, b.align).unwrap();
    let text = format!("shrink {} {} {} {}", b.id, nl.size(), nl.align(), via_tok(via));
    let before = sc.x_dump();
    ctx.count("shrink");
    match sc.x_shrink(b.ptr, ol, nl, via, e) {
        Ok((ptr, len)) => {
            if ptr % nl.align() != 0 || len < nl.size() {
                ctx.oracle("C01", format!("`{text}` returned {ptr:#x}/{len}: misaligned or too small"));
            }
            if b.ptr % nl.align() != 0 {
                ctx.br("shrink unfit");
            }
            let mut shadow = b.shadow.clone();
            shadow.truncate(nl.size());
            ctx.remove_block(b.id);
            let id = ctx.add_block(ptr, len, nl.align(), shadow, None);
            let d = log_op(ctx, sc, &text, &format!("ok {id} {ptr} {len}"));
            if (via == Via::WithoutShrink || !ctx.sh) && d.cur == before.cur && d.typed.allocated < before.typed.allocated {
                ctx.oracle("C13", format!("`{text}`: shrinking is disabled but allocated() decreased {} -> {}", before.typed.allocated, d.typed.allocated));
            }
        }
        Err(()) => {
            ctx.br("shrink err");
            log_op(ctx, sc, &text, "err");
        }
    }
}

fn op_shrink_slice(ctx: &mut Ctx, sc: &mut dyn ScopeOps, b: Blk) {
    let e = b.elem.unwrap();
    let es = e.layout().size();
    let old_len = b.size / es;
    let new_len = ctx.rng.range(0, old_len as u64) as usize;
    let text = format!("shrink_slice {} {}", b.id, new_len * es);
    ctx.count("shrink_slice");
    match sc.x_shrink_slice(e, b.ptr, old_len, new_len) {
        Some(ptr) => {
            let mut shadow = b.shadow.clone();
            shadow.truncate(new_len * es);
            ctx.remove_block(b.id);
            let id = ctx.add_block(ptr, new_len * es, b.align, shadow, Some(e));
            log_op(ctx, sc, &text, &format!("ok {id} {ptr} {}", new_len * es));
        }
        None => {
            log_op(ctx, sc, &text, "none");
        }
    }
}

/// C17: a typed fast-path allocation that had to switch chunks must leave the new chunk exactly as
/// the generic layout path would: the block near the start, i.e. fewer than
/// `size + align + min_align` bytes of the new current chunk consumed
fn check_typed_slow_path(ctx: &mut Ctx, sc: &dyn ScopeOps, before: &Dump, text: &str, l: Layout) {
    let d = sc.x_dump();
    if let Some(j) = d.cur {
        if before.cur != d.cur {
            let used = d.fwd[j].allocated;
            if used >= l.size() + l.align() + sc.x_min_align() {
                ctx.oracle("C17", format!("TYPED-SLOW-PATH `{text}`: after switching chunks the typed request of {} bytes (align {}) consumed {used} bytes of the new chunk; the generic layout path consumes fewer than size + align + min_align", l.size(), l.align()));
            }
        }
    }
}

fn op_typed(ctx: &mut Ctx, sc: &mut dyn ScopeOps) {
    let before_typed = sc.x_dump();
    // entry point: try_ method, trait object, or (only when no base-allocator failure can occur) the panicking twin
    let mode: u8 = match ctx.rng.below(10) {
        0 | 1 => 1,
        2 | 3 if !ctx.fail_injected => 2,
        4 | 5 => 3, // slices only: `try_allocate_slice_for`
        _ => 0,
    };
    let mode_plain = if mode == 3 { 0 } else { mode };
    let dy = mode == 1;
    match ctx.rng.below(3) {
        0 => {
            let rem = remaining_of(sc);
            let l = gen_layout(ctx, rem);
            let text = format!("alloc_layout {} {} 0 0 0", l.size(), l.align());
            ctx.count("alloc_layout");
            let mode_plain = if l.size() > 1 << 20 && mode_plain == 2 { 0 } else { mode_plain };
            match sc.x_alloc_layout(l, mode_plain) {
                Ok(ptr) => {
                    check_new_block(ctx, &text, ptr, l.size(), l);
                    let id = ctx.add_block(ptr, l.size(), l.align(), Vec::new(), None);
                    log_op(ctx, sc, &text, &format!("ok {id} {ptr} {}", l.size()));
                    check_typed_slow_path(ctx, &*sc, &before_typed, &text, l);
                }
                Err(()) => {
                    log_op(ctx, sc, &text, "err");
                }
            }
        }
        1 => {
            let e = *ctx.rng.pick(&Elem::ALL);
            let l = e.layout();
            // the trait-object path has no type knowledge: it carries no hints
            let text = if dy { format!("alloc_layout {} {} 0 0 0", l.size(), l.align()) } else { format!("alloc_layout {} {} 1 1 1", l.size(), l.align()) };
            ctx.count("alloc_sized");
            match sc.x_alloc_sized(e, mode_plain) {
                Ok(ptr) => {
                    check_new_block(ctx, &text, ptr, l.size(), l);
                    let id = ctx.add_block(ptr, l.size(), l.align(), Vec::new(), None);
                    log_op(ctx, sc, &text, &format!("ok {id} {ptr} {}", l.size()));
                    check_typed_slow_path(ctx, &*sc, &before_typed, &text, l);
                }
                Err(()) => {
                    log_op(ctx, sc, &text, "err");
                }
            }
        }
        _ => {
            let e = *ctx.rng.pick(&Elem::SLICEABLE);
            let el = e.layout();
            let rem = remaining_of(sc);
            let n = gen_size(ctx, rem) / el.size();
            let l = Layout::from_size_align(el.size() * n, el.align()).unwrap();
            let text = if dy { format!("alloc_layout {} {} 0 0 0", l.size(), l.align()) } else { format!("alloc_layout {} {} 1 0 1", l.size(), l.align()) };
            ctx.count("alloc_slice");
            let mode = if l.size() > 1 << 20 && mode == 2 { 0 } else { mode };
            match sc.x_alloc_slice(e, n, mode) {
                Ok(ptr) => {
                    check_new_block(ctx, &text, ptr, l.size(), l);
                    let id = ctx.add_block(ptr, l.size(), l.align(), Vec::new(), Some(e));
                    log_op(ctx, sc, &text, &format!("ok {id} {ptr} {}", l.size()));
                    check_typed_slow_path(ctx, &*sc, &before_typed, &text, l);
                }
                Err(()) => {
                    log_op(ctx, sc, &text, "err");
                }
            }
        }
    }
}

fn op_reserve(ctx: &mut Ctx, sc: &mut dyn ScopeOps) {
    let rem = remaining_of(sc);
    let n = match ctx.rng.below(5) {
        4 => 0,
        0 => ctx.rng.below(64) as usize,
        1 => rem + ctx.rng.below(64) as usize,
        2 => ctx.rng.below(10000) as usize,
        _ => rem.saturating_sub(ctx.rng.below(16) as usize),
    };
    // the trait-object `reserve` is known finding C17-a (it switches chunks); it is modelled as it
    // is, but only exercised rarely and never when it would outgrow the current chunk in C-profiles
    let dy = ctx.rng.chance(1, 8);
    let text = format!("reserve {n} {}", dy as u8);
    ctx.count("reserve");
    let before = sc.x_dump();
    match sc.x_reserve(n, dy) {
        Ok(()) => {
            let d = log_op(ctx, sc, &text, "unit");
            if !dy && d.typed.remaining < n {
                ctx.oracle("C05", format!("`{text}` succeeded but remaining() is {}", d.typed.remaining));
            }
            if !dy && before.cur.is_some() && (d.cur != before.cur || cur_pos(&d, ctx.up) != cur_pos(&before, ctx.up)) {
                ctx.oracle("C17", format!("`{text}` (typed reserve) moved the bump position"));
            }
            if dy && before.cur.is_some() && (d.cur != before.cur || d.typed.allocated != before.typed.allocated) {
                // the typed `reserve` never changes the current chunk / allocated(): the two entry points differ
                ctx.oracle("C17", format!("RESERVE-DYN `{text}` through dyn BumpAllocatorCore changed the current chunk {:?} -> {:?} / allocated {} -> {} (the typed reserve leaves both unchanged)", before.cur, d.cur, before.typed.allocated, d.typed.allocated));
            }
        }
        Err(()) => {
            log_op(ctx, sc, &text, "err");
        }
    }
}

fn snapshot_positions(d: &Dump) -> Vec<(usize, usize)> {
    match d.cur {
        Some(i) => d.fwd[..=i].iter().map(|c| (c.chunk_start, c.pos)).collect(),
        None => Vec::new(),
    }
}

fn op_prepare(ctx: &mut Ctx, sc: &mut dyn ScopeOps) {
    let before = sc.x_dump();
    let snap = snapshot_positions(&before);
    if ctx.rng.chance(1, 3) {
        // untyped interface
        let a = 1usize << ctx.rng.below(6);
        let rem = remaining_of(sc);
        let s = gen_size(ctx, rem) / a * a;
        let l = Layout::from_size_align(s, a).unwrap();
        let dy = ctx.rng.chance(1, 2);
        let text = format!("prepare {} {}", l.size(), l.align());
        ctx.count("prepare");
        match sc.x_prepare(l, dy) {
            Ok((lo, hi)) => {
                if lo % a != 0 || hi % a != 0 || hi - lo < s {
                    ctx.oracle("C01", format!("`{text}` returned range [{lo:#x},{hi:#x}) misaligned or too small"));
                }
                ctx.prepared = Some(Prep { lo, hi, esize: 1, ealign: a, typed: false, rev: false, elem: None, ptr: lo, cap: hi - lo, filled: 0, seed: 0, pos_snapshot: snap, dyn_: false });
                log_op(ctx, sc, &text, &format!("ok 0 {lo} {}", hi - lo));
            }
            Err(()) => {
                log_op(ctx, sc, &text, "err");
            }
        }
    } else {
        let e = *ctx.rng.pick(&Elem::SLICEABLE);
        let el = e.layout();
        let rem = remaining_of(sc);
        let cap = gen_size(ctx, rem) / el.size();
        let rev = ctx.rng.chance(1, 2);
        let text = format!("prepare_slice {} {} {cap} {}", el.size(), el.align(), rev as u8);
        ctx.count("prepare_slice");
        let dy = ctx.rng.chance(1, 3);
        match sc.x_prepare_slice(e, cap, rev, dy) {
            Ok((ptr, got)) => {
                if got < cap || ptr % el.align() != 0 {
                    ctx.oracle("C01", format!("`{text}` returned capacity {got} / pointer {ptr:#x}"));
                }
                let (lo, hi) = if rev { (ptr - got * el.size(), ptr) } else { (ptr, ptr + got * el.size()) };
                ctx.prepared = Some(Prep { lo, hi, esize: el.size(), ealign: el.align(), typed: true, rev, elem: Some(e), ptr, cap: got, filled: 0, seed: 0, pos_snapshot: snap, dyn_: dy });
                log_op(ctx, sc, &text, &format!("ok {} {ptr} {got}", rev as u8));
            }
            Err(()) => {
                log_op(ctx, sc, &text, "err");
            }
        }
    }
    check_c15_unmoved(ctx, sc, "prepare");
}

/// C15: while a prepared allocation is outstanding no bump position inside a chunk moves
fn check_c15_unmoved(ctx: &mut Ctx, sc: &dyn ScopeOps, what: &str) {
    let Some(p) = &ctx.prepared else { return };
    let d = sc.x_dump();
    let snap = p.pos_snapshot.clone();
    for (start, pos) in snap {
        if let Some(c) = d.fwd.iter().find(|c| c.chunk_start == start) {
            if c.pos != pos {
                ctx.oracle("C15", format!("{what}: bump position of chunk {start:#x} moved from {pos:#x} to {:#x} while a prepared allocation is outstanding", c.pos));
                return;
            }
        }
    }
}

fn step_prepared(ctx: &mut Ctx, sc: &mut dyn ScopeOps) {
    let p = ctx.prepared.as_ref().unwrap();
    let (typed, rev, cap, esize, lo, hi) = (p.typed, p.rev, p.cap, p.esize, p.lo, p.hi);
    match ctx.rng.below(10) {
        0..=3 => {
            // the collection writes elements: forward collections from the start, rev ones from the end
            let len = ctx.rng.range(0, cap.min(4000) as u64) as usize;
            let seed = ctx.rng.below(1 << 19) * 2 + (typed && rev) as u64;
            let start = if typed && rev { hi - len * esize } else { lo };
            fill_block(start, len * esize, seed);
            let p = ctx.prepared.as_mut().unwrap();
            p.filled = len;
            p.seed = seed;
            ctx.count("fill");
            log_op(ctx, sc, &format!("fill {len} {seed}"), "unit");
            check_c15_unmoved(ctx, sc, "fill");
        }
        4 => {
            // dropped / unwound without being finalised
            check_c15_unmoved(ctx, sc, "abandon");
            ctx.prepared = None;
            ctx.count("abandon");
            log_op(ctx, sc, "abandon", "unit");
        }
        5 if typed => {
            // the collection outgrows its capacity: it asks for a bigger area (the old contents are copied by the collection)
            // (as MutBumpVec::generic_grow_* does: the old buffer stays in use until the new one exists,
            //  and remains THE buffer when the request fails)
            let p = ctx.prepared.take().unwrap();
            let e = p.elem.unwrap();
            let want = p.cap + 1 + ctx.rng.below(200) as usize;
            let text = format!("prepare_slice {} {} {want} {}", p.esize, p.ealign, p.rev as u8);
            ctx.count("prepare_slice (regrow)");
            match sc.x_prepare_slice(e, want, p.rev, p.dyn_) {
                Ok((ptr, got)) => {
                    let (lo2, hi2) = if p.rev { (ptr - got * p.esize, ptr) } else { (ptr, ptr + got * p.esize) };
                    ctx.prepared = Some(Prep { lo: lo2, hi: hi2, ptr, cap: got, filled: 0, seed: 0, ..p });
                    log_op(ctx, sc, &text, &format!("ok {} {ptr} {got}", ctx.prepared.as_ref().unwrap().rev as u8));
                    check_c15_unmoved(ctx, sc, "regrow");
                }
                Err(()) => {
                    ctx.br("regrow failed, old buffer kept");
                    ctx.prepared = Some(p);
                    log_op(ctx, sc, &text, "err");
                }
            }
        }
        _ => {
            let p = ctx.prepared.take().unwrap();
            let before = sc.x_dump();
            let len = p.filled;
            if p.typed {
                let e = p.elem.unwrap();
                ctx.count("commit_slice");
                let (ptr, n) = sc.x_commit_slice(e, p.ptr, len, p.cap, p.rev, p.dyn_);
                let bytes = len * p.esize;
                let shadow: Vec<u8> = (0..bytes).map(|k| pattern(p.seed, k)).collect();
                if n != len {
                    ctx.oracle("C15", format!("commit_slice returned {n} elements, {len} were pushed"));
                }
                // C15: the finalised slice holds exactly the elements that were pushed, in order
                let actual: Vec<u8> = if bytes == 0 { Vec::new() } else { unsafe { std::slice::from_raw_parts(ptr as *const u8, bytes) }.to_vec() };
                if actual != shadow {
                    let k = actual.iter().zip(&shadow).position(|(a, b)| a != b).unwrap_or(0);
                    ctx.oracle(
                        "C15",
                        format!("finalising {len} element(s) of {} byte(s) ({}, {}): the returned slice at {ptr:#x} differs from what was pushed at byte {k} (reads {:#04x}, pushed {:#04x})", p.esize, if p.rev { "rev" } else { "forward" }, if p.dyn_ { "dyn" } else { "typed" }, actual[k], shadow[k]),
                    );
                }
                let id = ctx.add_block(ptr, bytes, p.ealign, shadow, Some(e));
                let d = log_op(ctx, sc, &format!("commit_slice {len}"), &format!("ok {id} {ptr} {bytes}"));
                c15_advance(ctx, &before, &d, bytes, p.ealign, sc.x_min_align());
            } else {
                let size = (len * p.esize) / p.ealign * p.ealign;
                let rev = ctx.rng.chance(1, 2);
                // untyped: contents were written from `lo`; the rev variant expects them at the end
                let seed = p.seed;
                if rev {
                    fill_block(p.hi - size, size, seed | 1);
                    log_op(ctx, sc, &format!("fill {size} {}", seed | 1), "unit");
                }
                let l = Layout::from_size_align(size, p.ealign).unwrap();
                ctx.count("commit");
                let ptr = sc.x_commit(l, (p.lo, p.hi), rev, ctx.rng.chance(1, 2));
                let shadow: Vec<u8> = (0..size).map(|k| pattern(if rev { seed | 1 } else { seed }, k)).collect();
                let id = ctx.add_block(ptr, size, p.ealign, shadow, None);
                let d = log_op(ctx, sc, &format!("commit {size} {}", rev as u8), &format!("ok {id} {ptr} {size}"));
                c15_advance(ctx, &before, &d, size, p.ealign, sc.x_min_align());
            }
        }
    }
}

/// C15: finalising advances the position by the size of the contents plus at most the padding
fn c15_advance(ctx: &mut Ctx, before: &Dump, after: &Dump, bytes: usize, ealign: usize, ma: usize) {
    if let (Some(i), Some(j)) = (before.cur, after.cur) {
        if i == j {
            let (a, b) = (before.fwd[i].pos, after.fwd[j].pos);
            let delta = a.abs_diff(b);
            if delta < bytes || delta >= bytes + ealign + ma {
                ctx.oracle("C15", format!("finalising {bytes} bytes (element align {ealign}, min align {ma}) moved the position by {delta}"));
            }
        }
    }
}

fn scope_snap(ctx: &Ctx, sc: &dyn ScopeOps) -> ScopeSnap {
    let d = sc.x_dump();
    ScopeSnap { mark: ctx.next_id, cur: d.cur, claimed: d.claimed, pos: cur_pos(&d, ctx.up), allocated: d.typed.allocated, chunk_count: d.fwd.len() }
}

/// C03: leaving a scope restores position and allocated byte count exactly, releases nothing
fn check_restore(ctx: &mut Ctx, snap: &ScopeSnap, d: &Dump, what: &str) {
    let first_chunk_rewind = snap.cur.is_none() && !snap.claimed;
    if first_chunk_rewind {
        // the checkpoint was taken before anything was allocated: rewind to the start of the first chunk
        if let Some(i) = d.cur {
            if i != 0 || d.typed.allocated != 0 {
                ctx.oracle("C03", format!("{what}: scope entered unallocated, after exit current chunk is {i} with allocated {}", d.typed.allocated));
            }
        }
    } else if d.cur != snap.cur || cur_pos(d, ctx.up) != snap.pos || d.typed.allocated != snap.allocated {
        ctx.oracle(
            "C03",
            format!("{what}: entered at chunk {:?} pos {:#x} allocated {}, left at chunk {:?} pos {:#x} allocated {}", snap.cur, snap.pos, snap.allocated, d.cur, cur_pos(d, ctx.up), d.typed.allocated),
        );
        if what == "scoped_aligned" && (d.cur != snap.cur || cur_pos(d, ctx.up) != snap.pos) {
            // C18: after `scoped_aligned` returns (or unwinds) the position is exactly the entry position
            ctx.oracle("C18", format!("scoped_aligned: entered at chunk {:?} pos {:#x}, left at chunk {:?} pos {:#x}", snap.cur, snap.pos, d.cur, cur_pos(d, ctx.up)));
        }
    }
    if d.fwd.len() < snap.chunk_count {
        ctx.oracle("C03", format!("{what}: chunks were released while leaving the scope"));
    }
}

fn op_scope(ctx: &mut Ctx, sc: &mut dyn ScopeOps, orig: Option<&dyn ScopeOps>, depth: usize) {
    if depth >= 6 {
        return;
    }
    // ---- C03 (replay): the same workload in a second scope needs no new memory from the base allocator
    if !ctx.fail_injected && !ctx.replaying && ctx.rng.chance(1, 4) {
        let rng0 = ctx.rng.clone();
        let ops0 = ctx.ops_left;
        let fails0 = BASE.with(|b| b.borrow().total_failures);
        ctx.replaying = true;
        let floor0 = ctx.floor;
        ctx.floor = ctx.next_id;
        let cp_floor0 = ctx.cp_floor;
        ctx.cp_floor = ctx.next_key;
        ctx.out.push_str("# replay-first\n");
        ctx.shape.clear();
        op_scope_once(ctx, sc, orig, depth);
        // the generator looks at the state in a few places (an unallocated arena, the room left): the oracle only
        // applies when both runs really are the same workload — same operations with the same sizes
        let shape_first = std::mem::take(&mut ctx.shape);
        let clean = BASE.with(|b| b.borrow().total_failures) == fails0;
        if clean && ops0 > 0 {
            let calls0 = BASE.with(|b| b.borrow().alloc_calls);
            let (rng1, ops1) = (ctx.rng.clone(), ctx.ops_left);
            ctx.rng = rng0;
            ctx.ops_left = ops0;
            ctx.br("scope replayed");
            ctx.floor = ctx.next_id;
            ctx.cp_floor = ctx.next_key;
            ctx.out.push_str("# replay-second\n");
            op_scope_once(ctx, sc, orig, depth);
            let same = ctx.shape == shape_first;
            ctx.out.push_str("# replay-end\n");
            let calls1 = BASE.with(|b| b.borrow().alloc_calls);
            ctx.count(if same { "replay:same-workload" } else { "replay:generator-diverged(not judged)" });
            if same && calls1 != calls0 {
                ctx.oracle("C03", format!("REPLAY: repeating the same workload in a new scope made {} new request(s) to the base allocator", calls1 - calls0));
            }
            ctx.rng = rng1;
            ctx.ops_left = ops1;
        }
        ctx.replaying = false;
        ctx.floor = floor0;
        ctx.cp_floor = cp_floor0;
        return;
    }
    op_scope_once(ctx, sc, orig, depth);
}

fn op_scope_once(ctx: &mut Ctx, sc: &mut dyn ScopeOps, orig: Option<&dyn ScopeOps>, depth: usize) {
    let mode = ctx.rng.below(3) as u8;
    let panics = mode == 0 && ctx.rng.chance(1, 6);
    let snap = scope_snap(ctx, sc);
    ctx.marks.push(ctx.next_id);
    ctx.frames += 1;
    ctx.count("scope");
    let mut body = |inner: &mut dyn ScopeOps| {
        log_op(ctx, inner, "scope_enter", "unit");
        exec(ctx, inner, orig, depth + 1);
        if ctx.prepared.is_some() {
            ctx.prepared = None;
            log_op(ctx, inner, "abandon", "unit");
        }
        if panics {
            ctx.br("scope left by unwinding");
            std::panic::resume_unwind(Box::new("injected panic in scope closure"));
        }
    };
    if panics {
        let _ = catch_unwind(AssertUnwindSafe(|| sc.x_scoped(mode, &mut body)));
    } else {
        sc.x_scoped(mode, &mut body);
    }
    let mark = ctx.marks.pop().unwrap();
    ctx.frames -= 1;
    ctx.kill_from(mark);
    let d = log_op(ctx, sc, "scope_exit", "unit");
    check_restore(ctx, &snap, &d, "scope");
}

fn op_checkpoint(ctx: &mut Ctx, sc: &mut dyn ScopeOps) {
    let depth_marks = ctx.marks.len();
    // reset to a checkpoint that is not older than the innermost open scope
    let usable: Vec<usize> = ctx.user_cps.iter().enumerate().filter(|(_, c)| c.0 >= ctx.cp_floor && ctx.marks.iter().all(|m| *m <= c.2)).map(|(i, _)| i).collect();
    if !usable.is_empty() && ctx.rng.chance(1, 2) {
        let i = *ctx.rng.pick(&usable);
        let (key, cp, mark, _) = ctx.user_cps[i].clone();
        sc.x_reset_to(cp);
        ctx.kill_from(mark);
        ctx.count("reset_to");
        log_op(ctx, sc, &format!("reset_to {key}"), "unit");
    } else {
        if sc.x_is_claimed() {
            return;
        }
        let key = ctx.next_key;
        ctx.next_key += 1;
        let cp = sc.x_checkpoint();
        ctx.user_cps.push((key, cp, ctx.next_id, depth_marks));
        ctx.count("checkpoint");
        log_op(ctx, sc, &format!("checkpoint {key}"), "unit");
    }
}

fn op_claim(ctx: &mut Ctx, sc: &mut dyn ScopeOps, depth: usize) {
    if depth >= 6 {
        return;
    }
    ctx.frames += 1;
    ctx.claim_depth += 1;
    ctx.count("claim");
    let before = sc.x_dump();
    let mut body = |claimant: &mut dyn ScopeOps, original: &dyn ScopeOps| {
        log_op(ctx, claimant, "claim", "unit");
        let od = original.x_dump();
        if !od.claimed || od.typed != Default::default() {
            ctx.oracle("C14", format!("right after claim() the original reports claimed={} stats {:?}", od.claimed, od.typed));
        }
        if ctx.rng.chance(1, 3) {
            ctx.oracle_checks += 1;
            if !original.x_claim_again_panics() {
                ctx.oracle("C14", "a second claim() on a claimed handle did not panic".into());
            }
            log_op(ctx, claimant, "on_claimed claim", "panic");
        }
        exec(ctx, claimant, Some(original), depth + 1);
        if ctx.prepared.is_some() {
            ctx.prepared = None;
            log_op(ctx, claimant, "abandon", "unit");
        }
    };
    sc.x_claim(&mut body);
    ctx.frames -= 1;
    ctx.claim_depth -= 1;
    let d = log_op(ctx, sc, "claim_end", "unit");
    if d.claimed {
        ctx.oracle("C14", "after the claim guard was dropped the original handle is still claimed".into());
    }
    if d.fwd.len() < before.fwd.len() {
        ctx.oracle("C14", "chunks disappeared during a claim".into());
    }
}

fn op_aligned(ctx: &mut Ctx, sc: &mut dyn ScopeOps, orig: Option<&dyn ScopeOps>, depth: usize) {
    if depth >= 6 {
        return;
    }
    let n = 1usize << ctx.rng.below(5);
    let outer = sc.x_min_align();
    let scoped = ctx.rng.chance(1, 2);
    // raising the alignment of an allocated, unclaimed arena can equally be done by value:
    // `scope.by_value().with_settings::<N>()` (same model operation: align_to, nothing on exit)
    // (`by_value()` on an UNALLOCATED arena first acquires the minimum chunk — `make_allocated`, the model's `reserve 0`;
    // the panicking form is only used when no base-allocator failure can hit it)
    let d0 = sc.x_dump();
    let bv_unallocated = d0.cur.is_none() && !d0.claimed && !ctx.fail_injected;
    let by_value = !scoped && n >= outer && (d0.cur.is_some() || bv_unallocated) && ctx.rng.chance(1, 2);
    let panics = !by_value && ctx.rng.chance(1, 8);
    if by_value {
        ctx.br("by_value().with_settings");
    }
    let snap = scope_snap(ctx, sc);
    if scoped {
        ctx.marks.push(ctx.next_id);
    }
    ctx.frames += 1;
    ctx.count(if scoped { "scoped_aligned" } else { "aligned" });
    let enter = if scoped { format!("scoped_aligned_enter {n}") } else { format!("aligned_enter {n}") };
    let mut body = |inner: &mut dyn ScopeOps| {
        let d = log_op(ctx, inner, &enter, "unit");
        if let Some(i) = d.cur {
            if d.fwd[i].pos % n != 0 {
                ctx.oracle("C18", format!("at entry of the region with minimum alignment {n} the position is {:#x}", d.fwd[i].pos));
            }
        }
        exec(ctx, inner, orig, depth + 1);
        if ctx.prepared.is_some() {
            ctx.prepared = None;
            log_op(ctx, inner, "abandon", "unit");
        }
        if panics {
            ctx.br("aligned region left by unwinding");
            std::panic::resume_unwind(Box::new("injected panic in aligned closure"));
        }
    };
    if panics {
        let _ = catch_unwind(AssertUnwindSafe(|| if scoped { sc.x_scoped_aligned(n, &mut body) } else { sc.x_aligned(n, &mut body) }));
    } else if scoped {
        sc.x_scoped_aligned(n, &mut body);
    } else if by_value {
        // `by_value()` hands out a COPY of the handle (its chunk pointer is not written back), so the
        // region is kept free of chunk switches: entry alignment check plus at most one small allocation
        drop(body);
        let mut body_bv = |inner: &mut dyn ScopeOps| {
            if bv_unallocated {
                ctx.br("by_value() on an unallocated arena");
                ctx.ma_override = Some(outer);
                let d = log_op(ctx, inner, "reserve 0 0", "unit");
                if d.cur.is_none() {
                    ctx.oracle("C03", "by_value() on an unallocated arena did not acquire a chunk".into());
                }
            }
            let d = log_op(ctx, inner, &enter, "unit");
            if let Some(i) = d.cur {
                if d.fwd[i].pos % n != 0 {
                    ctx.oracle("C18", format!("after by_value().with_settings to minimum alignment {n} the position is {:#x}", d.fwd[i].pos));
                }
                if d.fwd[i].remaining >= 256 {
                    let l = Layout::from_size_align(1 + ctx.rng.below(24) as usize, 1 << ctx.rng.below(4)).unwrap();
                    let text = format!("allocate {} {} 0 p", l.size(), l.align());
                    if let Ok((ptr, _)) = inner.x_allocate(l, false, Via::Plain, 0) {
                        let id = ctx.add_block(ptr, l.size(), l.align(), Vec::new(), None);
                        let d2 = log_op(ctx, inner, &text, &format!("ok {id} {ptr} {}", l.size()));
                        if let Some(j) = d2.cur {
                            if d2.fwd[j].pos % n != 0 {
                                ctx.oracle("C18", format!("inside by_value().with_settings::<{n}> the position is {:#x} after an allocation", d2.fwd[j].pos));
                            }
                        }
                    }
                }
            }
        };
        sc.x_by_value_with_settings(n, &mut body_bv);
    } else {
        sc.x_aligned(n, &mut body);
    }
    ctx.frames -= 1;
    if scoped {
        let mark = ctx.marks.pop().unwrap();
        ctx.kill_from(mark);
    }
    let d = log_op(ctx, sc, if scoped { "scoped_aligned_exit" } else { "aligned_exit" }, "unit");
    if by_value && bv_unallocated && d.cur.is_none() {
        // the chunk acquired by `by_value()` belongs to the arena: it must still be there (and reusable) afterwards
        ctx.oracle("C03", "by_value() on an unallocated arena: after the by-value scope is gone the arena owns no chunk (the chunk it acquired is orphaned)".into());
    }
    if let Some(i) = d.cur {
        if d.fwd[i].pos % outer != 0 {
            ctx.oracle("C18", format!("after leaving the region the position {:#x} is not a multiple of the outer minimum alignment {outer}", d.fwd[i].pos));
        }
    }
    if scoped {
        check_restore(ctx, &snap, &d, "scoped_aligned");
    }
}

fn op_try_with(ctx: &mut Ctx, sc: &mut dyn ScopeOps) {
    let k = *ctx.rng.pick(&TryKind::ALL);
    let info = k.info();
    let ok = ctx.rng.chance(1, 2);
    let mut_ = ctx.rng.chance(1, 2);
    let inner_l = if !mut_ && ctx.rng.chance(1, 2) {
        let l = gen_layout(ctx, 64);
        Some(Layout::from_size_align(l.size().max(1), l.align()).unwrap())
    } else {
        None
    };
    let snap = scope_snap(ctx, sc);
    let mut inner_res: Option<(usize, Layout)> = None;
    ctx.count(if mut_ { "try_with_mut" } else { "try_with" });
    let r = sc.x_try_with(k, ok, mut_, &mut |view: &dyn ScopeOps| {
        if let Some(l) = inner_l {
            if let Ok((p, _)) = view.x_allocate(l, false, Via::Plain, 0) {
                inner_res = Some((p, l));
            }
        }
    });
    let inner_txt = match inner_l {
        Some(l) => format!("1 {} {}", l.size(), l.align()),
        None => "0".to_string(),
    };
    let text = format!("try_with {} {} {} {} {} {inner_txt} {}", info.layout.size(), info.layout.align(), info.off, info.vsize, ok as u8, mut_ as u8);
    // ids: the inner block first, then the value
    let had_inner = inner_res.is_some();
    if let Some((p, l)) = inner_res {
        ctx.add_block(p, l.size(), l.align(), Vec::new(), None);
    }
    match r {
        Err(()) => {
            log_op(ctx, sc, &text, "err");
        }
        Ok(Some(vptr)) => {
            let id = ctx.add_block(vptr, info.vsize, 1, Vec::new(), None);
            log_op(ctx, sc, &text, &format!("ok {id} {vptr} {}", info.vsize));
        }
        Ok(None) => {
            if !had_inner {
                ctx.kill_from(snap.mark);
            }
            let d = log_op(ctx, sc, &text, "none");
            if !had_inner {
                check_restore(ctx, &snap, &d, "alloc_try_with returning Err");
            }
        }
    }
}
