// included by src/bin/arena.rs — top-level (owning `Bump`) part: thin generic functions + dispatch

type S<const MA: usize, const UP: bool, const GA: bool, const DE: bool, const SH: bool, const MCS: usize> =
    BumpSettings<MA, UP, GA, true, DE, SH, MCS>;

fn hdr_layout<A>() -> Layout {
    // ChunkHeader<A>: repr(C, align(16)) { pos, end, prev, next : 4 pointers; allocator: A }
    let aal = align_of::<A>();
    let off = (32 + aal - 1) / aal * aal;
    let al = aal.max(16);
    let sz = (off + size_of::<A>() + al - 1) / al * al;
    Layout::from_size_align(sz, al).unwrap()
}

/// what the generator wants to do next with the owned `Bump`
enum TopAct {
    ResetLoop,
    Exec,
    Reset,
    ResetToStart,
    WithSettings(usize),
    Drop,
}

fn next_top(ctx: &mut Ctx) -> TopAct {
    if ctx.ops_left == 0 {
        return TopAct::Drop;
    }
    let r = ctx.rng.below(100);
    if !ctx.fail_injected && ctx.rng.below(1000) < ctx.prof.top * 3 {
        return TopAct::ResetLoop;
    }
    if r < ctx.prof.top * 2 {
        match ctx.rng.below(4) {
            0 | 1 => TopAct::Reset,
            2 => TopAct::ResetToStart,
            _ => TopAct::WithSettings(1 << ctx.rng.below(5)),
        }
    } else {
        TopAct::Exec
    }
}

fn top_loop<A, const MA: usize, const UP: bool, const GA: bool, const DE: bool, const SH: bool, const MCS: usize>(
    mut bump: Bump<A, S<MA, UP, GA, DE, SH, MCS>>,
    ctx: &mut Ctx,
) where
    A: TestBase + BaseAllocator<Bool<GA>>,
    MinimumAlignment<MA>: SupportedMinimumAlignment,
    for<'x> bump_scope::BumpScope<'x, A, S<MA, UP, GA, DE, SH, MCS>>: verif_harness::scope_ops::ByValueRaise,
{
    ctx.ma_now = MA;
    loop {
        match next_top(ctx) {
            TopAct::Exec => {
                let budget = 1 + ctx.rng.below(40) as usize;
                let save = ctx.ops_left;
                ctx.ops_left = budget.min(save);
                let used_before = ctx.ops_left;
                exec(ctx, bump.as_mut_scope(), None, 0);
                if ctx.prepared.is_some() {
                    ctx.prepared = None;
                    log_op(ctx, bump.as_mut_scope(), "abandon", "unit");
                }
                ctx.ops_left = save - (used_before - ctx.ops_left);
            }
            TopAct::ResetLoop => {
                // ---- C03 (c): a FIXED workload run in a reset() loop stops requesting chunks after
                // finitely many rounds, and stays quiet afterwards
                ctx.ops_left = ctx.ops_left.saturating_sub(1);
                ctx.count("reset loop");
                let n = 3 + ctx.rng.below(20) as usize;
                let work: Vec<Layout> = (0..n).map(|_| gen_layout(ctx, 3000)).collect();
                let mut quiet_round = None;
                for round in 0..14 {
                    bump.reset();
                    ctx.blocks.clear();
                    ctx.user_cps.clear();
                    log_op(ctx, bump.as_mut_scope(), "reset", "unit");
                    let calls0 = BASE.with(|b| b.borrow().alloc_calls);
                    for l in &work {
                        let text = format!("allocate {} {} 0 p", l.size(), l.align());
                        match bump.as_mut_scope().x_allocate(*l, false, Via::Plain, 0) {
                            Ok((ptr, _)) => {
                                let id = ctx.add_block(ptr, l.size(), l.align(), Vec::new(), None);
                                log_op(ctx, bump.as_mut_scope(), &text, &format!("ok {id} {ptr} {}", l.size()));
                            }
                            Err(()) => {
                                log_op(ctx, bump.as_mut_scope(), &text, "err");
                            }
                        }
                    }
                    let calls = BASE.with(|b| b.borrow().alloc_calls) - calls0;
                    match quiet_round {
                        None if calls == 0 => quiet_round = Some(round),
                        Some(q) if calls != 0 => {
                            ctx.oracle("C03", format!("RESET-LOOP: round {q} of a fixed workload needed no new memory but round {round} made {calls} request(s)"));
                            break;
                        }
                        Some(q) if round > q => break,
                        _ => {}
                    }
                }
                if quiet_round.is_none() && BASE.with(|b| b.borrow().total_failures) == 0 {
                    ctx.oracle("C03", "RESET-LOOP: a fixed workload still requests chunks after 14 reset() rounds".into());
                }
            }
            TopAct::Reset => {
                ctx.ops_left -= 1;
                let before = bump.as_mut_scope().x_dump();
                bump.reset();
                ctx.blocks.clear();
                ctx.user_cps.clear();
                ctx.count("reset");
                let d = log_op(ctx, bump.as_mut_scope(), "reset", "unit");
                // C05: reset keeps exactly one chunk, the largest
                if !before.fwd.is_empty() {
                    let largest = before.fwd.iter().map(|c| c.size).max().unwrap();
                    if d.fwd.len() != 1 || d.fwd[0].size != largest || d.typed.allocated != 0 {
                        ctx.oracle("C05", format!("reset left {} chunks (sizes {:?}), allocated {}; the largest before was {largest}", d.fwd.len(), d.fwd.iter().map(|c| c.size).collect::<Vec<_>>(), d.typed.allocated));
                    }
                }
            }
            TopAct::ResetToStart => {
                ctx.ops_left -= 1;
                let before = bump.as_mut_scope().x_dump();
                bump.reset_to_start();
                ctx.blocks.clear();
                ctx.user_cps.clear();
                ctx.count("reset_to_start");
                let calls = BASE.with(|b| b.borrow().log.len());
                let d = log_op(ctx, bump.as_mut_scope(), "reset_to_start", "unit");
                if calls != 0 || d.fwd.len() != before.fwd.len() {
                    ctx.oracle("C05", "reset_to_start talked to the base allocator / changed the chunk list".into());
                }
                if d.typed.allocated != 0 || d.cur.is_some_and(|i| i != 0) {
                    ctx.oracle("C03", format!("after reset_to_start allocated() = {} current chunk {:?}", d.typed.allocated, d.cur));
                }
            }
            TopAct::WithSettings(n) => {
                ctx.ops_left -= 1;
                ctx.count("with_settings");
                macro_rules! go {
                    ($N:literal) => {{
                        let mut b2 = bump.with_settings::<S<$N, UP, GA, DE, SH, MCS>>();
                        let d = log_op(ctx, b2.as_mut_scope(), &format!("with_settings {} {} 1", $N, GA as u8), "unit");
                        if let Some(i) = d.cur {
                            if d.fwd[i].pos % $N != 0 {
                                ctx.oracle("C18", format!("after with_settings to minimum alignment {} the position is {:#x}", $N, d.fwd[i].pos));
                            }
                        }
                        return top_loop::<A, $N, UP, GA, DE, SH, MCS>(b2, ctx);
                    }};
                }
                match n {
                    1 => go!(1),
                    2 => go!(2),
                    4 => go!(4),
                    8 => go!(8),
                    _ => go!(16),
                }
            }
            TopAct::Drop => {
                // `drop` is logged by the caller after the value is gone (the dump needs no handle then)
                drop(bump);
                return;
            }
        }
    }
}

fn finish_trace(ctx: &mut Ctx) {
    ctx.blocks.clear();
    let (_resps, reqs) = take_base_log();
    let dummy = if ctx.up { DUMMY_ADDR + 16 } else { DUMMY_ADDR };
    let _ = writeln!(
        ctx.out,
        "op drop => unit | reqs {reqs} | cur U pos {dummy} ma {} | stats 0 0 0 0 0 | any 0 0 0 0 0 | chunks  | live 0 sum {}",
        ctx.ma_now,
        ctx.checksum()
    );
    BASE.with(|b| {
        let mut b = b.borrow_mut();
        b.final_audit(true);
        let errs = std::mem::take(&mut b.errors);
        drop(b);
        for e in errs {
            ctx.oracle_failures += 1;
            let _ = writeln!(ctx.out, "oracle C05 at end of trace: {e}");
        }
    });
}

fn run_trace<A, const MA: usize, const UP: bool, const GA: bool, const DE: bool, const SH: bool, const MCS: usize>(ctx: &mut Ctx)
where
    A: TestBase + BaseAllocator<Bool<GA>>,
    MinimumAlignment<MA>: SupportedMinimumAlignment,
    for<'x> bump_scope::BumpScope<'x, A, S<MA, UP, GA, DE, SH, MCS>>: verif_harness::scope_ops::ByValueRaise,
{
    let h = hdr_layout::<A>();
    ctx.hsize = h.size();
    ctx.halign = h.align();
    ctx.up = UP;
    ctx.ga = GA;
    ctx.de = DE;
    ctx.sh = SH;
    ctx.ma0 = MA;
    let _ = writeln!(
        ctx.out,
        "cfg up={} minalign={MA} ga={} claimable=1 dealloc={} shrink={} minchunk={MCS} hsize={} halign={}",
        UP as u8,
        GA as u8,
        DE as u8,
        SH as u8,
        h.size(),
        h.align()
    );
    let _ = writeln!(ctx.out, "# base={} overgrant={} profile={}", A::NAME, BASE.with(|b| b.borrow().overgrant), ctx.prof.name);
    // constructor
    let which = ctx.rng.below(3);
    let bump: Option<Bump<A, S<MA, UP, GA, DE, SH, MCS>>> = if which == 0 {
        let n = match ctx.rng.below(4) {
            0 => MCS,
            1 => ctx.rng.below(300) as usize,
            2 => 512 + ctx.rng.below(6000) as usize,
            _ => 4096 * (1 + ctx.rng.below(3) as usize),
        };
        let r = Bump::try_with_size_in(n, A::default());
        let ok = r.is_ok();
        let b = r.ok();
        if let Some(mut b) = b {
            log_op(ctx, b.as_mut_scope(), &format!("new_size {n}"), "unit");
            Some(b)
        } else {
            let _ = ok;
            log_failed_ctor(ctx, &format!("new_size {n}"));
            None
        }
    } else {
        let l = gen_layout(ctx, 0);
        match Bump::try_with_capacity_in(l, A::default()) {
            Ok(mut b) => {
                let d = log_op(ctx, b.as_mut_scope(), &format!("new_cap {} {}", l.size(), l.align()), "unit");
                if d.typed.capacity < l.size() {
                    ctx.oracle("C12", format!("with_capacity({l:?}) produced capacity {}", d.typed.capacity));
                }
                Some(b)
            }
            Err(_) => {
                log_failed_ctor(ctx, &format!("new_cap {} {}", l.size(), l.align()));
                None
            }
        }
    };
    if let Some(b) = bump {
        top_loop::<A, MA, UP, GA, DE, SH, MCS>(b, ctx);
        finish_trace(ctx);
    }
    leaked_claim_case::<A, MA, UP, GA, DE, SH, MCS>(ctx);
    by_value_lowered_case::<A, MA, UP, GA, DE, SH, MCS>(ctx);
    by_value_replay_case::<A, MA, UP, GA, DE, SH, MCS>(ctx);
    try_with_mut_unwind_case::<A, MA, UP, GA, DE, SH, MCS>(ctx);
}

/// C15, after the trace proper (direct oracle only): `alloc_try_with_mut` whose closure PANICS.  The slot for the `Result` is
/// only prepared, never allocated: after the unwind no chunk's position has moved — at most a later, still EMPTY chunk has
/// become the current one (when the `Result` did not fit the rest of the current chunk).
fn try_with_mut_unwind_case<A, const MA: usize, const UP: bool, const GA: bool, const DE: bool, const SH: bool, const MCS: usize>(ctx: &mut Ctx)
where
    A: TestBase + BaseAllocator<Bool<GA>>,
    MinimumAlignment<MA>: SupportedMinimumAlignment,
{
    use bump_scope::traits::BumpAllocatorTypedScope;
    if !(ctx.prof.name == "prepared" || ctx.rng.chance(1, 12)) {
        return;
    }
    BASE.with(|b| b.borrow_mut().reset(ctx.rng.next()));
    let Ok(mut bump) = Bump::<A, S<MA, UP, GA, DE, SH, MCS>>::try_with_size_in(MCS, A::default()) else {
        let _ = take_base_log();
        return;
    };
    ctx.count("alloc_try_with_mut with a panicking closure");
    // leave `rest` bytes in the first chunk: sometimes enough for the 1032-byte Result (fast path), mostly not (slow path)
    let r = catch_unwind(AssertUnwindSafe(|| {
        let cap = bump.stats().current_chunk().map(|c| c.remaining()).unwrap_or(0);
        let rest = [0usize, 8, 40, 2000][ctx.rng.below(4) as usize].min(cap);
        if cap > rest {
            let _ = bump.as_mut_scope().alloc_slice_fill(cap - rest, 5u8);
        }
        let before: Vec<(usize, usize)> = bump.stats().small_to_big().map(|c| (c.chunk_start().as_ptr() as usize, c.bump_position().as_ptr() as usize)).collect();
        let unwound = catch_unwind(AssertUnwindSafe(|| {
            let _ = bump.as_mut_scope().alloc_try_with_mut(|| -> Result<[u64; 128], u64> { panic!("closure of alloc_try_with_mut panics") });
        }))
        .is_err();
        let after: Vec<(usize, usize, usize)> = bump.stats().small_to_big().map(|c| (c.chunk_start().as_ptr() as usize, c.bump_position().as_ptr() as usize, c.allocated())).collect();
        let cur_alloc = bump.stats().current_chunk().map(|c| c.allocated()).unwrap_or(0);
        (rest, before, unwound, after, cur_alloc)
    }));
    if let Ok((rest, before, unwound, after, cur_alloc)) = r {
        if !unwound {
            ctx.oracle("C15", "TRY-WITH-MUT-UNWIND the panic of the closure did not propagate".into());
        }
        for (k, (start, pos)) in before.iter().enumerate() {
            if after.get(k).map(|a| (a.0, a.1)) != Some((*start, *pos)) {
                ctx.oracle("C15", format!("TRY-WITH-MUT-UNWIND alloc_try_with_mut unwound ({rest} bytes were left in the chunk): chunk {k} moved from position {pos:#x} to {:?}", after.get(k).map(|a| a.1)));
            }
        }
        if after.len() > before.len() && cur_alloc != 0 && after.last().map(|a| a.2) != Some(0) {
            ctx.oracle("C15", format!("TRY-WITH-MUT-UNWIND alloc_try_with_mut unwound ({rest} bytes were left in the chunk): the chunk that became current is not empty ({cur_alloc} bytes allocated)"));
        }
    }
    let _ = take_base_log();
    drop(bump);
    let _ = take_base_log();
}

/// C03, after the trace proper (direct oracle only): inside a scope, a BY-VALUE copy of the scope allocates so much that it
/// moves on through further chunks while the scope itself stays where it was; the scope is left; the same workload is run
/// again in a new scope.  The chunks acquired the first time remain available: the second run makes no base-allocator request,
/// and after each scope the allocator is exactly where it was before it.
fn by_value_replay_case<A, const MA: usize, const UP: bool, const GA: bool, const DE: bool, const SH: bool, const MCS: usize>(ctx: &mut Ctx)
where
    A: TestBase + BaseAllocator<Bool<GA>>,
    MinimumAlignment<MA>: SupportedMinimumAlignment,
{
    use bump_scope::traits::{BumpAllocatorScope, BumpAllocatorTypedScope};
    if !(ctx.prof.name == "scopes" || ctx.rng.chance(1, 12)) {
        return;
    }
    BASE.with(|b| b.borrow_mut().reset(ctx.rng.next()));
    let Ok(mut bump) = Bump::<A, S<MA, UP, GA, DE, SH, MCS>>::try_with_size_in(MCS, A::default()) else {
        let _ = take_base_log();
        return;
    };
    ctx.count("by-value copy spills into later chunks inside a scope; workload repeated");
    let ways = ctx.rng.below(3);
    let n1 = 1 + ctx.rng.below(40) as usize;
    let r = catch_unwind(AssertUnwindSafe(|| {
        let _ = bump.as_mut_scope().alloc_slice_fill(n1, 7u8); // something live outside the scopes
        let before = {
            let s = bump.stats();
            (s.allocated(), s.current_chunk().map(|c| c.bump_position().as_ptr() as usize))
        };
        let mut calls = Vec::new();
        let mut after = Vec::new();
        for _round in 0..3 {
            let c0 = BASE.with(|b| b.borrow().alloc_calls);
            {
                let scope = bump.as_mut_scope();
                let mut work = |s: &mut bump_scope::BumpScope<'_, A, S<MA, UP, GA, DE, SH, MCS>>| {
                    let cap = s.stats().current_chunk().map(|c| c.capacity()).unwrap_or(MCS);
                    let copy = s.by_value();
                    let _ = copy.alloc_slice_fill(cap + 100, 1u8); // does not fit: second chunk
                    let _ = copy.alloc_slice_fill(3 * cap + 1000, 2u8); // third chunk
                    let _ = copy.alloc_slice_fill(17, 3u8);
                };
                match ways {
                    0 => scope.scoped(|mut inner| work(&mut inner)),
                    1 => {
                        let mut guard = scope.scope_guard();
                        work(guard.scope());
                    }
                    _ => {
                        let mut guard = scope.scope_guard();
                        work(guard.scope());
                        guard.reset();
                    }
                }
            }
            calls.push(BASE.with(|b| b.borrow().alloc_calls) - c0);
            let s = bump.stats();
            after.push((s.allocated(), s.current_chunk().map(|c| c.bump_position().as_ptr() as usize)));
        }
        (before, calls, after)
    }));
    if let Ok((before, calls, after)) = r {
        if calls[1] != 0 || calls[2] != 0 {
            ctx.oracle(
                "C03",
                format!("BYVALUE-REPLAY a by-value copy of the scope moved through further chunks inside a scope; repeating the same workload in a new scope made {} and then {} new request(s) to the base allocator (first run: {})", calls[1], calls[2], calls[0]),
            );
        }
        for (k, a) in after.iter().enumerate() {
            if *a != before {
                ctx.oracle("C03", format!("BYVALUE-REPLAY after scope {k} (workload through a by-value copy) the allocator is at {:?}, before the scope it was at {:?}", a, before));
                break;
            }
        }
    }
    let _ = take_base_log();
    drop(bump);
    let _ = take_base_log();
}

/// C18, after the trace proper (direct oracle only): a by-value copy of a scope lowers the minimum alignment with
/// `aligned::<1>`, leaves the chunk at an odd position by moving on to a bigger chunk, and is dropped.  The scope it was
/// copied from still points at the first chunk: its position must be a multiple of ITS minimum alignment.
fn by_value_lowered_case<A, const MA: usize, const UP: bool, const GA: bool, const DE: bool, const SH: bool, const MCS: usize>(ctx: &mut Ctx)
where
    A: TestBase + BaseAllocator<Bool<GA>>,
    MinimumAlignment<MA>: SupportedMinimumAlignment,
{
    use bump_scope::traits::{BumpAllocatorScope, BumpAllocatorTypedScope};
    if MA == 1 || !(ctx.prof.name == "aligned" || ctx.rng.chance(1, 12)) {
        return;
    }
    BASE.with(|b| b.borrow_mut().reset(ctx.rng.next()));
    let Ok(mut bump) = Bump::<A, S<MA, UP, GA, DE, SH, MCS>>::try_with_size_in(MCS, A::default()) else {
        let _ = take_base_log();
        return;
    };
    ctx.count("by-value copy lowers the alignment and switches chunks");
    let small = 1 + 2 * ctx.rng.below(4) as usize; // an odd number of bytes
    let r = catch_unwind(AssertUnwindSafe(|| {
        let parent = bump.as_mut_scope();
        let cap = parent.stats().current_chunk().map(|c| c.capacity()).unwrap_or(0);
        let mut copy = parent.by_value();
        copy.aligned::<1, _>(|inner| {
            let _ = inner.alloc_slice_fill(small, 0u8);
            let _ = inner.alloc_slice_fill(cap + 64, 0u8); // does not fit: the copy moves on to a new chunk
        });
        drop(copy);
        let c = parent.stats().current_chunk().unwrap();
        (c.bump_position().as_ptr() as usize, parent.stats().count())
    }));
    if let Ok((pos, chunks)) = r {
        if pos % MA != 0 {
            ctx.oracle(
                "C18",
                format!("BYVALUE-ALIGNED-LOWER after `scope.by_value().aligned::<1>(allocate {small} byte(s), then outgrow the chunk)` was dropped, the original scope (minimum alignment {MA}, {chunks} chunks) has its bump position at {pos:#x}"),
            );
        }
    }
    let _ = take_base_log();
    drop(bump);
    let _ = take_base_log();
}

/// C14, after the trace proper (nothing here is replayed on the model; direct oracles only): a claim guard that is LEAKED
/// (`mem::forget`) leaves the original handle claimed for good.  It must stay inert through every route that could hand
/// out a usable arena: memory requests fail, `try_by_value()` returns `Err`, `by_value()` panics, a second claim panics.
fn leaked_claim_case<A, const MA: usize, const UP: bool, const GA: bool, const DE: bool, const SH: bool, const MCS: usize>(ctx: &mut Ctx)
where
    A: TestBase + BaseAllocator<Bool<GA>>,
    MinimumAlignment<MA>: SupportedMinimumAlignment,
{
    use bump_scope::traits::{BumpAllocatorScope, BumpAllocatorTypedScope};
    if !(ctx.prof.name == "claims" || ctx.rng.chance(1, 12)) {
        return;
    }
    BASE.with(|b| b.borrow_mut().reset(ctx.rng.next()));
    let Ok(mut bump) = Bump::<A, S<MA, UP, GA, DE, SH, MCS>>::try_with_size_in(MCS, A::default()) else {
        let _ = take_base_log();
        return;
    };
    ctx.count("leaked claim guard: by_value / try_by_value / alloc on the claimed handle");
    let before = bump.stats().count();
    {
        let scope = bump.as_mut_scope();
        std::mem::forget(BumpAllocatorScope::claim(&*scope));
    }
    let mut bad: Vec<String> = Vec::new();
    let scope = bump.as_mut_scope();
    if !bump_scope::traits::BumpAllocatorCore::is_claimed(&*scope) {
        bad.push("after a claim guard was leaked the handle does not report is_claimed()".into());
    }
    if scope.try_alloc(1u64).is_ok() {
        bad.push("try_alloc through a handle whose claim guard was leaked succeeded".into());
    }
    if scope.try_by_value().is_ok() {
        bad.push("try_by_value() on a claimed handle returned Ok (a usable by-value scope of a claimed arena)".into());
    }
    let r = catch_unwind(AssertUnwindSafe(|| {
        let s = scope.by_value();
        let _ = s.stats().count();
    }));
    if r.is_ok() {
        bad.push("by_value() on a claimed handle returned normally instead of panicking".into());
    }
    let r = catch_unwind(AssertUnwindSafe(|| {
        std::mem::forget(BumpAllocatorScope::claim(&*scope));
    }));
    if r.is_ok() {
        bad.push("a second claim() on a claimed handle did not panic".into());
    }
    if scope.stats().count() != 0 {
        bad.push(format!("a claimed handle reports {} chunk(s) in stats() (had {before} before the claim)", scope.stats().count()));
    }
    for m in bad {
        ctx.oracle("C14", format!("LEAKED-CLAIM {m}"));
    }
    let _ = take_base_log();
    // the arena is dropped while claimed: its chunk stays with the leaked guard (deliberately not audited)
    drop(bump);
    let _ = take_base_log();
}

fn log_failed_ctor(ctx: &mut Ctx, text: &str) {
    let (resps, reqs) = take_base_log();
    let dummy = if ctx.up { DUMMY_ADDR + 16 } else { DUMMY_ADDR };
    let resp_part = if resps.is_empty() { String::new() } else { format!(" |{resps}") };
    let _ = writeln!(
        ctx.out,
        "op {text}{resp_part} => err | reqs {reqs} | cur U pos {dummy} ma {} | stats 0 0 0 0 0 | any 0 0 0 0 0 | chunks  | live 0 sum {}",
        ctx.ma0,
        ctx.checksum()
    );
    if BASE.with(|b| b.borrow().outstanding()) != 0 {
        ctx.oracle("C05", "a failed constructor left a block outstanding".into());
    }
}

/// unallocated start (GUARANTEED_ALLOCATED = false only)
fn run_trace_unallocated<A, const MA: usize, const UP: bool, const DE: bool, const SH: bool, const MCS: usize>(ctx: &mut Ctx)
where
    A: TestBase,
    MinimumAlignment<MA>: SupportedMinimumAlignment,
    for<'x> bump_scope::BumpScope<'x, A, S<MA, UP, false, DE, SH, MCS>>: verif_harness::scope_ops::ByValueRaise,
{
    let h = hdr_layout::<A>();
    ctx.hsize = h.size();
    ctx.halign = h.align();
    ctx.up = UP;
    ctx.ga = false;
    ctx.de = DE;
    ctx.sh = SH;
    ctx.ma0 = MA;
    let _ = writeln!(
        ctx.out,
        "cfg up={} minalign={MA} ga=0 claimable=1 dealloc={} shrink={} minchunk={MCS} hsize={} halign={}",
        UP as u8,
        DE as u8,
        SH as u8,
        h.size(),
        h.align()
    );
    let _ = writeln!(ctx.out, "# base={} overgrant={} profile={} unallocated", A::NAME, BASE.with(|b| b.borrow().overgrant), ctx.prof.name);
    let mut b: Bump<A, S<MA, UP, false, DE, SH, MCS>> = Bump::unallocated();
    let d = log_op(ctx, b.as_mut_scope(), "new_unalloc", "unit");
    if BASE.with(|b| b.borrow().alloc_calls) != 0 || d.typed != Default::default() {
        ctx.oracle("C05", "Bump::unallocated() called the base allocator / reports non-zero statistics".into());
    }
    top_loop::<A, MA, UP, false, DE, SH, MCS>(b, ctx);
    finish_trace(ctx);
}

macro_rules! dispatch_ma {
    ($f:ident, $A:ty, $ma:expr, [$($rest:tt)*], $ctx:expr) => {
        match $ma {
            1 => $f::<$A, 1, $($rest)*>($ctx),
            2 => $f::<$A, 2, $($rest)*>($ctx),
            4 => $f::<$A, 4, $($rest)*>($ctx),
            8 => $f::<$A, 8, $($rest)*>($ctx),
            _ => $f::<$A, 16, $($rest)*>($ctx),
        }
    };
}

macro_rules! dispatch_cfg {
    ($A:ty, $ctx:expr, $ma:expr, $ci:expr, $unalloc:expr, [$($idx:literal => ($UP:literal, $GA:literal, $DE:literal, $SH:literal, $MCS:literal)),*]) => {{
        match $ci {
            $($idx => {
                if !$GA && $unalloc {
                    dispatch_ma!(run_trace_unallocated, $A, $ma, [$UP, $DE, $SH, $MCS], $ctx);
                } else {
                    dispatch_ma!(run_trace, $A, $ma, [$UP, $GA, $DE, $SH, $MCS], $ctx);
                }
            })*
            _ => unreachable!(),
        }
    }};
}

/// (UP, GA, DE, SH, MCS) — a covering set of the settings; every pair of settings values occurs
const CFGS: [(bool, bool, bool, bool, usize); 10] = [
    (true, true, true, true, 512),
    (false, true, true, true, 512),
    (true, false, true, true, 512),
    (false, false, true, true, 512),
    (true, true, false, false, 512),
    (false, true, false, true, 512),
    (true, false, true, false, 512),
    (false, false, false, false, 4096),
    (true, true, true, true, 4096),
    (false, true, true, true, 64),
];

fn main() {
    std::panic::set_hook(Box::new(|info| { let m = info.to_string(); if !m.contains("already claimed") { eprintln!("PANIC {m}"); } }));
    let args: Vec<String> = std::env::args().collect();
    let traces: u64 = args.get(1).and_then(|s| s.parse().ok()).unwrap_or(20);
    let ops: usize = args.get(2).and_then(|s| s.parse().ok()).unwrap_or(100);
    let prof = profile(args.get(3).map(|s| s.as_str()).unwrap_or("general"));
    let only_cfg: Option<u64> = std::env::var("VERIF_CFG").ok().and_then(|s| s.parse().ok());
    let mut master = Rng::new(seed());
    println!("# arena seed={} traces={traces} ops={ops} profile={}", seed(), prof.name);
    let mut op_hist = std::collections::BTreeMap::new();
    let mut branch = std::collections::BTreeMap::new();
    let (mut fails, mut checks) = (0u64, 0u64);
    for t in 0..traces {
        let tseed = master.next();
        let mut rng = Rng::new(tseed);
        let base_kind = rng.below(4);
        // A0 runs every configuration; A8 / A64 (which change the header layout) a subset
        let ci = match base_kind {
            0 => only_cfg.unwrap_or_else(|| rng.below(CFGS.len() as u64)) as usize % CFGS.len(),
            // 9 (MINIMUM_CHUNK_SIZE 64): with the 48-byte header of `A8` the first chunk is NOTHING BUT its header (capacity 0)
            1 => [0usize, 1, 3, 9][rng.below(4) as usize],
            2 => [0usize, 1, 7][rng.below(3) as usize],
            _ => [0usize, 1][rng.below(2) as usize],
        };
        let (up, ga, de, sh, _mcs) = CFGS[ci];
        let unalloc = rng.chance(2, 3);
        let ma = 1usize << rng.below(5);
        let mut fail_injected = false;
        BASE.with(|b| {
            let mut b = b.borrow_mut();
            b.reset(tseed);
            b.overgrant = rng.below(4) as u8;
            fail_injected = rng.below(100) < prof.fail_pct;
            if fail_injected {
                match rng.below(3) {
                    0 => b.fail_at = vec![rng.below(6) as usize],
                    1 => b.fail_at = (0..3).map(|_| rng.below(10) as usize).collect(),
                    _ => b.fail_all_from = Some(1 + rng.below(5) as usize),
                }
            }
        });
        let mut ctx = Ctx {
            rng,
            prof: prof.clone(),
            out: String::new(),
            ops_left: ops,
            blocks: Vec::new(),
            next_id: 0,
            user_cps: Vec::new(),
            marks: Vec::new(),
            prepared: None,
            frames: 0,
            claim_depth: 0,
            oracle_failures: 0,
            oracle_checks: 0,
            op_hist: Default::default(),
            branch: Default::default(),
            hsize: 0,
            halign: 0,
            ma_override: None,
            prev_state: None,
            up,
            ga,
            de,
            sh,
            ma0: ma,
            ma_now: ma,
            fail_injected,
            replaying: false,
            shape: Vec::new(),
            floor: 0,
            cp_floor: 0,
            last_allocated: 0,
            next_key: 0,
        };
        let _ = writeln!(ctx.out, "# trace {t} seed {tseed}");
        match base_kind {
            0 => dispatch_cfg!(A0, &mut ctx, ma, ci, unalloc, [
                0 => (true, true, true, true, 512), 1 => (false, true, true, true, 512), 2 => (true, false, true, true, 512),
                3 => (false, false, true, true, 512), 4 => (true, true, false, false, 512), 5 => (false, true, false, true, 512),
                6 => (true, false, true, false, 512), 7 => (false, false, false, false, 4096), 8 => (true, true, true, true, 4096),
                9 => (false, true, true, true, 64)]),
            1 => dispatch_cfg!(A8, &mut ctx, ma, ci, unalloc, [
                0 => (true, true, true, true, 512), 1 => (false, true, true, true, 512), 3 => (false, false, true, true, 512),
                9 => (false, true, true, true, 64)]),
            2 => dispatch_cfg!(A64, &mut ctx, ma, ci, unalloc, [
                0 => (true, true, true, true, 512), 1 => (false, true, true, true, 512), 7 => (false, false, false, false, 4096)]),
            _ => dispatch_cfg!(A256, &mut ctx, ma, ci, unalloc, [
                0 => (true, true, true, true, 512), 1 => (false, true, true, true, 512)]),
        }
        print!("{}", ctx.out);
        for (k, v) in ctx.op_hist {
            *op_hist.entry(k).or_insert(0u64) += v;
        }
        for (k, v) in ctx.branch {
            *branch.entry(k).or_insert(0u64) += v;
        }
        fails += ctx.oracle_failures;
        checks += ctx.oracle_checks;
    }
    let (calls, failures) = BASE.with(|b| (b.borrow().total_alloc_calls, b.borrow().total_failures));
    println!("# summary oracle_checks={checks} oracle_failures={fails} base_alloc_calls={calls} base_failures={failures}");
    println!("# ops {op_hist:?}");
    println!("# branches {branch:?}");
}
