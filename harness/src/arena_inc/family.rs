// included by exec.rs — the high-level typed family (`BumpAllocatorTypedScope` / `MutBumpAllocatorTypedScope`):
// alloc, alloc_with, alloc_default, alloc_uninit(+init), alloc_slice_copy / _clone / _fill / _fill_with / _move,
// alloc_str, alloc_cstr, alloc_cstr_from_str, alloc_uninit_slice(+init_copy), alloc_uninit_slice_for(+init_move),
// alloc_iter_exact, alloc_iter, alloc_iter_mut, alloc_iter_mut_rev and their `try_` twins, on the ACTIVE handle,
// through the handle itself / `&` / `&mut` / `dyn (Mut)BumpAllocatorCoreScope`.
//
// No new model operation: every call is logged as the model operation(s) it denotes
//   value / slice entry points      op alloc_layout <size> <align> <hints>      (+ op write <id> <seed>: contents)
//   … unwound by a panicking callback  + op dealloc <id> p   (BumpVec-based entry points: the buffer is deallocated)
//                                      + op dealloc <id> d   (others: the block simply dies, nothing is reclaimed)
//   alloc_iter_mut(_rev)            op prepare_slice … / op fill … / op commit_slice …   (unwound: op abandon)
// (lean/BumpProof/Arena/Family.lean states this denotation; Props/C17Family.lean proves it interchangeable with
// `Allocator::allocate`).  The source values are the byte pattern of the `write` op, so the checksum of the live
// blocks (real memory here, model memory in the driver) shows that the entry point stored exactly the source at
// exactly the address the model predicts.  Direct oracles: alignment / length of the result (C01 / C17), stored
// bytes = source (C02), every value created is dropped exactly once also when a callback panics (C06), the same
// request through two different entry points from the same state (checkpoint + reset_to) gives the same result
// class, length, address and allocated byte count (C17).

use verif_harness::scope_ops::{FElem, Fam, FamEvent, FamPanic, FamReq, fam_begin, fam_end, fam_static_has};

struct FamPlan {
    ep: Fam,
    elem: FElem,
    /// elements (text: bytes without NUL)
    len: usize,
    seed: u64,
    src: Vec<u8>,
    /// callback index at which a panic is injected
    fuse: Option<usize>,
    keep: u8,
    owned: u8,
    huge: bool,
    /// `alloc_iter_exact`: items the iterator really yields (`len` = what it announces)
    avail: usize,
}

#[derive(Debug, PartialEq, Eq)]
struct FamObs {
    class: &'static str, // "ok" | "err" | "panic"
    ptr: usize,
    len: usize,
    allocated: usize,
    pos: usize,
    /// chunks linked after the call / requests the call made to the base allocator
    chunks: usize,
    base_calls: usize,
}

fn family_weight(p: &Profile) -> u64 {
    match p.name {
        "general" | "scopes" | "faults" | "realloc" | "aligned" | "ledger" => 8,
        "entry" => 10,
        _ => 0,
    }
}

/// number of instrumented callbacks a complete call makes
fn fam_callbacks(ep: Fam, elem: FElem, len: usize) -> usize {
    match ep {
        Fam::AllocWith => 1,
        Fam::AllocDefault => elem.tracked() as usize,
        Fam::SliceClone => {
            if elem.tracked() {
                len
            } else {
                0
            }
        }
        Fam::SliceFill => {
            if elem.tracked() {
                len.saturating_sub(1)
            } else {
                0
            }
        }
        Fam::SliceFillWith | Fam::IterExact | Fam::Iter | Fam::IterMut | Fam::IterMutRev => len,
        _ => 0,
    }
}

/// `forced`: the zero-sized probe chooses entry point and element type itself
fn gen_family_plan(ctx: &mut Ctx, sc: &dyn ScopeOps, forced: Option<(Fam, FElem)>) -> FamPlan {
    let mut ep = *ctx.rng.pick(&Fam::ALL);
    let rem = remaining_of(sc);
    let raw = gen_size(ctx, rem);
    let huge = raw > 1 << 20 && forced.is_none();
    if huge {
        // a request no allocator can satisfy: only entry points that need no source of that size
        ep = *ctx.rng.pick(&[Fam::UninitSlice, Fam::SliceFill, Fam::SliceFillWith, Fam::IterExact, Fam::Iter, Fam::IterMut, Fam::IterMutRev]);
    }
    let elems: Vec<FElem> = ep.elems().iter().copied().filter(|e| !(huge && e.layout().size() == 0)).collect();
    let mut elem = *ctx.rng.pick(&elems);
    if let Some(f) = forced {
        (ep, elem) = f;
    } else if !huge && ctx.rng.chance(1, 3) {
        // the combinations that are also instantiated for the statically dispatched entries (`fam_lite`, `fam_ref`)
        (ep, elem) = *ctx.rng.pick(&[
            (Fam::Alloc, FElem::U64),
            (Fam::AllocWith, FElem::Trk),
            (Fam::SliceCopy, FElem::U32),
            (Fam::SliceFillWith, FElem::Trk),
            (Fam::Str, FElem::U8),
            (Fam::CStr, FElem::U8),
            (Fam::IterExact, FElem::Trk),
        ]);
    }
    let es = elem.layout().size();
    let len = if ep.is_value() {
        1
    } else if ep.is_text() {
        raw
    } else if forced.is_some() {
        (ctx.rng.below(9) as usize).max((ep == Fam::SliceFill) as usize)
    } else if es == 0 {
        raw.min(300)
    } else if ep == Fam::SliceFill {
        // (`alloc_slice_fill(0, v)` allocates an empty slice but returns `BumpBox::default()`: the address of
        // the zero-sized block cannot be observed)
        (raw / es).max(1)
    } else {
        raw / es
    };
    let seed = ctx.rng.below(1 << 19) * 2 + (ep == Fam::IterMutRev) as u64;
    let mut src: Vec<u8> = if huge {
        (0..es).map(|k| pattern(seed, k)).collect()
    } else if ep.is_text() {
        (0..len).map(|k| 0x20 + pattern(seed, k) % 95).collect()
    } else {
        (0..len.max(1) * es).map(|k| pattern(seed, k)).collect()
    };
    if ep == Fam::CStrFromStr && len > 0 && ctx.rng.chance(1, 3) {
        let at = ctx.rng.below(len as u64) as usize;
        src[at] = 0;
    }
    let ncb = fam_callbacks(ep, elem, len);
    // (finding C06-b: `BumpBox::zst_slice_fill` forgot the clones it had made when a later `clone()` panicked; repaired in
    // /repo d843bd2 — the panic is injected here like everywhere else, so the defect is reported again if it returns)
    let zst_fill = false;
    let fuse = if !huge && !zst_fill && elem.tracked() && ncb > 0 && ctx.rng.chance(1, 3) { Some(ctx.rng.below(ncb as u64) as usize) } else { None };
    // a lying `ExactSizeIterator`: `alloc_iter_exact` allocates what `len()` announces and stops when the iterator ends
    // or the capacity is full (over-reporting: the box is a prefix of the block; under-reporting: the surplus stays unread)
    let mut avail = len;
    let mut fuse = fuse;
    if ep == Fam::IterExact && es > 0 && !huge && len > 0 && forced.is_none() && ctx.rng.chance(1, 3) {
        avail = if ctx.rng.chance(2, 3) { ctx.rng.below(len as u64) as usize } else { len + 1 + ctx.rng.below(3) as usize };
        fuse = None;
    }
    FamPlan { ep, elem, len, seed, src, fuse, keep: ctx.rng.below(3) as u8, owned: ctx.rng.below(3) as u8, huge, avail }
}

/// (size, align) of the block the call allocates, `None` when the entry point does not touch the allocator
fn fam_layout(p: &FamPlan) -> Option<Layout> {
    let el = p.elem.layout();
    if p.ep.is_text() {
        let n = match p.ep {
            Fam::Str => p.len,
            Fam::CStr => p.len + 1,
            _ => p.src.iter().position(|&c| c == 0).unwrap_or(p.len) + 1,
        };
        return Some(Layout::from_size_align(n, 1).unwrap());
    }
    if el.size() == 0 {
        // most entry points short-circuit zero-sized types before they reach the allocator; `alloc_uninit_slice` and
        // `alloc_uninit_slice_for` do not: they make a zero-sized request (which creates the first chunk of an unallocated arena)
        return match p.ep {
            Fam::UninitSlice | Fam::UninitSliceFor => Some(Layout::from_size_align(0, el.align()).unwrap()),
            _ => None,
        };
    }
    if p.ep.is_value() {
        return Some(el);
    }
    if p.len == 0 && (p.ep.via_bump_vec() || p.ep.is_mut()) {
        return None;
    }
    Some(Layout::from_size_align(el.size() * p.len, el.align()).unwrap())
}

/// the bytes the block must hold when the call returns
fn fam_expected(p: &FamPlan, l: Layout) -> Vec<u8> {
    match p.ep {
        Fam::Str => p.src.clone(),
        Fam::CStr | Fam::CStrFromStr => {
            let mut v = p.src[..l.size() - 1].to_vec();
            v.push(0);
            v
        }
        Fam::AllocDefault if !p.elem.tracked() => vec![0; l.size()],
        Fam::SliceFill => {
            let es = p.elem.layout().size();
            (0..l.size()).map(|k| p.src[k % es]).collect()
        }
        _ => p.src[..l.size()].to_vec(),
    }
}

fn fam_drop_oracles(ctx: &mut Ctx, what: &str, outcome: &str) {
    let rep = fam_end();
    for e in rep.errors {
        ctx.oracle("C06", format!("FAMILY `{what}` ({outcome}): {e}"));
    }
    if let Some((v, n)) = rep.unbalanced.first() {
        let kind = if *n > 0 { "never dropped (lost)" } else { "dropped more than once" };
        ctx.oracle(
            "C06",
            format!("FAMILY `{what}` ({outcome}): {} value(s) {kind}, e.g. value {v:02x?} created - dropped = {n}; created {} dropped {}", rep.unbalanced.len(), rep.created, rep.dropped),
        );
    }
    if rep.zst_created != rep.zst_dropped {
        ctx.oracle("C06", format!("FAMILY `{what}` ({outcome}): {} zero-sized values created but {} dropped", rep.zst_created, rep.zst_dropped));
    }
    ctx.oracle_checks += 1;
}

/// runs the planned call once through (`entry`, `panicking`) and logs it as its model operations
fn run_family_plan(ctx: &mut Ctx, sc: &mut dyn ScopeOps, p: &FamPlan, entry: u8, panicking: bool) -> FamObs {
    let el = p.elem.layout();
    let (es, ea) = (el.size(), el.align());
    let lay = fam_layout(p);
    let dy = entry == 3;
    let hints = if dy {
        "0 0 0"
    } else if p.ep.is_value() {
        "1 1 1"
    } else {
        "1 0 1"
    };
    let rev = p.ep == Fam::IterMutRev;
    let what = format!(
        "{}{}::<{:?}>(len {}) via {}{}",
        if panicking { "" } else { "try_" },
        &p.ep.name()[4..],
        p.elem,
        p.len,
        ["BumpScope", "&BumpScope", "&mut BumpScope", "dyn"][entry as usize],
        match p.fuse {
            Some(k) => format!(", callback {k} panics"),
            None => String::new(),
        }
    );
    let alloc_text = lay.map(|l| format!("alloc_layout {} {} {hints}", l.size(), l.align()));
    let before = sc.x_dump();
    let _ = writeln!(ctx.out, "# fam {what}");
    ctx.count(p.ep.name());
    ctx.count(["fam-entry:BumpScope", "fam-entry:&BumpScope", "fam-entry:&mut BumpScope", "fam-entry:dyn"][entry as usize]);
    ctx.count(if panicking { "fam-twin:panicking" } else { "fam-twin:try_" });
    if p.fuse.is_some() {
        ctx.count("fam:(callback panic injected)");
    }
    let q = FamReq { ep: p.ep, elem: p.elem, len: if p.ep.is_text() { p.src.len() } else { p.len }, src: &p.src, panicking, entry, keep: p.keep, owned: p.owned, huge: p.huge, avail: p.avail };
    debug_assert!(fam_static_has(&q));
    fam_begin(&p.src, p.len, rev, p.fuse);
    let base_calls0 = BASE.with(|b| b.borrow().alloc_calls);
    // what the hook observed / logged while the call was in progress
    let mut early: Option<(u64, usize)> = None; // block (id, address) logged at the first callback
    let mut prepared: Option<Result<(usize, usize), ()>> = None;
    let mut after_prepare: Option<Dump> = None;
    let up = ctx.up;
    let r = {
        let mut hook = |view: &dyn ScopeOps, ev: FamEvent| match ev {
            FamEvent::FirstCallback => {
                // only needed when the call is going to unwind: the block is then never returned, its address
                // is read off the bump position (a 16-aligned type of 16 bytes: no padding on either side)
                if let (Some(l), Some(_), FElem::Trk, false) = (lay, p.fuse, p.elem, p.ep.is_mut()) {
                    let d = view.x_dump();
                    match d.cur {
                        Some(i) => {
                            let pos = d.fwd[i].pos;
                            let addr = if up { pos.wrapping_sub(l.size()) } else { pos };
                            let id = ctx.add_block(addr, l.size(), l.align(), Vec::new(), None);
                            log_op(ctx, view, alloc_text.as_ref().unwrap(), &format!("ok {id} {addr} {}", l.size()));
                            early = Some((id, addr));
                        }
                        None => ctx.oracle("C17", format!("FAMILY `{what}`: a callback ran although the arena has no current chunk")),
                    }
                }
            }
            FamEvent::Prepared(pre) => {
                let text = format!("prepare_slice {es} {ea} {} {}", p.len, rev as u8);
                match pre {
                    Ok((ptr, got)) => {
                        if got < p.len || ptr % ea != 0 {
                            ctx.oracle("C01", format!("FAMILY `{what}`: `{text}` returned capacity {got} / pointer {ptr:#x}"));
                        }
                        log_op(ctx, view, &text, &format!("ok {} {ptr} {got}", rev as u8));
                        // the elements the collection is about to write (ghost operation: no observable of its own)
                        after_prepare = Some(log_op(ctx, view, &format!("fill {} {}", p.len, p.seed), "unit"));
                    }
                    Err(()) => {
                        log_op(ctx, view, &text, "err");
                    }
                }
                prepared = Some(pre);
            }
        };
        catch_unwind(AssertUnwindSafe(|| sc.x_family(&q, &mut hook)))
    };
    let mut obs = FamObs { class: "ok", ptr: 0, len: 0, allocated: 0, pos: 0, chunks: 0, base_calls: 0 };
    match r {
        Ok(Ok(ok)) => {
            fam_drop_oracles(ctx, &what, "returned Ok");
            obs.ptr = ok.ptr;
            obs.len = ok.len;
            let want_len = match lay {
                Some(l) if p.ep.is_text() => l.size(),
                _ => p.len.min(p.avail),
            };
            if p.avail != p.len {
                ctx.count(if p.avail < p.len { "fam:(alloc_iter_exact, len() over-reports)" } else { "fam:(alloc_iter_exact, len() under-reports)" });
            }
            if ok.len != want_len {
                ctx.oracle("C17", format!("FAMILY `{what}` returned {} element(s), the source has {want_len}", ok.len));
            }
            if ok.ptr % ea != 0 {
                ctx.oracle("C01", format!("FAMILY `{what}` returned {:#x} which is not aligned to {ea}", ok.ptr));
            }
            if p.huge {
                ctx.oracle("C17", format!("FAMILY `{what}`: a request of {} elements succeeded", p.len));
            }
            match lay {
                None => {
                    ctx.br("fam: no allocation (zero-sized type / empty collection)");
                    // every entry point of the family except `alloc_uninit_slice(_for)` returns a dangling box for a
                    // zero-sized type / an empty collection without touching the arena
                    let d = sc.x_dump();
                    let calls = BASE.with(|b| b.borrow().alloc_calls) - base_calls0;
                    ctx.oracle_checks += 1;
                    if calls != 0 || d.typed != before.typed || d.cur != before.cur || cur_pos(&d, ctx.up) != cur_pos(&before, ctx.up) {
                        ctx.oracle(
                            "C17",
                            format!(
                                "FAMILY `{what}` needs no memory (its twins and the other entry points do not touch the arena for this request) but made {calls} request(s) to the base allocator, chunks {} -> {}, position {:#x} -> {:#x}, allocated {} -> {}",
                                before.fwd.len(),
                                d.fwd.len(),
                                cur_pos(&before, ctx.up),
                                cur_pos(&d, ctx.up),
                                before.typed.allocated,
                                d.typed.allocated
                            ),
                        );
                    }
                }
                Some(l) if p.ep.is_mut() => {
                    let expected = fam_expected(p, l);
                    let id = ctx.add_block(ok.ptr, l.size(), l.align(), expected.clone(), p.elem.as_elem());
                    fam_check_contents(ctx, &what, ok.ptr, &expected);
                    if !matches!(prepared, Some(Ok(_))) {
                        ctx.oracle("C17", format!("FAMILY `{what}` succeeded although its preparation was not observed to succeed"));
                    }
                    let d = log_op(ctx, sc, &format!("commit_slice {}", p.len), &format!("ok {id} {} {}", ok.ptr, l.size()));
                    c15_advance(ctx, after_prepare.as_ref().unwrap_or(&before), &d, l.size(), ea, sc.x_min_align());
                }
                Some(l) => {
                    let text = alloc_text.as_ref().unwrap();
                    let id = match early {
                        Some((id, addr)) => {
                            if addr != ok.ptr {
                                ctx.oracle("C01", format!("FAMILY `{what}` returned {:#x} but the bump position during its callbacks placed the block at {addr:#x}", ok.ptr));
                            }
                            id
                        }
                        None => {
                            check_new_block(ctx, text, ok.ptr, l.size(), l);
                            let slice_elem = if p.ep.is_value() || p.ep.is_text() { None } else { p.elem.as_elem() };
                            let id = ctx.add_block(ok.ptr, l.size(), l.align(), Vec::new(), slice_elem);
                            log_op(ctx, sc, text, &format!("ok {id} {} {}", ok.ptr, l.size()));
                            check_typed_slow_path(ctx, &*sc, &before, text, l);
                            id
                        }
                    };
                    // contents: equal to the source (direct), then tracked by the ledger and the model
                    let expected = fam_expected(p, l);
                    let d_now = sc.x_dump();
                    let retained = d_now.fwd.iter().any(|c| {
                        c.content_start <= ok.ptr && ok.ptr + l.size() <= c.content_end && if ctx.up { ok.ptr + l.size() <= c.pos } else { ok.ptr >= c.pos }
                    });
                    if p.avail < p.len && !retained {
                        // (nothing is written there: it is not ours)
                        ctx.oracle(
                            "C17",
                            format!("FAMILY `{what}`: the iterator announced {} elements and yielded {}; the block of the announced length at {:#x} is not (any more) allocated memory of the arena", p.len, ok.len, ok.ptr),
                        );
                        let i = ctx.blocks.iter().position(|b| b.id == id).unwrap();
                        ctx.blocks[i].size = ok.len * es;
                    } else {
                    if p.avail < p.len && ok.len <= p.len {
                        // over-reporting iterator: the box is the prefix of the len()-sized block; the owner fills the
                        // unused capacity so that the whole block carries the pattern
                        let from = ok.len * es;
                        unsafe { std::ptr::copy_nonoverlapping(expected[from..].as_ptr(), (ok.ptr + from) as *mut u8, l.size() - from) };
                    }
                    fam_check_contents(ctx, &what, ok.ptr, &expected);
                    let is_pattern = expected.iter().enumerate().all(|(k, &b)| b == pattern(p.seed, k));
                    let i = ctx.blocks.iter().position(|b| b.id == id).unwrap();
                    if is_pattern {
                        ctx.blocks[i].shadow = expected;
                        log_op(ctx, sc, &format!("write {id} {}", p.seed), "unit");
                    } else {
                        // contents the write pattern cannot express (text, repeated value, zeros): checked above;
                        // from here on the owner (the harness) keeps the block filled with a pattern
                        let seed2 = ctx.rng.below(1 << 20);
                        ctx.blocks[i].shadow = fill_block(ok.ptr, l.size(), seed2);
                        log_op(ctx, sc, &format!("write {id} {seed2}"), "unit");
                    }
                    }
                }
            }
        }
        Ok(Err(())) => {
            fam_drop_oracles(ctx, &what, "returned Err");
            obs.class = "err";
            ctx.br("fam: Err");
            if panicking {
                ctx.oracle("C17", format!("FAMILY `{what}`: the panicking twin returned"));
            }
            match lay {
                None => ctx.oracle("C17", format!("FAMILY `{what}` failed although it needs no memory")),
                Some(_) if p.ep.is_mut() => match prepared {
                    Some(Err(())) => {
                        if p.huge {
                            // the entry point repeated the failing preparation itself
                            log_op(ctx, sc, &format!("prepare_slice {es} {ea} {} {}", p.len, rev as u8), "err");
                        }
                    }
                    _ => {
                        ctx.oracle("C17", format!("FAMILY `{what}` failed although `try_prepare_slice_allocation` of the same capacity succeeded"));
                        log_op(ctx, sc, "abandon", "unit");
                    }
                },
                Some(_) => {
                    if let Some((id, _)) = early {
                        ctx.oracle("C17", format!("FAMILY `{what}` returned Err after running its callbacks"));
                        ctx.remove_block(id);
                        log_op(ctx, sc, &format!("dealloc {id} d"), "unit");
                    } else {
                        log_op(ctx, sc, alloc_text.as_ref().unwrap(), "err");
                    }
                }
            }
        }
        Err(payload) => {
            let injected = payload.is::<FamPanic>();
            fam_drop_oracles(ctx, &what, "unwound");
            obs.class = "panic";
            if !injected || p.fuse.is_none() {
                let msg = payload.downcast_ref::<String>().cloned().or_else(|| payload.downcast_ref::<&str>().map(|s| s.to_string())).unwrap_or_default();
                ctx.oracle("C17", format!("FAMILY `{what}` panicked: {msg}"));
            }
            ctx.br("fam: unwound by a panicking callback");
            match lay {
                None => {}
                Some(_) if p.ep.is_mut() => {
                    // MutBumpVec(Rev) dropped while unwinding: elements dropped, nothing was committed
                    if matches!(prepared, Some(Ok(_))) {
                        let d = log_op(ctx, sc, "abandon", "unit");
                        if let Some(a) = &after_prepare {
                            if d.typed != a.typed || d.cur != a.cur || cur_pos(&d, ctx.up) != cur_pos(a, ctx.up) {
                                ctx.oracle("C15", format!("FAMILY `{what}` unwound before committing but moved the bump position: {:?} -> {:?}", a.typed, d.typed));
                            }
                        }
                    }
                }
                Some(_) => match early {
                    Some((id, _)) => {
                        ctx.remove_block(id);
                        if p.ep.via_bump_vec() {
                            // BumpVec dropped while unwinding: its buffer goes back through `deallocate`
                            log_op(ctx, sc, &format!("dealloc {id} p"), "unit");
                        } else {
                            // BumpBox<[MaybeUninit<T>]> dropped: the memory is not reclaimed, the block is simply dead
                            log_op(ctx, sc, &format!("dealloc {id} d"), "unit");
                        }
                    }
                    None => {
                        if p.elem == FElem::Trk {
                            ctx.oracle("C17", format!("FAMILY `{what}` unwound before any callback ran"));
                        }
                    }
                },
            }
        }
    }
    let d = sc.x_dump();
    obs.allocated = d.typed.allocated;
    obs.pos = cur_pos(&d, ctx.up);
    obs.chunks = d.fwd.len();
    obs.base_calls = (BASE.with(|b| b.borrow().alloc_calls) - base_calls0) as usize;
    obs
}

fn fam_check_contents(ctx: &mut Ctx, what: &str, ptr: usize, expected: &[u8]) {
    ctx.oracle_checks += 1;
    let bytes = unsafe { std::slice::from_raw_parts(ptr as *const u8, expected.len()) };
    if bytes != expected {
        let k = bytes.iter().zip(expected).position(|(x, y)| x != y).unwrap();
        let nul = k + 1 == expected.len() && expected[k] == 0;
        ctx.oracle(
            "C02",
            format!(
                "FAMILY `{what}`: stored byte {k} of {} is {:#04x}, the source has {:#04x}{}",
                expected.len(),
                bytes[k],
                expected[k],
                if nul { " (the terminating NUL)" } else { "" }
            ),
        );
    }
}

/// the (entry, twin) combinations available for a plan
fn fam_variants(ctx: &Ctx, p: &FamPlan) -> Vec<(u8, bool)> {
    let mut v = Vec::new();
    for entry in 0..4u8 {
        for panicking in [false, true] {
            // the panicking twin only where an allocation failure cannot occur
            if panicking && (ctx.fail_injected || p.huge) {
                continue;
            }
            let q = FamReq { ep: p.ep, elem: p.elem, len: p.len, src: &p.src, panicking, entry, keep: p.keep, owned: p.owned, huge: p.huge, avail: p.avail };
            if fam_static_has(&q) {
                v.push((entry, panicking));
            }
        }
    }
    v
}

/// entry points that accept a zero-sized element type
const FAM_ZST_EPS: [Fam; 15] = [
    Fam::Alloc,
    Fam::AllocWith,
    Fam::AllocDefault,
    Fam::AllocUninit,
    Fam::SliceCopy,
    Fam::SliceClone,
    Fam::SliceFill,
    Fam::SliceFillWith,
    Fam::SliceMove,
    Fam::UninitSlice,
    Fam::UninitSliceFor,
    Fam::IterExact,
    Fam::Iter,
    Fam::IterMut,
    Fam::IterMutRev,
];

fn op_family(ctx: &mut Ctx, sc: &mut dyn ScopeOps) {
    // ---- zero-sized probe: a zero-sized element type (align 8 / align 1 / drop-counting) through two entry points
    // from one state.  Whether a zero-sized request reaches the allocator is a property of the entry point
    // (`alloc_uninit_slice(_for)` do, everything else short-circuits): a twin that differs pads the position to
    // `align_of::<T>()` (visible when the position is not a multiple of it) or creates the first chunk.
    let probe = ctx.rng.chance(1, 4);
    let plan = if probe {
        let ep = *ctx.rng.pick(&FAM_ZST_EPS);
        let elem = *ctx.rng.pick(&[FElem::Z8, FElem::Z8, FElem::Unit, FElem::Zst]);
        let elem = if ep.elems().contains(&elem) { elem } else { FElem::Z8 };
        ctx.count("fam:(zero-sized probe)");
        let a = elem.layout().align();
        let d = sc.x_dump();
        if let Some(i) = d.cur {
            if a > sc.x_min_align() && d.fwd[i].pos % a == 0 && d.fwd[i].remaining >= 64 && !sc.x_is_claimed() {
                // make the position odd with respect to the alignment of the zero-sized type
                let l = Layout::from_size_align(1, 1).unwrap();
                let text = "allocate 1 1 0 p";
                match sc.x_allocate(l, false, Via::Plain, 0) {
                    Ok((ptr, len)) => {
                        let id = ctx.add_block(ptr, 1, 1, Vec::new(), None);
                        log_op(ctx, sc, text, &format!("ok {id} {ptr} {len}"));
                    }
                    Err(()) => {
                        log_op(ctx, sc, text, "err");
                    }
                }
            }
        }
        gen_family_plan(ctx, &*sc, Some((ep, elem)))
    } else {
        gen_family_plan(ctx, &*sc, None)
    };
    let vars = fam_variants(ctx, &plan);
    // prefer the statically dispatched entries when the combination is instantiated for them
    let statics: Vec<(u8, bool)> = vars.iter().copied().filter(|v| v.0 != 3).collect();
    let pick = |ctx: &mut Ctx| if !statics.is_empty() && ctx.rng.chance(1, 2) { *ctx.rng.pick(&statics) } else { *ctx.rng.pick(&vars) };
    let v1 = pick(ctx);
    // ---- C17: the same request through a second entry point from the same state
    let lying = plan.avail != plan.len;
    let twin = !ctx.fail_injected && !plan.huge && vars.len() >= 2 && !sc.x_is_claimed() && (probe || lying || ctx.rng.chance(1, 4));
    if !twin {
        run_family_plan(ctx, sc, &plan, v1.0, v1.1);
        return;
    }
    let others: Vec<(u8, bool)> = vars.iter().copied().filter(|v| *v != v1).collect();
    // a lying iterator: the other twin (panicking vs try_) when there is one
    let other_twin: Vec<(u8, bool)> = others.iter().copied().filter(|v| v.1 != v1.1).collect();
    let v2 = if lying && !other_twin.is_empty() { *ctx.rng.pick(&other_twin) } else { *ctx.rng.pick(&others) };
    ctx.count("fam:(two entry points from one state)");
    let key = ctx.next_key;
    ctx.next_key += 1;
    let cp = sc.x_checkpoint();
    let mark = ctx.next_id;
    ctx.user_cps.push((key, cp, mark, ctx.marks.len()));
    log_op(ctx, sc, &format!("checkpoint {key}"), "unit");
    let (calls0, fails0) = BASE.with(|b| (b.borrow().alloc_calls, b.borrow().total_failures));
    let o1 = run_family_plan(ctx, sc, &plan, v1.0, v1.1);
    let (calls1, fails1) = BASE.with(|b| (b.borrow().alloc_calls, b.borrow().total_failures));
    sc.x_reset_to(cp);
    ctx.kill_from(mark);
    log_op(ctx, sc, &format!("reset_to {key}"), "unit");
    let o2 = run_family_plan(ctx, sc, &plan, v2.0, v2.1);
    let fails2 = BASE.with(|b| b.borrow().total_failures);
    if fails0 != fails2 {
        return;
    }
    let _ = fails1;
    let name = |v: (u8, bool)| format!("{}{}", ["BumpScope", "&BumpScope", "&mut BumpScope", "dyn"][v.0 as usize], if v.1 { " (panicking twin)" } else { " (try_ twin)" });
    let same_state = calls1 == calls0; // the first run created no chunk: both runs started from identical states
    let differs = o1.class != o2.class || o1.len != o2.len || (same_state && o1 != o2);
    ctx.oracle_checks += 1;
    if differs {
        ctx.oracle(
            "C17",
            format!(
                "FAMILY {}::<{:?}>(len {}) from the same state: via {} -> {:?}, via {} -> {:?}",
                &plan.ep.name()[4..],
                plan.elem,
                plan.len,
                name(v1),
                o1,
                name(v2),
                o2
            ),
        );
    }
}
