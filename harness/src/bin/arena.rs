//! Engine `arena`: drives the REAL `Bump` / `BumpScope` with generated, contract-respecting
//! operation sequences over a matrix of settings and base allocators, logs every observable
//! (results, base-allocator traffic, bump position, statistics, chunk list, checksum of all live
//! blocks) in the line protocol of the Lean driver, and evaluates the direct oracles of the
//! arena properties (C01 C02 C03 C05 C07 C10 C13 C14 C15 C18) on the implementation.
//!
//!   arena <traces> <ops-per-trace> <profile>      env: VERIF_SEED
//!
//! Output: `cfg …` / `op … [| resps] => <observed>` / `oracle <prop> <message>` / `# …` lines.

#![allow(clippy::all, dead_code)]

use std::alloc::Layout;
use std::fmt::Write as _;
use std::panic::{AssertUnwindSafe, catch_unwind};

use bump_scope::settings::{Bool, BumpSettings, MinimumAlignment, SupportedMinimumAlignment};
use bump_scope::traits::BumpAllocator;
use bump_scope::{BaseAllocator, Bump, Checkpoint};

use verif_harness::base::{A0, A8, A64, A256, BASE, Ev, TestBase};
use verif_harness::scope_ops::{DUMMY_ADDR, Dump, Elem, ScopeOps, TryKind, Via};
use verif_harness::{Rng, seed};

// ------------------------------------------------------------------------------------------------
// profiles: weights of the op categories (per property focus)

#[derive(Clone, Debug)]
struct Profile {
    name: &'static str,
    alloc: u64,
    dealloc: u64,
    grow: u64,
    shrink: u64,
    typed: u64,
    prepare: u64,
    reserve: u64,
    scope: u64,
    checkpoint: u64,
    claim: u64,
    aligned: u64,
    try_with: u64,
    write: u64,
    split: u64,
    top: u64,     // reset / reset_to_start / with_settings at top level
    wrappers: u64, // percentage of allocator-interface calls going through WithoutDealloc/WithoutShrink
    fail_pct: u64, // percentage of traces with injected base-allocator failures
    big_pct: u64,  // percentage of sizes drawn from the "chunk-spanning" class
}

fn profile(name: &str) -> Profile {
    let base = Profile {
        name: "general",
        alloc: 30,
        dealloc: 10,
        grow: 10,
        shrink: 8,
        typed: 8,
        prepare: 5,
        reserve: 3,
        scope: 6,
        checkpoint: 3,
        claim: 2,
        aligned: 3,
        try_with: 3,
        write: 6,
        split: 2,
        top: 2,
        wrappers: 15,
        fail_pct: 15,
        big_pct: 8,
    };
    match name {
        "scopes" => Profile { name: "scopes", scope: 20, checkpoint: 8, aligned: 6, top: 5, try_with: 6, ..base },
        "faults" => Profile { name: "faults", fail_pct: 90, big_pct: 25, reserve: 6, prepare: 8, ..base },
        "realloc" => Profile { name: "realloc", dealloc: 18, grow: 20, shrink: 18, wrappers: 35, write: 10, ..base },
        "claims" => Profile { name: "claims", claim: 14, scope: 8, ..base },
        "prepared" => Profile { name: "prepared", prepare: 30, typed: 4, alloc: 15, ..base },
        "aligned" => Profile { name: "aligned", aligned: 20, scope: 8, dealloc: 12, ..base },
        "entry" => Profile { name: "entry", typed: 30, alloc: 25, prepare: 8, reserve: 5, wrappers: 30, fail_pct: 0, ..base },
        "ledger" => Profile { name: "ledger", top: 8, big_pct: 25, reserve: 8, fail_pct: 40, ..base },
        _ => base,
    }
}

// ------------------------------------------------------------------------------------------------
// mirrored ghost state

#[derive(Clone, Debug)]
struct Blk {
    id: u64,
    ptr: usize,
    size: usize,
    align: usize,
    shadow: Vec<u8>, // expected contents of the defined prefix (len = init)
    elem: Option<Elem>, // created by a typed slice allocation of this element type
}

struct Prep {
    lo: usize,
    hi: usize,
    esize: usize,
    ealign: usize,
    typed: bool,
    rev: bool,
    elem: Option<Elem>,
    ptr: usize,
    cap: usize,
    filled: usize,
    seed: u64,
    // position snapshot for the C15 oracle
    pos_snapshot: Vec<(usize, usize)>, // (chunk_start, pos) of every chunk up to the then-current one
    dyn_: bool,
}

struct ScopeSnap {
    mark: u64,
    cur: Option<usize>,
    claimed: bool,
    pos: usize,
    allocated: usize,
    chunk_count: usize,
}

struct Ctx {
    rng: Rng,
    prof: Profile,
    out: String,
    ops_left: usize,
    blocks: Vec<Blk>,
    next_id: u64,
    user_cps: Vec<(u64, Checkpoint, u64, usize)>, // key, checkpoint, mark, scope depth
    marks: Vec<u64>,
    prepared: Option<Prep>,
    frames: usize,      // open frames of any kind
    claim_depth: usize, // open claim frames
    oracle_failures: u64,
    oracle_checks: u64,
    op_hist: std::collections::BTreeMap<&'static str, u64>,
    branch: std::collections::BTreeMap<&'static str, u64>,
    hsize: usize,
    halign: usize,
    /// minimum alignment to print on the next op line instead of the handle's (a by-value handle already carries its new alignment)
    ma_override: Option<usize>,
    /// (current chunk, position, allocated) printed on the previous op line, for the failed-operation oracle
    prev_state: Option<(String, usize, usize)>,
    up: bool,
    ga: bool,
    de: bool,
    sh: bool,
    ma0: usize,
    ma_now: usize,
    fail_injected: bool,
    replaying: bool,
    shape: Vec<String>,
    floor: u64,
    cp_floor: u64,
    last_allocated: usize,
    next_key: u64,
}

fn pattern(seed: u64, k: usize) -> u8 {
    ((seed as u128 * 131 + k as u128 * 17 + (k as u128 / 256) * 29 + 7) % 251) as u8
}

impl Ctx {
    fn count(&mut self, name: &'static str) {
        *self.op_hist.entry(name).or_insert(0) += 1;
    }
    fn br(&mut self, name: &'static str) {
        *self.branch.entry(name).or_insert(0) += 1;
    }
    fn oracle(&mut self, prop: &str, msg: String) {
        self.oracle_failures += 1;
        let _ = writeln!(self.out, "oracle {prop} {msg}");
    }
    fn blk(&self, id: u64) -> &Blk {
        self.blocks.iter().find(|b| b.id == id).unwrap()
    }
    fn add_block(&mut self, ptr: usize, size: usize, align: usize, shadow: Vec<u8>, elem: Option<Elem>) -> u64 {
        let id = self.next_id;
        self.next_id += 1;
        self.blocks.push(Blk { id, ptr, size, align, shadow, elem });
        id
    }
    fn remove_block(&mut self, id: u64) -> Blk {
        let i = self.blocks.iter().position(|b| b.id == id).unwrap();
        self.blocks.remove(i)
    }
    fn kill_from(&mut self, mark: u64) {
        self.blocks.retain(|b| b.id < mark);
        self.user_cps.retain(|c| c.2 < mark);
    }
    fn checksum(&self) -> u64 {
        let mut h: u64 = 0xcbf29ce484222325;
        for b in &self.blocks {
            let bytes = unsafe { std::slice::from_raw_parts(b.ptr as *const u8, b.shadow.len()) };
            for &x in bytes {
                h = (h ^ x as u64).wrapping_mul(0x100000001b3);
            }
        }
        h
    }
}

fn take_base_log() -> (String, String) {
    // (responses as the model consumes them, requests as the model emits them)
    let evs = BASE.with(|b| b.borrow_mut().drain_log());
    let mut resps = String::new();
    let mut reqs: Vec<String> = Vec::new();
    for e in evs {
        match e {
            Ev::Alloc { size, align, result } => {
                reqs.push(format!("A {size} {align}"));
                match result {
                    Some((p, g)) => {
                        let _ = write!(resps, " G {p} {g}");
                    }
                    None => resps.push_str(" F"),
                }
            }
            Ev::Dealloc { ptr, size, align } => reqs.push(format!("D {ptr} {size} {align}")),
        }
    }
    (resps, reqs.join(", "))
}

fn stat_str(s: &verif_harness::scope_ops::StatNums) -> String {
    format!("{} {} {} {} {}", s.count, s.size, s.capacity, s.allocated, s.remaining)
}

fn cur_pos(d: &Dump, up: bool) -> usize {
    match d.cur {
        Some(i) => d.fwd[i].pos,
        None => {
            if up {
                DUMMY_ADDR + 16
            } else {
                DUMMY_ADDR
            }
        }
    }
}

/// emits the `op … => …` line and runs the state oracles; `sc` is the ACTIVE handle
fn log_op(ctx: &mut Ctx, sc: &dyn ScopeOps, optext: &str, outcome: &str) -> Dump {
    let (resps, reqs) = take_base_log();
    let d = sc.x_dump();
    let cur = match d.cur {
        Some(i) => i.to_string(),
        None => {
            if d.claimed {
                "C".into()
            } else {
                "U".into()
            }
        }
    };
    let chunks: Vec<String> = d.fwd.iter().map(|c| format!("({},{},{})", c.chunk_start, c.size, c.pos)).collect();
    let resp_part = if resps.is_empty() { String::new() } else { format!(" |{resps}") };
    if ctx.replaying {
        // the shape of the workload (block ids / checkpoint keys differ between two runs by construction)
        let w: Vec<&str> = optext.split(' ').collect();
        ctx.shape.push(match w[0] {
            "write" | "dealloc" | "split" | "checkpoint" | "reset_to" => w[0].to_string(),
            "grow" | "shrink" | "shrink_slice" => format!("{} {}", w[0], w[2..].join(" ")),
            _ => optext.to_string(),
        });
    }
    let _ = writeln!(
        ctx.out,
        "op {optext}{resp_part} => {outcome} | reqs {reqs} | cur {cur} pos {} ma {} | stats {} | any {} | chunks {} | live {} sum {}",
        cur_pos(&d, ctx.up),
        ctx.ma_override.take().unwrap_or_else(|| sc.x_min_align()),
        stat_str(&d.typed),
        stat_str(&d.any),
        chunks.join(" "),
        ctx.blocks.len(),
        ctx.checksum()
    );
    // ---- C07: an operation that reports failure leaves the arena where it was (same current chunk, same position,
    // same allocated byte count); both handles of a claim are kept apart by the `cur` text (`C` for the claimed one)
    {
        let now = (cur.clone(), cur_pos(&d, ctx.up), d.typed.allocated);
        if outcome == "err" && !optext.starts_with("on_claimed") {
            if let Some(prev) = &ctx.prev_state {
                if prev.0 != "C" && now.0 != "C" && *prev != now {
                    ctx.oracle(
                        "C07",
                        format!("`{optext}` FAILED but changed the arena: current chunk {} -> {}, position {:#x} -> {:#x}, allocated {} -> {}", prev.0, now.0, prev.1, now.1, prev.2, now.2),
                    );
                }
            }
        }
        ctx.prev_state = Some(now);
    }
    // ---- C12: a request creates at most one chunk, and the chunk created for it serves it
    let grants = resps.matches(" G ").count();
    if grants > 1 && !optext.starts_with("try_with") {
        ctx.oracle("C12", format!("`{optext}` obtained {grants} blocks from the base allocator: the chunk created for the request did not fit it"));
    }
    state_oracles(ctx, sc, &d, optext, !reqs.is_empty() || !resps.is_empty());
    // flush per operation: if the real crate aborts the process, the history up to that point is on stdout
    print!("{}", ctx.out);
    ctx.out.clear();
    d
}

fn state_oracles(ctx: &mut Ctx, sc: &dyn ScopeOps, d: &Dump, optext: &str, _base_traffic: bool) {
    ctx.oracle_checks += 1;
    let ma = sc.x_min_align();
    // ---- C10: bookkeeping and statistics
    let t = &d.typed;
    if t.allocated + t.remaining != t.capacity || t.capacity > t.size {
        ctx.oracle("C10", format!("after `{optext}`: allocated {} + remaining {} != capacity {} or capacity > size {}", t.allocated, t.remaining, t.capacity, t.size));
    }
    if t.count != d.fwd.len() {
        ctx.oracle("C10", format!("after `{optext}`: count() = {} but {} chunks are linked", t.count, d.fwd.len()));
    }
    let mut rev = d.bwd.clone();
    rev.reverse();
    if rev != d.fwd {
        ctx.oracle("C10", format!("after `{optext}`: forward and backward chunk traversals differ"));
    }
    for (i, c) in d.fwd.iter().enumerate() {
        if c.size % 16 != 0 || c.size != c.chunk_end - c.chunk_start {
            ctx.oracle("C10", format!("after `{optext}`: chunk {i} size {} not a multiple of 16 / inconsistent", c.size));
        }
        if !(c.chunk_start <= c.content_start && c.content_start <= c.content_end && c.content_end <= c.chunk_end) {
            ctx.oracle("C10", format!("after `{optext}`: chunk {i} content range outside the chunk"));
        }
        if (c.content_start - c.chunk_start) + (c.chunk_end - c.content_end) != ctx.hsize {
            ctx.oracle("C10", format!("after `{optext}`: chunk {i} header is not {} bytes inside the chunk", ctx.hsize));
        }
        // ---- C12: computed chunk sizes are multiples of 16, and of the header alignment when bumping downwards
        // (the header sits at the end of the block: it must be aligned); a later chunk is at least twice its predecessor less 16
        if c.size % 16 != 0 || (!ctx.up && ctx.halign > 0 && (c.size % ctx.halign != 0 || c.content_end % ctx.halign != 0)) {
            ctx.oracle("C12", format!("after `{optext}`: chunk {i} has size {} (block {:#x}): not a multiple of 16 / of the header alignment {} (downwards: header at {:#x})", c.size, c.chunk_start, ctx.halign, c.content_end));
        }
        if i > 0 && c.size + 16 < 2 * d.fwd[i - 1].size {
            ctx.oracle("C12", format!("after `{optext}`: chunk {i} (size {}) is smaller than twice its predecessor ({}) less 16", c.size, d.fwd[i - 1].size));
        }
        if i > 0 && d.fwd[i - 1].size >= c.size {
            ctx.oracle("C10", format!("after `{optext}`: chunk {i} (size {}) is not larger than its predecessor ({})", c.size, d.fwd[i - 1].size));
        }
        if c.pos < c.content_start || c.pos > c.content_end {
            ctx.oracle("C10", format!("after `{optext}`: chunk {i} bump position {} outside its content range", c.pos));
        }
    }
    if let Some(i) = d.cur {
        if d.fwd[i].pos % ma != 0 {
            ctx.oracle("C10", format!("after `{optext}`: bump position {:#x} is not a multiple of the minimum alignment {ma}", d.fwd[i].pos));
        }
    } else if *t != Default::default() {
        ctx.oracle("C10", format!("after `{optext}`: claimed/unallocated arena reports non-zero statistics"));
    }
    // type-erased statistics must equal the typed ones (known finding C10-a for header sizes != 32)
    let any_equal = d.any == d.typed && d.any_fwd == d.fwd && d.any_bwd == d.bwd;
    if !any_equal {
        ctx.oracle("C10", format!("ANYSTATS hsize={} after `{optext}`: any_stats {:?} != stats {:?}", ctx.hsize, d.any, d.typed));
    }
    // ---- C02: contents of every live block
    for b in &ctx.blocks {
        let bytes = unsafe { std::slice::from_raw_parts(b.ptr as *const u8, b.shadow.len()) };
        if bytes != &b.shadow[..] {
            let k = bytes.iter().zip(&b.shadow).position(|(x, y)| x != y).unwrap();
            let msg = format!("after `{optext}`: byte {k} of live block {} ({:#x}, size {}) changed from {:#04x} to {:#04x}", b.id, b.ptr, b.size, b.shadow[k], bytes[k]);
            ctx.oracle_failures += 1;
            let _ = writeln!(ctx.out, "oracle C02 {msg}");
            break;
        }
    }
    // ---- C01: every live block inside owned content memory, pairwise disjoint
    for (i, b) in ctx.blocks.iter().enumerate() {
        if b.size > 0 {
            let inside = d.fwd.iter().any(|c| c.content_start <= b.ptr && b.ptr + b.size <= c.content_end);
            if !inside {
                let msg = format!("after `{optext}`: live block {} [{:#x},+{}) is not inside any chunk's content range", b.id, b.ptr, b.size);
                ctx.oracle_failures += 1;
                let _ = writeln!(ctx.out, "oracle C01 {msg}");
                break;
            }
            for c in &ctx.blocks[i + 1..] {
                if c.size > 0 && b.ptr < c.ptr + c.size && c.ptr < b.ptr + b.size {
                    let msg = format!("after `{optext}`: live blocks {} [{:#x},+{}) and {} [{:#x},+{}) overlap", b.id, b.ptr, b.size, c.id, c.ptr, c.size);
                    ctx.oracle_failures += 1;
                    let _ = writeln!(ctx.out, "oracle C01 {msg}");
                    return;
                }
            }
        }
    }
    // ---- C05: ledger errors reported by the base allocator
    let errs: Vec<String> = BASE.with(|b| std::mem::take(&mut b.borrow_mut().errors));
    for e in errs {
        ctx.oracle("C05", format!("after `{optext}`: {e}"));
    }
}

fn check_new_block(ctx: &mut Ctx, optext: &str, ptr: usize, len: usize, want: Layout) {
    if ptr % want.align() != 0 {
        ctx.oracle("C01", format!("`{optext}` returned {ptr:#x} which is not aligned to {}", want.align()));
    }
    if len < want.size() {
        ctx.oracle("C01", format!("`{optext}` returned a block of {len} bytes, requested {}", want.size()));
    }
}

fn via_tok(v: Via) -> &'static str {
    match v {
        Via::Plain => "p",
        Via::WithoutDealloc => "d",
        Via::WithoutShrink => "s",
    }
}

include!("../arena_inc/exec.rs");
include!("../arena_inc/top.rs");
