//! Engine `strs` (property C09): drives the REAL `BumpBox<str>`, `FixedBumpString`, `BumpString`
//! and `MutBumpString` next to `std::string::String` on the same generated operation sequence.
//!
//!   strs <sequences> <ops-per-sequence> <sweep-texts> <decode-cases>      env: VERIF_SEED
//!
//! Output (line protocol of `lean/Driver/StrsD.lean`):
//!   `new <kind> <ctor> <hex> [g<n>] => ok | <hex> | <len> | <cap>`   a fresh string (ctor: s = from_str_in, c<n> = with_capacity_in(n)+push_str)
//!   `op <name> <args…> => <observed>`   observed = `<outcome> | <contents hex> | <len> | <cap or ->`
//!   `oracle C09 <message>`              the IMPLEMENTATION violates the property (never consults the model):
//!                                       raw bytes are not UTF-8 after an operation (also a panicked one),
//!                                       contents / returned value / panic-or-not differ from std `String`,
//!                                       a C string is not `text up to the first NUL + one NUL`
//!   `# …`                               trace headers, histograms, counters
//! `from_utf8(_lossy)`, `from_utf16(_lossy)` and formatting are compared with std only (section
//! `decode`, no model lines): they delegate to `core`.

#![allow(clippy::all, dead_code)]

use std::collections::BTreeMap;
use std::fmt::Write as _;
use std::ops::Bound;
use std::panic::{AssertUnwindSafe, catch_unwind};

use bump_scope::alloc::Global;
use bump_scope::settings::BumpSettings;
use bump_scope::traits::{BumpAllocatorTypedScope, MutBumpAllocatorTypedScope};
use bump_scope::{Bump, BumpBox, BumpScope, BumpString, BumpVec, FixedBumpString, FixedBumpVec, MutBumpString, MutBumpVec};

use verif_harness::{Rng, seed};

include!("../strs_inc/adapters.rs");
include!("../strs_inc/decode.rs");

// ------------------------------------------------------------------------------------------------

#[derive(Clone, Debug)]
enum Op {
    Push(char),
    PushStr(String),
    Insert(usize, char),
    InsertStr(usize, String),
    Remove(usize),
    Pop,
    Truncate(usize),
    Clear,
    Retain(Vec<u8>),
    Drain(Rg, usize),
    ReplaceRange(Rg, String),
    ExtendFromWithin(Rg),
    SplitOff(Rg),
    Convert(Conv),
    Reserve(usize),
    ReserveExact(usize),
    ExtendZeroed(usize),
    WriteStr(String),
    WriteChar(char),
    ExtendChars(Vec<char>, bool),
    ExtendStrs(Vec<String>, bool),
    ShrinkTo(usize),
    ShrinkToFit,
    /// `clone()`; true: continue with the clone (the original is parked), false: the clone is parked
    CloneStr(bool),
    /// continue with parked string i
    SwapLive(usize),
    /// drop parked string i
    DropParked(usize),
}

impl Op {
    fn name(&self) -> &'static str {
        match self {
            Op::Push(..) => "push",
            Op::PushStr(..) => "push_str",
            Op::Insert(..) => "insert",
            Op::InsertStr(..) => "insert_str",
            Op::Remove(..) => "remove",
            Op::Pop => "pop",
            Op::Truncate(..) => "truncate",
            Op::Clear => "clear",
            Op::Retain(..) => "retain",
            Op::Drain(..) => "drain",
            Op::ReplaceRange(..) => "replace_range",
            Op::ExtendFromWithin(..) => "extend_from_within",
            Op::SplitOff(..) => "split_off",
            Op::Convert(c) => c.name(),
            Op::Reserve(..) => "reserve",
            Op::ReserveExact(..) => "reserve_exact",
            Op::ExtendZeroed(..) => "extend_zeroed",
            Op::WriteStr(..) => "write_str",
            Op::WriteChar(..) => "write_char",
            Op::ExtendChars(..) => "extend_chars",
            Op::ExtendStrs(..) => "extend_strs",
            Op::ShrinkTo(..) => "shrink_to",
            Op::ShrinkToFit => "shrink_to_fit",
            Op::CloneStr(..) => "clone",
            Op::SwapLive(..) => "swap",
            Op::DropParked(..) => "drop_parked",
        }
    }
    fn text(&self) -> String {
        match self {
            Op::Push(c) => format!("push {}", *c as u32),
            Op::PushStr(s) => format!("push_str {}", hex(s.as_bytes())),
            Op::Insert(i, c) => format!("insert {i} {}", *c as u32),
            Op::InsertStr(i, s) => format!("insert_str {i} {}", hex(s.as_bytes())),
            Op::Remove(i) => format!("remove {i}"),
            Op::Pop => "pop".into(),
            Op::Truncate(n) => format!("truncate {n}"),
            Op::Clear => "clear".into(),
            Op::Retain(o) => format!("retain {}", if o.is_empty() { "-".to_string() } else { String::from_utf8(o.clone()).unwrap() }),
            Op::Drain(r, t) => format!("drain {} {} {t}", bd(r.0), bd(r.1)),
            Op::ReplaceRange(r, s) => format!("replace_range {} {} {}", bd(r.0), bd(r.1), hex(s.as_bytes())),
            Op::ExtendFromWithin(r) => format!("extend_from_within {} {}", bd(r.0), bd(r.1)),
            Op::SplitOff(r) => format!("split_off {} {}", bd(r.0), bd(r.1)),
            Op::Convert(c) => c.name().into(),
            Op::Reserve(n) => format!("reserve {n}"),
            Op::ReserveExact(n) => format!("reserve_exact {n}"),
            Op::ExtendZeroed(n) => format!("extend_zeroed {n}"),
            Op::WriteStr(s) => format!("write_str {}", hex(s.as_bytes())),
            Op::WriteChar(c) => format!("write_char {}", *c as u32),
            Op::ExtendChars(cs, by_ref) => format!("extend_chars {} {}", *by_ref as u8, cps(cs)),
            Op::ExtendStrs(ss, add) => format!("extend_strs {} {}", *add as u8, ss.iter().map(|x| hex(x.as_bytes())).collect::<Vec<_>>().join(" ")),
            Op::ShrinkTo(n) => format!("shrink_to {n}"),
            Op::ShrinkToFit => "shrink_to_fit".into(),
            Op::CloneStr(swap) => format!("clone {}", *swap as u8),
            Op::SwapLive(i) => format!("swap {i}"),
            Op::DropParked(i) => format!("drop_parked {i}"),
        }
    }
    /// the operation exists as a `try_` / panicking pair
    fn has_twin(&self) -> bool {
        matches!(self, Op::Push(..) | Op::PushStr(..) | Op::Insert(..) | Op::InsertStr(..) | Op::ReplaceRange(..) | Op::ExtendFromWithin(..)
            | Op::ExtendZeroed(..) | Op::Reserve(..) | Op::ReserveExact(..))
    }
    /// may need memory (a full fixed string reports an allocation error and must stay unchanged)
    fn grows(&self) -> bool {
        self.has_twin() || matches!(self, Op::WriteStr(..) | Op::WriteChar(..) | Op::ExtendChars(..) | Op::ExtendStrs(..))
    }
}

fn bd(b: Bound<usize>) -> String {
    match b {
        Bound::Included(n) => format!("i{n}"),
        Bound::Excluded(n) => format!("x{n}"),
        Bound::Unbounded => "u".into(),
    }
}

fn hex(b: &[u8]) -> String {
    if b.is_empty() {
        return "-".into();
    }
    let mut s = String::with_capacity(b.len() * 2);
    for x in b {
        let _ = write!(s, "{x:02x}");
    }
    s
}

fn cps(cs: &[char]) -> String {
    if cs.is_empty() {
        return "-".into();
    }
    cs.iter().map(|c| (*c as u32).to_string()).collect::<Vec<_>>().join(",")
}

#[derive(Clone, PartialEq, Eq, Debug)]
enum Obs {
    Ok(String),
    Err,
    Panic,
}

impl Obs {
    fn text(&self) -> String {
        match self {
            Obs::Ok(v) if v.is_empty() => "ok".into(),
            Obs::Ok(v) => format!("ok:{v}"),
            Obs::Err => "err".into(),
            Obs::Panic => "panic".into(),
        }
    }
    fn class(&self) -> usize {
        match self {
            Obs::Ok(_) => 0,
            Obs::Err => 1,
            Obs::Panic => 2,
        }
    }
}

struct Ctx {
    out: String,
    rng: Rng,
    ops: BTreeMap<&'static str, [u64; 3]>,
    branches: BTreeMap<&'static str, u64>,
    kinds: [u64; 4],
    cfgs: [u64; 4],
    oracle_failures: u64,
    cases: u64,
    news: u64,
    utf8_checks: u64,
}

impl Ctx {
    fn oracle(&mut self, msg: String) {
        self.oracle_failures += 1;
        let _ = writeln!(self.out, "oracle C09 {msg}");
        // print at once: the process may not survive what the implementation does next
        self.flush();
    }
    fn branch(&mut self, name: &'static str) {
        *self.branches.entry(name).or_insert(0) += 1;
    }
    fn flush(&mut self) {
        use std::io::Write as _;
        print!("{}", self.out);
        let _ = std::io::stdout().flush();
        self.out.clear();
    }
}

// ------------------------------------------------------------------------------------------------
// generators

fn gen_char(rng: &mut Rng) -> char {
    let pick = |rng: &mut Rng, lo: u32, hi: u32, edges: &[u32]| -> char {
        let v = if rng.chance(1, 3) { *rng.pick(edges) } else { rng.range(lo as u64, hi as u64) as u32 };
        char::from_u32(v).unwrap_or('\u{fffd}')
    };
    match rng.below(100) {
        0..=37 => pick(rng, 0x20, 0x7e, &[0x20, 0x41, 0x61, 0x7e]),
        38..=43 => '\0',
        44..=46 => pick(rng, 0x01, 0x1f, &[0x01, 0x0a, 0x7f]),
        47..=64 => pick(rng, 0x80, 0x7ff, &[0x80, 0xe9, 0x7ff]),
        65..=84 => {
            let c = pick(rng, 0x800, 0xffff, &[0x800, 0xd7ff, 0xe000, 0xffff, 0xfffd, 0x20ac]);
            c
        }
        _ => pick(rng, 0x10000, 0x10ffff, &[0x10000, 0x10ffff, 0x1f600]),
    }
}

fn gen_text(rng: &mut Rng, max_chars: u64) -> String {
    let n = rng.below(max_chars + 1);
    (0..n).map(|_| gen_char(rng)).collect()
}

/// a byte index for a string with contents `r`: mostly boundaries, often not, sometimes out of range
fn gen_index(ctx: &mut Ctx, r: &str) -> usize {
    let len = r.len();
    let k = ctx.rng.below(100);
    if k < 50 {
        let bs: Vec<usize> = (0..=len).filter(|i| r.is_char_boundary(*i)).collect();
        *ctx.rng.pick(&bs)
    } else if k < 78 {
        ctx.rng.below(len as u64 + 1) as usize
    } else if k < 84 {
        len
    } else if k < 94 {
        len + 1 + ctx.rng.below(3) as usize
    } else {
        *ctx.rng.pick(&[usize::MAX, usize::MAX - 1, 1usize << 63, (isize::MAX as usize) + 1, len + 1000])
    }
}

fn gen_range(ctx: &mut Ctx, r: &str) -> Rg {
    let a = gen_index(ctx, r);
    let b = gen_index(ctx, r);
    let (a, b) = if a > b && ctx.rng.chance(4, 5) { (b, a) } else { (a, b) };
    let k = ctx.rng.below(100);
    let sb = if k < 62 {
        Bound::Included(a)
    } else if k < 75 {
        Bound::Unbounded
    } else {
        Bound::Excluded(a.wrapping_sub(if ctx.rng.chance(1, 2) { 1 } else { 0 }))
    };
    let k = ctx.rng.below(100);
    let eb = if k < 70 {
        Bound::Excluded(b)
    } else if k < 85 {
        Bound::Unbounded
    } else {
        Bound::Included(if ctx.rng.chance(3, 4) { b.wrapping_sub(1) } else { b })
    };
    (sb, eb)
}

fn gen_oracle(ctx: &mut Ctx, r: &str) -> Vec<u8> {
    let n = r.chars().count() as u64;
    let m = match ctx.rng.below(10) {
        0 => 0,
        1 => ctx.rng.below(n + 1),
        _ => n + ctx.rng.below(2),
    };
    let panic_at = if ctx.rng.chance(1, 3) { Some(ctx.rng.below(m.max(1))) } else { None };
    (0..m)
        .map(|i| {
            if Some(i) == panic_at {
                b'p'
            } else if ctx.rng.chance(3, 5) {
                b'k'
            } else {
                b'd'
            }
        })
        .collect()
}

fn gen_op(ctx: &mut Ctx, kind: Kind, r: &str, last: bool, parked: usize) -> Op {
    if kind == Kind::Bump && !last {
        let k = ctx.rng.below(100);
        if k < 4 && parked < 3 {
            return Op::CloneStr(ctx.rng.chance(1, 2));
        }
        if parked > 0 && k < 10 {
            return Op::SwapLive(ctx.rng.below(parked as u64) as usize);
        }
        if parked > 0 && k < 12 {
            return Op::DropParked(ctx.rng.below(parked as u64) as usize);
        }
    }
    if last && ctx.rng.chance(2, 3) {
        let convs: &[Conv] = match kind {
            Kind::Box => &[Conv::IntoStr],
            Kind::Fixed => &[Conv::IntoStr, Conv::IntoBoxedStr, Conv::IntoBytes, Conv::IntoString],
            Kind::Bump => &[Conv::IntoCstr, Conv::IntoStr, Conv::IntoBoxedStr, Conv::IntoFixedString, Conv::IntoBytes],
            Kind::Mut => &[Conv::IntoCstr, Conv::IntoStr, Conv::IntoBoxedStr, Conv::IntoBytes],
        };
        return Op::Convert(*ctx.rng.pick(convs));
    }
    loop {
        let k = ctx.rng.below(116);
        let op = match k {
            0..=11 => Op::Push(gen_char(&mut ctx.rng)),
            12..=19 => Op::PushStr(gen_text(&mut ctx.rng, 4)),
            20..=29 => Op::Insert(gen_index(ctx, r), gen_char(&mut ctx.rng)),
            30..=37 => Op::InsertStr(gen_index(ctx, r), gen_text(&mut ctx.rng, 3)),
            38..=46 => Op::Remove(gen_index(ctx, r)),
            47..=52 => Op::Pop,
            53..=60 => Op::Truncate(gen_index(ctx, r)),
            61 => Op::Clear,
            62..=68 => Op::Retain(gen_oracle(ctx, r)),
            69..=76 => {
                let rg = gen_range(ctx, r);
                let t = if ctx.rng.chance(1, 2) { usize::MAX } else { ctx.rng.below(4) as usize };
                Op::Drain(rg, t)
            }
            77..=85 => Op::ReplaceRange(gen_range(ctx, r), gen_text(&mut ctx.rng, 4)),
            86..=91 => Op::ExtendFromWithin(gen_range(ctx, r)),
            92..=96 => Op::SplitOff(gen_range(ctx, r)),
            97 => Op::Reserve(if ctx.rng.chance(1, 6) { 300 + ctx.rng.below(3000) as usize } else { ctx.rng.below(40) as usize }),
            98 => Op::ReserveExact(if ctx.rng.chance(1, 6) { 300 + ctx.rng.below(3000) as usize } else { ctx.rng.below(40) as usize }),
            99..=101 => Op::ExtendZeroed(ctx.rng.below(6) as usize),
            102..=104 => Op::WriteStr(gen_text(&mut ctx.rng, 3)),
            105..=107 => Op::WriteChar(gen_char(&mut ctx.rng)),
            108..=109 => {
                let n = ctx.rng.below(4);
                Op::ExtendChars((0..n).map(|_| gen_char(&mut ctx.rng)).collect(), ctx.rng.chance(1, 2))
            }
            110..=111 => {
                let n = ctx.rng.below(4);
                Op::ExtendStrs((0..n).map(|_| gen_text(&mut ctx.rng, 2)).collect(), ctx.rng.chance(1, 2))
            }
            112..=114 => Op::ShrinkTo(match ctx.rng.below(4) {
                0 => ctx.rng.below(r.len() as u64 + 1) as usize,
                1 => r.len() + ctx.rng.below(12) as usize,
                2 => r.len(),
                _ => ctx.rng.below(80) as usize,
            }),
            _ => Op::ShrinkToFit,
        };
        let supported = match (&op, kind) {
            (Op::Convert(..), _) => false,
            (Op::SplitOff(..), Kind::Mut) => false,
            (Op::ReserveExact(..), Kind::Fixed) => false,
            (Op::ShrinkTo(..) | Op::ShrinkToFit, k) => k == Kind::Bump,
            (o, Kind::Box) => !o.grows(),
            _ => true,
        };
        if supported {
            return op;
        }
    }
}

// ------------------------------------------------------------------------------------------------
// execution on the implementation and on std

fn predicate<'a>(oracle: &'a [u8], seen: &'a mut Vec<char>) -> impl FnMut(char) -> bool + 'a {
    let mut i = 0;
    move |c| {
        seen.push(c);
        let o = oracle.get(i).copied().unwrap_or(b'k');
        i += 1;
        match o {
            b'k' => true,
            b'd' => false,
            _ => panic!("predicate panics"),
        }
    }
}

/// runs `op` on the real string; `seen` = characters handed to the retain predicate
fn run_impl(s: &mut Option<Box<dyn StrOps + '_>>, kind: Kind, op: &Op, t: bool, keep_part: bool, probe: (u8, usize), seen: &mut Vec<char>, fin: &mut Option<Fin>, now: &[u8], swapped: &mut Option<Vec<u8>>) -> Obs {
    let res = catch_unwind(AssertUnwindSafe(|| -> Result<String, ()> {
        if let Op::Convert(c) = op {
            let f = s.take().unwrap().finish(*c, probe.0, probe.1);
            let h = hex(&f.bytes);
            *fin = Some(f);
            return Ok(h);
        }
        let s = s.as_mut().unwrap();
        match op {
            Op::Push(c) => s.push(*c, t).map(|_| String::new()),
            Op::PushStr(x) => s.push_str(x, t).map(|_| String::new()),
            Op::Insert(i, c) => s.insert(*i, *c, t).map(|_| String::new()),
            Op::InsertStr(i, x) => s.insert_str(*i, x, t).map(|_| String::new()),
            Op::Remove(i) => Ok((s.remove(*i) as u32).to_string()),
            Op::Pop => Ok(match s.pop() {
                None => "none".into(),
                Some(c) => (c as u32).to_string(),
            }),
            Op::Truncate(n) => {
                s.truncate(*n);
                Ok(String::new())
            }
            Op::Clear => {
                s.clear();
                Ok(String::new())
            }
            Op::Retain(o) => {
                let mut p = predicate(o, seen);
                s.retain(&mut p);
                Ok(String::new())
            }
            Op::Drain(r, t) => Ok(cps(&s.drain(*r, *t))),
            Op::ReplaceRange(r, x) => s.replace_range(*r, x, t).map(|_| String::new()),
            Op::ExtendFromWithin(r) => s.extend_from_within(*r, t).map(|_| String::new()),
            Op::SplitOff(r) => {
                let (b, cap) = s.split_off(*r, keep_part);
                Ok(format!("{}:{}", hex(&b), if kind == Kind::Box { "-".into() } else { cap.to_string() }))
            }
            Op::Reserve(n) => s.reserve(*n, t).map(|_| String::new()),
            Op::ReserveExact(n) => s.reserve_exact(*n, t).map(|_| String::new()),
            Op::ExtendZeroed(n) => s.extend_zeroed(*n, t).map(|_| String::new()),
            Op::WriteStr(x) => s.write_str(x).map(|_| String::new()),
            Op::WriteChar(c) => s.write_char(*c).map(|_| String::new()),
            Op::ExtendChars(cs, by_ref) => {
                s.extend_chars(cs, *by_ref);
                Ok(String::new())
            }
            Op::ExtendStrs(ss, add) => {
                let v: Vec<&str> = ss.iter().map(|x| x.as_str()).collect();
                s.extend_strs(&v, *add);
                Ok(String::new())
            }
            Op::ShrinkTo(n) => {
                s.shrink_to(*n);
                Ok(String::new())
            }
            Op::ShrinkToFit => {
                s.shrink_to_fit();
                Ok(String::new())
            }
            Op::CloneStr(swap) => {
                let (b, cap) = s.clone_live(*swap, now.to_vec());
                Ok(format!("{}:{cap}", hex(&b)))
            }
            Op::SwapLive(i) => {
                *swapped = Some(s.swap_live(*i, now.to_vec()));
                Ok(String::new())
            }
            Op::DropParked(i) => {
                s.drop_parked(*i);
                Ok(String::new())
            }
            Op::Convert(_) => unreachable!(),
        }
    }));
    match res {
        Ok(Ok(v)) => Obs::Ok(v),
        Ok(Err(())) => Obs::Err,
        Err(payload) => {
            // the panicking twin of a FixedBumpString reports the allocation error by panicking
            // ("fixed size vector is full" / "... does not have space for N more elements")
            let msg = payload.downcast_ref::<String>().map(|x| x.as_str()).or_else(|| payload.downcast_ref::<&str>().copied()).unwrap_or("");
            if msg.starts_with("fixed size vector") { Obs::Err } else { Obs::Panic }
        }
    }
}

/// the same operation on `std::string::String` (the reference; `split_off` in its documented
/// range form = `drain(range).collect()`, C strings = text up to the first NUL + NUL)
fn run_ref(r: &mut String, op: &Op, seen: &mut Vec<char>) -> Obs {
    let res = catch_unwind(AssertUnwindSafe(|| -> String {
        match op {
            Op::Push(c) => {
                r.push(*c);
                String::new()
            }
            Op::PushStr(t) => {
                r.push_str(t);
                String::new()
            }
            Op::Insert(i, c) => {
                r.insert(*i, *c);
                String::new()
            }
            Op::InsertStr(i, t) => {
                r.insert_str(*i, t);
                String::new()
            }
            Op::Remove(i) => (r.remove(*i) as u32).to_string(),
            Op::Pop => match r.pop() {
                None => "none".into(),
                Some(c) => (c as u32).to_string(),
            },
            Op::Truncate(n) => {
                r.truncate(*n);
                String::new()
            }
            Op::Clear => {
                r.clear();
                String::new()
            }
            Op::Retain(o) => {
                let p = predicate(o, seen);
                r.retain(p);
                String::new()
            }
            Op::Drain(rg, t) => {
                let mut d = r.drain(any_range(*rg));
                cps(&take_front(&mut d, *t))
            }
            Op::ReplaceRange(rg, t) => {
                r.replace_range(any_range(*rg), t);
                String::new()
            }
            Op::ExtendFromWithin(rg) => {
                r.extend_from_within(any_range(*rg));
                String::new()
            }
            Op::SplitOff(rg) => {
                let o: String = r.drain(any_range(*rg)).collect();
                hex(o.as_bytes())
            }
            Op::Reserve(_) | Op::ReserveExact(_) | Op::ShrinkTo(_) | Op::ShrinkToFit => {
                if let Op::ShrinkTo(n) = op { r.shrink_to(*n) }
                if let Op::ShrinkToFit = op { r.shrink_to_fit() }
                String::new()
            }
            Op::ExtendZeroed(n) => {
                r.extend(std::iter::repeat('\0').take(*n));
                String::new()
            }
            Op::WriteStr(x) => {
                let _ = std::fmt::Write::write_str(r, x);
                String::new()
            }
            Op::WriteChar(c) => {
                let _ = std::fmt::Write::write_char(r, *c);
                String::new()
            }
            Op::ExtendChars(cs, by_ref) => {
                if *by_ref { r.extend(cs.iter()) } else { r.extend(cs.iter().copied()) }
                String::new()
            }
            Op::ExtendStrs(ss, add) => {
                if *add {
                    for x in ss {
                        *r += x;
                    }
                } else {
                    r.extend(ss.iter().map(|x| x.as_str()));
                }
                String::new()
            }
            Op::CloneStr(_) => hex(r.clone().as_bytes()),
            Op::SwapLive(_) | Op::DropParked(_) => String::new(),
            Op::Convert(Conv::IntoCstr) => {
                let b = ref_cstr(r.as_bytes());
                *r = String::from_utf8(b.clone()).unwrap();
                hex(&b)
            }
            Op::Convert(_) => hex(r.as_bytes()),
        }
    }));
    match res {
        Ok(v) => Obs::Ok(v),
        Err(_) => Obs::Panic,
    }
}

/// text up to the first NUL (or all of it) followed by exactly one NUL
fn ref_cstr(text: &[u8]) -> Vec<u8> {
    let n = text.iter().position(|b| *b == 0).unwrap_or(text.len());
    let mut v = text[..n].to_vec();
    v.push(0);
    v
}

fn range_desc(r: &Rg) -> String {
    format!("{}..{}", bd(r.0), bd(r.1))
}

/// one operation on the real string `s` and on the std reference `r`; prints the `op` line,
/// evaluates the oracles; returns false when the sequence cannot continue
fn step(ctx: &mut Ctx, s: &mut Option<Box<dyn StrOps + '_>>, r: &mut String, kind: Kind, op: &Op) -> bool {
    // which twin of the API: a fixed string mostly the `try_` one, a growable one mostly the panicking one
    let t = op.has_twin() && if kind == Kind::Fixed { ctx.rng.chance(2, 3) } else { ctx.rng.chance(1, 3) };
    let keep_part = ctx.rng.chance(1, 2);
    let probe = (0xA0 + ctx.rng.below(16) as u8, 1 + ctx.rng.below(24) as usize);
    let optext = if t { format!("try_{}", op.text()) } else { op.text() };
    let failures_before = ctx.oracle_failures;
    let before = r.clone();
    let cap_before = s.as_ref().unwrap().cap();
    let mut seen_i = Vec::new();
    let mut seen_r = Vec::new();
    let mut fin: Option<Fin> = None;
    // range arguments: native Rust syntax where the bound pair has one, else the (Bound, Bound) tuple
    NATIVE_RANGES.store(ctx.rng.chance(1, 2), std::sync::atomic::Ordering::Relaxed);
    let mut swapped = None;
    let obs = run_impl(s, kind, op, t, keep_part, probe, &mut seen_i, &mut fin, before.as_bytes(), &mut swapped);
    let mut want = run_ref(r, op, &mut seen_r);
    if let Some(e) = swapped {
        // the sequence continues with another live string of the arena: its contents as they were left
        match String::from_utf8(e) {
            Ok(x) => *r = x,
            Err(_) => ctx.oracle(format!("INVALID-UTF8 kind={} a parked string", kind.name())),
        }
    }
    // a fixed string reports an allocation error instead when the result does not fit — and must be UNCHANGED then
    // (`Extend`: a sequence of pushes; what fitted before the failing one stays)
    if kind == Kind::Fixed && matches!(want, Obs::Ok(_)) {
        let spare = cap_before - before.len();
        match op {
            Op::ExtendChars(cs, _) => {
                let mut exp = before.clone();
                let mut failed = cs.len() > spare; // `reserve(size_hint().0)` first
                if !failed {
                    for c in cs {
                        if exp.len() + c.len_utf8() > cap_before {
                            failed = true;
                            break;
                        }
                        exp.push(*c);
                    }
                }
                if failed {
                    want = Obs::Err;
                    *r = exp;
                }
            }
            Op::ExtendStrs(ss, _) => {
                let mut exp = before.clone();
                let mut failed = false;
                for x in ss {
                    if exp.len() + x.len() > cap_before {
                        failed = true;
                        break;
                    }
                    exp.push_str(x);
                }
                if failed {
                    want = Obs::Err;
                    *r = exp;
                }
            }
            Op::Reserve(n) => {
                if *n > spare {
                    want = Obs::Err;
                }
            }
            _ => {
                if r.len() > cap_before && r.len() > before.len() {
                    want = Obs::Err;
                    *r = before.clone();
                }
            }
        }
    }
    ctx.cases += 1;
    ctx.ops.entry(op.name()).or_insert([0; 3])[obs.class()] += 1;
    ctx.kinds[kind.idx()] += 1;
    // ---- observation
    let (bytes, cap) = match (&fin, s.as_ref()) {
        (Some(f), _) => (f.bytes.clone(), "-".to_string()),
        (None, Some(s)) => (s.bytes(), if kind == Kind::Box { "-".into() } else { s.cap().to_string() }),
        (None, None) => {
            // the conversion panicked after consuming the string: nothing left to observe
            let _ = writeln!(ctx.out, "op {optext} => panic | - | 0 | -");
            ctx.oracle(format!("PANIC-MISMATCH kind={} `{optext}` on {:?} panicked", kind.name(), before));
            return false;
        }
    };
    // MutBumpString: the capacity the arena granted is an input of the model
    // (so is the capacity after `shrink_to(_fit)`: whether the arena can shrink depends on what else it holds)
    let grant = match (kind, s.as_ref(), op) {
        (Kind::Mut, Some(s), _) | (_, Some(s), Op::ShrinkTo(_) | Op::ShrinkToFit) => format!(" g{}", s.cap()),
        _ => String::new(),
    };
    let _ = writeln!(ctx.out, "op {optext}{grant} => {} | {} | {} | {cap}", obs.text(), hex(&bytes), bytes.len());
    // ---- oracle 0: capacity — len <= capacity; no reallocation while the room suffices; reserve keeps its promise
    if let (Some(s), false) = (s.as_ref(), kind == Kind::Box) {
        let cap_after = s.cap();
        if bytes.len() > cap_after {
            ctx.oracle(format!("CAPACITY kind={} after `{optext}`: len {} > capacity {cap_after}", kind.name(), bytes.len()));
        }
        let reshapes = matches!(op, Op::SplitOff(_) | Op::Convert(_) | Op::ShrinkTo(_) | Op::ShrinkToFit | Op::CloneStr(_) | Op::SwapLive(_));
        if let (Op::CloneStr(_), Obs::Ok(v)) = (op, &obs) {
            // `Clone for BumpString` allocates exactly `len` bytes: that is all the clone may claim to own
            let ccap: usize = v.rsplit(':').next().and_then(|x| x.parse().ok()).unwrap_or(usize::MAX);
            if ccap != before.len() {
                ctx.oracle(format!("CAPACITY kind={} `{optext}` on {:?} (capacity {cap_before}): the clone reports capacity {ccap} but owns exactly len = {} bytes", kind.name(), before, before.len()));
            }
            ctx.branch(if cap_before > before.len() { "clone:original-had-spare-capacity" } else { "clone:exact-capacity" });
        }
        if let Op::ShrinkTo(_) | Op::ShrinkToFit = op {
            let floor = match op {
                Op::ShrinkTo(n) => (*n).max(bytes.len()),
                _ => bytes.len(),
            };
            if cap_after > cap_before || (cap_after != cap_before && cap_after != floor) || cap_after < floor.min(cap_before) {
                ctx.oracle(format!("CAPACITY kind={} `{optext}` on {:?}: capacity {cap_before} -> {cap_after} (allowed: unchanged or {})", kind.name(), before, floor.min(cap_before)));
            }
            ctx.branch(if cap_after < cap_before { "shrink:shrunk" } else if floor >= cap_before { "shrink:nothing-to-do" } else { "shrink:arena-declined" });
        }
        let asked = match op {
            Op::Reserve(n) | Op::ReserveExact(n) => before.len().saturating_add(*n),
            _ => bytes.len(),
        };
        if !reshapes && asked <= cap_before && cap_after != cap_before {
            ctx.oracle(format!("CAPACITY kind={} `{optext}` on {:?}: capacity changed {cap_before} -> {cap_after} although {asked} bytes fit (reallocation while the capacity sufficed)", kind.name(), before));
        }
        if let (Op::Reserve(n) | Op::ReserveExact(n), Obs::Ok(_)) = (op, &obs) {
            if cap_after - bytes.len().min(cap_after) < *n {
                ctx.oracle(format!("CAPACITY kind={} `{optext}`: promised {n} spare bytes, capacity {cap_after} len {}", kind.name(), bytes.len()));
            }
            ctx.branch(if asked <= cap_before { "reserve:room-sufficed" } else { "reserve:grew" });
        }
        if cap_after != cap_before && !reshapes {
            ctx.branch("capacity:grew");
        }
    }
    // ---- oracle 1: valid UTF-8 after every operation, also a panicked one
    ctx.utf8_checks += 1;
    let is_conv = fin.is_some();
    let is_cstr = matches!(op, Op::Convert(Conv::IntoCstr));
    if !is_cstr {
        if let Err(e) = core::str::from_utf8(&bytes) {
            ctx.oracle(format!("INVALID-UTF8 kind={} after `{optext}` ({}) on {:?}: bytes {} ({e})", kind.name(), obs.text(), before, hex(&bytes)));
            std::mem::forget(s.take());
            return false;
        }
    }
    // ---- oracle 2: same outcome / value / contents as std
    let mut ok = true;
    match (&obs, &want) {
        (Obs::Ok(v), Obs::Panic) => {
            let empty_range_case = matches!(op, Op::SplitOff(_)) && (kind == Kind::Box || kind == Kind::Fixed || kind == Kind::Bump) && v.starts_with("-:") && bytes == before.as_bytes();
            if let (true, Op::SplitOff(rg)) = (empty_range_case, op) {
                ctx.oracle(format!(
                    "SPLITOFF-EMPTY-RANGE kind={} text={:?} ({}) range={}: split_off returned \"\" instead of panicking (the range is empty but not on a char boundary; documented to panic, String::drain panics)",
                    kind.name(), before, hex(before.as_bytes()), range_desc(rg)
                ));
                ctx.branch("split_off:empty-range-inside-char");
                // the string is unchanged: continue with the reference as it was
                *r = before.clone();
            } else {
                ctx.oracle(format!("PANIC-MISMATCH kind={} `{optext}` on {:?} ({}): returned {} but std panics", kind.name(), before, hex(before.as_bytes()), obs.text()));
                ok = false;
            }
        }
        (Obs::Panic, Obs::Ok(_)) | (Obs::Panic, Obs::Err) => {
            ctx.oracle(format!("PANIC-MISMATCH kind={} `{optext}` on {:?} ({}): panicked but std returns {}", kind.name(), before, hex(before.as_bytes()), want.text()));
            ok = false;
        }
        (Obs::Err, Obs::Ok(_)) | (Obs::Err, Obs::Panic) | (Obs::Ok(_), Obs::Err) => {
            ctx.oracle(format!("ALLOC-ERROR-MISMATCH kind={} cap={cap_before} `{optext}` on {:?}: {} but expected {}", kind.name(), before, obs.text(), want.text()));
            ok = false;
        }
        (Obs::Ok(v), Obs::Ok(w)) => {
            let v_cmp = if let Op::SplitOff(_) | Op::CloneStr(_) = op { v.split(':').next().unwrap_or("") } else { v.as_str() };
            if v_cmp != w {
                ctx.oracle(format!("VALUE-MISMATCH kind={} `{optext}` on {:?} ({}): returned {v} but std gives {w}", kind.name(), before, hex(before.as_bytes())));
                ok = false;
            }
        }
        _ => {}
    }
    if ok && bytes != r.as_bytes() {
        ctx.oracle(format!("CONTENT-MISMATCH kind={} after `{optext}` ({}) on {:?} ({}): contents {} but std has {}", kind.name(), obs.text(), before, hex(before.as_bytes()), hex(&bytes), hex(r.as_bytes())));
        ok = false;
    }
    if ok && seen_i != seen_r {
        ctx.oracle(format!("VALUE-MISMATCH kind={} `{optext}` on {:?}: predicate saw {} but with std {}", kind.name(), before, cps(&seen_i), cps(&seen_r)));
    }
    if let (Some(f), true, true) = (&fin, ok, is_cstr) {
        let b = &f.bytes;
        let nuls = b.iter().filter(|x| **x == 0).count();
        if *b != ref_cstr(before.as_bytes()) || nuls != 1 {
            ctx.oracle(format!("CSTR kind={} into_cstr on {:?}: {} (expected {})", kind.name(), before, hex(b), hex(&ref_cstr(before.as_bytes()))));
        }
    }
    // ---- oracle 3: a further allocation from the same arena must not disturb the string (stale pointers), nor the
    //      string's later writes the other allocations / split-off strings
    if let Some(f) = &fin {
        if let Some(re) = &f.reread {
            if *re != f.bytes {
                ctx.oracle(format!("STALE-POINTER kind={} `{optext}` on {:?}: result {} reads {} after a further allocation from the same arena", kind.name(), before, hex(&f.bytes), hex(re)));
            }
        }
        if !f.probe_ok || !f.probes_intact {
            ctx.oracle(format!("CLOBBERED kind={} `{optext}` on {:?}: another allocation of the arena was overwritten / the continued string is wrong", kind.name(), before));
        }
        ctx.branch("probe:after-conversion");
    } else if let Some(st) = s.as_mut() {
        let always = matches!(op, Op::ShrinkTo(_) | Op::ShrinkToFit | Op::SplitOff(_) | Op::CloneStr(_) | Op::DropParked(_));
        if (always || ctx.rng.chance(1, 8)) && st.probe(probe.0, probe.1) {
            ctx.branch("probe:after-op");
            let re = st.bytes();
            if re != bytes {
                ctx.oracle(format!("STALE-POINTER kind={} after `{optext}` on {:?}: contents {} read {} after a further allocation from the same arena", kind.name(), before, hex(&bytes), hex(&re)));
                ok = false;
            }
        }
        if let Err(e) = st.others_intact() {
            ctx.oracle(format!("CLOBBERED kind={} after `{optext}` on {:?}: {e}", kind.name(), before));
            std::mem::forget(s.take());
            return false;
        }
    }
    // ---- branch counters (what the inputs exercised)
    count_branches(ctx, op, &before, &obs);
    if !ok {
        // resynchronise the reference with the implementation to keep the rest of the sequence meaningful
        match String::from_utf8(bytes) {
            Ok(t) => *r = t,
            Err(_) => {
                std::mem::forget(s.take());
                return false;
            }
        }
    }
    if ctx.oracle_failures != failures_before {
        // the implementation misbehaved: end the sequence and LEAK the string (its destructor, or any further
        // operation, may crash the process on corrupted state)
        std::mem::forget(s.take());
        return false;
    }
    !is_conv
}

fn resolve(r: &Rg, len: usize) -> Option<(usize, usize)> {
    let a = match r.0 {
        Bound::Included(a) => a,
        Bound::Excluded(a) => a.checked_add(1)?,
        Bound::Unbounded => 0,
    };
    let b = match r.1 {
        Bound::Included(b) => b.checked_add(1)?,
        Bound::Excluded(b) => b,
        Bound::Unbounded => len,
    };
    Some((a, b))
}

fn count_branches(ctx: &mut Ctx, op: &Op, before: &str, obs: &Obs) {
    let len = before.len();
    let idx_class = |ctx: &mut Ctx, what: &'static [&'static str; 4], i: usize| {
        if i > len {
            ctx.branch(what[0])
        } else if i == len {
            ctx.branch(what[1])
        } else if before.is_char_boundary(i) {
            ctx.branch(what[2])
        } else {
            ctx.branch(what[3])
        }
    };
    match op {
        Op::Insert(i, _) | Op::InsertStr(i, _) => idx_class(ctx, &["insert:idx>len", "insert:idx=len", "insert:boundary", "insert:inside-char"], *i),
        Op::Remove(i) => idx_class(ctx, &["remove:idx>len", "remove:idx=len", "remove:boundary", "remove:inside-char"], *i),
        Op::Truncate(i) => idx_class(ctx, &["truncate:n>len", "truncate:n=len", "truncate:boundary", "truncate:inside-char"], *i),
        Op::Drain(r, _) | Op::ReplaceRange(r, _) | Op::ExtendFromWithin(r) | Op::SplitOff(r) => match resolve(r, len) {
            None => ctx.branch("range:bound-overflow"),
            Some((a, b)) => {
                if a > b {
                    ctx.branch("range:start>end")
                } else if b > len {
                    ctx.branch("range:end>len")
                } else {
                    let sa = before.is_char_boundary(a);
                    let sb = before.is_char_boundary(b);
                    ctx.branch(match (sa, sb) {
                        (true, true) => "range:both-boundaries",
                        (false, true) => "range:start-inside-char",
                        (true, false) => "range:end-inside-char",
                        (false, false) => "range:both-inside-char",
                    });
                    if let Op::SplitOff(_) = op {
                        ctx.branch(if b == len {
                            "split_off:end=len"
                        } else if a == 0 {
                            "split_off:start=0"
                        } else if a == b {
                            "split_off:empty-interior"
                        } else if a < len - b {
                            "split_off:rotate-right"
                        } else {
                            "split_off:rotate-left"
                        });
                    }
                }
            }
        },
        Op::Retain(o) => {
            if matches!(obs, Obs::Panic) {
                ctx.branch("retain:predicate-panicked")
            } else if o.contains(&b'd') {
                ctx.branch("retain:some-dropped")
            } else {
                ctx.branch("retain:all-kept")
            }
        }
        Op::Convert(Conv::IntoCstr) => ctx.branch(if before.as_bytes().contains(&0) { "into_cstr:has-nul" } else { "into_cstr:no-nul" }),
        Op::Pop => ctx.branch(if before.is_empty() { "pop:empty" } else { "pop:non-empty" }),
        _ => {}
    }
    if matches!(obs, Obs::Err) {
        ctx.branch("fixed:capacity-exhausted");
    }
}

// ------------------------------------------------------------------------------------------------

/// the `new` line, printed once the real string exists (its capacity is part of the observation;
/// for a MutBumpString it is also the grant handed to the model)
fn new_line(ctx: &mut Ctx, kind: Kind, ctor: Ctor, text: &str, s: &dyn StrOps) {
    ctx.news += 1;
    let ctor_tok = match (kind, ctor) {
        (Kind::Box, _) => "s".to_string(),
        (Kind::Bump | Kind::Mut, Ctor::FromStr { try_ }) => if try_ { "ts".to_string() } else { "s".to_string() },
        (Kind::Bump, Ctor::WithCap { cap, try_ }) => format!("{}c{cap}", if try_ { "t" } else { "" }),
        (Kind::Fixed, Ctor::FromStr { try_ }) => format!("{}c{}", if try_ { "t" } else { "" }, text.len()),
        (Kind::Fixed | Kind::Mut, Ctor::WithCap { cap, try_ }) => format!("{}c{}", if try_ { "t" } else { "" }, cap.max(text.len())),
    };
    let grant = if kind == Kind::Mut { format!(" g{}", s.cap()) } else { String::new() };
    let cap = if kind == Kind::Box { "-".to_string() } else { s.cap().to_string() };
    let b = s.bytes();
    let _ = writeln!(ctx.out, "new {} {ctor_tok} {}{grant} => ok | {} | {} | {cap}", kind.name(), hex(text.as_bytes()), hex(&b), b.len());
    if b != text.as_bytes() {
        ctx.oracle(format!("CONTENT-MISMATCH kind={} constructor {ctor_tok} on {:?}: contents {}", kind.name(), text, hex(&b)));
    }
    if let (Ctor::WithCap { cap: c, .. }, false) = (ctor, kind == Kind::Box) {
        if s.cap() < c || s.cap() < b.len() {
            ctx.oracle(format!("CAPACITY kind={} with_capacity({c}) + push_str({:?}): capacity {}", kind.name(), text, s.cap()));
        }
    }
}

fn pick_kind(ctx: &mut Ctx) -> Kind {
    *ctx.rng.pick(&[Kind::Box, Kind::Fixed, Kind::Fixed, Kind::Bump, Kind::Bump, Kind::Mut])
}

/// a random operation sequence on one string
fn sequence(ctx: &mut Ctx, n: u64, nops: u64) {
    let kind = pick_kind(ctx);
    let cfg = ctx.rng.below(CONFIGS.len() as u64) as usize;
    let text = gen_text(&mut ctx.rng, 8);
    let try_ = ctx.rng.chance(1, 3);
    let cap = match kind {
        Kind::Fixed => Ctor::WithCap { cap: text.len() + ctx.rng.below(24) as usize, try_ },
        Kind::Bump | Kind::Mut if ctx.rng.chance(1, 2) => Ctor::WithCap { cap: ctx.rng.below(30) as usize, try_ },
        _ => Ctor::FromStr { try_ },
    };
    let tseed = ctx.rng.0;
    let _ = writeln!(ctx.out, "# trace {n} sequence kind={} arena={} seed {tseed}", kind.name(), CONFIGS[cfg]);
    ctx.cfgs[cfg] += 1;
    let mut r = text.clone();
    with_config(cfg, kind, &text, cap, &mut |s| {
        new_line(ctx, kind, cap, &text, &*s);
        let mut s = Some(s);
        for i in 0..nops {
            let parked = s.as_ref().map_or(0, |x| x.parked());
            let op = gen_op(ctx, kind, &r, i + 1 == nops, parked);
            if !step(ctx, &mut s, &mut r, kind, &op) {
                break;
            }
        }
    });
    ctx.flush();
}

/// every byte index (and index pair) of one text, each on a fresh string of every kind
fn sweep(ctx: &mut Ctx, n: u64) {
    let text = loop {
        let t = gen_text(&mut ctx.rng, 5);
        if !t.is_empty() {
            break t;
        }
    };
    let cfg = ctx.rng.below(CONFIGS.len() as u64) as usize;
    let len = text.len();
    let tseed = ctx.rng.0;
    let _ = writeln!(ctx.out, "# trace {n} sweep text={} arena={} seed {tseed}", hex(text.as_bytes()), CONFIGS[cfg]);
    ctx.cfgs[cfg] += 1;
    let ins = gen_char(&mut ctx.rng);
    let repl = gen_text(&mut ctx.rng, 3);
    let mut ops: Vec<Op> = Vec::new();
    for i in 0..=len + 1 {
        ops.push(Op::Insert(i, ins));
        ops.push(Op::InsertStr(i, repl.clone()));
        ops.push(Op::Remove(i));
        ops.push(Op::Truncate(i));
        ops.push(Op::ShrinkTo(i));
        ops.push(Op::ShrinkTo(len + 2 + i));
        // excluded START bounds (only a `(Bound, Bound)` tuple can express them), incl. Excluded(usize::MAX), Excluded(len)
        for rg in [(Bound::Excluded(i.wrapping_sub(1)), Bound::Unbounded), (Bound::Excluded(i), Bound::Unbounded), (Bound::Excluded(i.wrapping_sub(1)), Bound::Included(i)), (Bound::Excluded(i), Bound::Excluded(len)), (Bound::Included(i), Bound::Included(usize::MAX)), (Bound::Unbounded, Bound::Included(i))] {
            ops.push(Op::SplitOff(rg));
            ops.push(Op::Drain(rg, usize::MAX));
            ops.push(Op::ReplaceRange(rg, repl.clone()));
            ops.push(Op::ExtendFromWithin(rg));
        }
        for j in i.saturating_sub(1)..=len + 1 {
            let rg = (Bound::Included(i), Bound::Excluded(j));
            ops.push(Op::SplitOff(rg));
            ops.push(Op::Drain(rg, usize::MAX));
            ops.push(Op::ReplaceRange(rg, repl.clone()));
            ops.push(Op::ExtendFromWithin(rg));
        }
    }
    ops.push(Op::ShrinkToFit);
    for kind in [Kind::Box, Kind::Fixed, Kind::Bump, Kind::Mut] {
        for op in &ops {
            let supported = match (op, kind) {
                (Op::SplitOff(..), Kind::Mut) => false,
                (Op::ShrinkTo(..) | Op::ShrinkToFit, k) => k == Kind::Bump,
                (o, Kind::Box) => !o.grows(),
                _ => true,
            };
            if !supported {
                continue;
            }
            // a fixed string with room for some, not all, of the growing operations; a BumpString with spare
            // capacity (so that shrinking has something to do) or without
            let cap = match kind {
                Kind::Fixed => Ctor::WithCap { cap: len + ctx.rng.below(6) as usize, try_: false },
                Kind::Bump if ctx.rng.chance(2, 3) => Ctor::WithCap { cap: len + ctx.rng.below(12) as usize, try_: false },
                _ => Ctor::FromStr { try_: false },
            };
            let mut r = text.clone();
            with_config(cfg, kind, &text, cap, &mut |s| {
                new_line(ctx, kind, cap, &text, &*s);
                let mut s = Some(s);
                if step(ctx, &mut s, &mut r, kind, op) && matches!(op, Op::ShrinkTo(_) | Op::ShrinkToFit) {
                    // the string must still be usable after the shrink and the further allocation
                    step(ctx, &mut s, &mut r, kind, &Op::Push('\u{e9}'));
                }
            });
        }
        ctx.flush();
    }
}

/// the C-string constructors of the allocator (`alloc_cstr`, `alloc_cstr_from_str`, `alloc_cstr_fmt(_mut)`)
fn cstrings(ctx: &mut Ctx, n: u64) {
    let _ = writeln!(ctx.out, "# trace {n} cstr seed {}", ctx.rng.0);
    let mut bump: Bump = Bump::new();
    for _ in 0..20 {
        let text = gen_text(&mut ctx.rng, 8);
        let want = ref_cstr(text.as_bytes());
        let check = |ctx: &mut Ctx, what: &str, got: &[u8], want: &[u8]| {
            let nuls = got.iter().filter(|x| **x == 0).count();
            if got != want || nuls != 1 {
                ctx.oracle(format!("CSTR {what} on {:?} ({}): {} (expected {})", text, hex(text.as_bytes()), hex(got), hex(want)));
            }
        };
        // alloc_cstr_from_str
        let got = bump.alloc_cstr_from_str(&text).to_bytes_with_nul().to_vec();
        let _ = writeln!(ctx.out, "op cstr_from_str {} => ok:{}", hex(text.as_bytes()), hex(&got));
        check(ctx, "alloc_cstr_from_str", &got, &want);
        ctx.branch(if text.as_bytes().contains(&0) { "cstr_from_str:has-nul" } else { "cstr_from_str:no-nul" });
        // alloc_cstr (input is a CStr: the reference result)
        let c = std::ffi::CStr::from_bytes_with_nul(&want).unwrap();
        let got = bump.alloc_cstr(c).to_bytes_with_nul().to_vec();
        let _ = writeln!(ctx.out, "op cstr {} => ok:{}", hex(&want), hex(&got));
        check(ctx, "alloc_cstr", &got, &want);
        // alloc_cstr_fmt with a literal (args.as_str() is Some) is not expressible for run-time text;
        // with arguments: the pieces core::fmt hands to write_str are recorded and given to the model
        let a = gen_text(&mut ctx.rng, 3);
        let b = gen_text(&mut ctx.rng, 3);
        let num = ctx.rng.below(1000);
        let mut rec = Recorder(Vec::new());
        let _ = std::fmt::write(&mut rec, format_args!("{a}-{num}\u{e9}{b}"));
        let all: Vec<u8> = rec.0.iter().flatten().copied().collect();
        let want2 = ref_cstr(&all);
        let got = bump.alloc_cstr_fmt(format_args!("{a}-{num}\u{e9}{b}")).to_bytes_with_nul().to_vec();
        let pieces: Vec<String> = rec.0.iter().map(|p| hex(p)).collect();
        let _ = writeln!(ctx.out, "op cstr_fmt pieces {} => ok:{}", pieces.join(" "), hex(&got));
        if got != want2 {
            ctx.oracle(format!("CSTR alloc_cstr_fmt on {:?}: {} (expected {})", String::from_utf8_lossy(&all), hex(&got), hex(&want2)));
        }
        let got = bump.alloc_cstr_fmt_mut(format_args!("{a}-{num}\u{e9}{b}")).to_bytes_with_nul().to_vec();
        let _ = writeln!(ctx.out, "op cstr_fmt pieces {} => ok:{}", pieces.join(" "), hex(&got));
        if got != want2 {
            ctx.oracle(format!("CSTR alloc_cstr_fmt_mut on {:?}: {} (expected {})", String::from_utf8_lossy(&all), hex(&got), hex(&want2)));
        }
        ctx.cases += 4;
        ctx.ops.entry("cstr*").or_insert([0; 3])[0] += 4;
    }
    // literal format strings: args.as_str() is Some
    for (lit, got) in [
        ("plain", bump.alloc_cstr_fmt(format_args!("plain")).to_bytes_with_nul().to_vec()),
        ("a\0b", bump.alloc_cstr_fmt(format_args!("a\0b")).to_bytes_with_nul().to_vec()),
        ("", bump.alloc_cstr_fmt(format_args!("")).to_bytes_with_nul().to_vec()),
        ("\u{20ac}\0", bump.alloc_cstr_fmt(format_args!("\u{20ac}\0")).to_bytes_with_nul().to_vec()),
    ] {
        let _ = writeln!(ctx.out, "op cstr_fmt lit {} => ok:{}", hex(lit.as_bytes()), hex(&got));
        if got != ref_cstr(lit.as_bytes()) {
            ctx.oracle(format!("CSTR alloc_cstr_fmt literal {:?}: {}", lit, hex(&got)));
        }
        ctx.cases += 1;
    }
    ctx.flush();
}

struct Recorder(Vec<Vec<u8>>);
impl std::fmt::Write for Recorder {
    fn write_str(&mut self, s: &str) -> std::fmt::Result {
        self.0.push(s.as_bytes().to_vec());
        Ok(())
    }
}

fn main() {
    let args: Vec<String> = std::env::args().collect();
    let arg = |i: usize, d: u64| args.get(i).and_then(|s| s.parse().ok()).unwrap_or(d);
    let sequences = arg(1, 200);
    let nops = arg(2, 30);
    let sweeps = arg(3, 5);
    let decodes = arg(4, 200);
    std::panic::set_hook(Box::new(|_| {}));
    let mut ctx = Ctx {
        out: String::new(),
        rng: Rng::new(seed()),
        ops: BTreeMap::new(),
        branches: BTreeMap::new(),
        kinds: [0; 4],
        cfgs: [0; 4],
        oracle_failures: 0,
        cases: 0,
        news: 0,
        utf8_checks: 0,
    };
    println!("# strs seed={} sequences={sequences} ops={nops} sweeps={sweeps} decode={decodes}", seed());
    let mut n = 0;
    // the documented example of finding C09-a first (cheap, deterministic)
    for kind in [Kind::Box, Kind::Fixed, Kind::Bump] {
        let _ = writeln!(ctx.out, "# trace {n} fixed-case kind={} seed 0", kind.name());
        n += 1;
        let text = "a\u{e9} b";
        let mut r = text.to_string();
        with_config(1, kind, text, Ctor::WithCap { cap: 8, try_: false }, &mut |s| {
            new_line(&mut ctx, kind, Ctor::WithCap { cap: 8, try_: false }, text, &*s);
            let mut s = Some(s);
            for rg in [(2, 2), (1, 1), (3, 3), (2, 3), (1, 3)] {
                let op = Op::SplitOff((Bound::Included(rg.0), Bound::Excluded(rg.1)));
                if !step(&mut ctx, &mut s, &mut r, kind, &op) {
                    break;
                }
            }
        });
        ctx.flush();
    }
    for _ in 0..sweeps {
        sweep(&mut ctx, n);
        n += 1;
    }
    for _ in 0..sequences {
        sequence(&mut ctx, n, nops);
        n += 1;
    }
    for _ in 0..(sequences / 50).max(1) {
        cstrings(&mut ctx, n);
        n += 1;
    }
    let _ = writeln!(ctx.out, "# trace {n} decode seed {}", ctx.rng.0);
    n += 1;
    let dstats = decode_section(&mut ctx, decodes);
    ctx.flush();
    println!(
        "# summary traces={n} cases={} new={} utf8_checks={} oracle_failures={} kinds(box,fixed,bump,mut)={:?} arenas(up1,down1,down8,up16)={:?}",
        ctx.cases, ctx.news, ctx.utf8_checks, ctx.oracle_failures, ctx.kinds, ctx.cfgs
    );
    let ops: Vec<String> = ctx.ops.iter().map(|(k, v)| format!("{k}={}/{}/{}", v[0], v[1], v[2])).collect();
    println!("# ops (ok/err/panic) {}", ops.join(" "));
    let br: Vec<String> = ctx.branches.iter().map(|(k, v)| format!("{k}={v}")).collect();
    println!("# branches {}", br.join(" "));
    println!("# decode {dstats}");
}
