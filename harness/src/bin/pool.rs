//! Engine `pool`: drives the REAL `BumpPool<A, S>` / `BumpPoolGuard` from 1–16 raw `std::thread`s,
//! linearises what happened by the lock tickets of `bump_scope::verif_hooks` (taken INSIDE the pool's
//! critical section), prints the linearised history in the line protocol of the Lean driver
//! (`Driver/PoolD.lean`, model `BumpProof/Pool/Model.lean`) together with what the implementation
//! did (identity of the arena behind every guard, idle arenas seen under the lock, idle stack and
//! block placement at the end of every round), and evaluates the direct oracles of property C19 on
//! the implementation:
//!
//!   * exclusivity, concurrently: a lock-free registry keyed by arena identity (address of the arena's
//!     first chunk) is set right after `get*` and cleared right before the guard is dropped; finding it
//!     set means two live guards share an arena.  Again, afterwards, on the ticket-ordered log;
//!   * reuse before create: a never-seen identity may only appear when the critical section saw an empty
//!     vector; `pool.bumps().len()` (+ forgotten guards) equals the number of distinct identities and is
//!     ≤ the peak number of simultaneously live guards of the ticket-ordered log;
//!   * stability: every patterned block written through any guard is re-read intact (randomly during the
//!     run, after its guard was dropped and the arena went to other threads; by all threads' blocks at
//!     the end of the round; and once more before the next reset), lies inside the arena it was
//!     allocated from and in no other arena, and the arena identity of a guard never changes;
//!   * poisoning: `get_with_size(huge)` / `get_with_capacity(huge)` (under `catch_unwind`) panic with "capacity
//!     overflow" INSIDE the critical section when no idle arena exists, which poisons the pool mutex; the run
//!     continues on the poisoned pool and every oracle keeps running.  In addition: a guard drop must enter the
//!     critical section (new lock ticket) and must not release anything to the base allocator (per-thread
//!     ledger around `drop(guard)`; no release at all between resets); the number of idle arenas one critical
//!     section leaves behind (guard drop: +1, reusing get: -1, else 0) is what the next one — and finally
//!     `pool.bumps().len()` — finds;
//!   * `reset` leaves every arena with exactly one chunk and nothing allocated, `reset_to_start` leaves
//!     the chunk count unchanged and nothing allocated, dropping the pool returns every chunk to the
//!     base allocator (ledger of the counting allocator; forgotten guards keep theirs).
//!
//!   * atomicity of pop-or-create, steered deterministically (`probe` mode; random schedules practically never
//!     hit the window): with the only arena handed out, the probing thread calls one of the six `get*` variants
//!     with a thread-local PROBE flag set; inside the base allocator's `allocate` — i.e. while the pool is
//!     creating the fallback arena — it asks a partner thread to drop the live guard NOW and waits ~50 ms for
//!     the partner's "drop finished" flag.  The pool holds its mutex while creating, so the partner's drop
//!     blocks until the creation is over and the flag cannot be set inside the window; if it is, the creation
//!     ran outside the critical section: the returned arena sat idle while a new one was made (arenas created
//!     2 > peak of simultaneously live guards 1) → `oracle C19 CREATE-OUTSIDE-LOCK <variant> …`;
//!
//!   * (also `probe` mode) an idle arena in the CLAIMED state (claim guard obtained through the pool guard and leaked
//!     with `mem::forget`) is reused by each of the six `get*` variants: no base-allocator allocation or release during
//!     the get(s), idle stacks [claimed] and [usable, claimed] → `oracle C19 CLAIMED-IDLE-NOT-REUSED <variant> …`;
//!
//!   pool <cases> <single|threads|mixed>       env: VERIF_SEED
//!   pool <probes per get variant> probe
//!
//! Output: `pool-new …` / `op … => <observed>` / `q … => <observed>` / `oracle C19 <message>` / `# …`.

#![allow(clippy::all, dead_code)]

use std::alloc::{GlobalAlloc, Layout, System};
use std::cell::Cell;
use std::collections::{HashMap, HashSet};
use std::fmt::Write as _;
use std::panic::{AssertUnwindSafe, catch_unwind};
use std::ptr::NonNull;
use std::sync::atomic::{AtomicBool, AtomicUsize, Ordering::SeqCst};
use std::sync::{Barrier, Mutex};

use bump_scope::alloc::{AllocError, Allocator, Global};
use bump_scope::settings::{BumpAllocatorSettings, BumpSettings};
use bump_scope::verif_hooks::last_pool_lock;
use bump_scope::{BaseAllocator, BumpPool, BumpPoolGuard};
use verif_harness::{Rng, seed};

const PROP: &str = "C19";

// ------------------------------------------------------------------------------------------------
// base allocators (must be Send + Sync: `verif_harness::base::*` are thread-local and are not)

static CA_OUTSTANDING: AtomicUsize = AtomicUsize::new(0);
static CA_ALLOCS: AtomicUsize = AtomicUsize::new(0);
static CA_FAILS: AtomicUsize = AtomicUsize::new(0);
static CA_DEALLOCS: AtomicUsize = AtomicUsize::new(0);

// probe of the pop-or-create critical section (see `run_probe`)
static PROBE_DROP_REQUESTED: AtomicBool = AtomicBool::new(false);
static PROBE_DROP_COMPLETED: AtomicBool = AtomicBool::new(false);
static PROBE_HIT: AtomicBool = AtomicBool::new(false);
static PROBE_IN_WINDOW: AtomicBool = AtomicBool::new(false);
const PROBE_WINDOW: std::time::Duration = std::time::Duration::from_millis(50);

thread_local! {
    /// the calling thread's next base-allocator request is the creation of a fallback arena by a probed `get*`
    static PROBE_ARMED: Cell<bool> = const { Cell::new(false) };
    /// the calling thread's next base-allocator request fails (armed only around one `try_get*`)
    static FAIL_ARMED: Cell<bool> = const { Cell::new(false) };
    /// blocks the calling thread returned to the base allocator
    static TL_DEALLOCS: Cell<usize> = const { Cell::new(0) };
}

/// counting allocator over `std::alloc::System`: ledger of outstanding blocks, garbage-filled fresh
/// memory, poisoned released memory, failure on demand (per thread)
#[derive(Clone, Default, Debug)]
struct CA;

unsafe impl Allocator for CA {
    fn allocate(&self, layout: Layout) -> Result<NonNull<[u8]>, AllocError> {
        if PROBE_ARMED.with(|f| f.replace(false)) {
            // we are inside a `get*` that found no idle arena and is creating one: ask the partner to drop its
            // guard now and give it a window to finish.  It can only finish if the pool mutex is not held.
            PROBE_HIT.store(true, SeqCst);
            PROBE_DROP_REQUESTED.store(true, SeqCst);
            let deadline = std::time::Instant::now() + PROBE_WINDOW;
            while !PROBE_DROP_COMPLETED.load(SeqCst) && std::time::Instant::now() < deadline {
                std::thread::yield_now();
            }
            PROBE_IN_WINDOW.store(PROBE_DROP_COMPLETED.load(SeqCst), SeqCst);
        }
        if FAIL_ARMED.with(|f| f.get()) {
            CA_FAILS.fetch_add(1, SeqCst);
            return Err(AllocError);
        }
        let size = layout.size().max(1);
        let l = Layout::from_size_align(size, layout.align()).map_err(|_| AllocError)?;
        let p = unsafe { System.alloc(l) };
        let Some(nn) = NonNull::new(p) else { return Err(AllocError) };
        unsafe { std::ptr::write_bytes(p, 0xCD, layout.size()) };
        CA_OUTSTANDING.fetch_add(1, SeqCst);
        CA_ALLOCS.fetch_add(1, SeqCst);
        Ok(NonNull::slice_from_raw_parts(nn, layout.size()))
    }
    unsafe fn deallocate(&self, ptr: NonNull<u8>, layout: Layout) {
        unsafe {
            std::ptr::write_bytes(ptr.as_ptr(), 0xDD, layout.size());
            let l = Layout::from_size_align_unchecked(layout.size().max(1), layout.align());
            System.dealloc(ptr.as_ptr(), l);
        }
        CA_OUTSTANDING.fetch_sub(1, SeqCst);
        CA_DEALLOCS.fetch_add(1, SeqCst);
        TL_DEALLOCS.with(|c| c.set(c.get() + 1));
    }
}

trait PoolBase: Allocator + Clone + Default + Send + Sync + 'static {
    const NAME: &'static str;
    /// can a construction failure be injected, and is there a ledger
    const INSTRUMENTED: bool;
}
impl PoolBase for CA {
    const NAME: &'static str = "counting";
    const INSTRUMENTED: bool = true;
}
impl PoolBase for Global {
    const NAME: &'static str = "global";
    const INSTRUMENTED: bool = false;
}

// ------------------------------------------------------------------------------------------------
// non-generic parts: events, registry, linearisation, counters

#[derive(Clone, Copy, Debug, PartialEq, Eq)]
enum Kind {
    Get,
    GetFail,
    GetPanic, // the constructor panicked inside the critical section (capacity overflow): mutex poisoned
    Put,
    Forget,
    Alloc,
}

#[derive(Clone, Debug)]
struct Ev {
    key: (usize, u32), // (lock ticket, sub-order): allocations of a guard sort right after its `get`
    thread: usize,
    kind: Kind,
    gid: usize,
    ident: usize, // address of the first chunk of the arena behind the guard (0: none)
    idle_seen: usize,
    create: char, // fate of a construction, should one be needed: '1' succeeds, '0' refused, 'p' panics
    tag: usize,
    variant: u8,
}

/// a patterned block, by address (for placement checks and the re-read after the references are gone)
#[derive(Clone, Debug)]
struct RawBlk {
    tag: usize,
    addr: usize,
    len: usize,
    key: (usize, u32),
    ident: usize,
}

struct Blk<'p> {
    raw: RawBlk,
    data: &'p [u8],
}

fn pat(tag: usize, i: usize) -> u8 {
    (tag.wrapping_mul(131).wrapping_add(i.wrapping_mul(7)).wrapping_add(13) & 0xff) as u8
}

fn intact(tag: usize, data: &[u8]) -> bool {
    data.iter().enumerate().all(|(i, b)| *b == pat(tag, i))
}

const REG_SIZE: usize = 4096;

/// lock-free map identity → owner (guard id + 1, 0 = nobody)
struct Registry {
    keys: Vec<AtomicUsize>,
    owner: Vec<AtomicUsize>,
}

impl Registry {
    fn new() -> Self {
        Registry { keys: (0..REG_SIZE).map(|_| AtomicUsize::new(0)).collect(), owner: (0..REG_SIZE).map(|_| AtomicUsize::new(0)).collect() }
    }
    fn slot(&self, ident: usize) -> usize {
        let mut i = (ident >> 4).wrapping_mul(0x9E37_79B9) % REG_SIZE;
        for _ in 0..REG_SIZE {
            match self.keys[i].compare_exchange(0, ident, SeqCst, SeqCst) {
                Ok(_) => return i,
                Err(k) if k == ident => return i,
                Err(_) => i = (i + 1) % REG_SIZE,
            }
        }
        panic!("HARNESS BUG: registry full");
    }
    /// returns the guard that already holds the identity, if any
    fn acquire(&self, ident: usize, gid: usize) -> Option<usize> {
        let prev = self.owner[self.slot(ident)].swap(gid + 1, SeqCst);
        if prev != 0 { Some(prev - 1) } else { None }
    }
    fn release(&self, ident: usize, gid: usize) -> bool {
        self.owner[self.slot(ident)].swap(0, SeqCst) == gid + 1
    }
}

#[derive(Default)]
struct Totals {
    cases: u64,
    rounds: u64,
    ops: HashMap<&'static str, u64>,
    variants: [u64; 10],
    get_panics: u64,
    probes: u64,
    claim_probes: u64,
    probes_blocked: u64,
    probes_not_reached: u64,
    puts_after_poison: u64, // guard drops while the mutex was poisoned
    poisoned_cases: u64,
    overflow_reused: u64,   // overflowing get* that found an idle arena (nothing constructed, nothing panics)
    creates: u64,
    reuses: u64,
    handovers: u64, // a `get` that received an arena last held by a guard of ANOTHER thread
    get_fails: u64,
    fail_armed_but_reused: u64,
    forgets: u64,
    exchanged: u64, // guards moved to another thread through the exchange
    blocks: u64,
    rereads: u64,
    max_threads: usize,
    max_peak: usize,
    max_arenas: usize,
    resets: u64,
    rewinds: u64,
    contended: u64, // rounds in which the ticket order interleaves threads
    oracle_lines: u64,
}

impl Totals {
    fn op(&mut self, k: &'static str) {
        *self.ops.entry(k).or_insert(0) += 1;
    }
}

/// per case: identity → canonical arena id (creation order in the ticket-ordered log)
struct CaseState {
    canon: HashMap<usize, usize>,
    n_created: usize,
    owned: HashMap<usize, usize>, // identity → gid, along the linearised log
    last_thread: HashMap<usize, usize>,
    live: usize, // live guards (a forgotten guard stays counted)
    peak: usize,
    leaked: Vec<(usize, usize, Vec<(usize, usize)>)>, // (identity, chunk count, content ranges) of forgotten guards
    last_ticket: Option<usize>,
    forgotten: HashSet<usize>,
    poisoned: bool,                            // a get* panicked inside the critical section
    expect_idle: Option<(usize, &'static str)>, // idle arenas the previous critical section left behind, and what it was
}

/// print what the case produced so far (a later crash inside the real crate must not swallow it)
fn flush_out(out: &mut String) {
    use std::io::Write as _;
    let so = std::io::stdout();
    let mut l = so.lock();
    let _ = l.write_all(out.as_bytes());
    let _ = l.flush();
    out.clear();
}

fn oracle(out: &mut String, t: &mut Totals, msg: &str) {
    t.oracle_lines += 1;
    let _ = writeln!(out, "oracle {PROP} {msg}");
    flush_out(out);
}

/// print the ticket-ordered history of one round; evaluates the log-based oracles
fn linearise(evs: &mut Vec<Ev>, cs: &mut CaseState, out: &mut String, t: &mut Totals) {
    evs.sort_by_key(|e| e.key);
    let mut switches = 0;
    let mut prev_thread = usize::MAX;
    for e in evs.iter() {
        if e.kind == Kind::Put && e.idle_seen == usize::MAX {
            oracle(out, t, &format!("dropping guard {} did not enter the pool's critical section: its arena {:#x} was not returned to the pool{}", e.gid, e.ident, if cs.poisoned { " [the pool mutex is poisoned]" } else { "" }));
            cs.owned.remove(&e.ident);
            cs.live = cs.live.saturating_sub(1);
            let _ = writeln!(out, "op put {} => not-returned", e.gid);
            t.op("put");
            continue;
        }
        if matches!(e.kind, Kind::Get | Kind::GetFail | Kind::GetPanic | Kind::Put) {
            // what one critical section leaves behind is what the next one finds (the hook reports the
            // length of the vector under the lock): a guard drop adds one idle arena, a get that reuses
            // takes one, everything else leaves the count alone
            if let Some((n, what)) = cs.expect_idle {
                if n != e.idle_seen {
                    oracle(out, t, &format!(
                        "after {what} the pool must hold {n} idle arenas but the next critical section (ticket {}) saw {}{}",
                        e.key.0, e.idle_seen, if cs.poisoned { " [the pool mutex is poisoned]" } else { "" }));
                }
            }
            if cs.last_ticket.is_some_and(|l| l >= e.key.0) {
                oracle(out, t, &format!("lock ticket {} is not unique/increasing (two critical sections overlapped?)", e.key.0));
            }
            cs.last_ticket = Some(e.key.0);
            if prev_thread != usize::MAX && prev_thread != e.thread {
                switches += 1;
            }
            prev_thread = e.thread;
        }
        match e.kind {
            Kind::Get => {
                let fresh = !cs.canon.contains_key(&e.ident);
                cs.expect_idle = Some((if fresh { e.idle_seen } else { e.idle_seen.saturating_sub(1) }, if fresh { "a get that created an arena" } else { "a get that reused an arena" }));
                if fresh {
                    cs.canon.insert(e.ident, cs.n_created);
                    cs.n_created += 1;
                    t.creates += 1;
                    if e.idle_seen != 0 {
                        oracle(out, t, &format!("guard {} got a NEW arena although the critical section saw {} idle arenas (reuse before create)", e.gid, e.idle_seen));
                    }
                } else {
                    t.reuses += 1;
                    if e.create != '1' {
                        t.fail_armed_but_reused += 1;
                    }
                    if e.variant >= 6 {
                        t.overflow_reused += 1;
                    }
                    if e.idle_seen == 0 {
                        oracle(out, t, &format!("guard {} got an arena that already existed although the critical section saw an empty vector", e.gid));
                    }
                    if cs.last_thread.get(&e.ident).is_some_and(|th| *th != e.thread) {
                        t.handovers += 1;
                    }
                }
                if cs.forgotten.contains(&e.ident) {
                    oracle(out, t, &format!("guard {} got arena {:#x} which belongs to a forgotten guard", e.gid, e.ident));
                }
                if let Some(other) = cs.owned.insert(e.ident, e.gid) {
                    oracle(out, t, &format!("guards {} and {} are live at the same time and refer to the same arena {:#x} (ticket order)", other, e.gid, e.ident));
                }
                cs.live += 1;
                cs.peak = cs.peak.max(cs.live);
                let cid = cs.canon[&e.ident];
                let _ = writeln!(out, "op get {} {} => arena {} {} idle={}", e.gid, e.create, cid, if fresh { "new" } else { "reused" }, e.idle_seen);
                t.variants[e.variant as usize] += 1;
                t.op("get");
            }
            Kind::GetPanic => {
                t.get_panics += 1;
                cs.poisoned = true;
                cs.expect_idle = Some((e.idle_seen, "a get whose constructor panicked"));
                if e.idle_seen != 0 {
                    oracle(out, t, &format!("get* of guard {} panicked in the constructor although {} idle arenas existed", e.gid, e.idle_seen));
                }
                let _ = writeln!(out, "op get {} {} => panic idle={}", e.gid, e.create, e.idle_seen);
                t.variants[e.variant as usize] += 1;
                t.op("get-panic");
            }
            Kind::GetFail => {
                t.get_fails += 1;
                cs.expect_idle = Some((e.idle_seen, "a get whose construction was refused"));
                if e.idle_seen != 0 {
                    oracle(out, t, &format!("try_get* of guard {} failed although {} idle arenas existed", e.gid, e.idle_seen));
                }
                let _ = writeln!(out, "op get {} {} => err idle={}", e.gid, e.create, e.idle_seen);
                t.variants[e.variant as usize] += 1;
                t.op("get-fail");
            }
            Kind::Put => {
                cs.expect_idle = Some((e.idle_seen + 1, "dropping a guard"));
                if cs.poisoned {
                    t.puts_after_poison += 1;
                }
                if cs.owned.remove(&e.ident) != Some(e.gid) {
                    oracle(out, t, &format!("guard {} returned arena {:#x} which the log does not show as its own", e.gid, e.ident));
                }
                cs.last_thread.insert(e.ident, e.thread);
                cs.live = cs.live.saturating_sub(1);
                let _ = writeln!(out, "op put {} => done idle={}", e.gid, e.idle_seen);
                t.op("put");
            }
            Kind::Forget => {
                cs.owned.remove(&e.ident);
                cs.forgotten.insert(e.ident);
                t.forgets += 1;
                let _ = writeln!(out, "op forget {} => done", e.gid);
                t.op("forget");
            }
            Kind::Alloc => {
                let cid = cs.canon.get(&e.ident).copied();
                if cs.owned.get(&e.ident) != Some(&e.gid) {
                    oracle(out, t, &format!("allocation {} through guard {} went to arena {:#x} which that guard does not own in the log", e.tag, e.gid, e.ident));
                }
                let _ = writeln!(out, "op alloc {} {} => arena {}", e.gid, e.tag, cid.map_or("?".to_string(), |c| c.to_string()));
                t.blocks += 1;
                t.op("alloc");
            }
        }
    }
    if switches > 2 {
        t.contended += 1;
    }
    t.max_peak = t.max_peak.max(cs.peak);
}

// ------------------------------------------------------------------------------------------------
// a crew of persistent raw `std::thread`s that run borrowed closures (a scoped thread pool).  Spawning
// threads per round costs milliseconds each on the verification machine; the crew is spawned once.

type Job = Box<dyn FnOnce() + Send + 'static>;

struct Crew {
    txs: Vec<std::sync::mpsc::Sender<Job>>,
}

impl Crew {
    fn new(n: usize) -> Crew {
        let mut txs = Vec::new();
        for i in 0..n {
            let (tx, rx) = std::sync::mpsc::channel::<Job>();
            std::thread::Builder::new()
                .name(format!("crew-{i}"))
                .spawn(move || {
                    for job in rx {
                        job();
                    }
                })
                .expect("spawn");
            txs.push(tx);
        }
        Crew { txs }
    }

    /// runs job `i` on crew thread `i`, all at the same time; returns when ALL of them have finished
    /// (that is what makes lending them `'a` data sound)
    fn scoped<'a, R: Send + 'a>(&self, jobs: Vec<Box<dyn FnOnce() -> R + Send + 'a>>) -> Vec<std::thread::Result<R>> {
        let n = jobs.len();
        assert!(n <= self.txs.len());
        let slots: Vec<Mutex<Option<std::thread::Result<R>>>> = (0..n).map(|_| Mutex::new(None)).collect();
        let (dtx, drx) = std::sync::mpsc::channel::<()>();
        for (i, job) in jobs.into_iter().enumerate() {
            let slot = &slots[i];
            let dtx = dtx.clone();
            let f: Box<dyn FnOnce() + Send + '_> = Box::new(move || {
                let r = catch_unwind(AssertUnwindSafe(job));
                *slot.lock().unwrap_or_else(|e| e.into_inner()) = Some(r);
                let _ = dtx.send(());
            });
            // SAFETY: this function does not return before every job has reported completion
            let f: Job = unsafe { std::mem::transmute::<Box<dyn FnOnce() + Send + '_>, Job>(f) };
            self.txs[i].send(f).expect("crew thread died");
        }
        for _ in 0..n {
            drx.recv().expect("crew thread died");
        }
        slots.into_iter().map(|m| m.into_inner().unwrap_or_else(|e| e.into_inner()).expect("job result")).collect()
    }
}

// ------------------------------------------------------------------------------------------------
// generic part: the workers and the end-of-round inspection

struct Held<'p, A: PoolBase, S: BumpAllocatorSettings> {
    gid: usize,
    guard: BumpPoolGuard<'p, A, S>,
    ident: usize,
    t_get: usize,
    seq: u32,
    from_thread: usize,
}

struct Shared<'p, A: PoolBase, S: BumpAllocatorSettings> {
    pool: &'p BumpPool<A, S>,
    next_gid: &'p AtomicUsize,
    next_tag: &'p AtomicUsize,
    reg: &'p Registry,
    violations: Mutex<Vec<String>>,
    exchange: Mutex<Vec<Held<'p, A, S>>>,
    barrier: Barrier,
    max_hold: usize,
    allow_forget: bool,
    allow_overflow: bool,
}

#[derive(Default)]
struct WorkerOut<'p> {
    evs: Vec<Ev>,
    blocks: Vec<Blk<'p>>,
    rereads: u64,
    exchanged: u64,
    leaked: Vec<(usize, usize, Vec<(usize, usize)>)>,
    scoped: u64,
}

fn ident_of<A: PoolBase, S: BumpAllocatorSettings>(g: &BumpPoolGuard<'_, A, S>) -> usize {
    g.stats().small_to_big().next().map_or(0, |c| c.chunk_start().as_ptr() as usize)
}

fn ranges_of<A: PoolBase, S: BumpAllocatorSettings>(stats: bump_scope::stats::Stats<'_, A, S>) -> Vec<(usize, usize)> {
    stats.small_to_big().map(|c| (c.content_start().as_ptr() as usize, c.content_end().as_ptr() as usize)).collect()
}

fn inside(ranges: &[(usize, usize)], addr: usize, len: usize) -> bool {
    ranges.iter().any(|(lo, hi)| *lo <= addr && addr + len <= *hi)
}

fn violation<A: PoolBase, S: BumpAllocatorSettings>(sh: &Shared<'_, A, S>, msg: String) {
    sh.violations.lock().unwrap_or_else(|e| e.into_inner()).push(msg);
}

fn do_get<'p, A: PoolBase, S: BumpAllocatorSettings>(sh: &Shared<'p, A, S>, tidx: usize, rng: &mut Rng, w: &mut WorkerOut<'p>) -> Option<Held<'p, A, S>> {
    // 6..=9: a size / layout whose chunk size computation overflows.  The panicking variants raise
    // "capacity overflow" inside `Bump::generic_with_*_in`, i.e. while the lock guard temporary of
    // `match self.lock().pop() { … }` is alive — IF no idle arena could be popped.  That poisons the mutex.
    let variant = if sh.allow_overflow && rng.chance(1, 9) { 6 + rng.below(4) as u8 } else { rng.below(6) as u8 };
    let fallible = variant % 2 == 1;
    let arm = variant < 6 && fallible && A::INSTRUMENTED && rng.chance(1, 5);
    let size = *rng.pick(&[0usize, 1, 64, 512, 513, 1000, 4096, 10000]);
    let layout = Layout::from_size_align(*rng.pick(&[0usize, 1, 24, 600, 3000]), 1 << rng.below(7)).unwrap();
    // (a chunk of exactly 2^63-16 bytes is still a valid `Layout`: that request would be passed on to the base
    // allocator and its failure ABORTS the panicking variants; only requests beyond that overflow)
    let huge_size = *rng.pick(&[usize::MAX, usize::MAX - 4096, (isize::MAX as usize) + 4098]);
    let huge_align = 1usize << rng.below(5);
    let huge_layout = Layout::from_size_align((isize::MAX as usize) - (huge_align - 1), huge_align).unwrap();
    let create = match variant {
        6 | 8 => 'p',
        7 | 9 => '0',
        _ if arm => '0',
        _ => '1',
    };
    let gid = sh.next_gid.fetch_add(1, SeqCst);
    FAIL_ARMED.with(|f| f.set(arm));
    let pool = sh.pool;
    // Ok(Ok(guard)) | Ok(Err(AllocError)) | Err(panic payload)
    let res: std::thread::Result<Result<BumpPoolGuard<'p, A, S>, AllocError>> = match variant {
        0 => Ok(Ok(pool.get())),
        1 => Ok(pool.try_get()),
        2 => Ok(Ok(pool.get_with_size(size))),
        3 => Ok(pool.try_get_with_size(size)),
        4 => Ok(Ok(pool.get_with_capacity(layout))),
        5 => Ok(pool.try_get_with_capacity(layout)),
        6 => catch_unwind(AssertUnwindSafe(|| Ok(pool.get_with_size(huge_size)))),
        7 => Ok(pool.try_get_with_size(huge_size)),
        8 => catch_unwind(AssertUnwindSafe(|| Ok(pool.get_with_capacity(huge_layout)))),
        _ => Ok(pool.try_get_with_capacity(huge_layout)),
    };
    let (ticket, idle_seen) = last_pool_lock();
    FAIL_ARMED.with(|f| f.set(false));
    let res = match res {
        Ok(r) => r,
        Err(payload) => {
            let msg = payload.downcast_ref::<String>().cloned().or_else(|| payload.downcast_ref::<&str>().map(|s| s.to_string())).unwrap_or_default();
            if !msg.contains("capacity overflow") {
                violation(sh, format!("get* of guard {gid} panicked with an unexpected message: {msg}"));
            }
            w.evs.push(Ev { key: (ticket, 0), thread: tidx, kind: Kind::GetPanic, gid, ident: 0, idle_seen, create, tag: 0, variant });
            return None;
        }
    };
    match res {
        Ok(guard) => {
            let ident = ident_of(&guard);
            if ident == 0 {
                violation(sh, format!("guard {gid} refers to an arena without any chunk right after get"));
            }
            if let Some(other) = sh.reg.acquire(ident, gid) {
                violation(sh, format!("guards {other} and {gid} are live at the same time and refer to the same arena {ident:#x} (concurrent registry)"));
            }
            w.evs.push(Ev { key: (ticket, 0), thread: tidx, kind: Kind::Get, gid, ident, idle_seen, create, tag: 0, variant });
            Some(Held { gid, guard, ident, t_get: ticket, seq: 0, from_thread: tidx })
        }
        Err(_) => {
            w.evs.push(Ev { key: (ticket, 0), thread: tidx, kind: Kind::GetFail, gid, ident: 0, idle_seen, create, tag: 0, variant });
            None
        }
    }
}

fn do_alloc<'p, A: PoolBase, S: BumpAllocatorSettings>(sh: &Shared<'p, A, S>, tidx: usize, rng: &mut Rng, h: &mut Held<'p, A, S>, w: &mut WorkerOut<'p>)
where
    A: BaseAllocator<S::GuaranteedAllocated>,
{
    let tag = sh.next_tag.fetch_add(1, SeqCst);
    let len = match rng.below(100) {
        0..=4 => 0,
        5..=69 => rng.range(1, 64),
        70..=94 => rng.range(65, 700),
        _ => rng.range(701, 6000),
    } as usize;
    let v: Vec<u8> = (0..len).map(|i| pat(tag, i)).collect();
    let data: &'p [u8] = match rng.below(4) {
        0 => h.guard.alloc_slice_copy(&v).into_ref(),
        1 => {
            let mut i = 0;
            h.guard
                .alloc_slice_fill_with(len, || {
                    let b = pat(tag, i);
                    i += 1;
                    b
                })
                .into_ref()
        }
        2 => h.guard.try_alloc_slice_copy(&v).expect("system allocator failed").into_ref(),
        _ => {
            // temporary allocations in a nested scope through `DerefMut`: must not disturb older blocks
            w.scoped += 1;
            let n = rng.range(1, 3000) as usize;
            h.guard.scoped(|sc| {
                let tmp = sc.alloc_slice_fill_with(n, || 0xEEu8);
                std::hint::black_box(&tmp);
            });
            h.guard.alloc_slice_copy(&v).into_ref()
        }
    };
    let now = ident_of(&h.guard);
    if now != h.ident {
        violation(sh, format!("arena identity of guard {} changed from {:#x} to {:#x} while it was live", h.gid, h.ident, now));
    }
    let addr = data.as_ptr() as usize;
    if len > 0 && !inside(&ranges_of(h.guard.stats()), addr, len) {
        violation(sh, format!("block {tag} allocated through guard {} does not lie inside that guard's arena", h.gid));
    }
    h.seq += 1;
    let key = (h.t_get, h.seq);
    w.evs.push(Ev { key, thread: tidx, kind: Kind::Alloc, gid: h.gid, ident: now, idle_seen: 0, create: '1', tag, variant: 0 });
    w.blocks.push(Blk { raw: RawBlk { tag, addr, len, key, ident: now }, data });
}

fn do_put<'p, A: PoolBase, S: BumpAllocatorSettings>(sh: &Shared<'p, A, S>, tidx: usize, h: Held<'p, A, S>, w: &mut WorkerOut<'p>) {
    let now = ident_of(&h.guard);
    if now != h.ident {
        violation(sh, format!("arena identity of guard {} changed from {:#x} to {:#x} while it was live", h.gid, h.ident, now));
    }
    if !sh.reg.release(h.ident, h.gid) {
        violation(sh, format!("arena {:#x} of guard {} was taken over by another guard while guard {} was live (concurrent registry)", h.ident, h.gid, h.gid));
    }
    if h.from_thread != tidx {
        w.exchanged += 1;
    }
    let Held { gid, guard, ident, t_get: h_t_get, .. } = h;
    let ticket_before = last_pool_lock().0;
    let deallocs_before = TL_DEALLOCS.with(|c| c.get());
    drop(guard);
    let (ticket, idle_seen) = last_pool_lock();
    let released = TL_DEALLOCS.with(|c| c.get()) - deallocs_before;
    if released != 0 {
        violation(sh, format!("dropping guard {gid} released {released} chunks of arena {ident:#x} to the base allocator (a guard drop must return the arena to the pool, allocations with the pool's lifetime point into it)"));
    }
    if ticket == ticket_before {
        // no critical section was entered: the arena cannot have been returned.  The event has no ticket of its own;
        // it is placed right after this thread's previous critical section (idle_seen = usize::MAX marks it)
        let key = (ticket_before.max(h_t_get), u32::MAX - 1);
        w.evs.push(Ev { key, thread: tidx, kind: Kind::Put, gid, ident, idle_seen: usize::MAX, create: '1', tag: 0, variant: 0 });
        return;
    }
    w.evs.push(Ev { key: (ticket, 0), thread: tidx, kind: Kind::Put, gid, ident, idle_seen, create: '1', tag: 0, variant: 0 });
}

fn do_forget<'p, A: PoolBase, S: BumpAllocatorSettings>(tidx: usize, h: Held<'p, A, S>, w: &mut WorkerOut<'p>) {
    // the registry entry stays set for ever: nobody else may ever get this arena
    w.leaked.push((h.ident, h.guard.stats().count(), ranges_of(h.guard.stats())));
    w.evs.push(Ev { key: (h.t_get, u32::MAX), thread: tidx, kind: Kind::Forget, gid: h.gid, ident: h.ident, idle_seen: 0, create: '1', tag: 0, variant: 0 });
    std::mem::forget(h.guard);
}

fn pause(rng: &mut Rng, yields: bool) {
    if !yields {
        return;
    }
    match rng.below(40) {
        0 => std::thread::sleep(std::time::Duration::from_micros(rng.below(40))),
        1..=10 => std::thread::yield_now(),
        11..=16 => {
            for _ in 0..rng.below(400) {
                std::hint::spin_loop();
            }
        }
        _ => {}
    }
}

fn worker<'p, A: PoolBase, S: BumpAllocatorSettings>(sh: &Shared<'p, A, S>, tidx: usize, mut rng: Rng, steps: usize, yields: bool) -> WorkerOut<'p>
where
    A: BaseAllocator<S::GuaranteedAllocated>,
{
    let mut w = WorkerOut::default();
    let mut held: Vec<Held<'p, A, S>> = Vec::new();
    if yields {
        sh.barrier.wait();
    }
    for _ in 0..steps {
        pause(&mut rng, yields);
        let r = rng.below(100);
        if r < 30 {
            if held.len() < sh.max_hold {
                if let Some(h) = do_get(sh, tidx, &mut rng, &mut w) {
                    held.push(h);
                }
            }
        } else if r < 62 {
            if !held.is_empty() {
                let i = rng.below(held.len() as u64) as usize;
                do_alloc(sh, tidx, &mut rng, &mut held[i], &mut w);
            }
        } else if r < 84 {
            if !held.is_empty() {
                let i = rng.below(held.len() as u64) as usize; // random order, not LIFO
                let h = held.swap_remove(i);
                do_put(sh, tidx, h, &mut w);
            }
        } else if r < 92 {
            // re-read an earlier block: its guard may be gone and its arena with another thread by now
            if !w.blocks.is_empty() {
                let b = &w.blocks[rng.below(w.blocks.len() as u64) as usize];
                w.rereads += 1;
                if !intact(b.raw.tag, b.data) {
                    violation(sh, format!("block {} ({} bytes) allocated through an earlier guard was modified", b.raw.tag, b.raw.len));
                }
            }
        } else if r < 98 {
            // hand a live guard to another thread / take one over
            if yields {
                let mut ex = sh.exchange.lock().unwrap_or_else(|e| e.into_inner());
                if rng.chance(1, 2) && !held.is_empty() {
                    let i = rng.below(held.len() as u64) as usize;
                    ex.push(held.swap_remove(i));
                } else if held.len() < sh.max_hold {
                    if let Some(h) = ex.pop() {
                        held.push(h);
                    }
                }
            }
        } else if sh.allow_forget && rng.chance(1, 6) && !held.is_empty() {
            let i = rng.below(held.len() as u64) as usize;
            let h = held.swap_remove(i);
            do_forget(tidx, h, &mut w);
        }
    }
    // the round ends with every guard dropped, in random order
    while !held.is_empty() {
        pause(&mut rng, yields);
        let i = rng.below(held.len() as u64) as usize;
        let h = held.swap_remove(i);
        do_put(sh, tidx, h, &mut w);
    }
    w
}

fn run_threads<'s, 'p: 's, A: PoolBase, S: BumpAllocatorSettings>(crew: &Crew, sh: &'s Shared<'p, A, S>, seeds: &[u64], steps: usize) -> Vec<WorkerOut<'p>>
where
    A: BaseAllocator<S::GuaranteedAllocated>,
{
    let jobs: Vec<Box<dyn FnOnce() -> WorkerOut<'p> + Send + 's>> = seeds
        .iter()
        .enumerate()
        .map(|(i, s)| {
            let s = *s;
            Box::new(move || worker(sh, i, Rng::new(s), steps, true)) as Box<dyn FnOnce() -> WorkerOut<'p> + Send + 's>
        })
        .collect();
    let mut outs = Vec::new();
    for r in crew.scoped(jobs) {
        match r {
            Ok(o) => outs.push(o),
            Err(p) => std::panic::resume_unwind(p),
        }
    }
    outs
}

struct CaseCtx<'t> {
    crew: &'t Crew,
    out: &'t mut String,
    t: &'t mut Totals,
}

fn run_case<A: PoolBase, S: BumpAllocatorSettings>(cfg: &str, case_seed: u64, threaded: bool, cx: &mut CaseCtx<'_>)
where
    A: BaseAllocator<S::GuaranteedAllocated>,
{
    let mut rng = Rng::new(case_seed);
    let threads = if threaded { rng.range(2, 16) as usize } else { 1 };
    let rounds = rng.range(1, 3) as usize;
    let _ = writeln!(cx.out, "pool-new cfg={cfg} base={} threads={threads} rounds={rounds} seed={case_seed}", A::NAME);
    cx.t.cases += 1;
    cx.t.max_threads = cx.t.max_threads.max(threads);
    // tickets are NOT reset between cases: the crew threads keep their thread-local "last ticket", and a guard drop
    // is recognised as having entered the critical section by a ticket different from the thread's previous one
    let outstanding0 = CA_OUTSTANDING.load(SeqCst);
    let next_gid = AtomicUsize::new(0);
    let next_tag = AtomicUsize::new(1);
    let reg = Registry::new();
    let mut cs = CaseState {
        canon: HashMap::new(),
        n_created: 0,
        owned: HashMap::new(),
        last_thread: HashMap::new(),
        live: 0,
        peak: 0,
        leaked: Vec::new(),
        last_ticket: None,
        forgotten: HashSet::new(),
        poisoned: false,
        expect_idle: None,
    };
    let mut pool: BumpPool<A, S> = BumpPool::new_in(A::default());
    let mut carried: Vec<RawBlk> = Vec::new(); // blocks of earlier rounds since the last reset
    for round in 0..rounds {
        cx.t.rounds += 1;
        let steps = if threaded { rng.range(5, 60) } else { rng.range(10, 150) } as usize;
        let max_hold = if threaded { rng.range(1, 4) } else { rng.range(1, 12) } as usize;
        let mut evs: Vec<Ev> = Vec::new();
        let mut raws: Vec<RawBlk> = Vec::new();
        let deallocs_round0 = CA_DEALLOCS.load(SeqCst);
        let mut pending: Vec<String> = Vec::new(); // oracle messages of this round, printed after its history
        {
            let sh = Shared {
                pool: &pool,
                next_gid: &next_gid,
                next_tag: &next_tag,
                reg: &reg,
                violations: Mutex::new(Vec::new()),
                exchange: Mutex::new(Vec::new()),
                barrier: Barrier::new(threads),
                max_hold,
                allow_forget: rng.chance(1, 4),
                allow_overflow: rng.chance(1, 2),
            };
            let seeds: Vec<u64> = (0..threads).map(|_| rng.next()).collect();
            let mut outs: Vec<WorkerOut<'_>> = Vec::new();
            if threaded {
                outs = run_threads(cx.crew, &sh, &seeds, steps);
            } else {
                outs.push(worker(&sh, 0, Rng::new(seeds[0]), steps, false));
            }
            // guards left in the exchange are dropped by the main thread
            let mut wmain = WorkerOut::default();
            let left: Vec<_> = std::mem::take(&mut *sh.exchange.lock().unwrap_or_else(|e| e.into_inner()));
            for h in left {
                do_put(&sh, 99, h, &mut wmain);
            }
            outs.push(wmain);
            // every block of every thread is still intact although all guards are gone and the arenas changed hands
            for o in &outs {
                for b in &o.blocks {
                    cx.t.rereads += 1;
                    if !intact(b.raw.tag, b.data) {
                        pending.push(format!("block {} ({} bytes) was modified after its guard was dropped (end of round {round})", b.raw.tag, b.raw.len));
                    }
                }
            }
            // (what the threads noticed while running comes first)
            let mut noticed: Vec<String> = sh.violations.lock().unwrap_or_else(|e| e.into_inner()).drain(..).collect();
            noticed.append(&mut pending);
            pending = noticed;
            for mut o in outs {
                evs.append(&mut o.evs);
                raws.extend(o.blocks.iter().map(|b| b.raw.clone()));
                cx.t.rereads += o.rereads;
                cx.t.exchanged += o.exchanged;
                cs.leaked.append(&mut o.leaked);
                *cx.t.ops.entry("scoped-temp").or_insert(0) += o.scoped;
            }
        } // all `&'pool` references end here
        linearise(&mut evs, &mut cs, cx.out, cx.t);
        for msg in pending.iter().take(40) {
            oracle(cx.out, cx.t, msg);
        }
        carried.append(&mut raws);
        carried.sort_by_key(|b| b.key);

        // ---- inspection through `&mut self`
        let bumps = pool.bumps();
        let idents: Vec<usize> = bumps.iter().map(|b| b.stats().small_to_big().next().map_or(0, |c| c.chunk_start().as_ptr() as usize)).collect();
        let n_idle = idents.len();
        cx.t.max_arenas = cx.t.max_arenas.max(cs.n_created);
        if let Some((n, what)) = cs.expect_idle {
            if n != n_idle {
                oracle(cx.out, cx.t, &format!("after {what} the pool must hold {n} idle arenas but pool.bumps().len() is {n_idle}{}", if cs.poisoned { " [the pool mutex is poisoned]" } else { "" }));
            }
        }
        if A::INSTRUMENTED && CA_DEALLOCS.load(SeqCst) != deallocs_round0 {
            oracle(cx.out, cx.t, &format!("{} chunks were released to the base allocator while the pool was in use (no reset, no drop of the pool){}", CA_DEALLOCS.load(SeqCst) - deallocs_round0, if cs.poisoned { " [the pool mutex is poisoned]" } else { "" }));
        }
        if n_idle + cs.leaked.len() != cs.n_created {
            oracle(cx.out, cx.t, &format!("pool holds {n_idle} arenas (+{} forgotten) but {} distinct arena identities were handed out: an arena was lost or duplicated", cs.leaked.len(), cs.n_created));
        }
        if n_idle + cs.leaked.len() > cs.peak {
            oracle(cx.out, cx.t, &format!("{} arenas were created but at most {} guards were ever live at the same time", n_idle + cs.leaked.len(), cs.peak));
        }
        if idents.iter().collect::<HashSet<_>>().len() != n_idle {
            oracle(cx.out, cx.t, "the idle vector holds the same arena twice");
        }
        if !cs.owned.is_empty() {
            oracle(cx.out, cx.t, "HARNESS: guards still owned at the end of a round");
        }
        let cids: Vec<String> = idents.iter().map(|i| cs.canon.get(i).map_or("?".to_string(), |c| c.to_string())).collect();
        let _ = writeln!(cx.out, "q idle => idle {}", cids.join(" "));
        // placement and contents of every block since the last reset
        let ranges: Vec<Vec<(usize, usize)>> = bumps.iter().map(|b| ranges_of(b.stats())).collect();
        let mut per: Vec<Vec<usize>> = vec![Vec::new(); n_idle];
        for b in &carried {
            // re-read once more (the references are gone, the memory must still be there: no reset yet)
            let data = unsafe { std::slice::from_raw_parts(b.addr as *const u8, b.len) };
            if !intact(b.tag, data) {
                oracle(cx.out, cx.t, &format!("block {} ({} bytes) was modified before any reset (inspection after round {round})", b.tag, b.len));
            }
            if b.len == 0 {
                // a zero-sized block has no bytes to place; attribute it to the arena it was allocated from
                if let Some(i) = idents.iter().position(|x| *x == b.ident) {
                    per[i].push(b.tag);
                }
                continue;
            }
            let homes: Vec<usize> = (0..n_idle).filter(|i| inside(&ranges[*i], b.addr, b.len)).collect();
            let in_leaked = cs.leaked.iter().any(|(_, _, r)| inside(r, b.addr, b.len));
            match (homes.len(), in_leaked) {
                (1, false) => {
                    if idents[homes[0]] != b.ident {
                        oracle(cx.out, cx.t, &format!("block {} lies in arena {:#x} but was allocated through a guard of arena {:#x}", b.tag, idents[homes[0]], b.ident));
                    }
                    per[homes[0]].push(b.tag);
                }
                (0, true) => {}
                (0, false) => oracle(cx.out, cx.t, &format!("block {} lies in no arena of the pool", b.tag)),
                _ => oracle(cx.out, cx.t, &format!("block {} lies in more than one arena", b.tag)),
            }
        }
        let cont: Vec<String> = (0..n_idle).map(|i| format!("{}:[{}]", cids[i], per[i].iter().map(|x| x.to_string()).collect::<Vec<_>>().join(","))).collect();
        let _ = writeln!(cx.out, "q contents => contents {}", cont.join(" "));
        let _ = writeln!(cx.out, "q live => live {} created {}", cs.leaked.len(), cs.n_created);
        let _ = writeln!(cx.out, "q poisoned => poisoned {}", cs.poisoned as u8);

        flush_out(cx.out);
        // ---- what happens between rounds
        let last = round + 1 == rounds;
        let action = if last { 3 } else { rng.below(3) };
        match action {
            0 => {
                let counts: Vec<usize> = bumps.iter().map(|b| b.stats().count()).collect();
                pool.reset();
                cx.t.resets += 1;
                cx.t.op("reset");
                let bumps = pool.bumps();
                for (i, b) in bumps.iter().enumerate() {
                    let st = b.stats();
                    if st.count() != 1 || st.allocated() != 0 {
                        oracle(cx.out, cx.t, &format!("after pool.reset() arena {} has {} chunks (had {}) and {} bytes allocated", cids[i], st.count(), counts[i], st.allocated()));
                    }
                    // the identity of an arena that had several chunks changes: keep the canonical id
                    let new_ident = st.small_to_big().next().map_or(0, |c| c.chunk_start().as_ptr() as usize);
                    if let Some(c) = cs.canon.remove(&idents[i]) {
                        cs.canon.insert(new_ident, c);
                    }
                    if let Some(th) = cs.last_thread.remove(&idents[i]) {
                        cs.last_thread.insert(new_ident, th);
                    }
                }
                if A::INSTRUMENTED {
                    let want = outstanding0 + n_idle + cs.leaked.iter().map(|l| l.1).sum::<usize>();
                    let have = CA_OUTSTANDING.load(SeqCst);
                    if have != want {
                        oracle(cx.out, cx.t, &format!("after pool.reset() {have} chunks are outstanding at the base allocator, expected {want} (one per arena + forgotten)"));
                    }
                }
                let _ = writeln!(cx.out, "op reset => done arenas={n_idle}");
                carried.clear();
            }
            1 => {
                let counts: Vec<usize> = bumps.iter().map(|b| b.stats().count()).collect();
                let before = CA_OUTSTANDING.load(SeqCst);
                pool.reset_to_start();
                cx.t.rewinds += 1;
                cx.t.op("reset_to_start");
                for (i, b) in pool.bumps().iter().enumerate() {
                    let st = b.stats();
                    let ident = st.small_to_big().next().map_or(0, |c| c.chunk_start().as_ptr() as usize);
                    if st.count() != counts[i] || st.allocated() != 0 || ident != idents[i] {
                        oracle(cx.out, cx.t, &format!("after pool.reset_to_start() arena {} has {} chunks (had {}) and {} bytes allocated", cids[i], st.count(), counts[i], st.allocated()));
                    }
                }
                if A::INSTRUMENTED && CA_OUTSTANDING.load(SeqCst) != before {
                    oracle(cx.out, cx.t, "pool.reset_to_start() released or requested memory");
                }
                let _ = writeln!(cx.out, "op reset_to_start => done arenas={n_idle}");
                carried.clear();
            }
            2 => {
                cx.t.op("continue");
            }
            _ => {}
        }
    }
    if cs.poisoned {
        cx.t.poisoned_cases += 1;
    }
    let n_idle = pool.bumps().len();
    drop(pool);
    cx.t.op("drop");
    let _ = writeln!(cx.out, "op drop => done arenas={n_idle}");
    if A::INSTRUMENTED {
        let want = outstanding0 + cs.leaked.iter().map(|l| l.1).sum::<usize>();
        let have = CA_OUTSTANDING.load(SeqCst);
        if have != want {
            oracle(cx.out, cx.t, &format!("after dropping the pool {have} chunks are outstanding at the base allocator, expected {want} (only those of forgotten guards)"));
        }
        // the forgotten arenas are leaked for good (that is what `mem::forget` means): rebase the ledger
    }
}

type SUp = BumpSettings;
type SDown = BumpSettings<1, false>;
type SDown16 = BumpSettings<16, false, true, true, true, true, 4096>;
type SUp8 = BumpSettings<8, true, true, false, true, true, 128>;

fn dispatch(which: u64, case_seed: u64, threaded: bool, cx: &mut CaseCtx<'_>) {
    match which {
        0 => run_case::<Global, SUp>("up-default", case_seed, threaded, cx),
        1 => run_case::<CA, SUp>("up", case_seed, threaded, cx),
        2 => run_case::<CA, SDown>("down", case_seed, threaded, cx),
        3 => run_case::<CA, SDown16>("down-a16-c4096", case_seed, threaded, cx),
        4 => run_case::<CA, SUp8>("up-a8-c128", case_seed, threaded, cx),
        _ => run_case::<Global, SDown>("down-default", case_seed, threaded, cx),
    }
}

// ------------------------------------------------------------------------------------------------
// probe: is "no idle arena found" + "create one" a single critical section?

const VARIANT_NAMES: [&str; 6] = ["get", "try_get", "get_with_size", "try_get_with_size", "get_with_capacity", "try_get_with_capacity"];

/// what one side of a probe reports: (lock ticket of its pool operation, it went as planned)
type ProbeSide = (usize, bool);

fn run_probe<S: BumpAllocatorSettings + 'static>(crew: &Crew, variant: usize, cfg: &str, rng: &mut Rng, out: &mut String, t: &mut Totals)
where
    CA: BaseAllocator<S::GuaranteedAllocated>,
{
    let name = VARIANT_NAMES[variant];
    let outstanding0 = CA_OUTSTANDING.load(SeqCst);
    let mut pool: BumpPool<CA, S> = BumpPool::new_in(CA);
    for f in [&PROBE_DROP_REQUESTED, &PROBE_DROP_COMPLETED, &PROBE_HIT, &PROBE_IN_WINDOW] {
        f.store(false, SeqCst);
    }
    let size = *rng.pick(&[0usize, 64, 512, 1000, 4096]);
    let layout = Layout::from_size_align(*rng.pick(&[1usize, 24, 600, 3000]), 1 << rng.below(5)).unwrap();
    let (first_ok, second_ok, n_arenas);
    let (mut t_get, mut t_put) = (0usize, 0usize);
    {
        let pool_ref = &pool;
        // arena #1, handed out: from now on no idle arena exists
        let b = pool_ref.get();
        let first: &[u8] = b.alloc_slice_copy(&(0..40).map(|i| pat(7, i)).collect::<Vec<u8>>()).into_ref();
        let spin_until = |flag: &AtomicBool| {
            let deadline = std::time::Instant::now() + std::time::Duration::from_secs(2);
            while !flag.load(SeqCst) && std::time::Instant::now() < deadline {
                std::thread::yield_now();
            }
            flag.load(SeqCst)
        };
        let prober: Box<dyn FnOnce() -> ProbeSide + Send + '_> = Box::new(move || {
            PROBE_ARMED.with(|f| f.set(true));
            let a = match variant {
                0 => Ok(pool_ref.get()),
                1 => pool_ref.try_get(),
                2 => Ok(pool_ref.get_with_size(size)),
                3 => pool_ref.try_get_with_size(size),
                4 => Ok(pool_ref.get_with_capacity(layout)),
                _ => pool_ref.try_get_with_capacity(layout),
            };
            let ticket = last_pool_lock().0;
            PROBE_ARMED.with(|f| f.set(false));
            let ok = match &a {
                Ok(g) => {
                    let second: &[u8] = g.alloc_slice_copy(&(0..40).map(|i| pat(8, i)).collect::<Vec<u8>>()).into_ref();
                    intact(8, second)
                }
                Err(_) => false,
            };
            // keep the second guard until the partner is done, then return it
            spin_until(&PROBE_DROP_COMPLETED);
            drop(a);
            (ticket, ok)
        });
        let partner: Box<dyn FnOnce() -> ProbeSide + Send + '_> = Box::new(move || {
            let asked = spin_until(&PROBE_DROP_REQUESTED);
            drop(b);
            let ticket = last_pool_lock().0;
            PROBE_DROP_COMPLETED.store(true, SeqCst);
            (ticket, asked)
        });
        let mut res = crew.scoped(vec![prober, partner]).into_iter();
        match (res.next(), res.next()) {
            (Some(Ok((tg, ok_a))), Some(Ok((tp, asked)))) => {
                t_get = tg;
                t_put = tp;
                second_ok = ok_a && asked;
            }
            _ => second_ok = false,
        }
        first_ok = intact(7, first);
    }
    n_arenas = pool.bumps().len();
    drop(pool);
    let hit = PROBE_HIT.load(SeqCst);
    let in_window = PROBE_IN_WINDOW.load(SeqCst);
    t.probes += 1;
    let verdict = if !hit {
        t.probes_not_reached += 1;
        "not-reached"
    } else if in_window {
        "CREATE-OUTSIDE-LOCK"
    } else {
        t.probes_blocked += 1;
        "drop-blocked-until-created"
    };
    let _ = writeln!(out, "probe {name} cfg={cfg} arenas={n_arenas} get-ticket={t_get} drop-ticket={t_put} => {verdict}");
    if hit && in_window {
        oracle(out, t, &format!(
            "CREATE-OUTSIDE-LOCK {name}: a guard drop completed while the pool was creating an arena for a get that had found no idle arena \
             (the returned arena sat idle while a new one was created: {n_arenas} arenas for a peak of 1 simultaneously live guard)"));
    }
    if hit && !in_window && t_put <= t_get {
        oracle(out, t, &format!("PROBE {name}: the partner's guard drop (ticket {t_put}) did not come after the probed get (ticket {t_get}) although it was only requested during that get"));
    }
    if !hit || !second_ok || !first_ok || n_arenas != 2 {
        oracle(out, t, &format!("PROBE {name}: the probe did not run as planned (allocate reached: {hit}, guards/blocks fine: {}, arenas afterwards: {n_arenas}, expected 2)", second_ok && first_ok));
    }
    if CA_OUTSTANDING.load(SeqCst) != outstanding0 {
        oracle(out, t, &format!("PROBE {name}: dropping the pool left {} chunks outstanding", CA_OUTSTANDING.load(SeqCst) as isize - outstanding0 as isize));
    }
}

/// probe: an idle arena in the CLAIMED state (a `BumpClaimGuard` obtained through the pool guard was leaked with
/// `mem::forget`) is still an idle arena: the next `get*` must hand it out, not discard it and create another one.
fn run_claim_probe<S: BumpAllocatorSettings + 'static>(variant: usize, cfg: &str, rng: &mut Rng, out: &mut String, t: &mut Totals)
where
    CA: BaseAllocator<S::GuaranteedAllocated>,
{
    let name = VARIANT_NAMES[variant];
    let size = *rng.pick(&[0usize, 64, 512, 1000, 4096]);
    let layout = Layout::from_size_align(*rng.pick(&[1usize, 24, 600, 3000]), 1 << rng.below(5)).unwrap();
    fn get_variant<'p, S: BumpAllocatorSettings>(pool: &'p BumpPool<CA, S>, variant: usize, size: usize, layout: Layout) -> Option<BumpPoolGuard<'p, CA, S>>
    where
        CA: BaseAllocator<S::GuaranteedAllocated>,
    {
        match variant {
            0 => Some(pool.get()),
            1 => pool.try_get().ok(),
            2 => Some(pool.get_with_size(size)),
            3 => pool.try_get_with_size(size).ok(),
            4 => Some(pool.get_with_capacity(layout)),
            _ => pool.try_get_with_capacity(layout).ok(),
        }
    }
    for two_idle in [false, true] {
        let mut pool: BumpPool<CA, S> = BumpPool::new_in(CA);
        let allocs0 = CA_ALLOCS.load(SeqCst);
        let deallocs0 = CA_DEALLOCS.load(SeqCst);
        let want = if two_idle { 2 } else { 1 };
        let mut problems: Vec<String> = Vec::new();
        {
            let pool_ref = &pool;
            // idle stack afterwards: [usable A, claimed B] (two_idle) or [claimed B]
            let a = if two_idle { Some(pool_ref.get()) } else { None };
            let b = pool_ref.get();
            let writer = a.as_ref().unwrap_or(&b);
            let kept: &[u8] = writer.alloc_slice_copy(&(0..48).map(|i| pat(9, i)).collect::<Vec<u8>>()).into_ref();
            let claim = b.claim();
            let via_claim: &[u8] = claim.alloc_slice_copy(&(0..48).map(|i| pat(10, i)).collect::<Vec<u8>>()).into_ref();
            std::mem::forget(claim);
            if !b.is_claimed() {
                problems.push("the arena is not in the claimed state after its claim guard was leaked".into());
            }
            drop(a);
            drop(b);
            let allocs_idle = CA_ALLOCS.load(SeqCst);
            if allocs_idle - allocs0 != want {
                problems.push(format!("{} chunks were allocated for {want} arenas before the probed gets", allocs_idle - allocs0));
            }
            // `want` idle arenas, `want` gets: nothing new may be created
            let mut got = Vec::new();
            for k in 0..want {
                let g = get_variant(pool_ref, variant, size, layout);
                let idle_seen = last_pool_lock().1;
                if g.is_none() {
                    problems.push("the get failed".into());
                }
                if idle_seen != want - k {
                    problems.push(format!("get no. {} saw {idle_seen} idle arenas under the lock, expected {}", k + 1, want - k));
                }
                got.push(g);
            }
            let created = CA_ALLOCS.load(SeqCst) - allocs_idle;
            let released = CA_DEALLOCS.load(SeqCst) - deallocs0;
            if created != 0 || released != 0 {
                oracle(out, t, &format!(
                    "CLAIMED-IDLE-NOT-REUSED {name}: with {want} idle arena(s) in the pool (one of them in the claimed state: its claim guard was leaked) {want} get(s) \
                     created {created} new arena(s) and released {released} chunk(s): a returned arena must be reused before a new one is created \
                     ({} arenas for a peak of {want} simultaneously live guards), and it must not be dropped while allocations with the pool's lifetime point into it",
                    want + created));
            }
            drop(got);
            if !intact(9, kept) || !intact(10, via_claim) {
                problems.push("a block allocated before the arena was returned was modified".into());
            }
        }
        let n_arenas = pool.bumps().len();
        if n_arenas != want {
            oracle(out, t, &format!("CLAIMED-IDLE-NOT-REUSED {name}: the pool holds {n_arenas} arenas after {want} guards were live at the same time at most"));
        }
        for p in &problems {
            oracle(out, t, &format!("PROBE claimed-idle {name}: {p}"));
        }
        let released = CA_DEALLOCS.load(SeqCst) - deallocs0;
        drop(pool);
        t.probes += 1;
        t.claim_probes += 1;
        let _ = writeln!(out, "probe claimed-idle {name} cfg={cfg} idle-arenas={want} arenas-afterwards={n_arenas} released-before-pool-drop={released} => {}",
            if CA_ALLOCS.load(SeqCst) - allocs0 == want && n_arenas == want { "reused" } else { "CLAIMED-IDLE-NOT-REUSED" });
    }
}

fn probes(per_variant: u64, crew: &Crew, t: &mut Totals) {
    let mut rng = Rng::new(seed() ^ 0x7072_6f62);
    let mut n = 0u64;
    for round in 0..per_variant {
        for variant in 0..6 {
            let mut out = String::new();
            println!("# case {n} probe {} round {round}", VARIANT_NAMES[variant]);
            let res = catch_unwind(AssertUnwindSafe(|| {
                if (round + variant as u64) % 2 == 0 {
                    run_probe::<SUp>(crew, variant, "up", &mut rng.clone(), &mut out, t)
                } else {
                    run_probe::<SDown>(crew, variant, "down", &mut rng.clone(), &mut out, t)
                }
            }));
            rng.next();
            PROBE_ARMED.with(|f| f.set(false));
            print!("{out}");
            if res.is_err() {
                t.oracle_lines += 1;
                println!("oracle {PROP} panic inside a probe of {}", VARIANT_NAMES[variant]);
            }
            n += 1;
            // a claimed idle arena is reused (no waiting involved: single-threaded)
            let mut out = String::new();
            println!("# case {n} probe claimed-idle {} round {round}", VARIANT_NAMES[variant]);
            let res = catch_unwind(AssertUnwindSafe(|| {
                if (round + variant as u64) % 2 == 0 {
                    run_claim_probe::<SUp>(variant, "up", &mut rng.clone(), &mut out, t)
                } else {
                    run_claim_probe::<SDown>(variant, "down", &mut rng.clone(), &mut out, t)
                }
            }));
            rng.next();
            print!("{out}");
            if res.is_err() {
                t.oracle_lines += 1;
                println!("oracle {PROP} panic inside a claimed-idle probe of {}", VARIANT_NAMES[variant]);
            }
            n += 1;
        }
    }
    println!("# probes total={} claimed-idle={} drop-blocked-until-created={} not-reached={} window-ms={} oracle-lines={}", t.probes, t.claim_probes, t.probes_blocked, t.probes_not_reached, PROBE_WINDOW.as_millis(), t.oracle_lines);
}

fn main() {
    let args: Vec<String> = std::env::args().collect();
    let cases: u64 = args.get(1).and_then(|s| s.parse().ok()).unwrap_or(20);
    let mode = args.get(2).map(|s| s.as_str()).unwrap_or("mixed").to_string();
    let mut rng = Rng::new(seed() ^ 0x706f_6f6c);
    let mut t = Totals::default();
    let mut per_cfg = [0u64; 6];
    println!("# pool cases={cases} mode={mode} seed={}", seed());
    std::panic::set_hook(Box::new(|_| {}));
    let crew = Crew::new(16);
    if mode == "probe" {
        probes(cases, &crew, &mut t);
        return;
    }
    for case in 0..cases {
        let case_seed = rng.next();
        let threaded = match mode.as_str() {
            "single" => false,
            "threads" => true,
            _ => case % 4 != 0,
        };
        let which = case % 6;
        per_cfg[which as usize] += 1;
        let mut out = String::new();
        println!("# case {case} seed={case_seed} threaded={threaded}");
        let res = {
            let mut cx = CaseCtx { crew: &crew, out: &mut out, t: &mut t };
            catch_unwind(AssertUnwindSafe(|| dispatch(which, case_seed, threaded, &mut cx)))
        };
        FAIL_ARMED.with(|f| f.set(false));
        print!("{out}");
        if let Err(p) = res {
            let msg = p.downcast_ref::<String>().cloned().or_else(|| p.downcast_ref::<&str>().map(|s| s.to_string())).unwrap_or_else(|| "?".into());
            t.oracle_lines += 1;
            println!("oracle {PROP} panic inside the case: {}", msg.replace('\n', " "));
        }
    }
    let mut ops: Vec<_> = t.ops.iter().collect();
    ops.sort();
    println!("# ops {}", ops.iter().map(|(k, v)| format!("{k}={v}")).collect::<Vec<_>>().join(" "));
    println!(
        "# get-variants get={} try_get={} get_with_size={} try_get_with_size={} get_with_capacity={} try_get_with_capacity={}",
        t.variants[0], t.variants[1], t.variants[2], t.variants[3], t.variants[4], t.variants[5]
    );
    println!(
        "# overflow get_with_size(huge)={} try_get_with_size(huge)={} get_with_capacity(huge)={} try_get_with_capacity(huge)={} panicked(mutex poisoned)={} found-idle-arena-instead={} poisoned-cases={} guard-drops-while-poisoned={}",
        t.variants[6], t.variants[7], t.variants[8], t.variants[9], t.get_panics, t.overflow_reused, t.poisoned_cases, t.puts_after_poison
    );
    println!(
        "# branches created={} reused={} handover-to-other-thread={} construction-failed={} failure-armed-but-reused={} forgotten={} guards-moved-between-threads={} resets={} rewinds={}",
        t.creates, t.reuses, t.handovers, t.get_fails, t.fail_armed_but_reused, t.forgets, t.exchanged, t.resets, t.rewinds
    );
    println!(
        "# summary cases={} rounds={} contended-rounds={} blocks={} rereads={} max-threads={} max-peak-live={} max-arenas={} per-cfg={:?} oracle-lines={}",
        t.cases, t.rounds, t.contended, t.blocks, t.rereads, t.max_threads, t.max_peak, t.max_arenas, per_cfg, t.oracle_lines
    );
}
