//! Engine `coll`: drives the REAL collection types of bump-scope (`BumpBox<[T]>`, `FixedBumpVec`,
//! `BumpVec`, `MutBumpVec`, `MutBumpVecRev`) on generated operation sequences with an element type that
//! carries an id and logs its `Drop`, and callbacks (predicates, closures, `Clone`, `Drop`) that follow
//! a generated ORACLE (return values and panics), next to `std::vec::Vec` executing the same sequence.
//!
//!   coll <traces> <ops-per-trace> <profile>       env: VERIF_SEED      profiles: general drops std deep split failing
//!
//! Output (line protocol of `lean/Driver/CollD.lean`):
//!   `# trace <n> …`                         start of a trace
//!   `new <h> <kind> cap=<c> ids=<csv>`      a vector was created (observed capacity)
//!   `op <name> <h> <args> o=… bombs=… capin=<c> => <observed>`     correspondence line
//!   `drop <h> => drops=<csv> exit=<…>`      the owner was dropped
//!   `oracle <PROPERTY> <message>`           the IMPLEMENTATION violates a property (never consults the model)
//!   `# …`                                   histograms / counters
//! Direct oracles: C06 exactly-once drop accounting after every operation and at the end of every
//! trace, also with a panic injected at the k-th callback for every k (variant traces) and with a
//! panicking `Drop`; C08 contents / length / returned values / panics equal to `std::vec::Vec`,
//! capacity promises; C16 exhaustive split enumeration (profile `split`).

#![allow(clippy::all, dead_code)]

use std::cell::{Cell, RefCell};
use std::collections::{BTreeMap, VecDeque};
use std::fmt::Write as _;
use std::panic::{AssertUnwindSafe, catch_unwind};

use bump_scope::alloc::Global;
use bump_scope::settings::BumpSettings;
use bump_scope::{Bump, BumpBox, BumpVec, FixedBumpVec, MutBumpVec, MutBumpVecRev};

use verif_harness::{Rng, seed};

type S1U = BumpSettings<1, true>;
type S1D = BumpSettings<1, false>;
type S8U = BumpSettings<8, true>;
type S16D = BumpSettings<16, false>;

include!("../coll_inc/elem.rs");
include!("../coll_inc/ops.rs");
include!("../coll_inc/exec.rs");
include!("../coll_inc/split.rs");
include!("../coll_inc/mapvec.rs");
include!("../coll_inc/failing.rs");
include!("../coll_inc/misc.rs");
include!("../coll_inc/mutnum.rs");
include!("../coll_inc/flatn.rs");

fn main() {
    let args: Vec<String> = std::env::args().collect();
    let traces: usize = args.get(1).and_then(|s| s.parse().ok()).unwrap_or(50);
    let nops: usize = args.get(2).and_then(|s| s.parse().ok()).unwrap_or(12);
    let profile = args.get(3).cloned().unwrap_or_else(|| "general".to_string());
    std::panic::set_hook(Box::new(|info| {
        // callback / bomb panics are part of the experiment; anything else is reported on stderr
        let p = info.payload();
        if p.is::<CbPanic>() || p.is::<BombPanic>() {
            if std::env::var("VERIF_COLL_TRACE_CB").is_ok() {
                eprintln!("cb/bomb panic at:\n{}", std::backtrace::Backtrace::force_capture());
            }
            return;
        }
        if std::env::var("VERIF_COLL_VERBOSE").is_ok() {
            eprintln!("panic: {info}");
        }
    }));
    let mut ctx = Ctx::new(Rng::new(seed()), &profile);
    println!("# coll engine seed={} traces={traces} ops={nops} profile={profile}", seed());
    if profile == "failing" {
        run_failing_profile(&mut ctx, traces);
        ctx.summary();
        print!("{}", ctx.out);
        return;
    }
    if profile == "split" {
        run_split_profile(&mut ctx, traces);
        run_mapvec(&mut ctx);
        run_misc(&mut ctx);
        run_flatn(&mut ctx);
        run_splice_back(&mut ctx);
        ctx.summary();
        print!("{}", ctx.out);
        return;
    }
    for t in 0..traces {
        ctx.trace_no = t;
        let spec = ctx.gen_spec(nops);
        run_spec(&mut ctx, &spec);
        // variants of the operations of this trace: a panic at every callback index, a panicking Drop
        let variants = std::mem::take(&mut ctx.variants);
        for v in variants {
            run_spec(&mut ctx, &v);
        }
        print!("{}", ctx.out);
        ctx.out.clear();
    }
    if profile == "mutgrow" || profile == "std" {
        // `Copy` elements: every growth-capable operation across chunk boundaries (oracle only)
        run_mutnum(&mut ctx, if profile == "mutgrow" { traces * 2 } else { traces / 4 + 30 });
    }
    ctx.summary();
    print!("{}", ctx.out);
}
