//! Deterministic reproductions of the genuine defects the checks found in bluurryy/bump-scope
//! (see /verif/known_findings.json and DESIGN.md §10).  `findings <name>` exits 0 when the
//! behaviour is CORRECT (defect absent / repaired) and 1 when the defect shows.

use std::alloc::Layout;
use std::ptr::NonNull;

use bump_scope::alloc::Allocator;
use bump_scope::settings::BumpSettings;
use bump_scope::traits::{BumpAllocatorCore, BumpAllocatorScope, BumpAllocatorTypedScope};
use bump_scope::{Bump, WithoutShrink};
use verif_harness::base::A8;

type Down4 = BumpSettings<4, false>;

/// C10/C18: a checkpoint taken while the minimum alignment is lowered, used after the region ended
fn reset_to_lower_aligned_checkpoint() -> bool {
    let mut bump: Bump<bump_scope::alloc::Global, Down4> = Bump::new();
    let mut cp = None;
    bump.aligned::<1, _>(|inner| {
        inner.allocate(Layout::from_size_align(3, 1).unwrap()).unwrap();
        cp = Some(inner.checkpoint());
        inner.allocate(Layout::from_size_align(5, 1).unwrap()).unwrap();
    });
    unsafe { bump.reset_to(cp.unwrap()) };
    let pos = bump.stats().current_chunk().unwrap().bump_position().as_ptr() as usize;
    println!("position after reset_to = {pos:#x}, MIN_ALIGN = 4, pos % 4 = {}", pos % 4);
    pos % 4 == 0
}

/// C02-a: WithoutShrink::shrink with a stricter alignment copies old_layout.size() bytes into the
/// new, smaller block: an out-of-bounds write (here past the end of the chunk, caught by the guard
/// bytes the test base allocator puts around every block it grants)
fn without_shrink_unfit() -> bool {
    use verif_harness::base::{A0, BASE};
    BASE.with(|b| b.borrow_mut().reset(7));
    let bump: Bump<A0, BumpSettings<1, true>> = Bump::new_in(A0);
    let _pad = bump.allocate(Layout::from_size_align(1, 1).unwrap()).unwrap();
    let old_l = Layout::from_size_align(100, 1).unwrap();
    let old = bump.allocate(old_l).unwrap().cast::<u8>();
    unsafe { old.write_bytes(0x22, 100) };
    // leave 40 bytes of room, so that the replacement block lands right at the end of the chunk
    let rem = bump.stats().remaining();
    bump.allocate(Layout::from_size_align(rem - 40, 1).unwrap()).unwrap();
    let new_l = Layout::from_size_align(8, 32).unwrap();
    if old.as_ptr() as usize % 32 == 0 {
        println!("setup did not produce a misaligned block; inconclusive");
        return true;
    }
    let a = WithoutShrink(&bump);
    let new = unsafe { a.shrink(old, old_l, new_l).unwrap() };
    println!("old block {:p} (100 bytes) -> new block {:p} (8 bytes), chunks {}", old, new.cast::<u8>(), bump.stats().count());
    let errs = BASE.with(|b| {
        let mut b = b.borrow_mut();
        b.final_audit(false);
        std::mem::take(&mut b.errors)
    });
    for e in &errs {
        println!("base allocator audit: {e}");
    }
    errs.is_empty()
}

/// C10-a: any_stats vs stats with an 8-byte base allocator
fn any_stats_header() -> bool {
    let bump: Bump<A8, BumpSettings<1, false>> = Bump::new_in(A8(0));
    bump.allocate(Layout::from_size_align(60, 4).unwrap()).unwrap();
    let (s, a) = (bump.stats(), bump.any_stats());
    println!("stats size {} capacity {} allocated {}; any_stats size {} capacity {} allocated {}", s.size(), s.capacity(), s.allocated(), a.size(), a.capacity(), a.allocated());
    s.size() == a.size() && s.capacity() == a.capacity() && s.allocated() == a.allocated()
}

/// C06-a: `owned_slice::Drain::drop` drops un-pulled zero-sized elements twice
fn zst_drain_double_drop() -> bool {
    use std::sync::atomic::{AtomicUsize, Ordering};
    static DROPS: AtomicUsize = AtomicUsize::new(0);
    struct Z;
    impl Drop for Z {
        fn drop(&mut self) {
            DROPS.fetch_add(1, Ordering::SeqCst);
        }
    }
    let bump: Bump = Bump::new();
    let mut v = bump_scope::BumpVec::new_in(&bump);
    for _ in 0..5 {
        v.push(Z);
    }
    drop(v.drain(1..4));
    let after_drain = DROPS.load(Ordering::SeqCst);
    drop(v);
    let total = DROPS.load(Ordering::SeqCst);
    println!("5 zero-sized values: {after_drain} destructor calls after dropping drain(1..4) (expected 3), {total} in total (expected 5)");
    after_drain == 3 && total == 5
}

/// C15/C07/C01: a MutBumpVec whose growth request FAILS after the slow path walked to a later chunk
/// is finalised against the wrong chunk: the later chunk's bump position is set to an address
/// inside the earlier chunk (safe code only)
fn mut_vec_failed_grow_then_into_slice() -> bool {
    use bump_scope::MutBumpVec;
    let mut bump: Bump = Bump::new();
    // two chunks, then rewind to the first one
    bump.alloc_slice_fill(2000, 0u8);
    bump.reset_to_start();
    assert!(bump.stats().count() >= 2);
    let first = bump.stats().small_to_big().next().unwrap();
    let (c0_start, c0_end) = (first.content_start().as_ptr() as usize, first.content_end().as_ptr() as usize);
    let mut v: MutBumpVec<u64, _> = MutBumpVec::new_in(&mut bump);
    v.push(1);
    v.push(2);
    // a request no allocator can satisfy: the slow path walks to the second chunk, then fails
    let r = v.try_reserve(1usize << 45);
    println!("try_reserve(huge) -> {:?}; the vector still holds {:?}", r.is_err(), &*v);
    let slice = v.into_slice();
    let slice_addr = slice.as_ptr() as usize;
    let cur = bump.stats().current_chunk().unwrap();
    let (cs, ce, pos) = (cur.content_start().as_ptr() as usize, cur.content_end().as_ptr() as usize, cur.bump_position().as_ptr() as usize);
    println!("slice at {slice_addr:#x} (first chunk is [{c0_start:#x},{c0_end:#x})); current chunk content [{cs:#x},{ce:#x}) position {pos:#x}");
    let inside = cs <= pos && pos <= ce;
    println!("bump position inside the current chunk: {inside}");
    inside
}

/// C06-b: `alloc_slice_fill` of a zero-sized type leaked the clones already made when a later `clone()` panicked
fn zst_slice_fill_clone_panic() -> bool {
    use std::sync::atomic::{AtomicUsize, Ordering};
    static CREATED: AtomicUsize = AtomicUsize::new(0);
    static DROPPED: AtomicUsize = AtomicUsize::new(0);
    struct Z;
    impl Clone for Z {
        fn clone(&self) -> Self {
            if CREATED.load(Ordering::SeqCst) >= 3 {
                panic!("third clone panics");
            }
            CREATED.fetch_add(1, Ordering::SeqCst);
            Z
        }
    }
    impl Drop for Z {
        fn drop(&mut self) {
            DROPPED.fetch_add(1, Ordering::SeqCst);
        }
    }
    let bump: Bump = Bump::new();
    CREATED.fetch_add(1, Ordering::SeqCst); // the value handed in
    std::panic::set_hook(Box::new(|_| {}));
    let r = std::panic::catch_unwind(std::panic::AssertUnwindSafe(|| {
        let _b = bump.alloc_slice_fill(5, Z);
    }));
    let _ = std::panic::take_hook();
    let (c, d) = (CREATED.load(Ordering::SeqCst), DROPPED.load(Ordering::SeqCst));
    println!("alloc_slice_fill(5, Z) with a panicking 3rd clone: unwound = {}, {c} values created, {d} dropped", r.is_err());
    r.is_err() && c == d
}

/// C18-e (known finding): a by-value copy lowers the alignment, switches chunks and is dropped;
/// the scope it was copied from is left with a misaligned bump position
fn by_value_lowered_alignment() -> bool {
    use bump_scope::{alloc::Global, settings::BumpSettings, traits::{BumpAllocatorScope, BumpAllocatorTypedScope}};
    let mut bump: Bump<Global, BumpSettings<8, true>> = Bump::new();
    {
        let parent = bump.as_mut_scope();
        let mut copy = parent.by_value();
        copy.aligned::<1, _>(|inner| {
            let _ = inner.alloc(0u8);
            let _ = inner.alloc_slice_fill(8192, 0u8);
        });
        drop(copy);
    }
    let pos = bump.stats().current_chunk().unwrap().bump_position().as_ptr() as usize;
    println!("minimum alignment 8: position of the original scope after the by-value copy is gone: {pos:#x} (mod 8 = {})", pos % 8);
    pos % 8 == 0
}

fn main() {
    let which = std::env::args().nth(1).unwrap_or_default();
    let ok = match which.as_str() {
        "reset_to_lower_aligned_checkpoint" => reset_to_lower_aligned_checkpoint(),
        "without_shrink_unfit" => without_shrink_unfit(),
        "any_stats_header" => any_stats_header(),
        "zst_drain_double_drop" => zst_drain_double_drop(),
        "mut_vec_failed_grow_then_into_slice" => mut_vec_failed_grow_then_into_slice(),
        "zst_slice_fill_clone_panic" => zst_slice_fill_clone_panic(),
        "by_value_lowered_alignment" => by_value_lowered_alignment(),
        _ => {
            eprintln!("usage: findings reset_to_lower_aligned_checkpoint|without_shrink_unfit|any_stats_header");
            std::process::exit(2);
        }
    };
    let _ = NonNull::<u8>::dangling();
    println!("{}", if ok { "CORRECT" } else { "DEFECT" });
    std::process::exit(if ok { 0 } else { 1 });
}
