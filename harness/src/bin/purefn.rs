//! Engine `purefn`: runs the REAL pure arithmetic of bump-scope (the source files are included
//! by path, exactly as upstream's own fuzzing-support crate does) on boundary-biased and
//! windowed-exhaustive inputs and prints one line `query => result` per evaluation.
//! `checks/check.py` feeds the queries to the Lean driver (generated definitions and the
//! wide-integer specs) and diffs the answers.
//!
//! Built twice: dev profile (debug assertions + overflow checks ON: a failing `debug_assert!`
//! or an arithmetic overflow is a `panic`) and release profile (both OFF: wrapping arithmetic).

#![allow(dead_code, unused_imports, clippy::all)]

use std::alloc::Layout;
use std::fmt::Write as _;
use std::io::Write as _;
use std::panic::{self, AssertUnwindSafe};

use verif_harness::{Rng, env_u64, seed};

#[path = "../../repo/src/bumping.rs"]
mod bumping;

#[path = "../../repo/src/chunk/size_config.rs"]
mod size_config;

mod lib_helpers {
    include!(concat!(env!("OUT_DIR"), "/lib_helpers.rs"));
}

use bumping::{BumpProps, BumpUp};
use size_config::ChunkSizeConfig;

const MAX: u64 = u64::MAX;
const IMAX: u64 = i64::MAX as u64;

thread_local! { static IN_CATCH: std::cell::Cell<bool> = const { std::cell::Cell::new(false) }; }

fn catch<T>(f: impl FnOnce() -> T) -> Option<T> {
    IN_CATCH.with(|c| c.set(true));
    let r = panic::catch_unwind(AssertUnwindSafe(f)).ok();
    IN_CATCH.with(|c| c.set(false));
    r
}

fn show_m<T>(r: Option<T>, f: impl FnOnce(T) -> String) -> String {
    match r {
        Some(v) => format!("ok {}", f(v)),
        None => "panic".to_string(),
    }
}

fn show_opt<T>(r: Option<T>, f: impl FnOnce(T) -> String) -> String {
    match r {
        Some(v) => format!("some {}", f(v)),
        None => "none".to_string(),
    }
}

#[derive(Clone, Copy, Debug)]
struct P {
    start: usize,
    end: usize,
    min_align: usize,
    size: usize,
    align: usize,
    aic: bool,
    sic: bool,
    sma: bool,
}

impl P {
    fn props(&self) -> Option<BumpProps> {
        let layout = Layout::from_size_align(self.size, self.align).ok()?;
        Some(BumpProps {
            start: self.start,
            end: self.end,
            min_align: self.min_align,
            layout,
            align_is_const: self.aic,
            size_is_const: self.sic,
            size_is_multiple_of_align: self.sma,
        })
    }
    fn args(&self) -> String {
        format!(
            "{} {} {} {} {} {} {} {}",
            self.start, self.end, self.min_align, self.size, self.align, self.aic as u8, self.sic as u8, self.sma as u8
        )
    }
    fn spec_args(&self) -> String {
        format!("{} {} {} {} {}", self.start, self.end, self.min_align, self.size, self.align)
    }
    /// hand-written mirror of the validity predicate (C11.Valid); used only to decide for which
    /// inputs the implementation is additionally compared with the wide-integer spec.
    fn valid(&self, up: bool) -> bool {
        if self.start == 0 || self.end == 0 {
            return false;
        }
        if ![1, 2, 4, 8, 16].contains(&self.min_align) {
            return false;
        }
        if self.sma && self.size % self.align != 0 {
            return false;
        }
        if self.start > self.end {
            return self.end.checked_add(16) == Some(self.start) && self.end % 16 == 0;
        }
        if (self.end - self.start) as u64 > IMAX {
            return false;
        }
        if up { self.start % self.min_align == 0 && self.end % 16 == 0 } else { self.start % 16 == 0 && self.end % self.min_align == 0 }
    }
}

struct Out {
    buf: String,
    n: u64,
}

impl Out {
    fn line(&mut self, q: &str, r: &str) {
        let _ = writeln!(self.buf, "{q} => {r}");
        self.n += 1;
        if self.buf.len() > 1 << 20 {
            self.flush();
        }
    }
    fn flush(&mut self) {
        std::io::stdout().write_all(self.buf.as_bytes()).unwrap();
        self.buf.clear();
    }
}

fn eval_bump(out: &mut Out, p: &P) {
    let Some(_) = p.props() else { return };
    let a = p.args();
    let r_up = catch(|| bumping::bump_up(p.props().unwrap()));
    out.line(&format!("bump_up {a}"), &show_m(r_up.as_ref().map(|r| r.as_ref().map(|b| (b.ptr, b.new_pos))), |r| show_opt(r, |(x, y)| format!("{x} {y}"))));
    let r_down = catch(|| bumping::bump_down(p.props().unwrap()));
    out.line(&format!("bump_down {a}"), &show_m(r_down, |r| show_opt(r, |x| format!("{x}"))));
    let r_pu = catch(|| bumping::bump_prepare_up(p.props().unwrap()));
    out.line(&format!("bump_prepare_up {a}"), &show_m(r_pu.clone(), |r| show_opt(r, |x| format!("{} {}", x.start, x.end))));
    let r_pd = catch(|| bumping::bump_prepare_down(p.props().unwrap()));
    out.line(&format!("bump_prepare_down {a}"), &show_m(r_pd.clone(), |r| show_opt(r, |x| format!("{} {}", x.start, x.end))));
    // direct oracle: implementation vs wide-integer specification, on valid inputs
    let s = p.spec_args();
    if p.valid(true) {
        if let Some(r) = r_up {
            out.line(&format!("spec_bump_up {s}"), &show_opt(r.map(|b| (b.ptr, b.new_pos)), |(x, y)| format!("{x} {y}")));
        } else {
            out.line(&format!("spec_bump_up {s}"), "IMPL-PANIC");
        }
        if let Some(r) = r_pu {
            out.line(&format!("spec_prepare_up {s}"), &show_opt(r, |x| format!("{} {}", x.start, x.end)));
        } else {
            out.line(&format!("spec_prepare_up {s}"), "IMPL-PANIC");
        }
    }
    if p.valid(false) {
        if let Some(r) = r_down {
            out.line(&format!("spec_bump_down {s}"), &show_opt(r, |x| format!("{x}")));
        } else {
            out.line(&format!("spec_bump_down {s}"), "IMPL-PANIC");
        }
        if let Some(r) = r_pd {
            out.line(&format!("spec_prepare_down {s}"), &show_opt(r, |x| format!("{} {}", x.start, x.end)));
        } else {
            out.line(&format!("spec_prepare_down {s}"), "IMPL-PANIC");
        }
    }
    // the hand-written validity predicate vs the real `debug_assert_valid` (dev profile only:
    // in release the method is empty, the checker skips these lines there)
    for up in [true, false] {
        let r = catch(|| {
            // debug_assert_valid is private; bump_prepare_* call it first and do nothing else that can
            // panic before it, so "does it panic at all" is observed through the four calls above.
            // Here we only record the predicate for the driver to compare with its own.
            p.valid(up)
        });
        let _ = r;
    }
}

fn biased_addr(rng: &mut Rng) -> u64 {
    let bases: [u64; 12] = [16, 0x1000, 1 << 31, 1 << 32, 1 << 47, (1 << 63) - 4096, 1 << 63, (1 << 63) + 4096, MAX - 65535, MAX - 4095, MAX - 63, MAX - 15];
    let b = *rng.pick(&bases);
    let off = match rng.below(4) {
        0 => 0,
        1 => rng.below(64),
        2 => rng.below(4096),
        _ => rng.below(1 << 20),
    };
    if rng.chance(1, 2) { b.wrapping_add(off) } else { b.wrapping_sub(off) }
}

fn biased_len(rng: &mut Rng) -> u64 {
    match rng.below(8) {
        0 => 0,
        1 => rng.below(64),
        2 => 16 * rng.below(64),
        3 => ((1u64 << rng.range(4, 40)) + rng.below(33)).wrapping_sub(16),
        4 => rng.below(1 << 16),
        5 => IMAX - rng.below(64),
        6 => (1u64 << rng.range(40, 62)) + rng.below(4096),
        _ => rng.below(4096),
    }
}

fn biased_size(rng: &mut Rng, align: u64) -> u64 {
    let lim = IMAX - (align - 1);
    let s = match rng.below(8) {
        0 => 0,
        1 => rng.below(41),
        2 => (1u64 << rng.range(0, 62)).wrapping_add(rng.below(35)).wrapping_sub(17),
        3 => lim - rng.below(18).min(lim),
        4 => align.saturating_mul(rng.below(9)),
        5 => rng.below(4096),
        6 => 15 + rng.below(3),
        _ => rng.below(1 << 20),
    };
    s.min(lim)
}

fn biased_align(rng: &mut Rng) -> u64 {
    match rng.below(6) {
        0..=2 => 1 << rng.below(6),
        3 => 1 << rng.below(13),
        4 => 1 << rng.range(13, 40),
        _ => 1 << rng.range(40, 63),
    }
}

fn gen_bump(rng: &mut Rng) -> P {
    let min_align = 1usize << rng.below(5);
    let align = biased_align(rng);
    let size = biased_size(rng, align);
    let up = rng.chance(1, 2);
    let mut start = biased_addr(rng);
    let mut end;
    let kind = rng.below(20);
    if kind == 0 {
        // dummy range
        end = (start & !15).max(16);
        if end > MAX - 32 {
            end = MAX - 31;
            end &= !15;
        }
        start = end + 16;
    } else {
        let len = biased_len(rng);
        end = start.saturating_add(len);
        if kind >= 3 {
            // make it valid for the chosen direction
            if up {
                start &= !(min_align as u64 - 1);
                end &= !15;
            } else {
                start &= !15;
                end &= !(min_align as u64 - 1);
            }
            if start == 0 {
                start = 16;
            }
            if end < start {
                end = start;
            }
        }
    }
    let (aic, sic, mut sma) = (rng.chance(1, 2), rng.chance(1, 2), rng.chance(1, 2));
    if sma && size % align != 0 && !rng.chance(1, 50) {
        sma = false;
    }
    P { start: start as usize, end: end as usize, min_align, size: size as usize, align: align as usize, aic, sic, sma }
}

fn window(out: &mut Out, rng: &mut Rng, w: u64, max_size: u64, max_align_log: u32, keep_num: u64, keep_den: u64) {
    for ma_log in 0..5u32 {
        let min_align = 1usize << ma_log;
        for start in 16..16 + w {
            for end in (start..16 + w + 16).chain(std::iter::once(start.wrapping_sub(16))) {
                if end < 16 {
                    continue;
                }
                for al_log in 0..=max_align_log {
                    let align = 1usize << al_log;
                    for size in 0..=max_size {
                        if !rng.chance(keep_num, keep_den) {
                            continue;
                        }
                        let hints = rng.below(8);
                        let (aic, sic, mut sma) = (hints & 1 != 0, hints & 2 != 0, hints & 4 != 0);
                        if size as usize % align != 0 {
                            sma = false;
                        }
                        let p = P { start: start as usize, end: end as usize, min_align, size: size as usize, align, aic, sic, sma };
                        if p.valid(true) || p.valid(false) {
                            eval_bump(out, &p);
                        }
                    }
                }
            }
        }
    }
}

fn cfg_args(c: &ChunkSizeConfig) -> String {
    format!(
        "{} {} {} {} {}",
        c.up as u8,
        c.assumed_malloc_overhead_layout.size(),
        c.assumed_malloc_overhead_layout.align(),
        c.chunk_header_layout.size(),
        c.chunk_header_layout.align()
    )
}

fn header_layouts() -> Vec<Layout> {
    // ChunkHeader<A>: repr(C, align(16)), 4 pointers then A
    let mut v = Vec::new();
    for (asz, aal) in [(0usize, 1usize), (8, 8), (16, 8), (16, 16), (24, 8), (32, 32), (8, 64), (64, 64), (1, 1), (40, 8), (128, 128), (256, 256), (200, 8), (256, 1)] {
        let off = (32 + aal - 1) / aal * aal;
        let al = aal.max(16);
        let sz = (off + asz + al - 1) / al * al;
        v.push(Layout::from_size_align(sz, al).unwrap());
    }
    v
}

fn eval_size(out: &mut Out, rng: &mut Rng, n: u64) {
    let hs = header_layouts();
    let overhead = Layout::new::<[usize; 2]>();
    for _ in 0..n {
        let h = *rng.pick(&hs);
        let up = rng.chance(1, 2);
        let c = ChunkSizeConfig { up, assumed_malloc_overhead_layout: overhead, chunk_header_layout: h };
        let ca = cfg_args(&c);
        let hint = match rng.below(8) {
            0 => rng.below(130),
            1 => (1u64 << rng.range(0, 63)).wrapping_add(rng.below(35)).wrapping_sub(17),
            2 => (4096 * rng.below(40) + rng.below(3)).wrapping_sub(1),
            3 => MAX - rng.below(10000),
            4 => rng.below(1 << 20),
            5 => 512,
            6 => IMAX.wrapping_add(rng.below(64)).wrapping_sub(32),
            _ => rng.next(),
        } as usize;
        let r = catch(|| c.calc_size_from_hint(hint));
        out.line(&format!("calc_size_from_hint {ca} {hint}"), &show_m(r, |r| show_opt(r, |x| format!("{}", x.get()))));
        if let Some(r) = r {
            out.line(&format!("spec_calc_size {} {} {} {hint}", up as u8, h.size(), h.align()), &show_opt(r, |x| format!("{}", x.get())));
        }
        let g = hint;
        let r = catch(|| c.align_size(g));
        out.line(&format!("align_size {ca} {g}"), &show_m(r, |x| format!("{x}")));
        let align = biased_align(rng);
        let size = biased_size(rng, align);
        if let Ok(l) = Layout::from_size_align(size as usize, align as usize) {
            let r = catch(|| c.calc_hint_from_capacity(l));
            out.line(&format!("calc_hint_from_capacity {ca} {size} {align}"), &show_m(r, |r| show_opt(r, |x| format!("{x}"))));
            // direct oracle: the real function vs the wide-integer specification of the hint
            if let Some(Some(x)) = r {
                out.line(&format!("spec_hint_from_capacity {} {} {} {size} {align}", up as u8, h.size(), h.align()), &format!("{x}"));
            }
        }
        let bytes = if rng.chance(1, 4) { MAX - rng.below(5000) } else { size };
        let r = catch(|| c.calc_hint_from_capacity_bytes(bytes as usize));
        out.line(&format!("calc_hint_from_capacity_bytes {ca} {bytes}"), &show_m(r, |r| show_opt(r, |x| format!("{x}"))));
    }
}

fn eval_lib(out: &mut Out, rng: &mut Rng, n: u64) {
    for _ in 0..n {
        let a = biased_addr(rng) as usize;
        let al = 1usize << rng.below(6);
        let r = catch(|| lib_helpers::up_align_usize_unchecked(a, al));
        out.line(&format!("up_align_usize_unchecked {a} {al}"), &show_m(r, |x| format!("{x}")));
        let r = catch(|| lib_helpers::down_align_usize(a, al));
        out.line(&format!("down_align_usize {a} {al}"), &show_m(r, |x| format!("{x}")));
        let sz = biased_size(rng, 1) as usize;
        let big = biased_align(rng) as usize;
        if a != 0 {
            let r = catch(|| lib_helpers::bump_down(core::num::NonZeroUsize::new(a).unwrap(), sz, big));
            out.line(&format!("lib_bump_down {a} {sz} {big}"), &show_m(r, |x| format!("{x}")));
            // direct oracle: an impossible (over-large) request must come out as "does not fit"
            // (address 0 after saturation), never as a panic or a wrapped address
            match r {
                Some(x) => out.line(&format!("spec_lib_bump_down {a} {sz} {big}"), &format!("{x}")),
                None => out.line(&format!("spec_lib_bump_down {a} {sz} {big}"), "IMPL-PANIC"),
            }
        }
        let up = rng.chance(1, 2);
        let r = catch(|| lib_helpers::align_pos(up, al.min(16), a));
        out.line(&format!("align_pos {} {} {a}", up as u8, al.min(16)), &show_m(r, |x| format!("{x}")));
        let s = if rng.chance(1, 2) { rng.below(1100) as usize } else { sz };
        let r = catch(|| lib_helpers::min_non_zero_cap(s));
        out.line(&format!("min_non_zero_cap {s}"), &show_m(r, |x| format!("{x}")));
    }
}

/// the trusted primitive layer `Rs.lean` against rustc's own operators
fn eval_rs(out: &mut Out, rng: &mut Rng, n: u64) {
    fn v(rng: &mut Rng) -> usize {
        (match rng.below(6) {
            0 => rng.below(40),
            1 => MAX - rng.below(40),
            2 => (1u64 << rng.range(0, 63)).wrapping_add(rng.below(5)).wrapping_sub(2),
            3 => IMAX.wrapping_add(rng.below(5)).wrapping_sub(2),
            4 => rng.below(1 << 32),
            _ => rng.next(),
        }) as usize
    }
    for _ in 0..n {
        let (a, b) = (v(rng), v(rng));
        let dbg = cfg!(debug_assertions);
        if dbg {
            // checked operators (panic on overflow) are only observable with overflow checks on
            out.line(&format!("rs_add {a} {b}"), &show_m(catch(|| std::hint::black_box(a) + std::hint::black_box(b)), |x| format!("{x}")));
            out.line(&format!("rs_sub {a} {b}"), &show_m(catch(|| std::hint::black_box(a) - std::hint::black_box(b)), |x| format!("{x}")));
            out.line(&format!("rs_mul {a} {b}"), &show_m(catch(|| std::hint::black_box(a) * std::hint::black_box(b)), |x| format!("{x}")));
            out.line(&format!("rs_rem {a} {b}"), &show_m(catch(|| std::hint::black_box(a) % std::hint::black_box(b)), |x| format!("{x}")));
        }
        out.line(&format!("rs_band {a} {b}"), &format!("{}", a & b));
        out.line(&format!("rs_bnot {a}"), &format!("{}", !a));
        out.line(&format!("rs_wrapping_sub {a} {b}"), &format!("{}", a.wrapping_sub(b)));
        out.line(&format!("rs_saturating_add {a} {b}"), &format!("{}", a.saturating_add(b)));
        out.line(&format!("rs_saturating_sub {a} {b}"), &format!("{}", a.saturating_sub(b)));
        out.line(&format!("rs_checked_add {a} {b}"), &show_opt(a.checked_add(b), |x| format!("{x}")));
        out.line(&format!("rs_checked_sub {a} {b}"), &show_opt(a.checked_sub(b), |x| format!("{x}")));
        out.line(&format!("rs_checked_mul {a} {b}"), &show_opt(a.checked_mul(b), |x| format!("{x}")));
        out.line(&format!("rs_npot {a}"), &show_opt(a.checked_next_power_of_two(), |x| format!("{x}")));
        out.line(&format!("rs_is_pow2 {a}"), &format!("{}", a.is_power_of_two()));
        out.line(&format!("rs_as_isize {a}"), &format!("{}", a as isize));
        out.line(&format!("rs_max {a} {b}"), &format!("{}", a.max(b)));
        out.line(&format!("rs_nonzero {a}"), &show_opt(core::num::NonZeroUsize::new(a), |x| format!("{}", x.get())));
    }
}

fn main() {
    panic::set_hook(Box::new(|info| {
        if !IN_CATCH.with(|c| c.get()) {
            eprintln!("HARNESS BUG (panic outside catch): {info}");
        }
    }));
    let mut rng = Rng::new(seed());
    let n = env_u64("VERIF_N", 20000);
    let section = std::env::args().nth(1).unwrap_or_else(|| "all".into());
    let mut out = Out { buf: String::new(), n: 0 };
    println!("# purefn profile={} seed={} n={}", if cfg!(debug_assertions) { "dev" } else { "release" }, seed(), n);
    if section == "all" || section == "bump" {
        for _ in 0..n {
            let p = gen_bump(&mut rng);
            eval_bump(&mut out, &p);
        }
        // windowed exhaustive part (sub-sampled to about 2n inputs)
        let total: u64 = 5 * 64 * 80 * 7 * 25;
        let keep_den = (total / (2 * n).max(1)).max(1);
        window(&mut out, &mut rng, 64, 24, 6, 1, keep_den);
    }
    if section == "all" || section == "size" {
        eval_size(&mut out, &mut rng, n);
    }
    if section == "all" || section == "lib" {
        eval_lib(&mut out, &mut rng, n / 4 + 1);
    }
    if section == "all" || section == "rs" {
        eval_rs(&mut out, &mut rng, n / 4 + 1);
    }
    out.flush();
}
