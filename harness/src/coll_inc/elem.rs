// Element types of the `coll` engine: `E` (sized, carries an id) and `Z` (zero-sized), both with an
// observable `Drop` and `Clone`, and the thread-local state of the callback oracle.

#[derive(Clone, Copy, PartialEq, Eq, Debug)]
pub enum Oc {
    Ret(u64),
    Panic,
}

/// payload of a panic raised by an oracle-driven callback (closure, predicate, `Clone`)
pub struct CbPanic;
/// payload of a panic raised by `Drop::drop` of an element
pub struct BombPanic;

thread_local! {
    /// ids whose `Drop::drop` ran (sized elements), in order
    static LOG: RefCell<Vec<u64>> = const { RefCell::new(Vec::new()) };
    /// ids created (`E::make`, `Clone`) since the last `take_created`
    static CREATED: RefCell<Vec<u64>> = const { RefCell::new(Vec::new()) };
    /// ids whose `Drop` panics (once, and never while the thread is already unwinding)
    static BOMBS: RefCell<Vec<u64>> = const { RefCell::new(Vec::new()) };
    /// outcomes of the callbacks of the operation in progress, in call order
    static ORACLE: RefCell<VecDeque<Oc>> = const { RefCell::new(VecDeque::new()) };
    static USED: Cell<usize> = const { Cell::new(0) };
    /// values handed out to the caller or into a callback: kept alive until the trace ends
    static STASH: RefCell<Vec<E>> = const { RefCell::new(Vec::new()) };
    /// an element whose check word did not match its id was observed (garbage read)
    static CORRUPT: Cell<u64> = const { Cell::new(0) };
    /// a `&mut T` returned by `push_mut` / `insert_mut` did not point at the slot the value went into
    static BADREF: Cell<u64> = const { Cell::new(0) };
    /// the arguments every callback of the operation in progress was handed (ids; `NOARG` for a unary callback)
    static ARGS: RefCell<Vec<(u64, u64)>> = const { RefCell::new(Vec::new()) };
    /// the same for the `std::vec::Vec` twin
    static STD_ARGS: RefCell<Vec<(u64, u64)>> = const { RefCell::new(Vec::new()) };
    /// answers a SEMANTIC callback gave (they become the oracle text of the line the model replays)
    static OBSERVED: RefCell<Vec<u64>> = const { RefCell::new(Vec::new()) };
    // zero-sized elements: only counts exist
    static ZCREATED: Cell<u64> = const { Cell::new(0) };
    static ZDROPPED: Cell<u64> = const { Cell::new(0) };
    /// `Some(k)`: the k-th (0-based) `Z::drop` from now on panics
    static ZBOMB: Cell<Option<u64>> = const { Cell::new(None) };
    static ZSTASH: RefCell<Vec<Z>> = const { RefCell::new(Vec::new()) };
}

const MAGIC: u64 = 0x5EED_C0DE_D00D_F00D;

pub fn set_oracle(o: &[Oc], bombs: &[u64]) {
    ORACLE.with(|q| {
        let mut q = q.borrow_mut();
        q.clear();
        q.extend(o.iter().copied());
    });
    USED.with(|u| u.set(0));
    BOMBS.with(|b| {
        let mut b = b.borrow_mut();
        b.clear();
        b.extend_from_slice(bombs);
    });
}
pub fn clear_oracle() {
    ORACLE.with(|q| q.borrow_mut().clear());
    BOMBS.with(|b| b.borrow_mut().clear());
    ZBOMB.with(|z| z.set(None));
}
pub fn used() -> usize {
    USED.with(|u| u.get())
}
pub fn take_log() -> Vec<u64> {
    LOG.with(|l| std::mem::take(&mut *l.borrow_mut()))
}
pub fn peek_log() -> Vec<u64> {
    LOG.with(|l| l.borrow().clone())
}
pub fn take_created() -> Vec<u64> {
    CREATED.with(|l| std::mem::take(&mut *l.borrow_mut()))
}
pub fn stash_ids() -> Vec<u64> {
    STASH.with(|s| s.borrow().iter().map(|e| e.id).collect())
}
pub fn stash_len() -> usize {
    STASH.with(|s| s.borrow().len())
}
pub fn clear_stash() {
    let v: Vec<E> = STASH.with(|s| std::mem::take(&mut *s.borrow_mut()));
    drop(v);
    let z: Vec<Z> = ZSTASH.with(|s| std::mem::take(&mut *s.borrow_mut()));
    drop(z);
}
pub const NOARG: u64 = u64::MAX - 7;
pub fn log_args(a: u64, b: u64) {
    ARGS.with(|l| l.borrow_mut().push((a, b)));
}
pub fn take_args() -> Vec<(u64, u64)> {
    ARGS.with(|l| std::mem::take(&mut *l.borrow_mut()))
}
pub fn std_log_args(a: u64, b: u64) {
    STD_ARGS.with(|l| l.borrow_mut().push((a, b)));
}
pub fn take_std_args() -> Vec<(u64, u64)> {
    STD_ARGS.with(|l| std::mem::take(&mut *l.borrow_mut()))
}
pub fn take_observed() -> Vec<u64> {
    OBSERVED.with(|l| std::mem::take(&mut *l.borrow_mut()))
}
pub fn args_text(a: &[(u64, u64)]) -> String {
    if a.is_empty() {
        "-".to_string()
    } else {
        a.iter().map(|(x, y)| if *y == NOARG { x.to_string() } else { format!("{x}:{y}") }).collect::<Vec<_>>().join(",")
    }
}
/// the non-transitive "same bucket" of the semantic route: ids at most 1 apart
pub fn near_ids(a: u64, b: u64) -> bool {
    a.abs_diff(b) <= 1
}
pub fn bad_refs() -> u64 {
    BADREF.with(|c| c.replace(0))
}
pub fn note_bad_ref() {
    BADREF.with(|c| c.set(c.get() + 1));
}
/// payload of the panic that stands for `Err(_)` of a `try_*` method (the model's refused reservation)
pub struct TryErr;
pub fn try_err() -> ! {
    std::panic::panic_any(TryErr)
}
pub fn corrupt() -> u64 {
    CORRUPT.with(|c| c.replace(0))
}
pub fn zcounts() -> (u64, u64, u64) {
    (ZCREATED.with(|c| c.get()), ZDROPPED.with(|c| c.get()), ZSTASH.with(|s| s.borrow().len() as u64))
}
pub fn zreset() {
    ZCREATED.with(|c| c.set(0));
    ZDROPPED.with(|c| c.set(0));
}
pub fn set_zbomb(k: Option<u64>) {
    ZBOMB.with(|z| z.set(k));
}

fn next_outcome() -> Oc {
    let o = ORACLE.with(|q| q.borrow_mut().pop_front());
    match o {
        Some(o) => {
            USED.with(|u| u.set(u.get() + 1));
            o
        }
        None => Oc::Panic,
    }
}

/// outcome of a callback that returns a number (predicate: != 0; `Clone`/closures: id produced)
fn cb_value() -> u64 {
    match next_outcome() {
        Oc::Ret(v) => v,
        Oc::Panic => std::panic::panic_any(CbPanic),
    }
}

pub trait Elem: Sized + Clone + PartialEq + 'static {
    const ZST: bool;
    fn make(id: u64) -> Self;
    /// a value that takes no part in the create/drop accounting (must never be dropped)
    fn raw(id: u64) -> Self;
    fn ident(&self) -> u64;
    fn stash(self);
    fn pred(e: &mut Self) -> bool {
        log_args(e.ident(), NOARG);
        cb_value() != 0
    }
    fn pred_ref(e: &Self) -> bool {
        log_args(e.ident(), NOARG);
        cb_value() != 0
    }
    fn same(a: &mut Self, b: &mut Self) -> bool {
        log_args(a.ident(), b.ident());
        cb_value() != 0
    }
    /// a `same_bucket` that LOOKS at what it is handed (non-transitive: ids at most 1 apart); what it answered is
    /// recorded and becomes the oracle of the line the model replays
    fn same_sem(a: &mut Self, b: &mut Self) -> bool {
        let (x, y) = (a.ident(), b.ident());
        log_args(x, y);
        let r = near_ids(x, y);
        OBSERVED.with(|l| l.borrow_mut().push(u64::from(r)));
        USED.with(|u| u.set(u.get() + 1));
        r
    }
    /// closure `T -> T` of the mapping operations: the argument is kept (stashed), the result is new
    fn map_cb(e: Self) -> Self {
        log_args(e.ident(), NOARG);
        e.stash();
        Self::make(cb_value())
    }
    fn gen_cb() -> Self {
        Self::make(cb_value())
    }
    /// key function of `dedup_by_key`
    fn key_cb(e: &mut Self) -> u64 {
        log_args(e.ident(), NOARG);
        cb_value()
    }
}

#[derive(Debug)]
pub struct E {
    id: u64,
    check: u64,
}

impl Elem for E {
    const ZST: bool = false;
    fn make(id: u64) -> E {
        CREATED.with(|c| c.borrow_mut().push(id));
        E { id, check: id ^ MAGIC }
    }
    fn raw(id: u64) -> E {
        E { id, check: id ^ MAGIC }
    }
    fn ident(&self) -> u64 {
        if self.check != self.id ^ MAGIC {
            CORRUPT.with(|c| c.set(c.get() + 1));
            return u64::MAX;
        }
        self.id
    }
    fn stash(self) {
        STASH.with(|s| s.borrow_mut().push(self));
    }
}

/// `==` is what the oracle says (like `same`): `dedup()` is `dedup_by(|a, b| a == b)`
impl PartialEq for E {
    fn eq(&self, other: &E) -> bool {
        log_args(self.ident(), other.ident());
        cb_value() != 0
    }
}

impl Clone for E {
    fn clone(&self) -> E {
        self.ident();
        E::make(cb_value())
    }
}

impl Drop for E {
    fn drop(&mut self) {
        let id = self.ident();
        LOG.with(|l| l.borrow_mut().push(id));
        if !std::thread::panicking() {
            let bomb = BOMBS.with(|b| {
                let mut b = b.borrow_mut();
                if let Some(p) = b.iter().position(|x| *x == id) {
                    b.remove(p);
                    true
                } else {
                    false
                }
            });
            if bomb {
                std::panic::panic_any(BombPanic);
            }
        }
    }
}

#[derive(Debug)]
pub struct Z;

impl Elem for Z {
    const ZST: bool = true;
    fn make(_id: u64) -> Z {
        ZCREATED.with(|c| c.set(c.get() + 1));
        Z
    }
    fn raw(_id: u64) -> Z {
        Z
    }
    fn ident(&self) -> u64 {
        0
    }
    fn stash(self) {
        ZSTASH.with(|s| s.borrow_mut().push(self));
    }
}

impl PartialEq for Z {
    fn eq(&self, _other: &Z) -> bool {
        cb_value() != 0
    }
}

impl Clone for Z {
    fn clone(&self) -> Z {
        cb_value();
        Z::make(0)
    }
}

impl Drop for Z {
    fn drop(&mut self) {
        ZDROPPED.with(|c| c.set(c.get() + 1));
        if !std::thread::panicking() {
            let fire = ZBOMB.with(|z| match z.get() {
                Some(0) => {
                    z.set(None);
                    true
                }
                Some(k) => {
                    z.set(Some(k - 1));
                    false
                }
                None => false,
            });
            if fire {
                std::panic::panic_any(BombPanic);
            }
        }
    }
}
