// Routes of the `BumpVec` API that the step machinery does not reach (oracle only; run in profile `split`):
// conversions (`into_boxed_slice`, `into_fixed_vec`, `into_slice`) and the results of `shrink_to_fit` /
// `split_off` / `map` / `into_flattened`, each followed by ANOTHER allocation from the same arena and a re-read
// (a stale buffer pointer shows up there), then dropped: every value exactly once; the constructors
// `from_elem_in`, `from_iter_in` (honest / under- / over-reporting hint), `from_iter_exact_in`,
// `from_owned_slice_in`; `extend_from_slice_copy` / `extend_from_within_copy` against `Vec`.
// Both bump directions and minimum alignments 1 / 8 / 16.

fn misc_ids<T: Elem>(s: &[T]) -> Vec<u64> {
    s.iter().map(|e| e.ident()).collect()
}

/// one of five callbacks that look at (and write through) their arguments
macro_rules! value_cb {
    ($w:expr, $f:expr, $retain:ident) => {
        match $f {
            0 => $w.dedup_by(|a, b| if a.0 == b.0 { b.1 += a.1; true } else { false }),
            1 => $w.dedup_by(|a, b| a.0.abs_diff(b.0) <= 1),
            2 => $w.dedup_by(|a, b| { b.1 += 1; a.0 + b.1 > 5 }),
            3 => $w.dedup_by_key(|x| x.0 / 2),
            _ => $w.$retain(|x| { x.1 += 10; x.0 % 2 == 0 }),
        }
    };
}

macro_rules! misc_with_settings {
    ($fname:ident, $S:ty, $sname:literal) => {
        fn $fname(ctx: &mut Ctx) {
            for len in 0..=6usize {
                for spare in [0usize, 1, 4] {
                    for which in 0..10u8 {
                        ctx.next_id = 1;
                        zreset();
                        let _ = take_log();
                        let _ = take_created();
                        clear_stash();
                        let bump: Bump<Global, $S> = Bump::new();
                        let _pad = bump.alloc(0x3Cu8);
                        let ids: Vec<u64> = (0..len).map(|_| ctx.fresh()).collect();
                        let mut v: BumpVec<E, &Bump<Global, $S>> = BumpVec::with_capacity_in(len + spare, &bump);
                        for i in &ids {
                            v.push(E::make(*i));
                        }
                        let cap0 = v.capacity();
                        let _ = take_created();
                        ctx.oracle_checks += 1;
                        let poke = |n: usize| -> bool { bump.alloc_slice_fill(8 + n * 24, 0xB9u8).iter().all(|b| *b == 0xB9) };
                        let what = |name: &str| format!("BumpVec({}) len={len} cap={cap0} {name}", $sname);
                        let mut expect_drops: Vec<u64> = ids.clone();
                        match which {
                            0 => {
                                *ctx.op_hist.entry("into_boxed_slice".to_string()).or_insert(0) += 1;
                                let b = v.into_boxed_slice();
                                let first = misc_ids(&b);
                                let ok = poke(len);
                                let again = misc_ids(&b);
                                if first != ids || again != ids || b.len() != len || !ok || corrupt() > 0 {
                                    ctx.oracle("C08", format!("{}: holds {} / after another allocation {} (expected {})", what("into_boxed_slice"), csv(&first), csv(&again), csv(&ids)));
                                }
                                drop(b);
                            }
                            1 => {
                                *ctx.op_hist.entry("into_fixed_vec".to_string()).or_insert(0) += 1;
                                let mut f = v.into_fixed_vec();
                                let first = misc_ids(&f);
                                let ok = poke(len);
                                let again = misc_ids(&f);
                                if first != ids || again != ids || f.len() != len || f.capacity() != cap0 || !ok || corrupt() > 0 {
                                    ctx.oracle("C08", format!("{}: holds {} / after another allocation {} (expected {}), capacity {}", what("into_fixed_vec"), csv(&first), csv(&again), csv(&ids), f.capacity()));
                                }
                                // the capacity is real
                                while f.len() < f.capacity() {
                                    let id = ctx.fresh();
                                    f.push(E::make(id));
                                    expect_drops.push(id);
                                }
                                if misc_ids(&f) != expect_drops || corrupt() > 0 {
                                    ctx.oracle("C08", format!("{}: after filling the capacity it holds {}", what("into_fixed_vec"), csv(&misc_ids(&f))));
                                }
                                drop(f);
                            }
                            2 => {
                                *ctx.op_hist.entry("shrink_to_fit+poke".to_string()).or_insert(0) += 1;
                                v.shrink_to_fit();
                                let first = misc_ids(&v);
                                let ok = poke(len);
                                let again = misc_ids(&v);
                                if first != ids || again != ids || v.capacity() < len || v.capacity() > cap0 || !ok || corrupt() > 0 {
                                    ctx.oracle("C08", format!("{}: holds {} / after another allocation {} (expected {}), capacity {}", what("shrink_to_fit"), csv(&first), csv(&again), csv(&ids), v.capacity()));
                                }
                                // it keeps working (it has to move now: it is not the last allocation any more)
                                let id = ctx.fresh();
                                v.push(E::make(id));
                                expect_drops.push(id);
                                if misc_ids(&v) != expect_drops {
                                    ctx.oracle("C08", format!("{}: after a push it holds {}", what("shrink_to_fit"), csv(&misc_ids(&v))));
                                }
                                drop(v);
                            }
                            3 => {
                                *ctx.op_hist.entry("shrink_to+poke".to_string()).or_insert(0) += 1;
                                for m in [len / 2, len, len + spare / 2, len + spare, len + spare + 2] {
                                    v.shrink_to(m);
                                    let first = misc_ids(&v);
                                    let ok = poke(m);
                                    let again = misc_ids(&v);
                                    if first != ids || again != ids || v.capacity() < len || v.capacity() > cap0 || !ok || corrupt() > 0 {
                                        ctx.oracle("C08", format!("{}: holds {} / after another allocation {} (expected {}), capacity {}", what(&format!("shrink_to({m})")), csv(&first), csv(&again), csv(&ids), v.capacity()));
                                    }
                                }
                                drop(v);
                            }
                            4 => {
                                *ctx.op_hist.entry("split_off+poke".to_string()).or_insert(0) += 1;
                                let (a, b) = (len / 3, len - len / 3);
                                let tail = v.split_off(a..b);
                                let want_tail: Vec<u64> = ids[a..b].to_vec();
                                let mut want_self: Vec<u64> = ids[..a].to_vec();
                                want_self.extend_from_slice(&ids[b..]);
                                let ok = poke(len);
                                if misc_ids(&v) != want_self || misc_ids(&tail) != want_tail || !ok || corrupt() > 0 {
                                    ctx.oracle("C16", format!("{}: parts {} and {} after another allocation (expected {} and {})", what(&format!("split_off({a}..{b})")), csv(&misc_ids(&v)), csv(&misc_ids(&tail)), csv(&want_self), csv(&want_tail)));
                                }
                                drop(tail);
                                drop(v);
                            }
                            5 => {
                                *ctx.op_hist.entry("map(same layout)+poke".to_string()).or_insert(0) += 1;
                                let outs: Vec<u64> = (0..len).map(|_| ctx.fresh()).collect();
                                let o: Vec<Oc> = outs.iter().map(|i| Oc::Ret(*i)).collect();
                                set_oracle(&o, &[]);
                                let w = v.map(E::map_cb);
                                clear_oracle();
                                let ok = poke(len);
                                if misc_ids(&w) != outs || !ok || corrupt() > 0 {
                                    ctx.oracle("C08", format!("{}: holds {} after another allocation (expected {})", what("map"), csv(&misc_ids(&w)), csv(&outs)));
                                }
                                drop(w);
                                clear_stash();
                                expect_drops.extend_from_slice(&outs);
                            }
                            6 => {
                                *ctx.op_hist.entry("from_iter_in / from_iter_exact_in / from_owned_slice_in".to_string()).or_insert(0) += 1;
                                drop(v);
                                for route in 0..5u8 {
                                    let src_ids: Vec<u64> = (0..len).map(|_| ctx.fresh()).collect();
                                    let src: Vec<E> = src_ids.iter().map(|i| E::make(*i)).collect();
                                    let w: BumpVec<E, &Bump<Global, $S>> = match route {
                                        0 => BumpVec::from_iter_exact_in(src, &bump),
                                        1 => BumpVec::from_owned_slice_in(src, &bump),
                                        2 => BumpVec::from_iter_in(Hinted { inner: src.into_iter(), cap: 1_000_000, lie: None, panic_at: None, calls: 0 }, &bump),
                                        3 => BumpVec::from_iter_in(Hinted { inner: src.into_iter(), cap: 1, lie: None, panic_at: None, calls: 0 }, &bump),
                                        _ => BumpVec::from_iter_in(Hinted { inner: src.into_iter(), cap: 0, lie: Some(len + 2), panic_at: None, calls: 0 }, &bump),
                                    };
                                    let ok = poke(len);
                                    if misc_ids(&w) != src_ids || w.capacity() < w.len() || !ok || corrupt() > 0 {
                                        ctx.oracle("C08", format!("{}: constructor route {route} holds {} cap {} (expected {})", what("from_*_in"), csv(&misc_ids(&w)), w.capacity(), csv(&src_ids)));
                                    }
                                    if (route == 0 || route == 1) && len > 0 && w.capacity() != len {
                                        ctx.oracle("C08", format!("{}: exact constructor route {route} has capacity {} for {len} elements", what("from_*_in"), w.capacity()));
                                    }
                                    drop(w);
                                    expect_drops.extend_from_slice(&src_ids);
                                }
                            }
                            7 => {
                                *ctx.op_hist.entry("from_elem_in".to_string()).or_insert(0) += 1;
                                drop(v);
                                let orig = ctx.fresh();
                                let clones: Vec<u64> = (0..len.saturating_sub(1)).map(|_| ctx.fresh()).collect();
                                let o: Vec<Oc> = clones.iter().map(|i| Oc::Ret(*i)).collect();
                                set_oracle(&o, &[]);
                                let w: BumpVec<E, &Bump<Global, $S>> = BumpVec::from_elem_in(E::make(orig), len, &bump);
                                let used_n = used();
                                clear_oracle();
                                let mut got = misc_ids(&w);
                                got.sort_unstable();
                                let mut want = clones.clone();
                                if len > 0 {
                                    want.push(orig);
                                }
                                want.sort_unstable();
                                if got != want || w.len() != len || used_n != len.saturating_sub(1) || w.capacity() < len {
                                    ctx.oracle("C08", format!("{}: holds {} ({} clones made; expected {})", what("from_elem_in"), csv(&misc_ids(&w)), used_n, csv(&want)));
                                }
                                drop(w);
                                expect_drops.push(orig);
                                expect_drops.extend_from_slice(&clones);
                            }
                            9 => {
                                // callbacks that LOOK at their arguments and WRITE through them: `dedup_by` with std's
                                // accumulate example and with a non-transitive predicate, `dedup_by_key`, `dedup`,
                                // `retain` — on every owner, against `Vec`
                                *ctx.op_hist.entry("dedup_by / dedup_by_key / dedup / retain (value-level callbacks)".to_string()).or_insert(0) += 1;
                                drop(v);
                                for round in 0..6u64 {
                                    let n = len + (round as usize % 3) * 3;
                                    let data: Vec<(u64, u64)> = (0..n).map(|_| (ctx.rng.below(4) + round % 2, 1 + ctx.rng.below(3))).collect();
                                    for owner in 0..3u8 {
                                        for f in 0..5u8 {
                                            let mut sv = data.clone();
                                            value_cb!(sv, f, retain_mut);
                                            let got: Vec<(u64, u64)> = match owner {
                                                0 => {
                                                    let mut w = bump.alloc_slice_copy(&data);
                                                    value_cb!(w, f, retain);
                                                    w.to_vec()
                                                }
                                                1 => {
                                                    let mut w: BumpVec<(u64, u64), &Bump<Global, $S>> = BumpVec::from_iter_in(data.iter().copied(), &bump);
                                                    value_cb!(w, f, retain);
                                                    w.to_vec()
                                                }
                                                _ => {
                                                    let mut w: FixedBumpVec<(u64, u64)> = FixedBumpVec::with_capacity_in(n + 1, &bump);
                                                    w.extend_from_slice_copy(&data);
                                                    value_cb!(w, f, retain);
                                                    w.to_vec()
                                                }
                                            };
                                            ctx.oracle_checks += 1;
                                            if got != sv {
                                                ctx.oracle("C08", format!("{} owner {owner} callback {f} ({}) on {:?}: got {:?}, Vec gives {:?}", what("value-level callback"), ["dedup_by accumulate (writes through b)", "dedup_by |a-b|<=1 (non-transitive)", "dedup_by counting through b", "dedup_by_key", "retain_mut writing"][f as usize], data, got, sv));
                                            }
                                        }
                                    }
                                }
                            }
                            _ => {
                                *ctx.op_hist.entry("extend_from_slice_copy / extend_from_within_copy / into_slice".to_string()).or_insert(0) += 1;
                                drop(v);
                                let nums: Vec<u64> = (0..len as u64).map(|i| 1000 + i).collect();
                                let mut w: BumpVec<u64, &Bump<Global, $S>> = BumpVec::with_capacity_in(spare, &bump);
                                let mut sv: Vec<u64> = Vec::new();
                                w.extend_from_slice_copy(&nums);
                                sv.extend_from_slice(&nums);
                                let (a, b) = (len / 3, len - len / 4);
                                w.extend_from_within_copy(a..b);
                                sv.extend_from_within(a..b);
                                let ok = poke(len);
                                w.extend_from_slice_copy(&nums[..len / 2]);
                                sv.extend_from_slice(&nums[..len / 2]);
                                if w.as_slice() != sv.as_slice() || w.capacity() < w.len() || !ok {
                                    ctx.oracle("C08", format!("{}: BumpVec<u64> holds {:?}, Vec holds {:?}", what("extend_from_slice_copy / extend_from_within_copy"), w.as_slice(), sv));
                                }
                                // out-of-range source: both must panic and leave the vector alone
                                let r = catch_unwind(AssertUnwindSafe(|| w.extend_from_within_copy(0..sv.len() + 1)));
                                if r.is_ok() || w.as_slice() != sv.as_slice() {
                                    ctx.oracle("C08", format!("{}: out-of-range extend_from_within_copy returned / changed the vector", what("extend_from_within_copy")));
                                }
                                // bounds that cannot be normalised at all: an excluded start / included end of usize::MAX
                                for (k, r) in [(std::ops::Bound::Excluded(usize::MAX), std::ops::Bound::Unbounded), (std::ops::Bound::Unbounded, std::ops::Bound::Included(usize::MAX)), (std::ops::Bound::Excluded(sv.len()), std::ops::Bound::Unbounded)].into_iter().enumerate() {
                                    let r1 = catch_unwind(AssertUnwindSafe(|| w.extend_from_within_copy(r))).is_err();
                                    let r2 = catch_unwind(AssertUnwindSafe(|| { w.drain(r); })).is_err();
                                    let r3 = catch_unwind(AssertUnwindSafe(|| { let t = w.split_off(r); drop(t); })).is_err();
                                    let rs = catch_unwind(AssertUnwindSafe(|| { let mut c = sv.clone(); c.drain(r); })).is_err();
                                    ctx.oracle_checks += 1;
                                    if !(r1 && r2 && r3 && rs) || w.as_slice() != sv.as_slice() {
                                        ctx.oracle("C08", format!("{}: range bound case {k} ({:?}): extend_from_within_copy panicked={r1} drain panicked={r2} split_off panicked={r3} (std drain panicked={rs}); vector {:?} (expected untouched {:?})", what("range bounds"), r, w.as_slice(), sv));
                                    }
                                }
                                let s: &mut [u64] = w.into_slice();
                                let ok2 = poke(1);
                                if s != sv.as_slice() || !ok2 {
                                    ctx.oracle("C08", format!("{}: the slice reads {:?} after another allocation (expected {:?})", what("into_slice"), s, sv));
                                }
                            }
                        }
                        // every value that existed was destructed exactly once by now (values moved into closures were
                        // stashed and dropped by `clear_stash`)
                        clear_stash();
                        let mut drops = take_log();
                        drops.sort_unstable();
                        expect_drops.sort_unstable();
                        if drops != expect_drops {
                            ctx.oracle("C06", format!("{} (case {which}): destructor calls {} (expected exactly {})", what("round trip"), csv(&drops), csv(&expect_drops)));
                        }
                        let _ = take_created();
                    }
                }
            }
            print!("{}", ctx.out);
            ctx.out.clear();
        }
    };
}
misc_with_settings!(misc_s1u, S1U, "min-align 1 up");
misc_with_settings!(misc_s1d, S1D, "min-align 1 down");
misc_with_settings!(misc_s8u, S8U, "min-align 8 up");
misc_with_settings!(misc_s16d, S16D, "min-align 16 down");

pub fn run_misc(ctx: &mut Ctx) {
    misc_s1u(ctx);
    misc_s1d(ctx);
    misc_s8u(ctx);
    misc_s16d(ctx);
}

/// `BumpVec::splice` pulled from BOTH ends and then dropped with a destructor of a still-unyielded element
/// panicking (the only way `Drain::drop` of the private drain runs with a non-empty iterator): every range of at
/// least two elements of small vectors, short front/back scripts, each unyielded element as the bomb.  Through the
/// step machinery: replay on the model, exactly-once accounting, contents.
pub fn run_splice_back(ctx: &mut Ctx) {
    let pick = (seed() % 4) as u8;
    for settings in [pick, pick ^ 1] {
        for len in 2..=6usize {
            for s in 0..len {
                for e in s + 2..=len {
                    for script in [&b"b"[..], b"fb", b"bb", b"bf", b"bbf"] {
                        if script.len() >= e - s {
                            continue;
                        }
                        let nf = script.iter().filter(|c| **c == b'f').count();
                        let nb = script.len() - nf;
                        // ids are 1..=len: the unyielded ones are s+nf+1 ..= e-nb
                        for bomb in (s + nf + 1) as u64..=(e - nb) as u64 {
                            for n in [0usize, 2] {
                                ctx.next_id = 1;
                                let ids: Vec<u64> = (0..len).map(|_| ctx.fresh()).collect();
                                let src: Vec<u64> = (0..n).map(|_| ctx.fresh()).collect();
                                ctx.count("splice-back:bomb among the unyielded elements after back pulls");
                                let spec = Spec {
                                    kind: Kind::Bump,
                                    zst: false,
                                    settings,
                                    ids,
                                    cap: len + 1,
                                    script: Some(vec![Step { op: Op::Splice(s, e, src, script.to_vec(), 1_000_000, None), oracle: vec![], bombs: vec![bomb] }]),
                                    nops: 0,
                                    label: "splice-back",
                                };
                                ctx.trace_no += 1;
                                run_spec(ctx, &spec);
                                print!("{}", ctx.out);
                                ctx.out.clear();
                            }
                        }
                    }
                }
            }
        }
    }
}
