// Growth across chunks with `Copy` elements (profiles `mutgrow` and `std`): `MutBumpVec<u64>`, `MutBumpVecRev<u64>`
// and `BumpVec<u64>` next to `Vec<u64>` / `VecDeque<u64>`, EVERY growth-capable operation (push, insert,
// extend_from_slice_copy / _clone, extend_from_within_copy / _clone, Extend::extend with an under-reporting hint,
// resize, resize_with, append, reserve, reserve_exact, and their try_ twins) at sizes that make the vector move
// into a bigger chunk.  The later chunks of the arena were filled with a recognisable pattern before (allocate,
// fill, leave the scope), so that something copied to / read from the wrong place cannot look right by accident.
// After every operation contents and length are compared; a `BumpVec` (shared arena) is followed by another
// allocation from the same arena and a re-read.

const MUTNUM_PATTERN: u64 = 0xEEEE_EEEE_EEEE_EEEE;

#[derive(Clone, Copy, PartialEq, Eq, Debug)]
enum NKind {
    Mut,
    Rev,
    Bump,
}

/// the reference: `front = index 0`; `rev` puts new material in FRONT (in its own order), otherwise at the back
fn mutnum_model(sv: &mut VecDeque<u64>, rev: bool, op: u8, a: usize, b: usize, vals: &[u64]) -> Result<(), ()> {
    match op {
        // push
        0 => {
            if rev { sv.push_front(vals[0]) } else { sv.push_back(vals[0]) }
        }
        // insert(a, x)
        1 => {
            if a > sv.len() {
                return Err(());
            }
            sv.insert(a, vals[0]);
        }
        // extend_from_slice_copy / _clone / append: the whole source, in order
        2 | 3 | 9 => {
            if rev {
                for x in vals.iter().rev() {
                    sv.push_front(*x);
                }
            } else {
                sv.extend(vals.iter().copied());
            }
        }
        // extend_from_within_copy / _clone (a..b)
        4 | 5 => {
            if a > b || b > sv.len() {
                return Err(());
            }
            let part: Vec<u64> = sv.iter().skip(a).take(b - a).copied().collect();
            if rev {
                for x in part.iter().rev() {
                    sv.push_front(*x);
                }
            } else {
                sv.extend(part);
            }
        }
        // Extend::extend: one push per item
        6 => {
            for x in vals {
                if rev { sv.push_front(*x) } else { sv.push_back(*x) }
            }
        }
        // resize(a, x) / resize_with(a, || x)
        7 | 8 => {
            while sv.len() > a {
                if rev { sv.pop_front(); } else { sv.pop_back(); }
            }
            while sv.len() < a {
                if rev { sv.push_front(vals[0]) } else { sv.push_back(vals[0]) }
            }
        }
        // reserve / reserve_exact
        _ => {}
    }
    Ok(())
}

macro_rules! mutnum_ops {
    ($v:ident, $op:expr, $try_:expr, $a:expr, $b:expr, $vals:expr, $hint:expr) => {{
        let (a, b): (usize, usize) = ($a, $b);
        let vals: &[u64] = $vals;
        match ($op, $try_) {
            (0, false) => $v.push(vals[0]),
            (0, true) => $v.try_push(vals[0]).expect("try_push with memory available"),
            (1, false) => $v.insert(a, vals[0]),
            (1, true) => $v.try_insert(a, vals[0]).expect("try_insert with memory available"),
            (2, false) => $v.extend_from_slice_copy(vals),
            (2, true) => $v.try_extend_from_slice_copy(vals).expect("try_extend_from_slice_copy"),
            (3, false) => $v.extend_from_slice_clone(vals),
            (3, true) => $v.try_extend_from_slice_clone(vals).expect("try_extend_from_slice_clone"),
            (4, false) => $v.extend_from_within_copy(form_range(a, b, $v.len())),
            (4, true) => $v.try_extend_from_within_copy(form_range(a, b, $v.len())).expect("try_extend_from_within_copy"),
            (5, false) => $v.extend_from_within_clone(form_range(a, b, $v.len())),
            (5, true) => $v.try_extend_from_within_clone(form_range(a, b, $v.len())).expect("try_extend_from_within_clone"),
            (6, _) => $v.extend(Hinted { inner: vals.to_vec().into_iter(), cap: $hint, lie: None, panic_at: None, calls: 0 }),
            (7, false) => $v.resize(a, vals[0]),
            (7, true) => $v.try_resize(a, vals[0]).expect("try_resize"),
            (8, false) => {
                let x = vals[0];
                $v.resize_with(a, || x)
            }
            (8, true) => {
                let x = vals[0];
                $v.try_resize_with(a, || x).expect("try_resize_with")
            }
            (9, false) => $v.append(vals.to_vec()),
            (9, true) => $v.try_append(vals.to_vec()).expect("try_append"),
            (10, false) => $v.reserve(a),
            (10, true) => $v.try_reserve(a).expect("try_reserve"),
            (_, false) => $v.reserve_exact(a),
            (_, true) => $v.try_reserve_exact(a).expect("try_reserve_exact"),
        }
    }};
}

const MUTNUM_NAMES: [&str; 12] = [
    "push", "insert", "extend_from_slice_copy", "extend_from_slice_clone", "extend_from_within_copy", "extend_from_within_clone",
    "Extend::extend", "resize", "resize_with", "append", "reserve", "reserve_exact",
];

macro_rules! mutnum_with_settings {
    ($fname:ident, $S:ty, $sname:literal) => {
        fn $fname(ctx: &mut Ctx, kind: NKind, nops: usize) {
            let mut bump: Bump<Global, $S> = Bump::new();
            // later chunks / freed memory hold a recognisable pattern
            bump.scoped(|s| {
                for k in 0..4usize {
                    let block = s.alloc_slice_fill(600 + 900 * k, MUTNUM_PATTERN);
                    std::hint::black_box(&block);
                }
            });
            let cap0 = ctx.rng.below(7) as usize;
            let mut next_val = 1u64;
            let mut sv: VecDeque<u64> = VecDeque::new();
            macro_rules! drive {
                ($v:ident, $poke:expr) => {{
                    for step in 0..nops {
                        let len = sv.len();
                        let op = ctx.rng.below(12) as u8;
                        let try_ = ctx.rng.chance(1, 3);
                        // mostly more than the vector owns
                        let n = match ctx.rng.below(4) {
                            0 => 1 + ctx.rng.below(4) as usize,
                            1 => 5 + ctx.rng.below(20) as usize,
                            2 => 30 + ctx.rng.below(60) as usize,
                            _ => ($v.capacity() - len) + 1 + ctx.rng.below(8) as usize,
                        };
                        let (a, b, nvals): (usize, usize, usize) = match op {
                            0 => (0, 0, 1),
                            1 => (ctx.rng.below(len as u64 + 1) as usize, 0, 1),
                            2 | 3 | 6 | 9 => (0, 0, n),
                            4 | 5 => {
                                let x = ctx.rng.below(len as u64 + 1) as usize;
                                let y = ctx.rng.below(len as u64 + 1) as usize;
                                // often the whole vector: `len + range.len() > capacity` as soon as it is more than half full
                                if ctx.rng.chance(1, 2) { (0, len, 0) } else { (x.min(y), x.max(y), 0) }
                            }
                            7 | 8 => (if ctx.rng.chance(1, 5) { len / 2 } else { len + n }, 0, 1),
                            _ => (n, 0, 0),
                        };
                        let vals: Vec<u64> = (0..nvals).map(|_| { next_val += 1; next_val }).collect();
                        let hint = if ctx.rng.chance(1, 2) { 0 } else { n / 2 };
                        let pre_cap = $v.capacity();
                        let grows = match op {
                            0 | 1 => len + 1 > pre_cap,
                            2 | 3 | 6 | 9 => len + nvals > pre_cap,
                            4 | 5 => len + (b - a) > pre_cap,
                            7 | 8 => a > pre_cap,
                            _ => len + a > pre_cap,
                        };
                        *ctx.op_hist.entry(format!("mutnum:{}{}", if try_ { "try_" } else { "" }, MUTNUM_NAMES[op as usize])).or_insert(0) += 1;
                        ctx.count(if grows { "mutnum:operation has to grow the vector" } else { "mutnum:operation fits" });
                        ctx.oracle_checks += 1;
                        let want = mutnum_model(&mut sv, kind == NKind::Rev, op, a, b, &vals);
                        if want.is_err() {
                            continue; // (arguments out of range are the business of the step machinery)
                        }
                        // (printed BEFORE the call: a copy to the wrong place may abort the process — debug builds check
                        // the preconditions of `ptr::copy_nonoverlapping` — and this line is then the failing input)
                        println!("# mutnum {:?}<u64>({}) next: `{}{}` a={a} b={b} n={nvals} on len={len} cap={pre_cap}{}", kind, $sname, if try_ { "try_" } else { "" }, MUTNUM_NAMES[op as usize], if grows { " [has to grow]" } else { "" });
                        mutnum_ops!($v, op, try_, a, b, &vals, hint);
                        let got: Vec<u64> = $v.as_slice().to_vec();
                        let exp: Vec<u64> = sv.iter().copied().collect();
                        let poked_ok = $poke;
                        let again: Vec<u64> = $v.as_slice().to_vec();
                        if got != exp || again != exp || !poked_ok || $v.len() > $v.capacity() {
                            let what = format!("{:?}<u64>({}) step {step} `{}{}` (a={a} b={b} n={nvals}) from len={len} cap={pre_cap}{}", kind, $sname, if try_ { "try_" } else { "" }, MUTNUM_NAMES[op as usize], if grows { " [has to grow]" } else { "" });
                            let show = |v: &[u64]| -> String { v.iter().map(|x| if *x == MUTNUM_PATTERN { "PATTERN".to_string() } else { x.to_string() }).collect::<Vec<_>>().join(",") };
                            let msg = format!("{what}: holds [{}]{} — std gives [{}]", show(&got), if again != got { format!(" (after another allocation: [{}])", show(&again)) } else { String::new() }, show(&exp));
                            ctx.oracle("C08", msg.clone());
                            if kind != NKind::Bump {
                                ctx.oracle("C15", msg);
                            }
                            return;
                        }
                    }
                }};
            }
            match kind {
                NKind::Mut => {
                    let mut v: MutBumpVec<u64, &mut Bump<Global, $S>> = MutBumpVec::with_capacity_in(cap0, &mut bump);
                    drive!(v, true);
                }
                NKind::Rev => {
                    let mut v: MutBumpVecRev<u64, &mut Bump<Global, $S>> = MutBumpVecRev::with_capacity_in(cap0, &mut bump);
                    drive!(v, true);
                }
                NKind::Bump => {
                    let b = &bump;
                    let mut v: BumpVec<u64, &Bump<Global, $S>> = BumpVec::with_capacity_in(cap0, b);
                    drive!(v, {
                        if ctx.rng.chance(1, 2) {
                            b.alloc_slice_fill(3 + v.len() % 7, MUTNUM_PATTERN).iter().all(|x| *x == MUTNUM_PATTERN)
                        } else {
                            true
                        }
                    });
                }
            }
        }
    };
}
mutnum_with_settings!(mutnum_s1u, S1U, "min-align 1 up");
mutnum_with_settings!(mutnum_s1d, S1D, "min-align 1 down");
mutnum_with_settings!(mutnum_s8u, S8U, "min-align 8 up");
mutnum_with_settings!(mutnum_s16d, S16D, "min-align 16 down");

pub fn run_mutnum(ctx: &mut Ctx, traces: usize) {
    for t in 0..traces {
        let kind = [NKind::Mut, NKind::Rev, NKind::Bump][t % 3];
        let nops = 4 + ctx.rng.below(10) as usize;
        match ctx.rng.below(4) {
            0 => mutnum_s1u(ctx, kind, nops),
            1 => mutnum_s1d(ctx, kind, nops),
            2 => mutnum_s8u(ctx, kind, nops),
            _ => mutnum_s16d(ctx, kind, nops),
        }
    }
    print!("{}", ctx.out);
    ctx.out.clear();
}
