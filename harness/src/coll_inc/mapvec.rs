// `BumpVec::map` (`generic_map`, src/bump_vec.rs l.2360-2441): every layout case of the result type (same
// layout, smaller, much smaller, bigger, same size but stricter alignment, zero-sized in / out), every
// length / spare capacity, the closure panicking at every call.  Sized cases are replayed on the model
// (`op map_vec …`); all cases are checked by the direct oracles (contents, promised capacity, the buffer is
// really that big: filling it moves nothing and touches no neighbour, exactly-once drops).

/// a result type of `map`; its `Drop` is logged like the one of `E`
pub trait OutElem: Sized + 'static {
    const NAME: &'static str;
    fn make_out(id: u64) -> Self;
    fn out_id(&self) -> u64;
}

fn out_drop(id: u64) {
    LOG.with(|l| l.borrow_mut().push(id));
    if !std::thread::panicking() {
        let bomb = BOMBS.with(|b| {
            let mut b = b.borrow_mut();
            if let Some(p) = b.iter().position(|x| *x == id) {
                b.remove(p);
                true
            } else {
                false
            }
        });
        if bomb {
            std::panic::panic_any(BombPanic);
        }
    }
}

macro_rules! out_elem {
    ($name:ident, $txt:literal, $int:ty, [$($attr:meta),*], { $($extra:ident : $ety:ty = $eval:expr),* }) => {
        $(#[$attr])*
        #[derive(Debug)]
        pub struct $name {
            id: $int,
            check: $int,
            $($extra: $ety,)*
        }
        impl OutElem for $name {
            const NAME: &'static str = $txt;
            fn make_out(id: u64) -> Self {
                CREATED.with(|c| c.borrow_mut().push(id));
                $name { id: id as $int, check: !(id as $int), $($extra: $eval,)* }
            }
            fn out_id(&self) -> u64 {
                if self.check != !self.id {
                    CORRUPT.with(|c| c.set(c.get() + 1));
                    return u64::MAX;
                }
                self.id as u64
            }
        }
        impl Drop for $name {
            fn drop(&mut self) {
                let id = self.out_id();
                out_drop(id);
            }
        }
    };
}
out_elem!(S8, "small(8/4)", u32, [], {});
out_elem!(S4, "small(4/2)", u16, [], {});
out_elem!(B24, "big(24/8)", u64, [repr(C)], { pad: u64 = 0x0BAD_F00D });
out_elem!(A16, "align(16/16)", u32, [repr(align(16))], {});

impl OutElem for E {
    const NAME: &'static str = "same(16/8)";
    fn make_out(id: u64) -> E {
        E::make(id)
    }
    fn out_id(&self) -> u64 {
        self.ident()
    }
}

impl OutElem for Z {
    const NAME: &'static str = "zst-out";
    fn make_out(_id: u64) -> Z {
        Z::make(0)
    }
    fn out_id(&self) -> u64 {
        0
    }
}

macro_rules! mapvec_with_settings {
    ($fname:ident, $zname:ident, $S:ty) => {
        /// `BumpVec<E>::map(f) -> BumpVec<U>`
        fn $fname<U: OutElem>(ctx: &mut Ctx, len: usize, spare: usize, panic_at: Option<usize>) {
            let uz = std::mem::size_of::<U>() == 0;
            ctx.next_id = 1;
            zreset();
            let _ = take_log();
            let _ = take_created();
            let bump: Bump<Global, $S> = Bump::new();
            let _pad = bump.alloc(0x77u8);
            let ids: Vec<u64> = (0..len).map(|_| ctx.fresh()).collect();
            let mut v: BumpVec<E, &Bump<Global, $S>> = BumpVec::with_capacity_in(len + spare, &bump);
            for i in &ids {
                v.push(E::make(*i));
            }
            let cap0 = v.capacity();
            let ptr0 = v.as_ptr() as usize;
            let (st, su) = (std::mem::size_of::<E>(), std::mem::size_of::<U>());
            let al = std::mem::align_of::<E>() >= std::mem::align_of::<U>();
            let in_place = su != 0 && al && su <= st;
            let outs: Vec<u64> = (0..len).map(|_| ctx.fresh()).collect();
            let mut oracle: Vec<Oc> = outs.iter().map(|i| Oc::Ret(*i)).collect();
            if let Some(k) = panic_at {
                if k < len {
                    oracle[k] = Oc::Panic;
                    oracle.truncate(k + 1);
                }
            }
            let panics = oracle.contains(&Oc::Panic);
            let _ = writeln!(ctx.out, "# trace {} map_vec out={} len={} cap={} panic_at={:?}", ctx.trace_no, U::NAME, len, cap0, panic_at);
            ctx.trace_no += 1;
            if !uz {
                let _ = writeln!(ctx.out, "new m bump cap={cap0} ids={} addr={ptr0}", csv(&ids));
            }
            ctx.count(if uz { "map_vec:zst-out(fallback)" } else if in_place { if su == st { "map_vec:in-place(same size)" } else { "map_vec:in-place(smaller)" } } else if !al { "map_vec:fallback(alignment)" } else { "map_vec:fallback(bigger)" });
            *ctx.op_hist.entry("map_vec".to_string()).or_insert(0) += 1;
            ctx.oracle_checks += 1;
            print!("{}", ctx.out);
            ctx.out.clear();
            set_oracle(&oracle, &[]);
            let stash_before = stash_len();
            let r = catch_unwind(AssertUnwindSafe(move || {
                v.map(|e: E| {
                    e.stash();
                    U::make_out(cb_value())
                })
            }));
            let used_n = used();
            clear_oracle();
            let esc: Vec<u64> = stash_ids()[stash_before.min(stash_len())..].to_vec();
            let drops = take_log();
            let optext = format!("op map_vec m st={st} su={su} al={} o={} bombs=- capin=0", u8::from(al), oracle_text(&oracle));
            let what = format!("BumpVec<E>::map -> {} on len={len} cap={cap0} panic_at={panic_at:?}", U::NAME);
            match r {
                Ok(mut w) => {
                    let got: Vec<u64> = w.iter().map(|u| u.out_id()).collect();
                    if !uz {
                        let _ = writeln!(ctx.out, "{optext} => ids={} len={} cap={} drops={} esc={} exit=ret used={used_n}", csv(&got), w.len(), w.capacity(), csv(&drops), csv(&esc));
                    }
                    if panics {
                        ctx.oracle("C06", format!("{what}: the closure panicked but the call returned"));
                    }
                    if w.len() != len || (!uz && got != outs) {
                        ctx.oracle("C08", format!("{what}: result holds {} (expected {})", csv(&got), csv(&outs)));
                    }
                    if esc != ids || !drops.is_empty() {
                        ctx.oracle("C06", format!("{what}: moved into the closure {} / dropped {} (expected {} / nothing)", csv(&esc), csv(&drops), csv(&ids)));
                    }
                    let want_cap = if uz { usize::MAX } else if in_place { cap0 * st / su } else { len };
                    if w.capacity() != want_cap {
                        ctx.oracle("C08", format!("{what}: capacity {} (documented: {want_cap})", w.capacity()));
                    }
                    if in_place && len + spare > 0 && w.as_ptr() as usize != ptr0 {
                        ctx.oracle("C08", format!("{what}: the buffer was not reused"));
                    }
                    print!("{}", ctx.out);
                    ctx.out.clear();
                    if !uz {
                        // the promised capacity is real: filling it moves nothing and leaves the neighbour alone
                        let guard = bump.alloc([0xC3u8; 24]);
                        let p = w.as_ptr() as usize;
                        let mut all = got.clone();
                        while w.len() < w.capacity() {
                            let id = ctx.fresh();
                            w.push(U::make_out(id));
                            all.push(id);
                            let now: Vec<u64> = w.iter().map(|u| u.out_id()).collect();
                            let _ = writeln!(ctx.out, "op push m {id} o=- bombs=- capin={} => ids={} len={} cap={} drops=- esc=- exit=ret used=0", w.capacity(), csv(&now), w.len(), w.capacity());
                        }
                        let now: Vec<u64> = w.iter().map(|u| u.out_id()).collect();
                        if w.as_ptr() as usize != p || now != all || guard.iter().any(|b| *b != 0xC3) || corrupt() != 0 {
                            ctx.oracle("C08", format!("{what}: filling the result up to its capacity {} moved or damaged something", w.capacity()));
                        }
                        let _ = take_log();
                        drop(w);
                        let d = take_log();
                        let _ = writeln!(ctx.out, "drop m => drops={} exit=ret", csv(&d));
                        if d != all {
                            ctx.oracle("C06", format!("{what}: dropping the result ran the destructors of {} (holds {})", csv(&d), csv(&all)));
                        }
                    } else {
                        drop(w);
                    }
                }
                Err(_) => {
                    if !uz {
                        let _ = writeln!(ctx.out, "{optext} => gone drops={} esc={} exit=panic used={used_n}", csv(&drops), csv(&esc));
                    }
                    if !panics {
                        ctx.oracle("C08", format!("{what}: panicked although the closure did not"));
                    }
                    let k = panic_at.unwrap_or(0);
                    let mut want: Vec<u64> = ids[(k + 1).min(len)..].to_vec();
                    if !uz {
                        want.extend_from_slice(&outs[..k.min(len)]);
                    }
                    let mut got = drops.clone();
                    got.sort_unstable();
                    want.sort_unstable();
                    if got != want || esc != ids[..(k + 1).min(len)] {
                        ctx.oracle("C06", format!("{what}: after the panic dropped {} (expected {}), moved into the closure {}", csv(&drops), csv(&want), csv(&esc)));
                    }
                }
            }
            if uz {
                let (c, d, s) = zcounts();
                if c != d + s {
                    ctx.oracle("C06", format!("{what}: {c} zero-sized results made, {d} destructor calls"));
                }
            }
            clear_stash();
            let _ = take_log();
            let _ = take_created();
            // a damaged heap may kill the process later: keep what was observed so far
            print!("{}", ctx.out);
            ctx.out.clear();
        }

        /// `BumpVec<Z>::map(f) -> BumpVec<U>` (zero-sized input: the fallback), by counts
        fn $zname<U: OutElem>(ctx: &mut Ctx, len: usize, panic_at: Option<usize>) {
            ctx.next_id = 1;
            zreset();
            let _ = take_log();
            let _ = take_created();
            let bump: Bump<Global, $S> = Bump::new();
            let mut v: BumpVec<Z, &Bump<Global, $S>> = BumpVec::new_in(&bump);
            for _ in 0..len {
                v.push(Z::make(0));
            }
            let outs: Vec<u64> = (0..len).map(|_| ctx.fresh()).collect();
            let mut oracle: Vec<Oc> = outs.iter().map(|i| Oc::Ret(*i)).collect();
            if let Some(k) = panic_at {
                if k < len {
                    oracle[k] = Oc::Panic;
                    oracle.truncate(k + 1);
                }
            }
            let panics = oracle.contains(&Oc::Panic);
            ctx.count("map_vec:zst-in(fallback)");
            *ctx.op_hist.entry("map_vec".to_string()).or_insert(0) += 1;
            ctx.oracle_checks += 1;
            set_oracle(&oracle, &[]);
            let r = catch_unwind(AssertUnwindSafe(move || {
                v.map(|z: Z| {
                    z.stash();
                    U::make_out(cb_value())
                })
            }));
            clear_oracle();
            let what = format!("BumpVec<Z>::map -> {} on len={len} panic_at={panic_at:?}", U::NAME);
            match r {
                Ok(w) => {
                    let got: Vec<u64> = w.iter().map(|u| u.out_id()).collect();
                    if panics || w.len() != len || (std::mem::size_of::<U>() != 0 && (got != outs || w.capacity() != len)) {
                        ctx.oracle("C08", format!("{what}: result {} cap {} (expected {})", csv(&got), w.capacity(), csv(&outs)));
                    }
                    drop(w);
                }
                Err(_) => {
                    if !panics {
                        ctx.oracle("C08", format!("{what}: panicked although the closure did not"));
                    }
                }
            }
            clear_stash();
            // every zero-sized input and every result was destructed exactly once by now
            let (c, d, s) = zcounts();
            let made = if std::mem::size_of::<U>() == 0 { 0 } else { panic_at.map_or(len, |k| k.min(len)) };
            let mut drops = take_log();
            drops.sort_unstable();
            if c != d + s || s != 0 || drops != outs[..made] {
                ctx.oracle("C06", format!("{what}: {c} zero-sized values made, {d} destructor calls; results dropped {}", csv(&drops)));
            }
            let _ = take_created();
        }
    };
}
mapvec_with_settings!(mapvec_s1u, mapvec_z_s1u, S1U);
mapvec_with_settings!(mapvec_s1d, mapvec_z_s1d, S1D);
mapvec_with_settings!(mapvec_s8u, mapvec_z_s8u, S8U);
mapvec_with_settings!(mapvec_s16d, mapvec_z_s16d, S16D);

macro_rules! mapvec_all_outs {
    ($ctx:ident, $f:ident, $zf:ident) => {
        for len in 0..=5usize {
            for spare in [0usize, 1, 3] {
                let mut pks: Vec<Option<usize>> = vec![None];
                pks.extend((0..len).map(Some));
                for pk in pks {
                    $f::<E>($ctx, len, spare, pk);
                    $f::<S8>($ctx, len, spare, pk);
                    $f::<S4>($ctx, len, spare, pk);
                    $f::<B24>($ctx, len, spare, pk);
                    $f::<A16>($ctx, len, spare, pk);
                    $f::<Z>($ctx, len, spare, pk);
                    if spare == 0 {
                        $zf::<E>($ctx, len, pk);
                        $zf::<Z>($ctx, len, pk);
                    }
                }
            }
        }
    };
}

pub fn run_mapvec(ctx: &mut Ctx) {
    match seed() % 4 {
        0 => mapvec_all_outs!(ctx, mapvec_s1u, mapvec_z_s1u),
        1 => mapvec_all_outs!(ctx, mapvec_s1d, mapvec_z_s1d),
        2 => mapvec_all_outs!(ctx, mapvec_s8u, mapvec_z_s8u),
        _ => mapvec_all_outs!(ctx, mapvec_s16d, mapvec_z_s16d),
    }
    // the mirrored direction as well
    match seed() % 4 {
        0 => mapvec_all_outs!(ctx, mapvec_s1d, mapvec_z_s1d),
        1 => mapvec_all_outs!(ctx, mapvec_s1u, mapvec_z_s1u),
        2 => mapvec_all_outs!(ctx, mapvec_s16d, mapvec_z_s16d),
        _ => mapvec_all_outs!(ctx, mapvec_s8u, mapvec_z_s8u),
    }
    print!("{}", ctx.out);
    ctx.out.clear();
}
