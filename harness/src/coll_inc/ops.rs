// Operations of the `coll` engine, their text form (line protocol), the `std::vec::Vec` reference
// semantics, and the type-erased adapter (`VecDyn`) over the real vector types.

#[derive(Clone, Debug, PartialEq)]
pub enum Op {
    Retain,
    DedupBy,
    Truncate(usize),
    Clear,
    Pop,
    Remove(usize),
    SwapRemove(usize),
    Push(u64),
    Insert(usize, u64),
    ExtendClone(usize),
    Resize(usize, u64),
}

impl Op {
    pub fn name(&self) -> &'static str {
        match self {
            Op::Retain => "retain",
            Op::DedupBy => "dedup_by",
            Op::Truncate(_) => "truncate",
            Op::Clear => "clear",
            Op::Pop => "pop",
            Op::Remove(_) => "remove",
            Op::SwapRemove(_) => "swap_remove",
            Op::Push(_) => "push",
            Op::Insert(..) => "insert",
            Op::ExtendClone(_) => "extend_clone",
            Op::Resize(..) => "resize",
        }
    }
    /// positional arguments of the line protocol
    pub fn args(&self) -> String {
        match self {
            Op::Retain | Op::DedupBy | Op::Clear | Op::Pop => String::new(),
            Op::Truncate(n) | Op::Remove(n) | Op::SwapRemove(n) | Op::ExtendClone(n) => format!(" {n}"),
            Op::Push(id) => format!(" {id}"),
            Op::Insert(i, id) => format!(" {i} {id}"),
            Op::Resize(n, id) => format!(" {n} {id}"),
        }
    }
    /// does the operation need spare capacity / is it unavailable on `BumpBox<[T]>`?
    pub fn grows(&self) -> bool {
        matches!(self, Op::Push(_) | Op::Insert(..) | Op::ExtendClone(_) | Op::Resize(..))
    }
    /// number of additional elements the operation needs room for (given the current length)
    pub fn additional(&self, len: usize) -> usize {
        match self {
            Op::Push(_) => 1,
            Op::Insert(i, _) => usize::from(*i <= len),
            Op::ExtendClone(n) => *n,
            Op::Resize(n, _) => n.saturating_sub(len),
            _ => 0,
        }
    }
}

/// `std::vec::Vec<u64>` executing the same operation with the same (panic-free) callback outcomes.
/// `Err(())`: std panics (out-of-range argument).  Returns the text of the returned value.
pub fn std_apply(v: &mut Vec<u64>, op: &Op, o: &[Oc]) -> Result<String, ()> {
    let mut q: VecDeque<u64> = o
        .iter()
        .map(|x| match x {
            Oc::Ret(v) => *v,
            Oc::Panic => unreachable!("std reference is only run on panic-free oracles"),
        })
        .collect();
    let mut next = move || q.pop_front().expect("oracle too short for the std reference");
    let r = match op {
        Op::Retain => {
            v.retain_mut(|_| next() != 0);
            String::new()
        }
        Op::DedupBy => {
            v.dedup_by(|_, _| next() != 0);
            String::new()
        }
        Op::Truncate(n) => {
            v.truncate(*n);
            String::new()
        }
        Op::Clear => {
            v.clear();
            String::new()
        }
        Op::Pop => match v.pop() {
            None => "none".into(),
            Some(x) => format!("some:{x}"),
        },
        Op::Remove(i) => {
            if *i >= v.len() {
                return Err(());
            }
            v.remove(*i).to_string()
        }
        Op::SwapRemove(i) => {
            if *i >= v.len() {
                return Err(());
            }
            v.swap_remove(*i).to_string()
        }
        Op::Push(id) => {
            v.push(*id);
            String::new()
        }
        Op::Insert(i, id) => {
            if *i > v.len() {
                return Err(());
            }
            v.insert(*i, *id);
            String::new()
        }
        Op::ExtendClone(n) => {
            for _ in 0..*n {
                v.push(next());
            }
            String::new()
        }
        Op::Resize(n, id) => {
            if *n <= v.len() {
                v.truncate(*n);
            } else {
                // std clones n-len-1 times and moves the value in last
                for _ in 0..(*n - v.len() - 1) {
                    v.push(next());
                }
                v.push(*id);
            }
            String::new()
        }
    };
    Ok(r)
}

/// type-erased view of one real vector
pub trait VecDyn {
    fn ids(&self) -> Vec<u64>;
    fn len(&self) -> usize;
    fn cap(&self) -> usize;
    fn addr(&self) -> usize;
    /// runs the operation on the real type; values that are returned are stashed; the text of the
    /// returned value is the result
    fn apply(&mut self, op: &Op) -> String;
}

fn opt_text<T: Elem>(x: Option<T>) -> String {
    match x {
        None => "none".into(),
        Some(e) => {
            let s = format!("some:{}", e.ident());
            e.stash();
            s
        }
    }
}
fn val_text<T: Elem>(e: T) -> String {
    let s = e.ident().to_string();
    e.stash();
    s
}

macro_rules! impl_vecdyn {
    (@grow $s:ident, $op:ident, $T:ident, yes) => {
        match $op {
            Op::Push(id) => {
                $s.push($T::make(*id));
                String::new()
            }
            Op::Insert(i, id) => {
                $s.insert(*i, $T::make(*id));
                String::new()
            }
            Op::ExtendClone(n) => {
                // the source slice lives outside the arena; its elements are not part of the accounting
                let src: Vec<SrcElem<$T>> = (0..*n).map(|_| SrcElem::new()).collect();
                let src_ref: &[$T] = SrcElem::as_slice(&src);
                $s.extend_from_slice_clone(src_ref);
                String::new()
            }
            Op::Resize(n, id) => {
                $s.resize(*n, $T::make(*id));
                String::new()
            }
            _ => unreachable!("operation not wired"),
        }
    };
    (@grow $s:ident, $op:ident, $T:ident, no) => {
        unreachable!("operation {:?} is not available on this type", $op)
    };
    ([$($gen:tt)*] $ty:ty, $T:ident, cap = |$c:ident| $cap:expr, grow = $g:ident) => {
        impl<$($gen)*> VecDyn for $ty {
            fn ids(&self) -> Vec<u64> {
                self.as_slice().iter().map(|e| e.ident()).collect()
            }
            fn len(&self) -> usize {
                <$ty>::len(self)
            }
            fn cap(&self) -> usize {
                let $c = self;
                $cap
            }
            fn addr(&self) -> usize {
                self.as_ptr() as usize
            }
            fn apply(&mut self, op: &Op) -> String {
                let s = self;
                match op {
                    Op::Retain => {
                        s.retain($T::pred);
                        String::new()
                    }
                    Op::DedupBy => {
                        s.dedup_by($T::same);
                        String::new()
                    }
                    Op::Truncate(n) => {
                        s.truncate(*n);
                        String::new()
                    }
                    Op::Clear => {
                        s.clear();
                        String::new()
                    }
                    Op::Pop => opt_text(s.pop()),
                    Op::Remove(i) => val_text(s.remove(*i)),
                    Op::SwapRemove(i) => val_text(s.swap_remove(*i)),
                    other => impl_vecdyn!(@grow s, other, $T, $g),
                }
            }
        }
    };
}

/// an element of a borrowed source slice (`extend_from_slice_clone`): same layout as `T`, but it is
/// neither created through `Elem::make` nor dropped, so it stays out of the drop accounting
#[repr(transparent)]
pub struct SrcElem<T>(std::mem::ManuallyDrop<T>);
impl<T: Elem> SrcElem<T> {
    fn new() -> Self {
        SrcElem(std::mem::ManuallyDrop::new(T::raw(u64::MAX - 1)))
    }
    fn as_slice(v: &[SrcElem<T>]) -> &[T] {
        // SAFETY: repr(transparent) over ManuallyDrop<T>, itself repr(transparent) over T
        unsafe { std::slice::from_raw_parts(v.as_ptr().cast::<T>(), v.len()) }
    }
}

impl_vecdyn!(['a, T: Elem] BumpBox<'a, [T]>, T, cap = |v| v.len(), grow = no);
impl_vecdyn!(['a, T: Elem] FixedBumpVec<'a, T>, T, cap = |v| v.capacity(), grow = yes);

macro_rules! impl_for_settings {
    ($S:ty) => {
        impl_vecdyn!(['a, T: Elem] BumpVec<T, &'a Bump<Global, $S>>, T, cap = |v| v.capacity(), grow = yes);
        impl_vecdyn!(['a, T: Elem] MutBumpVec<T, &'a mut Bump<Global, $S>>, T, cap = |v| v.capacity(), grow = yes);
    };
}
impl_for_settings!(S1U);
impl_for_settings!(S1D);
impl_for_settings!(S8U);
impl_for_settings!(S16D);
